"""C10 — what the library builds and signs, its own engine accepts; tampering is rejected (DESIGN §3 C10).

The end-to-end flow on the real code is the tie: descriptors (random key trees) -> Psbt (from_tx / tx_builder,
v0 / v2) -> Updater -> SoftwareSigner.sign_psbt -> finalize (+ miniscript_solver, + a tapscript solver built on
miniscript.from_script / satisfy) -> extract_tx -> verify_transaction under the flag sets.

model side (compiled `drv_c10`, Model/C10/{Spend,Engine}.lean):
  c10.fin / c10.fintap   the finalizer's scriptSig / witness, byte for byte (so element count and lengths too)
  c10.sigmsg             the digest the signer signs = the C09 specification digest the model picks
  c10.verdict            Core's VerifyScript (C08 model) with the checker COMPOSED from C09 digest + C02 DER/ECDSA
                         + C03 BIP340 + C12 commitment, on the finished input: the executable instance of T1
  tamper                 committed (model digest changes) => engine rejects; uncommitted => engine still accepts
oracles on the real code alone: closure, tamper (with the model's digests), bms, bip322.
"""
from __future__ import annotations

import copy
import os
import random
import re
import subprocess
import time
from base64 import b64encode

from btclib import bip322
from btclib.b32 import p2wpkh as b32_p2wpkh
from btclib.b58 import p2pkh as b58_p2pkh
from btclib.b58 import p2wpkh_p2sh as b58_p2wpkh_p2sh
from btclib.bip32.bip32 import rootxprv_from_seed
from btclib.descriptors import add_checksum, parse
from btclib.descriptors import miniscript as MS
from btclib.descriptors.descriptors import miniscript_solver
from btclib.ecc import bms, dsa, ssa
from btclib.fee import FeeRate
from btclib.psbt import psbt as psbt_mod
from btclib.psbt.psbt import Psbt, extract_tx, finalize
from btclib.psbt.psbt_in import PsbtIn
from btclib.psbt_signer import SoftwareSigner, request_signatures
from btclib.script import sig_hash, taproot
from btclib.script.engine import ScriptFlag, verify_input, verify_transaction
from btclib.script.script_pub_key import ScriptPubKey, is_p2sh, is_p2tr
from btclib.script.witness import Witness
from btclib.to_pub_key import pub_keyinfo_from_prv_key
from btclib.tx import OutPoint, Tx, TxIn, TxOut
from btclib.tx_builder import build_psbt

from . import common, shared
from .c09 import tok_outs, tok_tx
from .common import hx, unhx

PROP = "C10"
EXE = "drv_c10"
GEN_MODULES = ["Spend"]
RULE = ("flows come from one seeded PRNG: three random BIP32 masters per flow, 1..5 inputs of mixed descriptor shapes "
        "(pk, pkh, wpkh, sh(wpkh), bare/sh/wsh/sh(wsh) multi and sortedmulti with 1<=k<=n, wsh(pk), sh(pk), tr key path "
        "with and without a tree, tr script path with pk / multi_a / sortedmulti_a / miniscript leaves, wsh(miniscript)), "
        "random derivation indexes, hash types cycling over the six ECDSA types and the seven taproot ones, PSBT v0 and v2, "
        "Psbt.from_tx and tx_builder.build_psbt, sign_psbt and request_signatures; then every single-field tampering of "
        "the finished transaction, judged per input. A case is non-trivial when the flow produced a finished transaction; "
        "distinct = distinct (stream, op line)")
TRUSTED = [
    "SHA-256 / RIPEMD-160 / SHA-1 instances of the hash parameters, EC.ops secp256k1 instance of GroupOps: executable Lean "
    "models validated against hashlib (each run) and tied to btclib by C01/C02/C03's correspondence",
    "Model/C08 (Core's EvalScript / VerifyScript), Model/C09 (sighash), Model/C02 (DER, ECDSA), Model/C03 (BIP340), "
    "Model/C12 (taproot commitment) are other properties' models; C10 composes them (Model/C10/Engine.lean) and ties the "
    "composition to btclib's engine verdict on every finished input and on tampered ones",
    "descriptor -> PSBT updater and the miniscript satisfier are tied by the flow only (C14 / C15 own them)",
]
ASSUMPTIONS = [
    "unforgeability of ECDSA / BIP340 and collision resistance of SHA-256: `tampering is rejected` is proved as "
    "`the message handed to signature verification changes` (T2); that a changed message makes verification fail is assumed",
    "the `closure_*_signed` theorems are stated over an abstract `Lawful` group (hypothesis `L`); the `*_secp256k1` "
    "theorems are the same statements on the executed instance `secpCrypto` (Btc.EC.ops secp256k1) with NO group "
    "hypothesis (C02-T1 / C03-T1 on that arithmetic come from the C01 capstone). Hypotheses every closure keeps: the key "
    "octets read back as q*G, hash160 / sha256 commitments, Core's checkSignatureEncoding of the DER bytes, FindAndDelete "
    "side conditions of the legacy templates (`hsc` for bare / p2sh multisig), the C12 commitment check on the script path",
    "the twenty `*_secp256k1_built` theorems (BIP322 p2wpkh / p2sh_p2wpkh / p2pkh; wsh and_v(pk,pk) / or_d(pk,pkh) / and_v(pk,older); p2pk, p2pkh, p2wpkh, p2sh_p2wpkh; multisig bare / p2sh / p2wsh / "
    "p2sh_p2wsh over `BuiltBySecp`; wsh_pk, sh_wsh_pk, sh_pk, wsh_pkh, sh_wsh_pkh, sh_pkh) drop the two encoding hypotheses: "
    "the key is `secpCompressedKey (q*G)` (= C01's bytes_from_point model on that point) and is PROVED to read back as q*G "
    "(built_key_parses), DER(sign(low_s)) || ht is PROVED to pass checkSignatureEncoding under every flag set "
    "(built_sig_passes_encoding); they assume instead 0 < q < n and ht & 0x7f in {1,2,3} (facts about the request); "
    "multisig keeps `hkeys` (all n keys compressed) and `hsc`; p2pkh / sh(pkh) keep `hne`. The older "
    "`_secp256k1` forms (kept) still carry `hp` / `henc`; no `_secp256k1` closure is left without a `_built` form",
]

NUMS = "50929b74c1a04954b78b4b6035e97a5e078a5a0f28ec96d547bfee9ace803ac0"
ECDSA_HTS = [1, 2, 3, 0x81, 0x82, 0x83]
TAP_HTS = [0, 1, 2, 3, 0x81, 0x82, 0x83]
EVERY = ScriptFlag(0)
for _f in ScriptFlag:
    EVERY |= _f
STANDARD = EVERY & ~ScriptFlag.SIGPUSHONLY
NO_DERSIG = ScriptFlag.P2SH | ScriptFlag.WITNESS | ScriptFlag.TAPROOT | ScriptFlag.NULLDUMMY
FLAG_SETS = [("consensus", None, 134677), ("every", EVERY, EVERY.value), ("standard", STANDARD, STANDARD.value)]

# shape -> (weight, kind).  kind: how the finalizer is expected to close it
SHAPES = [
    "pk(A)", "pkh(A)", "wpkh(A)", "sh(wpkh(A))",
    "multi(K,N)", "sh(multi(K,N))", "wsh(multi(K,N))", "sh(wsh(multi(K,N)))",
    "sortedmulti(K,N)", "sh(sortedmulti(K,N))", "wsh(sortedmulti(K,N))", "sh(wsh(sortedmulti(K,N)))",
    "wsh(pk(A))", "sh(pk(A))", "sh(wsh(pk(A)))", "sh(pkh(A))", "wsh(pkh(A))", "sh(wsh(pkh(A)))",
    "tr(A)", "tr(A,pk(B))", "tr(NUMS,pk(A))", "tr(A,{pk(B),pk(C)})", "tr(NUMS,{pk(A),{pk(B),pk(C)}})",
    "tr(NUMS,multi_a(K,N))", "tr(A,sortedmulti_a(K,N))", "tr(NUMS,{multi_a(K,N),pk(A)})",
    # wide low-threshold leaves: many EMPTY signatures, which BIP342's sigops budget must not charge
    "tr(NUMS,multi_a(W1_12))", "tr(NUMS,multi_a(W2_16))", "tr(A,sortedmulti_a(W1_20))",
    "tr(NUMS,and_v(v:pk(A),pk(B)))", "tr(NUMS,and_v(v:pk(A),older(5)))",
    "wsh(and_v(v:pk(A),pk(B)))", "wsh(or_d(pk(A),and_v(v:pk(B),older(5))))", "wsh(thresh(2,pk(A),s:pk(B),s:pk(C)))",
    "wsh(and_v(v:pk(A),after(500)))", "sh(wsh(or_b(pk(A),s:pk(B))))", "wsh(andor(pk(A),pk(B),and_v(v:pk(C),older(5))))",
]
# repaired in /repo f2a4dfc2 (kept as a keyed regression, with and without the solver): the generic finalizer closed
# these with a spend its own engine refuses
DEFECT_SHAPES = {"sh(pkh(A))": "finalize.sh_pkh.pubkey_push_missing",
                 "wsh(pkh(A))": "finalize.sh_pkh.pubkey_push_missing",
                 "sh(wsh(pkh(A)))": "finalize.sh_pkh.pubkey_push_missing"}


# ------------------------------------------------------------------ tokens
def tx_dict(tx: Tx) -> dict:
    return {"version": tx.version, "lock_time": tx.lock_time,
            "vin": [(i.prev_out.tx_id[::-1], i.prev_out.vout, bytes(i.script_sig), i.sequence,
                     [bytes(w) for w in i.script_witness.stack]) for i in tx.vin],
            "vout": [(o.value, bytes(o.script_pub_key.script)) for o in tx.vout]}


def outs_tok(pouts) -> str:
    return tok_outs([(o.value, bytes(o.script_pub_key.script)) for o in pouts])


def wit_tok(stack) -> str:
    return "/".join(hx(bytes(w)) for w in stack) if stack else "."


def model_lines(lines):
    """the compiled driver, without a Ctx (used by the oracles so that they can be replayed)"""
    path = os.path.join(common.BIN, EXE)
    if not lines or not os.path.exists(path):
        return None
    p = subprocess.run([path], input=("\n".join(lines) + "\n").encode(), stdout=subprocess.PIPE, timeout=3600)
    out = p.stdout.decode().split("\n")
    if out and out[-1] == "":
        out.pop()
    return out if len(out) == len(lines) else None


# ------------------------------------------------------------------ flows on the real code
class Party:
    def __init__(self, rng):
        self.xprv = rootxprv_from_seed(bytes(rng.getrandbits(8) for _ in range(rng.choice([16, 32, 64]))))
        self.signer = SoftwareSigner(self.xprv)
        self.fp = self.signer.master_fingerprint.hex()
        self.n = 0

    def key(self, rng) -> str:
        # a fresh account on every call: miniscript refuses a repeated key
        purpose = rng.choice([44, 49, 84, 86, 48, 0])
        self.n += 1
        path = f"{purpose}h/{rng.randrange(2)}h/{self.n}h" if purpose else f"{self.n}"
        return f"[{self.fp}/{path}]{self.signer.xpub('m/' + path)}/{rng.randrange(2)}/*"


def instantiate(rng, shape: str, parties):
    s = shape.replace("NUMS", NUMS)
    if "K,N" in s:
        bare = s.startswith("multi") or s.startswith("sortedmulti")
        n = rng.randint(1, 3 if bare else (6 if "_a(" in s else 5))
        k = rng.randint(1, n)
        s = s.replace("K,N", ",".join([str(k)] + [rng.choice(parties).key(rng) for _ in range(n)]))
    mw = re.search(r"W(\d+)_(\d+)", s)
    if mw:
        k, n = int(mw.group(1)), int(mw.group(2))
        s = s.replace(mw.group(0), ",".join([str(k)] + [rng.choice(parties).key(rng) for _ in range(n)]))
    for letter in "ABC":
        for close in (")", ","):
            if letter + close in s:
                s = s.replace(letter + close, rng.choice(parties).key(rng) + close)
    return parse(add_checksum(s))


def tap_solver(psbt: Psbt, i: int):
    """script-path spends the generic finalizer refuses (multi_a, miniscript leaves): btclib's own miniscript
    reader and satisfier over the psbt's taproot fields; the cheapest satisfiable leaf"""
    pin = psbt.inputs[i]
    if not pin.taproot_leaf_scripts or pin.taproot_key_spend_signature:
        return None
    by_leaf: dict[bytes, dict[bytes, bytes]] = {}
    for kd, sig in pin.taproot_script_spend_signatures.items():
        by_leaf.setdefault(kd[32:], {})[kd[:32]] = sig
    tx = psbt.tx
    best = None
    for cb, (script, ver) in pin.taproot_leaf_scripts.items():
        lh = taproot.leaf_hash(ver, script)
        try:
            node = MS.from_script(script, MS.TAPSCRIPT)
            st = node.satisfy(by_leaf.get(lh, {}), MS.SpendContext(
                locktime=tx.lock_time, sequence=tx.vin[i].sequence, version=tx.version))
        except Exception:  # noqa: BLE001 - a leaf that cannot be satisfied is not this spend
            continue
        w = [*st, script, cb]
        if best is None or sum(map(len, w)) < sum(map(len, best)):
            best = w
    return (b"", Witness(best)) if best else None


def solver(psbt: Psbt, i: int):
    r = miniscript_solver(psbt, i)
    if r is not None:
        return r
    pin = psbt.inputs[i]
    # pk leaves go through the generic taproot finalizer when exactly one script signature is there
    if len(pin.taproot_script_spend_signatures) == 1 and not pin.taproot_key_spend_signature:
        (kd, _), = pin.taproot_script_spend_signatures.items()
        try:
            script, _cb = psbt_mod.leaf_script(pin, kd[32:])
            psbt_mod.single_leaf_key(script)
            return None
        except Exception:  # noqa: BLE001
            pass
    return tap_solver(psbt, i)


class Flow:
    """one end-to-end run; `spec` is everything that determines it"""

    def __init__(self, spec: dict):
        self.spec = spec
        rng = random.Random(spec["seed"])
        self.parties = [Party(rng) for _ in range(3)]
        self.descs = [(instantiate(rng, sh, self.parties), rng.randrange(30)) for sh in spec["shapes"]]
        prevs, vin, pouts = [], [], []
        needs_csv = any("older(" in sh for sh in spec["shapes"])
        needs_cltv = any("after(" in sh for sh in spec["shapes"])
        for (d, idx), sh in zip(self.descs, spec["shapes"]):
            vpos = rng.randrange(3)
            outs = [TxOut(1000 + j, d.script_pub_key(idx + 1 + j)) for j in range(vpos)]
            outs.append(TxOut(rng.randrange(50_000, 2_000_000), d.script_pub_key(idx)))
            prev = Tx(2, 0, [TxIn(OutPoint(bytes(rng.getrandbits(8) for _ in range(32)), rng.randrange(4)))], outs)
            prevs.append(prev)
            pouts.append(outs[-1])
            seq = rng.choice([0xFFFFFFFF, 0xFFFFFFFE, 0xFFFFFFFD, 0, 7, 0x400005])
            if "older(" in sh:
                seq = rng.choice([5, 6, 100])
            elif needs_cltv and seq == 0xFFFFFFFF:
                seq = 0xFFFFFFFE
            if spec.get("seqs"):
                seq = spec["seqs"][len(vin)]
            vin.append(TxIn(OutPoint(prev.id, vpos), b"", seq))
        if needs_cltv and not spec.get("seqs") and all(i.sequence == 0xFFFFFFFF for i in vin):
            vin[0].sequence = 0xFFFFFFFE
        total = sum(o.value for o in pouts)
        nout = rng.randint(len(vin), len(vin) + 2) if spec.get("outs_ge_ins", True) else rng.randint(1, 3)
        pay = self.descs[rng.randrange(len(self.descs))][0]
        vout = [TxOut(total // (nout + 2) + j, pay.script_pub_key(40 + j)) for j in range(nout)]
        lock = rng.choice([500, 600, 700_000]) if needs_cltv else rng.choice([0, 0, 499, 700_000])
        version = 2 if needs_csv else rng.choice([1, 2, 2, 3])
        lock = spec.get("lock", lock)
        version = spec.get("version", version)
        self.pouts = pouts
        tx = Tx(version, lock, vin, vout)
        psbt = Psbt.from_tx(tx)
        for i, prev in enumerate(prevs):
            psbt.inputs[i] = self._psbt_in(psbt.inputs[i], prev, i)
        for i, (d, idx) in enumerate(self.descs):
            ht = spec["hts"][i]
            if ht is not None:
                psbt.inputs[i].sig_hash_type = ht
            psbt = d.update_psbt_input(psbt, i, idx)
        self.built = False
        if spec.get("builder"):
            # tx_builder: the same (updated) inputs, the payments, change to the last script; a shape the size estimate
            # cannot price without a caller-supplied sizer stays on the from_tx psbt
            try:
                fp = build_psbt(psbt.inputs, vout[:-1], FeeRate.from_sats_per_vbyte(rng.choice([1, 2, 10])),
                                vout[-1].script_pub_key.script, tx_version=version, lock_time=lock)
                psbt = fp.psbt
                self.built = True
            except Exception:  # noqa: BLE001
                pass
        if spec.get("v2"):
            psbt = psbt.to_v2()
            # BIP370's lock-time sources: the fallback, and what single inputs require (a height, a time, or both)
            if "fallback" in spec:
                psbt.fallback_lock_time = spec["fallback"]
            for i, lk in enumerate(spec.get("locks", [])):
                if lk:
                    if "h" in lk:
                        psbt.inputs[i].required_height_lock_time = lk["h"]
                    if "t" in lk:
                        psbt.inputs[i].required_time_lock_time = lk["t"]
            psbt.assert_valid()
        self.unsigned = psbt
        signed = psbt
        order = list(self.parties)
        rng.shuffle(order)
        for p in order:
            signed = request_signatures(p.signer, signed) if spec.get("request") else p.signer.sign_psbt(signed)
        self.signed = signed
        if spec.get("stop") == "signed":
            return
        self.final = finalize(signed, solver=solver if spec.get("solver", True) else None)
        self.tx = extract_tx(self.final)

    def _psbt_in(self, pin: PsbtIn, prev: Tx, i: int) -> PsbtIn:
        pin = copy.deepcopy(pin)
        pin.non_witness_utxo = prev
        spk = self.pouts[i].script_pub_key.script
        if is_p2tr(spk):
            pin.witness_utxo = self.pouts[i]
        elif spk[:1] == b"\x00" or is_p2sh(spk):
            d, idx = self.descs[i]
            inner = spk
            if is_p2sh(spk):
                try:
                    inner = d.redeem_script(idx)
                except Exception:  # noqa: BLE001
                    inner = b""
            if inner[:1] == b"\x00" and (self.spec["seed"] + i) % 3:
                pin.witness_utxo = self.pouts[i]
                if (self.spec["seed"] + i) % 3 == 2:
                    pin.non_witness_utxo = None
        return pin


def engine_verdict(pouts, tx: Tx, i: int, flags=None) -> str:
    try:
        verify_input(pouts, tx, i, flags)
    except Exception as e:  # noqa: BLE001 - the verdict is the observation
        c = common.err_class(e)
        return "rej" if not c.startswith("foreign") else "rej " + c
    return "ok"


# ------------------------------------------------------------------ tampering
def tamperings(tx: Tx, pouts):
    """every single-field edit of the finished transaction / of what it spends: (name, tx', pouts', own_script_of)"""
    out = []

    def edit(name, f, own=None):
        t, p = copy.deepcopy(tx), copy.deepcopy(pouts)
        f(t, p)
        out.append((name, t, p, own))
    def mk_out(v, script):
        return TxOut(v, ScriptPubKey(script, check_validity=False), check_validity=False)

    def set_out(lst, j, v=None, script=None):
        o = lst[j]
        lst[j] = mk_out(o.value if v is None else v, bytes(o.script_pub_key.script) if script is None else script)
    for j in range(len(tx.vout)):
        edit(f"out{j}.amount", lambda t, p, j=j: set_out(t.vout, j, v=t.vout[j].value - 1))
        edit(f"out{j}.script", lambda t, p, j=j: set_out(t.vout, j, script=bytes(t.vout[j].script_pub_key.script) + b"\x51"))
    for j in range(len(tx.vin)):
        edit(f"in{j}.sequence", lambda t, p, j=j: setattr(t.vin[j], "sequence", t.vin[j].sequence ^ 1))
        edit(f"in{j}.prev_vout", lambda t, p, j=j: setattr(t.vin[j], "prev_out",
             OutPoint(t.vin[j].prev_out.tx_id, t.vin[j].prev_out.vout + 1)))
        edit(f"in{j}.prev_txid", lambda t, p, j=j: setattr(t.vin[j], "prev_out",
             OutPoint(bytes([t.vin[j].prev_out.tx_id[0] ^ 1]) + t.vin[j].prev_out.tx_id[1:], t.vin[j].prev_out.vout)))
        edit(f"prevout{j}.amount", lambda t, p, j=j: set_out(p, j, v=p[j].value + 1))
        edit(f"prevout{j}.script", lambda t, p, j=j: set_out(p, j, script=_other_script(bytes(p[j].script_pub_key.script))), own=j)
    edit("version", lambda t, p: setattr(t, "version", t.version + 1))
    edit("lock_time", lambda t, p: setattr(t, "lock_time", t.lock_time + 1))
    if len(tx.vout) >= 2:
        edit("swap_outputs", lambda t, p: t.vout.__setitem__(slice(0, 2), [t.vout[1], t.vout[0]]))
    if len(tx.vout) >= 2:
        edit("drop_last_output", lambda t, p: t.vout.pop())
        edit("drop_first_output", lambda t, p: t.vout.pop(0))
    edit("add_output", lambda t, p: t.vout.append(mk_out(1, b"\x51")))
    return out


def _other_script(s: bytes) -> bytes:
    """a different script of the same template (last payload byte flipped)"""
    if s[-1:] in (b"\xac", b"\x87", b"\xae") and len(s) > 3:
        k = -3 if s[-2:] == b"\x88\xac" else -2
        if s[-1:] == b"\xae":
            k = -3
        return s[:k] + bytes([s[k] ^ 1]) + s[k + 1:]
    return s[:-1] + bytes([s[-1] ^ 1])


def input_kind(flow: Flow, i: int):
    """(spk, redeem, wscript, leafhash, ht) the signer of input i used; leafhash from the finished witness"""
    pin = flow.signed.inputs[i]
    spk = bytes(flow.pouts[i].script_pub_key.script)
    wit = [bytes(w) for w in flow.tx.vin[i].script_witness.stack]
    lh = b""
    if is_p2tr(spk):
        ht = pin.sig_hash_type or 0
        if len(wit) >= 2:
            st = wit[:-1] if (len(wit) >= 2 and wit[-1][:1] == b"\x50") else wit
            if len(st) >= 2:
                lh = taproot.leaf_hash(st[-1][0] & 0xFE, st[-2])
    else:
        ht = 1 if pin.sig_hash_type is None else pin.sig_hash_type
    return spk, bytes(pin.redeem_script), bytes(pin.witness_script), lh, ht


def sigmsg_line(kind, i, txd, pouts) -> str:
    spk, redeem, ws, lh, ht = kind
    return f"sigmsg {hx(spk)} {hx(redeem)} {hx(ws)} {hx(lh)} {ht} {i} {tok_tx(txd)} {outs_tok(pouts)}"


def signer_digest(flow: Flow, i: int) -> str:
    spk, _r, _w, lh, ht = input_kind(flow, i)
    try:
        if is_p2tr(spk):
            return "ok " + hx(psbt_mod.taproot_sig_hash(flow.signed, i, leaf_hash=lh, hash_type=ht))
        return "ok " + hx(psbt_mod.ecdsa_sig_hash(flow.signed, i, hash_type=ht))
    except Exception as e:  # noqa: BLE001
        return "err " + common.err_class(e)


# ------------------------------------------------------------------ correspondence: impl(line) for the replayable ops
def _fin_impl(t) -> str:
    spk = None if t[1] == "." else unhx(t[1])
    sigs = {} if t[4] == "." else {unhx(a): unhx(b) for a, b in (x.split(":") for x in t[4].split(","))}
    kw = {}
    if spk is not None:
        kw["witness_utxo"] = TxOut(1000, ScriptPubKey(spk, check_validity=False), check_validity=False)
    pin = PsbtIn(redeem_script=unhx(t[2]), witness_script=unhx(t[3]), partial_sigs=sigs, check_validity=False, **kw)
    try:
        ss, w = psbt_mod._finalized_input(pin)
    except Exception as e:  # noqa: BLE001
        c = common.err_class(e)
        return "err " + (c if not c.startswith("foreign") else "foreign")
    return f"ok {hx(bytes(ss))} {wit_tok(w.stack)}"


def impl(line: str) -> str:
    t = line.split(" ")
    if t[0] == "fin" and len(t) == 5:
        return _fin_impl(t)
    if t[0].startswith("hash."):
        return shared.hash_impl(line) if hasattr(shared, "hash_impl") else "bad-op"
    return "not-replayable"


def fin_line(pin: PsbtIn, spk) -> str:
    sigs = ",".join(f"{hx(bytes(k))}:{hx(bytes(v))}" for k, v in pin.partial_sigs.items()) or "."
    return f"fin {'.' if spk is None else hx(spk)} {hx(bytes(pin.redeem_script))} {hx(bytes(pin.witness_script))} {sigs}"


def fintap_case(flow: Flow, i: int, mutate=None):
    """(line, impl answer) for `_finalized_taproot_input` on the signed psbt (optionally perturbed)"""
    psbt = copy.deepcopy(flow.signed)
    pin = psbt.inputs[i]
    if mutate == "ht":  # the signature says another hash type than the input asks for
        if pin.taproot_key_spend_signature:
            s = pin.taproot_key_spend_signature
            pin.taproot_key_spend_signature = s[:64] + (b"\x01" if len(s) == 64 else (b"" if s[64] == 1 else b"\x01"))
        else:
            for k, s in list(pin.taproot_script_spend_signatures.items()):
                pin.taproot_script_spend_signatures[k] = s[:64] + (b"\x01" if len(s) == 64 else (b"" if s[64] == 1 else b"\x01"))
    elif mutate == "sig":  # a bad signature is refused by the finalizer itself
        if pin.taproot_key_spend_signature:
            s = pin.taproot_key_spend_signature
            pin.taproot_key_spend_signature = s[:40] + bytes([s[40] ^ 1]) + s[41:]
        else:
            for k, s in list(pin.taproot_script_spend_signatures.items()):
                pin.taproot_script_spend_signatures[k] = s[:40] + bytes([s[40] ^ 1]) + s[41:]
    elif mutate == "dropkey":
        pin.taproot_key_spend_signature = b""
    elif mutate == "wrongkey":  # a well-formed signature by ANOTHER key: only verification can tell
        other = rng_key = 0x1234567 + i
        if pin.taproot_key_spend_signature:
            s0 = pin.taproot_key_spend_signature
            ht0 = s0[64] if len(s0) == 65 else 0
            try:
                m0 = psbt_mod.taproot_sig_hash(psbt, i, hash_type=ht0)
                pin.taproot_key_spend_signature = ssa.sign_(m0, other).serialize() + s0[64:]
            except Exception:  # noqa: BLE001
                pass
        else:
            for k, s0 in list(pin.taproot_script_spend_signatures.items()):
                ht0 = s0[64] if len(s0) == 65 else 0
                try:
                    m0 = psbt_mod.taproot_sig_hash(psbt, i, leaf_hash=k[32:], hash_type=ht0)
                    pin.taproot_script_spend_signatures[k] = ssa.sign_(m0, other).serialize() + s0[64:]
                except Exception:  # noqa: BLE001
                    pass
    # what the model is told about the two `ssa.verify_` calls is a REAL verification of the signature it is given,
    # under the key / leaf the finalizer would use, over the message `taproot_sig_hash` gives (= the model's: c10.sigmsg)
    vk = vl = "0"
    try:
        if pin.taproot_key_spend_signature:
            s0 = pin.taproot_key_spend_signature
            m0 = psbt_mod.taproot_sig_hash(psbt, i, hash_type=(s0[64] if len(s0) == 65 else 0))
            okey = bytes(flow.pouts[i].script_pub_key.script)[2:]
            vk = "1" if ssa.verify_(m0, okey, s0[:64]) else "0"
        for k, s0 in pin.taproot_script_spend_signatures.items():
            m0 = psbt_mod.taproot_sig_hash(psbt, i, leaf_hash=k[32:], hash_type=(s0[64] if len(s0) == 65 else 0))
            vl = "1" if ssa.verify_(m0, k[:32], s0[:64]) else "0"
    except Exception:  # noqa: BLE001 - a hash type the message refuses: the finalizer refuses before verifying
        pass
    sht = "." if pin.sig_hash_type is None else str(pin.sig_hash_type)
    ss = ",".join(f"{hx(bytes(k))}:{hx(bytes(v))}" for k, v in pin.taproot_script_spend_signatures.items()) or "."
    ls = ",".join(f"{hx(bytes(cb))}:{hx(bytes(s))}:{v}" for cb, (s, v) in pin.taproot_leaf_scripts.items()) or "."
    line = f"fintap {sht} {hx(bytes(pin.taproot_key_spend_signature))} {ss} {ls} {vk} {vl}"
    try:
        s_sig, w = psbt_mod._finalized_taproot_input(psbt, i)
        ans = f"ok {hx(bytes(s_sig))} {wit_tok(w.stack)}"
    except Exception as e:  # noqa: BLE001
        c = common.err_class(e)
        ans = "err " + (c if not c.startswith("foreign") else "foreign")
    return line, ans


# ------------------------------------------------------------------ oracles (real code; the tamper one asks the model)
def o_closure(w):
    """build, sign, finalize, extract: the engine accepts under every flag set"""
    try:
        flow = Flow(w)
    except Exception as e:  # noqa: BLE001
        return False, f"flow failed before the engine: {type(e).__name__}: {str(e)[:200]}"
    for name, flags, _ in FLAG_SETS:
        try:
            verify_transaction(flow.pouts, flow.tx, flags)
        except Exception as e:  # noqa: BLE001
            return False, f"engine refuses the finished transaction under {name} flags: {type(e).__name__}: {str(e)[:160]}"
    return True, ""


def tamper_cases(flow: Flow):
    """[(name, i, line_model_digest_after, engine_verdict_after, own)] + the digests before"""
    txd = tx_dict(flow.tx)
    kinds = [input_kind(flow, i) for i in range(len(flow.tx.vin))]
    before = [sigmsg_line(kinds[i], i, txd, flow.pouts) for i in range(len(kinds))]
    cases = []
    for name, t2, p2, own in tamperings(flow.tx, flow.pouts):
        td2 = tx_dict(t2)
        for i in range(len(kinds)):
            k = kinds[i]
            if own == i:
                k = (bytes(p2[i].script_pub_key.script),) + k[1:]
            cases.append((name, i, sigmsg_line(k, i, td2, p2), engine_verdict(p2, t2, i), own == i,
                          f"verdict 134677 {i} {tok_tx(td2)} {outs_tok(p2)}"))
    return before, cases


def o_tamper(w):
    """committed (the model's digest for that input changes) => rejected; uncommitted => still accepted"""
    try:
        flow = Flow(w)
    except Exception as e:  # noqa: BLE001
        return False, f"flow failed: {type(e).__name__}: {str(e)[:200]}"
    before, cases = tamper_cases(flow)
    outs = model_lines(before + [c[2] for c in cases])
    if outs is None:
        return True, "model unavailable"
    b, a = outs[:len(before)], outs[len(before):]
    for (name, i, _ln, verdict, own, _v), after in zip(cases, a):
        committed = own or after != b[i]
        cls = re.sub(r"\d+", "", name)
        if name.startswith(("in", "prevout")) and not name.startswith(f"in{i}.") and not name.startswith(f"prevout{i}."):
            cls = "other_" + cls
        kind = "taproot" if w["shapes"][i].startswith("tr(") else "ecdsa"
        tag = f"{cls}|{kind}|ht={w['hts'][i]}"
        if committed and verdict == "ok":
            return False, f"{tag}: {name}: input {i} ({w['shapes'][i]}) commits to it (C09 model digest changes) but the engine still accepts"
        if not committed and verdict != "ok":
            return False, f"{tag}: {name}: input {i} ({w['shapes'][i]}) does not commit to it but the engine rejects"
    return True, ""


def _key(rng_seed: int):
    rng = random.Random(rng_seed)
    q = rng.randrange(1, 2**256 - 2**33)
    return q


def o_bms(w):
    q, q2, msg = w["q"], w["q2"], bytes.fromhex(w["msg"])
    for compressed in (True, False):
        from btclib.to_prv_key import prv_keyinfo_from_prv_key  # noqa: F401
        from btclib.b58 import wif_from_prv_key
        wif = wif_from_prv_key(q, "mainnet", compressed)
        wif2 = wif_from_prv_key(q2, "mainnet", compressed)
        pub = pub_keyinfo_from_prv_key(wif)[0]
        pub2 = pub_keyinfo_from_prv_key(wif2)[0]
        addrs = [b58_p2pkh(pub)] + ([b58_p2wpkh_p2sh(pub), b32_p2wpkh(pub)] if compressed else [])
        others = [b58_p2pkh(pub2)] + ([b58_p2wpkh_p2sh(pub2), b32_p2wpkh(pub2)] if compressed else [])
        for a, o in zip(addrs, others):
            sig = bms.sign(msg, wif, a)
            if not bms.verify(msg, a, sig):
                return False, f"bms: signature does not verify for its own address {a}"
            if not bms.verify(msg, a, b64encode(sig.serialize()).decode()):
                return False, f"bms: base64 spelling does not verify for {a}"
            if bms.verify(msg, o, sig):
                return False, f"bms: signature verifies for another key's address {o}"
            if bms.verify(msg + b"x", a, sig):
                return False, "bms: signature verifies for another message"
    return True, ""


def bip322_cases(w):
    from btclib.b32 import p2tr as b32_p2tr
    from btclib.b58 import wif_from_prv_key
    from btclib.script.taproot import output_pubkey
    q, q2, msg = w["q"], w["q2"], bytes.fromhex(w["msg"])
    wif, wif2 = wif_from_prv_key(q, "mainnet", True), wif_from_prv_key(q2, "mainnet", True)
    pub, pub2 = pub_keyinfo_from_prv_key(wif)[0], pub_keyinfo_from_prv_key(wif2)[0]
    mk = [b58_p2pkh, b58_p2wpkh_p2sh, b32_p2wpkh, lambda k: b32_p2tr(output_pubkey(k)[0])]
    return wif, [(f(pub), f(pub2)) for f in mk], msg


def o_bip322(w):
    wif, pairs, msg = bip322_cases(w)
    for a, o in pairs:
        sig = bip322.sign(msg, wif, a)
        if not bip322.verify(msg, a, sig):
            return False, f"bip322: signature does not verify for its own address {a}"
        if not bip322.verify(msg, a, sig.b64encode()):
            return False, f"bip322: text spelling does not verify for {a}"
        if bip322.verify(msg, o, sig):
            return False, f"bip322: signature verifies for another key's address {o}"
        if bip322.verify(msg + b"x", a, sig):
            return False, "bip322: signature verifies for another message"
    return True, ""


def _pof(msg, addr, q, lying_spk=None):
    """a BIP322 proof-of-funds signature (a finalized psbt of `to_sign`) made with key q for `addr`; with `lying_spk` the
    psbt's own utxo field claims that script for the first input instead of the challenge `to_spend` pays to"""
    from btclib.script.taproot import output_prvkey
    psbt = bip322.to_sign_psbt(msg, addr)
    spend = psbt.inputs[0].non_witness_utxo
    spk = lying_spk if lying_spk is not None else bytes(spend.vout[0].script_pub_key.script)
    if lying_spk is not None or spk[:1] in (b"\x00", b"\x51"):
        psbt.inputs[0].witness_utxo = TxOut(0, ScriptPubKey(spk, check_validity=False))
    if lying_spk is not None:
        psbt.inputs[0].non_witness_utxo = None
    pub = pub_keyinfo_from_prv_key(q)[0]
    if is_p2tr(spk):
        m = psbt_mod.taproot_sig_hash(psbt, 0)
        psbt.inputs[0].taproot_key_spend_signature = ssa.sign_(m, output_prvkey(q)).serialize()
    else:
        if is_p2sh(spk):
            psbt.inputs[0].redeem_script = b"\x00\x14" + __import__("btclib.hashes", fromlist=["hash160"]).hash160(pub)
        m = psbt_mod.ecdsa_sig_hash(psbt, 0)
        psbt.inputs[0].partial_sigs[pub] = dsa.sign_(m, q).serialize() + b"\x01"
    return bip322.Sig(finalize(psbt))


def o_bip322_pof(w):
    """proof-of-funds variant: verifies for the signer's address only -- also when the psbt LIES about what its first
    input spends (the verifier must rebuild `to_spend` from the message and the address, never read it off the psbt)"""
    _wif, pairs, msg = bip322_cases(w)
    q = w["q"]
    spk_of = lambda a: bytes(ScriptPubKey.from_address(a).script)  # noqa: E731
    for n, (a, o) in enumerate(pairs):
        sig = _pof(msg, a, q)
        if sig.variant != bip322.PROOF_OF_FUNDS:
            return False, "bip322.pof: not a proof-of-funds payload"
        if not bip322.verify(msg, a, sig) or not bip322.verify(msg, a, sig.b64encode()):
            return False, f"bip322.pof: proof does not verify for its own address {a}"
        if bip322.verify(msg, o, sig):
            return False, f"bip322.pof: proof verifies for another key's address {o}"
        if bip322.verify(msg + b"x", a, sig):
            return False, "bip322.pof: proof verifies for another message"
        if n >= 1:  # p2sh-p2wpkh, p2wpkh, p2tr: a witness utxo can be claimed without the transaction it belongs to
            try:
                forged = _pof(msg, o, q, lying_spk=spk_of(a))
            except Exception:  # noqa: BLE001 - the library refusing to build the lie is fine
                continue
            if bip322.verify(msg, o, forged) or bip322.verify(msg, o, forged.b64encode()):
                return False, (f"bip322.pof: a proof signed by one key, whose psbt claims that key's script as the spent "
                               f"output, verifies for ANOTHER key's address {o}")
    return True, ""


def o_locktime(w):
    """the lock time the psbt determines (BIP370: fallback / required height / required time) is the lock time of the
    signed, of the finalized psbt and of the extracted transaction, and that transaction is accepted"""
    try:
        flow = Flow(w)
    except Exception as e:  # noqa: BLE001
        return False, f"flow failed: {type(e).__name__}: {str(e)[:200]}"
    want = flow.unsigned.lock_time
    got = {"signed": flow.signed.lock_time, "final": flow.final.lock_time, "extracted": flow.tx.lock_time,
           "final.tx": flow.final.tx.lock_time}
    bad = {k: v for k, v in got.items() if v != want}
    if bad:
        return False, f"lock time {want} of the psbt (locks {w.get('locks')}, fallback {w.get('fallback')}) became {bad}"
    if w.get("expect_lock") is not None and want != w["expect_lock"]:
        return False, f"BIP370 lock time: {want}, expected {w['expect_lock']}"
    for i in range(len(flow.tx.vin)):
        if flow.tx.vin[i].sequence != flow.unsigned.tx.vin[i].sequence:
            return False, f"sequence of input {i} changed on the way to the extracted transaction"
    try:
        verify_transaction(flow.pouts, flow.tx, EVERY)
    except Exception as e:  # noqa: BLE001
        return False, f"engine refuses the extracted transaction: {type(e).__name__}: {str(e)[:160]}"
    return True, ""


def timelock_probe(w):
    """(finalized?, detail, engine verdict on the PERMISSIVE witness, verdict line for the model)

    the satisfier decides with the transaction's real lock time / sequence / version whether a witness exists; the
    permissive witness is what it writes when told the time locks are met -- same signatures (they are over the real
    transaction) -- and the engine says whether that spend is valid in the real transaction"""
    flow = Flow({**w, "stop": "signed"})
    try:
        final = finalize(flow.signed, solver=solver)
        tx = extract_tx(final)
        produced, why = True, ""
    except Exception as e:  # noqa: BLE001
        if common.err_class(e).startswith("foreign"):
            raise
        produced, why, tx = False, str(e)[:120], None
    pin = flow.signed.inputs[0]
    utx = flow.signed.tx
    lock_ok = int(re.search(r"after\((\d+)\)", w["shapes"][0]).group(1)) if "after(" in w["shapes"][0] else 0
    seq_ok = int(re.search(r"older\((\d+)\)", w["shapes"][0]).group(1)) if "older(" in w["shapes"][0] else 0xFFFFFFFE
    ctx_ok = MS.SpendContext(locktime=lock_ok, sequence=seq_ok, version=2)
    if pin.witness_script:
        node = MS.from_script(pin.witness_script, MS.P2WSH, {})
        stack = node.satisfy(dict(pin.partial_sigs), ctx_ok)
        wit = [*stack, bytes(pin.witness_script)]
    else:
        (cb, (script, ver)), = pin.taproot_leaf_scripts.items()
        lh = taproot.leaf_hash(ver, script)
        sigs = {kd[:32]: sg for kd, sg in pin.taproot_script_spend_signatures.items() if kd[32:] == lh}
        stack = MS.from_script(script, MS.TAPSCRIPT).satisfy(sigs, ctx_ok)
        wit = [*stack, bytes(script), bytes(cb)]
    t2 = copy.deepcopy(utx)
    t2.vin[0].script_witness = Witness(wit)
    verdict = engine_verdict(flow.pouts, t2, 0, EVERY).split(" ")[0]
    line = f"verdict {EVERY.value} 0 {tok_tx(tx_dict(t2))} {outs_tok(flow.pouts)}"
    if produced:
        try:
            verify_transaction(flow.pouts, tx, EVERY)
            own = "ok"
        except Exception as e:  # noqa: BLE001
            own = f"rej ({str(e)[:80]})"
    else:
        own = None
    return produced, why, verdict, line, own


def o_timelock(w):
    """a miniscript witness is produced exactly when the engine accepts the spend: never a witness the engine refuses
    (a wrong "time lock met"), never a refusal of a spend the engine accepts"""
    try:
        produced, why, verdict, _line, own = timelock_probe(w)
    except Exception as e:  # noqa: BLE001
        return False, f"probe failed: {type(e).__name__}: {str(e)[:200]}"
    tag = f"{w['shapes'][0]} version {w.get('version')} lock_time {w.get('lock')} sequence {hex(w['seqs'][0])}"
    if produced and own != "ok":
        return False, f"{tag}: finalize produced a witness the engine refuses: {own}"
    if produced and verdict != "ok":
        return False, f"{tag}: a witness was produced but the time-lock-met witness is refused by the engine"
    if not produced and verdict == "ok":
        return False, f"{tag}: no witness produced ({why}) though the engine accepts the spend"
    return True, ""


ORACLES = {"locktime": o_locktime, "timelock": o_timelock, "closure": o_closure, "tamper": o_tamper, "bms": o_bms, "bip322": o_bip322, "bip322_pof": o_bip322_pof}


# ------------------------------------------------------------------ signature-level mutations of a finished input
N_SECP = 0xFFFFFFFFFFFFFFFFFFFFFFFFFFFFFFFEBAAEDCE6AF48A03BBFD25E8CD0364141


def _der(r: int, s: int, pad_r: int = 0) -> bytes:
    def enc(v, pad=0):
        b = v.to_bytes((v.bit_length() + 7) // 8 or 1, "big")
        if b[0] & 0x80:
            b = b"\x00" + b
        b = b"\x00" * pad + b
        return b"\x02" + bytes([len(b)]) + b
    body = enc(r, pad_r) + enc(s)
    return b"\x30" + bytes([len(body)]) + body


def sig_mutations(sig: bytes, taproot: bool):
    """(name, mutated signature element)"""
    out = [("empty", b""), ("truncated", sig[:-2]), ("bitflip", sig[:10] + bytes([sig[10] ^ 4]) + sig[11:])]
    if taproot:
        out += [("explicit_default", sig[:64] + b"\x00"), ("63_bytes", sig[:63]), ("66_bytes", sig[:64] + b"\x01\x01"),
                ("undefined_type", sig[:64] + b"\x04"), ("other_type", sig[:64] + (b"\x02" if sig[64:] != b"\x02" else b"\x01"))]
    else:
        try:
            d = dsa.Sig.parse(sig[:-1])
            out += [("high_s", _der(d.r, N_SECP - d.s) + sig[-1:]), ("padded_r", _der(d.r, d.s, pad_r=1) + sig[-1:]),
                    ("undefined_type", sig[:-1] + b"\x04"), ("type_0", sig[:-1] + b"\x00"),
                    ("trailing", sig[:-1] + b"\x00" + sig[-1:])]
        except Exception:  # noqa: BLE001
            pass
    return out


def keyenc_cases(rng):
    """[(line, engine verdict, name)]: `<key> CHECKSIG` (bare and in p2wsh) and a bare 1-of-2 multisig whose signing key is
    written in every SEC spelling -- compressed, uncompressed, hybrid 06/07 with the right and the wrong parity, off-curve
    04 / hybrid -- correctly signed, under no flag, the default set and every flag: the composed checker's KEY parser and
    `CheckPubKeyEncoding` (STRICTENC, WITNESS_PUBKEYTYPE) against btclib's engine"""
    from btclib.curves.sec_point import point_from_octets
    from btclib.hashes import sha256 as _sha256
    P_FIELD = 2**256 - 2**32 - 977
    q, q2 = rng.randrange(1, N_SECP), rng.randrange(1, N_SECP)
    x, y = point_from_octets(pub_keyinfo_from_prv_key(q)[0])
    xb, yb = x.to_bytes(32, "big"), y.to_bytes(32, "big")
    encs = {"compressed": bytes([2 + (y & 1)]) + xb, "uncompressed": b"\x04" + xb + yb,
            "hybrid": bytes([6 + (y & 1)]) + xb + yb, "hybrid_bad_parity": bytes([7 - (y & 1)]) + xb + yb,
            "uncompressed_off_curve": b"\x04" + xb + ((y + 1) % P_FIELD).to_bytes(32, "big"),
            "hybrid_off_curve": bytes([6 + ((y + 1) & 1)]) + xb + ((y + 1) % P_FIELD).to_bytes(32, "big"),
            "prefix_05": b"\x05" + xb + yb}
    other = pub_keyinfo_from_prv_key(q2)[0]
    push = lambda b: bytes([len(b)]) + b  # noqa: E731
    amount = 60_000
    cases = []
    for name, key in encs.items():
        for tmpl in ("pk", "wsh_pk", "multi"):
            script = push(key) + b"\xac" if tmpl != "multi" else b"\x51" + push(key) + push(other) + b"\x52\xae"
            spk = b"\x00\x20" + _sha256(script) if tmpl == "wsh_pk" else script
            pout = TxOut(amount, ScriptPubKey(spk, check_validity=False), check_validity=False)
            tx = Tx(2, 0, [TxIn(OutPoint(common.rand_bytes(rng, 32), 1), b"", 0xFFFFFFFE)],
                    [TxOut(amount - 500, ScriptPubKey(b"\x51", check_validity=False), check_validity=False)],
                    check_validity=False)
            if tmpl == "wsh_pk":
                m = sig_hash.segwit_v0(script, tx, 0, 1, amount)
            else:
                m = sig_hash.legacy(script, tx, 0, 1)
            sg = dsa.sign_(m, q).serialize() + b"\x01"
            if tmpl == "pk":
                tx.vin[0].script_sig = push(sg)
            elif tmpl == "multi":
                tx.vin[0].script_sig = b"\x00" + push(sg)
            else:
                tx.vin[0].script_witness = Witness([sg, script])
            td = tx_dict(tx)
            for fname, flags, mask in (("none", ScriptFlag(0), 0), FLAG_SETS[0], FLAG_SETS[1]):
                cases.append((f"verdict {mask} 0 {tok_tx(td)} {outs_tok([pout])}",
                              engine_verdict([pout], tx, 0, flags).split(" ")[0], f"{name}.{tmpl}.{fname}"))
    return cases


def tapext_cases(rng):
    """[(line, engine verdict, name)]: taproot paths no library flow reaches -- a key path spend SIGNED WITH an annex (the
    message commits to it), a tapscript with an executed OP_CODESEPARATOR (the second signature commits to its
    position), and the same with the wrong annex / position"""
    from btclib.script.taproot import output_prvkey_from_merkle_root, output_pubkey_from_merkle_root
    q, k1, k2 = (rng.randrange(1, N_SECP) for _ in range(3))
    xonly = lambda d: pub_keyinfo_from_prv_key(d)[0][1:]  # noqa: E731
    amount = 70_000
    cases = []

    def emit(name, pout, tx):
        td = tx_dict(tx)
        for fname, flags, mask in (FLAG_SETS[0], FLAG_SETS[1]):
            cases.append((f"verdict {mask} 0 {tok_tx(td)} {outs_tok([pout])}",
                          engine_verdict([pout], tx, 0, flags).split(" ")[0], f"{name}.{fname}"))

    def mk_tx():
        return Tx(2, rng.choice([0, 500]), [TxIn(OutPoint(common.rand_bytes(rng, 32), 0), b"", 0xFFFFFFFD)],
                  [TxOut(amount - 700, ScriptPubKey(b"\x51", check_validity=False), check_validity=False),
                   TxOut(100, ScriptPubKey(b"\x52", check_validity=False), check_validity=False)], check_validity=False)
    # 1. key path with an annex
    okey, _par = output_pubkey_from_merkle_root(xonly(q), b"")
    pout = TxOut(amount, ScriptPubKey(b"\x51\x20" + okey, check_validity=False), check_validity=False)
    tweaked = output_prvkey_from_merkle_root(q, b"")
    for ht in (0, 1, 0x83):
        annex = b"\x50" + common.rand_bytes(rng, rng.choice([0, 1, 40]))
        tx = mk_tx()
        m = sig_hash.taproot(tx, 0, [pout], ht, 0, annex, b"")
        sg = ssa.sign_(m, tweaked).serialize() + (bytes([ht]) if ht else b"")
        tx.vin[0].script_witness = Witness([sg, annex])
        emit(f"annex_signed.ht{ht}", pout, tx)
        t2 = copy.deepcopy(tx)
        t2.vin[0].script_witness = Witness([sg, annex + b"\x00"])
        emit(f"annex_changed.ht{ht}", pout, t2)
    # 2. tapscript with an executed OP_CODESEPARATOR
    script = b"\x20" + xonly(k1) + b"\xad\xab\x20" + xonly(k2) + b"\xac"
    lh = taproot.leaf_hash(0xC0, script)
    okey, par = output_pubkey_from_merkle_root(xonly(q), lh)
    pout = TxOut(amount, ScriptPubKey(b"\x51\x20" + okey, check_validity=False), check_validity=False)
    control = bytes([0xC0 + par]) + xonly(q)
    for ht in (0, 2):
        for pos2, name in ((2, "codesep_right"), (0xFFFFFFFF, "codesep_unset"), (1, "codesep_wrong")):
            tx = mk_tx()
            ext = lambda pos: lh + b"\x00" + pos.to_bytes(4, "little")  # noqa: E731
            suffix = bytes([ht]) if ht else b""
            s1 = ssa.sign_(sig_hash.taproot(tx, 0, [pout], ht, 1, b"", ext(0xFFFFFFFF)), k1).serialize() + suffix
            s2 = ssa.sign_(sig_hash.taproot(tx, 0, [pout], ht, 1, b"", ext(pos2)), k2).serialize() + suffix
            tx.vin[0].script_witness = Witness([s2, s1, script, control])
            emit(f"{name}.ht{ht}", pout, tx)
    return cases


def mutsig_cases(flow: Flow, rng, per_input=3):
    """[(line, engine verdict)]: one signature element of a finished input replaced (or an annex appended); the composed
    Lean checker's parsing / hash-type / size / annex paths against btclib's engine, under the default and every flag"""
    cases = []
    for i, tin in enumerate(flow.tx.vin):
        spk = bytes(flow.pouts[i].script_pub_key.script)
        wit = [bytes(x) for x in tin.script_witness.stack]
        taproot = is_p2tr(spk)
        muts = []
        if wit:
            idx = [j for j, e in enumerate(wit) if (len(e) in (64, 65) if taproot else (e[:1] == b"\x30" and 60 <= len(e) <= 73))]
            if taproot and len(wit) >= 2:
                idx = [j for j in idx if j < len(wit) - 2]
            for j in idx[:1]:
                for name, m in sig_mutations(wit[j], taproot):
                    muts.append((name, None, wit[:j] + [m] + wit[j + 1:]))
            if taproot:
                muts.append(("annex", None, wit + [b"\x50\x01\x02"]))
                muts.append(("annex_only_marker", None, wit + [b"\x50"]))
        else:
            ss = bytes(tin.script_sig)
            if ss and ss[0] < 76 and ss[1:2] == b"\x30" and len(ss) > ss[0]:
                sig, rest = ss[1:1 + ss[0]], ss[1 + ss[0]:]
                for name, m in sig_mutations(sig, False):
                    if len(m) < 76:
                        muts.append((name, (bytes([len(m)]) if m else b"\x00") + m + rest if m else b"\x00" + rest, None))
        rng.shuffle(muts)
        for name, new_ss, new_wit in muts[:per_input]:
            t2 = copy.deepcopy(flow.tx)
            if new_wit is not None:
                t2.vin[i].script_witness = Witness(new_wit)
            else:
                t2.vin[i].script_sig = new_ss
            td = tx_dict(t2)
            for fname, flags, mask in (FLAG_SETS[0], FLAG_SETS[1], ("no_dersig", NO_DERSIG, NO_DERSIG.value)):
                cases.append((f"verdict {mask} {i} {tok_tx(td)} {outs_tok(flow.pouts)}",
                              engine_verdict(flow.pouts, t2, i, flags).split(" ")[0], name + "." + fname))
    return cases


# ------------------------------------------------------------------ run
def flow_spec(rng, no: int, shapes=None) -> dict:
    n_in = rng.choice([1, 1, 2, 2, 3, 3, 4, 5])
    shapes = shapes or [rng.choice(SHAPES) for _ in range(n_in)]
    hts = []
    for i, sh in enumerate(shapes):
        pool = TAP_HTS if sh.startswith("tr(") else ECDSA_HTS
        ht = pool[(no + i) % len(pool)]
        hts.append(None if (ht in (0, 1) and rng.random() < 0.5) else ht)
    return {"seed": rng.getrandbits(48), "shapes": shapes, "hts": hts, "v2": rng.random() < 0.4,
            "builder": rng.random() < 0.25, "request": rng.random() < 0.3, "outs_ge_ins": True}


def run(ctx):
    t_start = time.time()
    rng = ctx.rng
    shared.validate_hashes(ctx, EXE)
    n_flows = ctx.n(60, 2500)
    specs = []
    # every shape at least once on its own, under a rotating hash type
    for k, sh in enumerate(SHAPES):
        specs.append(flow_spec(rng, k, [sh]))
    # every hash type on an input that has a NEIGHBOUR: "the sequence / outpoint / spent output of ANOTHER input" is then
    # in the tamper matrix for each type (taproot NONE / SINGLE without ANYONECANPAY still commit to every sequence)
    for ht in TAP_HTS:
        specs.append({"seed": rng.getrandbits(48), "shapes": [rng.choice(["tr(A)", "tr(NUMS,pk(A))", "tr(A,pk(B))"]),
                                                               rng.choice(["wpkh(A)", "pkh(A)", "tr(A)"])],
                      "hts": [ht or rng.choice([None, 0]), None], "v2": rng.random() < 0.4, "builder": False,
                      "request": False, "outs_ge_ins": True})
    for ht in ECDSA_HTS:
        specs.append({"seed": rng.getrandbits(48), "shapes": [rng.choice(["wpkh(A)", "pkh(A)", "wsh(multi(K,N))", "sh(wpkh(A))"]),
                                                               rng.choice(["tr(A)", "wpkh(A)"])],
                      "hts": [ht, None], "v2": rng.random() < 0.4, "builder": False, "request": False,
                      "outs_ge_ins": True})
    while len(specs) < n_flows:
        specs.append(flow_spec(rng, len(specs)))
    fin_cases, fintap_cases, msg_cases, verdict_cases, tamper_verdict = [], [], [], [], []
    n_tamper = 0
    budget_verdict = ctx.n(260, 8000)
    budget_tv = ctx.n(150, 5000)
    budget_mut = ctx.n(160, 4000)
    mutsig = []
    for no, spec in enumerate(specs):
        ok = ctx.check("closure", spec, key="closure." + "+".join(sorted(set(s.split("(")[0] for s in spec["shapes"]))))
        if not ok:
            continue
        flow = Flow(spec)
        for sh in spec["shapes"]:
            ctx.count("shapes", sh)
        for ht in spec["hts"]:
            ctx.count("hash_types", str(ht))
        ctx.count("psbt", "v2" if spec["v2"] else "v0")
        txd = tx_dict(flow.tx)
        for i in range(len(flow.tx.vin)):
            pin = flow.signed.inputs[i]
            spk = bytes(flow.pouts[i].script_pub_key.script)
            kind = input_kind(flow, i)
            msg_cases.append((sigmsg_line(kind, i, txd, flow.pouts), signer_digest(flow, i)))
            if is_p2tr(spk):
                generic = solver(flow.signed, i) is None
                if generic:
                    fintap_cases.append(fintap_case(flow, i))
                    fintap_cases.append(fintap_case(flow, i, rng.choice(["ht", "sig", "dropkey", "wrongkey"])))
            elif pin.partial_sigs:
                fin_cases.append((fin_line(pin, spk), None))
                # perturbed finalizer inputs: fewer / reordered / foreign signatures, a missing utxo, a missing script
                p2 = copy.deepcopy(pin)
                items = list(p2.partial_sigs.items())
                r = rng.random()
                if r < 0.3 and len(items) > 1:
                    items.pop(rng.randrange(len(items)))
                elif r < 0.6:
                    rng.shuffle(items)
                elif r < 0.8:
                    items.append((pub_keyinfo_from_prv_key(rng.randrange(1, 2**200))[0], items[0][1] if items else b"\x30"))
                p2.partial_sigs = dict(items)
                spk2 = spk
                r = rng.random()
                if r < 0.1:
                    spk2 = None
                elif r < 0.2:
                    p2.redeem_script = b""
                elif r < 0.3:
                    p2.witness_script = b""
                fin_cases.append((fin_line(p2, spk2), None))
            if len(verdict_cases) < budget_verdict:
                for name, flags, mask in FLAG_SETS[: (3 if no % 2 == 0 else 1)]:
                    verdict_cases.append((f"verdict {mask} {i} {tok_tx(txd)} {outs_tok(flow.pouts)}",
                                          engine_verdict(flow.pouts, flow.tx, i, flags)))
        # the tamper matrix
        t_ok, t_detail = o_tamper(spec)
        ctx.oracle("tamper", t_ok, t_detail, key="tamper." + (t_detail.split(":")[0] if not t_ok else "ok"),
                   witness={"oracle": "tamper", "witness": spec})
        if len(mutsig) < budget_mut:
            for ln, v, name in mutsig_cases(flow, rng):
                mutsig.append((ln, v))
                ctx.count("mutsig", name + ":" + v)
        before, cases = tamper_cases(flow)
        n_tamper += len(cases)
        for c in cases:
            ctx.count("tamper", c[0].rstrip("0123456789").replace("in.", "in*.").replace("out.", "out*."))
            ctx.count("tamper_verdict", c[3])
        if len(tamper_verdict) < budget_tv:
            for c in rng.sample(cases, min(len(cases), 4)):
                tamper_verdict.append((c[5], c[3].split(" ")[0]))
    ctx.note(f"{len(specs)} flows, {n_tamper} (tampering, input) cases")
    # the reported defect shapes: the generic finalizer (no solver) and the solver
    for sh, key in DEFECT_SHAPES.items():
        for use_solver in (False, True):
            spec = flow_spec(rng, 0, [sh])
            spec["solver"] = use_solver
            if use_solver and sh.startswith("sh(pkh"):
                continue
            ctx.check("closure", spec, key=key if not use_solver else key + ".solver")
    # streams
    ctx.correspond("c10.fin", EXE, [(ln, impl(ln)) for ln, _ in fin_cases])
    ctx.correspond("c10.fintap", EXE, fintap_cases)
    ctx.correspond("c10.sigmsg", EXE, msg_cases)
    ctx.correspond("c10.verdict", EXE, verdict_cases, nontrivial=lambda ln, out: True)
    ctx.correspond("c10.tamper.verdict", EXE, tamper_verdict, nontrivial=lambda ln, out: True)
    ctx.correspond("c10.mutsig.verdict", EXE, mutsig, nontrivial=lambda ln, out: True)
    kc = []
    for _ in range(ctx.n(1, 12)):
        for ln, v, name in keyenc_cases(rng):
            kc.append((ln, v))
            ctx.count("keyenc", name + ":" + v)
    ctx.correspond("c10.keyenc.verdict", EXE, kc, nontrivial=lambda ln, out: True)
    tc = []
    for _ in range(ctx.n(1, 12)):
        for ln, v, name in tapext_cases(rng):
            tc.append((ln, v))
            ctx.count("tapext", name + ":" + v)
    ctx.correspond("c10.tapext.verdict", EXE, tc, nontrivial=lambda ln, out: True)
    # BIP370 lock-time sources of a v2 psbt, through sign / finalize / extract
    H1, H2, T1, T2 = 650_000, 700_123, 1_600_000_000, 1_700_000_123
    lock_specs = []
    for shapes, locks, fallback, expect in [
        (["wpkh(A)"], [None], 0, 0), (["wpkh(A)", "tr(A)"], [None, None], 777, 777),
        (["wpkh(A)", "pkh(A)"], [None, None], T1, T1),
        (["tr(A)", "wpkh(A)"], [{"h": H1}, None], 5, H1), (["wpkh(A)", "tr(A)"], [{"t": T1}, None], 5, T1),
        (["pkh(A)", "wpkh(A)", "tr(A)"], [{"h": H1}, {"h": H2}, None], 0, H2),
        (["wsh(multi(K,N))", "wpkh(A)"], [{"t": T2}, {"t": T1}], H1, T2),
        (["wpkh(A)", "tr(A)"], [{"h": H1, "t": T1}, {"t": T2}], 0, T2),
        (["wpkh(A)", "tr(A)"], [{"h": H1, "t": T1}, {"h": H2}], 0, H2),
        (["wpkh(A)", "sh(wpkh(A))"], [{"h": H1, "t": T1}, {"h": H2, "t": T2}], 9, H2),
        ([f"wsh(and_v(v:pk(A),after({H1})))", "wpkh(A)"], [{"h": H2}, None], 0, H2),
        ([f"tr(NUMS,and_v(v:pk(A),after({T1})))", "tr(A)"], [{"t": T1}, {"t": T2}], 0, T2),
        ([f"wsh(and_v(v:pk(A),after({T1})))"], [{"t": T2}], H1, T2),
        ([f"tr(NUMS,and_v(v:pk(A),after({H1})))"], [None], H2, H2),
    ]:
        lock_specs.append({"seed": rng.getrandbits(48), "shapes": shapes, "hts": [None] * len(shapes), "v2": True,
                           "builder": False, "request": rng.random() < 0.3, "locks": locks, "fallback": fallback,
                           "expect_lock": expect, "version": 2,
                           "seqs": [rng.choice([0xFFFFFFFE, 0xFFFFFFFD, 0]) for _ in shapes]})
    for spec in lock_specs:
        ctx.check("locktime", spec, key="locktime." + ("required" if any(spec["locks"]) else "fallback"))
        ctx.count("locktime", "+".join(sorted("".join(sorted(l)) if l else "-" for l in spec["locks"])))
    # miniscript time locks: a witness exactly when the engine accepts
    tl_cases = []
    tl_specs = []
    for wrap in ("wsh(%s)", "tr(NUMS,%s)"):
        for n_after in (500, 500_000_100):
            below, above = (n_after - 1, n_after + 7)
            other = 500_000_200 if n_after < 500_000_000 else 600
            for lock in (0, below, n_after, above, other):
                for seq in (0, 1, 0xFFFFFFFE, 0xFFFFFFFF):
                    tl_specs.append((wrap % f"and_v(v:pk(A),after({n_after}))", lock, seq, rng.choice([1, 2])))
        for m_older in (5, 0x400005):
            for seq in (0, 1, 4, 5, 6, 0x400005, 0x400004, 0x80000005, 0xFFFFFFFE, 0xFFFFFFFF):
                for version in (1, 2):
                    tl_specs.append((wrap % f"and_v(v:pk(A),older({m_older}))", rng.choice([0, 600]), seq, version))
    if ctx.tier != "thorough":
        keep = [t for t in tl_specs if t[2] in (0xFFFFFFFF, 0xFFFFFFFE) and "after(" in t[0]]
        rest = [t for t in tl_specs if t not in keep]
        rng.shuffle(rest)
        tl_specs = keep + rest[:ctx.n(40)]
    for shape, lock, seq, version in tl_specs:
        w = {"seed": rng.getrandbits(48), "shapes": [shape], "hts": [None], "v2": rng.random() < 0.5, "builder": False,
             "request": False, "lock": lock, "seqs": [seq], "version": version}
        ok = ctx.check("timelock", w, key="timelock." + ("after" if "after(" in shape else "older"))
        try:
            produced, _why, verdict, line, _own = timelock_probe(w)
            tl_cases.append((line, verdict))
            ctx.count("timelock", ("witness" if produced else "refused") + ":" + verdict)
        except Exception:  # noqa: BLE001 - already reported by the oracle
            pass
    ctx.correspond("c10.timelock.verdict", EXE, tl_cases, nontrivial=lambda ln, out: True)
    # message signatures
    for _ in range(ctx.n(12, 200)):
        w = {"q": rng.randrange(1, 2**255), "q2": rng.randrange(1, 2**255),
             "msg": common.rand_bytes(rng, rng.choice([0, 1, 5, 32, 100])).hex()}
        ctx.check("bms", w)
        ctx.check("bip322", w)
        ctx.check("bip322_pof", w)
        if ctx.tier == "thorough" or _ < 4:
            wif, pairs, msg = bip322_cases(w)
            cases = []
            for a, o in pairs:
                sig = bip322.sign(msg, wif, a)
                for addr in (a, o):
                    spk = ScriptPubKey.from_address(addr).script
                    spend = bip322.to_spend(msg, spk)
                    tx = bip322.to_sign(spend, witness=sig.payload) if isinstance(sig.payload, Witness) else sig.payload
                    if tx.vin[0].prev_out.tx_id != spend.id:
                        # a full signature names the to_spend of ITS address: for another address the outpoint differs
                        cases.append((f"verdict 134677 0 {tok_tx(tx_dict(tx))} {outs_tok(spend.vout)}", "ok" if addr == a else "rej"))
                        continue
                    cases.append((f"verdict 134677 0 {tok_tx(tx_dict(tx))} {outs_tok(spend.vout)}",
                                  engine_verdict(spend.vout, tx, 0).split(" ")[0]))
            ctx.correspond("c10.bip322.verdict", EXE, cases, nontrivial=lambda ln, out: True)
            # the MODEL of to_spend / to_sign (Model/C10/Bip322.lean): both txids and the verdict of the engine run
            # under BIP322's required + upgradeable rules, for the signer's address and for another key's
            mask = (bip322.REQUIRED_RULES | bip322.UPGRADEABLE_RULES)
            cases = []
            for a, o in pairs:
                sig = bip322.sign(msg, wif, a)
                for addr in (a, o):
                    spk = ScriptPubKey.from_address(addr).script
                    spend = bip322.to_spend(msg, spk)
                    if isinstance(sig.payload, Witness):
                        ss, stack = b"", [bytes(x) for x in sig.payload.stack]
                    elif isinstance(sig.payload, Tx) and addr == a:
                        t0 = sig.payload
                        if (t0.version, t0.lock_time, len(t0.vin), t0.vin[0].sequence) != (0, 0, 1, 0):
                            continue
                        ss, stack = bytes(t0.vin[0].script_sig), [bytes(x) for x in t0.vin[0].script_witness.stack]
                    else:
                        continue
                    tx = bip322.to_sign(spend, ss, Witness(stack))
                    cases.append((f"bip322 {mask.value} {hx(msg)} {hx(bytes(spk))} {hx(ss)} {wit_tok(stack)}",
                                  f"ok {spend.id[::-1].hex()} {tx.id[::-1].hex()} "
                                  + engine_verdict(spend.vout, tx, 0, mask).split(" ")[0]))
            ctx.correspond("c10.bip322.model", EXE, cases, nontrivial=lambda ln, out: True)
    # ---- the MODEL of MultiA._script / MultiA._stack (Model/C10/MultiA.lean): script bytes and the satisfaction layout
    from btclib.script.script import serialize as _ser
    cases = []
    for _ in range(ctx.n(40, 400)):
        n = rng.choice([1, 2, 3, 3, 5, 8, 17, 20])
        k = rng.randint(1, n) if rng.random() < 0.8 else rng.randint(1, min(n, 16))
        ks = [pub_keyinfo_from_prv_key(rng.randrange(1, N_SECP))[0] for _ in range(n)]
        leaf = parse(add_checksum(f"tr({NUMS},multi_a({k},{','.join(x.hex() for x in ks)}))")).tree
        script = bytes(_ser(leaf._script(0, "mainnet", None)))
        signers = [i for i in range(n) if rng.random() < rng.choice([0.3, 0.7, 1.0])]
        sigs = {ks[i][1:]: common.rand_bytes(rng, rng.choice([64, 65])) for i in signers}
        st = leaf._stack(sigs, 0, "mainnet", None)
        offered = ",".join(hx(sigs[x[1:]]) if x[1:] in sigs else "." for x in ks)
        cases.append((f"multia {k} {','.join(x[1:].hex() for x in ks)} {offered}",
                      f"ok {script.hex()} " + ("none" if st is None else wit_tok(st))))
    ctx.correspond("c10.multia.model", EXE, cases, nontrivial=lambda ln, out: not out.endswith(" none"))
    ctx.note(f"harness time {time.time() - t_start:.1f}s")
