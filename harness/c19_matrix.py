"""C19 consumer matrix by introspection: 'an object a parser accepted can be handed to every consumer'.

For every btclib class T that some parser returns, `consumers_of(T)` lists every PUBLIC function, classmethod /
staticmethod and instance method of another class of the package that declares a parameter of type T (annotation
names T, alone or in a union / Sequence[T] / list[T]); the other required parameters are filled with plausible values
of their declared types (c19_groups.value_for: configuration beside the object, per ASSUMPTIONS).  c19_core runs every
accepted object through the zero-argument methods of its own class (consumer_calls), the hand-written DESIGN list
(specific_consumers) AND this matrix; a foreign exception class or a hang on an accepted object is the finding
`<parser>-><consumer>:<Exception>`; calls are counted per consumer in evidence (class_histogram["consumers.matrix"]).
An index parameter beside the object (vin_i, i, index …) takes 0, len, -1 and 2^31: a refusal must be a library exception.
Consumers that sign, mutate their argument in place, or leave the process are not consumers (SKIP).
"""
from __future__ import annotations

import importlib
import inspect
import pkgutil
import random
import re

from . import c19_core as C
from . import c19_gen as G

SKIP = re.compile(r"(^|\.)(sign|sign_|partial_sign|nonce_gen|mine|grind|wipe|close|fetch|broadcast|update|add_|set_|sort_|finalize_input|join|combine)")
_MATRIX = None


_SEQ = re.compile(r"^(Sequence|Iterable|list)\[([A-Za-z_][A-Za-z0-9_.]*)\]$")
_NOT_TYPES = ("Octets", "String", "None", "Sequence", "Iterable", "Mapping", "Any", "BinaryData", "Integer", "Callable", "Literal", "HashF",
              "Point", "Curve")
_IDX = object()
INDEX_NAMES = ("i", "vin_i", "index", "input_index", "vout_i")


def _names(ann):
    """the class names a parameter of this annotation TAKES: T alone, a member of a union, or the element of a
    Sequence / Iterable / list (a Mapping[..., T] does not take a T)"""
    out = set()
    for o in (ann or "").replace(" ", "").split("|"):
        m = _SEQ.match(o)
        name = (m.group(2) if m else o).split(".")[-1]
        if re.fullmatch(r"[A-Z][A-Za-z0-9_]*", name) and name not in _NOT_TYPES:
            out.add(name)
    return out


def matrix():
    """{class name: [(qualified consumer name, fn, parameter name, signature, is_method_of)]}"""
    global _MATRIX
    if _MATRIX is not None:
        return _MATRIX
    import btclib
    out = {}

    def consider(q, fn, owner=None):
        if SKIP.search(q):
            return
        try:
            sig = inspect.signature(fn)
        except (TypeError, ValueError):
            return
        ps = list(sig.parameters.values())
        if owner is not None:
            ps = ps[1:]
        for p in ps:
            a = p.annotation if isinstance(p.annotation, str) else getattr(p.annotation, "__name__", str(p.annotation))
            if p.annotation is inspect.Parameter.empty:
                continue
            for t in _names(a):
                # the class the name denotes where the consumer is defined (dsa.Sig is not ssa.Sig); None: unresolved, by name
                out.setdefault(t, []).append((q, fn, p.name, sig, getattr(fn, "__globals__", {}).get(t)))

    for mi in pkgutil.walk_packages(btclib.__path__, "btclib."):
        if any(p.startswith("_") for p in mi.name.split(".")[1:]) or mi.name.startswith(C.SKIP_MODULES):
            continue
        try:
            m = importlib.import_module(mi.name)
        except Exception:  # noqa: BLE001
            continue
        for n, o in sorted(vars(m).items()):
            if n.startswith("_"):
                continue
            if inspect.isfunction(o) and o.__module__ == m.__name__ and not n.startswith("op_"):
                consider(f"{m.__name__}.{n}", o)
            elif inspect.isclass(o) and o.__module__ == m.__name__:
                for mn in sorted(vars(o)):
                    if mn.startswith("_"):
                        continue
                    raw = inspect.getattr_static(o, mn, None)
                    if isinstance(raw, (classmethod, staticmethod)):
                        consider(f"{m.__name__}.{n}.{mn}", getattr(o, mn))
    _MATRIX = out
    return out


def matrix_consumers(obj, rng=None, limit=40):
    """[(name, thunk)] every introspected consumer of type(obj), other parameters plausible"""
    from . import c19_groups as Gr
    cls = type(obj)
    if not cls.__module__.startswith("btclib"):
        return []
    rows = []
    for k in cls.__mro__:
        rows += matrix().get(k.__name__, [])
    rng = rng or random.Random(len(rows))
    out, seen = [], set()
    for q, fn, pname, sig, declared in rows:
        if (q, pname) in seen or (inspect.isclass(declared) and not isinstance(obj, declared)):
            continue
        seen.add((q, pname))
        args, kwargs, ok, idx_values = [], {}, True, None
        for p in sig.parameters.values():
            if p.kind in (p.VAR_POSITIONAL, p.VAR_KEYWORD):
                continue
            if p.name == pname:
                a = p.annotation if isinstance(p.annotation, str) else str(p.annotation)
                v = [obj] if re.search(r"(Sequence|Iterable|list)\[", a) else obj
            elif p.default is not inspect.Parameter.empty:
                continue
            elif p.name in INDEX_NAMES or p.name.endswith("_index"):
                # an index beside the object: in range mostly, but also one past the end, negative and huge (a refusal must be
                # a library exception: /repo 5e9c2ba2 made psbt.ecdsa_sig_hash / taproot_sig_hash refuse instead of IndexError)
                seq = getattr(obj, "inputs", None) if hasattr(obj, "inputs") else getattr(obj, "vin", None)
                n_ = len(seq) if seq is not None else 0
                v = _IDX
                idx_values = [0, n_, -1, 2**31] if n_ else [0, -1]
            else:
                spec = Gr.value_for(Gr._ann(p), rng, False, p.name)
                if spec is Gr.NOVAL:
                    ok = False
                    break
                try:
                    v = G.materialize(spec)
                except Exception:  # noqa: BLE001 - an argument beside the object that cannot be built: no call
                    ok = False
                    break
            if p.kind == p.POSITIONAL_ONLY:
                args.append(v)
            else:
                kwargs[p.name] = v
        if ok and idx_values is None:
            out.append((f"{q.replace('btclib.', '')}({pname})", (lambda fn=fn, a=args, k=kwargs: fn(*a, **k))))
        elif ok:
            for iv in idx_values:       # every index value, deterministically (a replay makes the same calls)
                a2 = [iv if x is _IDX else x for x in args]
                k2 = {kk: (iv if x is _IDX else x) for kk, x in kwargs.items()}
                out.append((f"{q.replace('btclib.', '')}({pname})" if iv == 0 else f"{q.replace('btclib.', '')}({pname})[i={iv}]",
                            (lambda fn=fn, a=a2, k=k2: fn(*a, **k))))
    return out[:limit]
