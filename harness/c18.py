"""C18 — sizes, fees and amounts are exact integer accounting (DESIGN §3 C18)."""
from __future__ import annotations

import os
import sys
from decimal import Decimal

from btclib import fee as fee_mod
from btclib.fee import FeeRate, dust_threshold, fee_from_vsize, package_fee
from btclib.script.script_pub_key import is_segwit

from . import common
from .common import hx, unhx

sys.path.insert(0, os.path.join(common.ROOT, "tools"))

PROP = "C18"
EXE = "drv_c18"
GEN_MODULES = ["Fee"]
RULE = ("op lines come from one seeded PRNG: boundary-heavy integers (multiples of 1000 ± 1, CompactSize and 2^53 "
        "edges), script shapes around every branch of dust_threshold/is_segwit, structure-aware transactions, "
        "blocks and PSBTs; a case is non-trivial when the implementation did not refuse it at the first check; "
        "distinct = distinct (stream, op line / oracle witness)")
TRUSTED = [
    "Model/Common/PyFloat.lean: IEEE-754 description of CPython's int/int true division and math.ceil "
    "(validated by gen.Fee.*_vsize around 2^53 and 2^1024 on every run)",
    "Btc.C18.Core.* is a hand transcription of Bitcoin Core's GetDustThreshold / IsUnspendable / IsWitnessProgram",
    "hand-written entry points (FeeRate guard, is_segwit, funding decision, Decimal model) are tied by correspondence only",
]
ASSUMPTIONS = ["vsize = ceil(weight/4) is exact only for weight < 2^53 (float division in the source); "
               "consensus weights are < 4*10^6"]


def _spec_gens():
    import importlib.util
    p = os.path.join(common.ROOT, "tools", "specs", "fee.py")
    spec = importlib.util.spec_from_file_location("specs_fee_for_c18", p)
    m = importlib.util.module_from_spec(spec)
    spec.loader.exec_module(m)
    return m


G = _spec_gens()


# ------------------------------------------------------------------ implementation side
def _rate(r: int) -> FeeRate:
    return FeeRate(sats_per_kvbyte=r)


def impl(line: str) -> str:
    t = line.split(" ")
    op = t[0]
    if op == "fee.fee_from_vsize":
        return common.call_impl(lambda: fee_from_vsize(int(t[1]), _rate(int(t[2]))))
    if op == "fee.package_fee":
        return common.call_impl(lambda: package_fee(int(t[1]), _rate(int(t[2])), ancestor_vsize=int(t[3]),
                                                    ancestor_fee=int(t[4])))
    if op == "fee.dust":
        return common.call_impl(lambda: dust_threshold(unhx(t[1]), _rate(int(t[2]))))
    if op == "fee.core_dust":
        # the *model's* transcription of Core against the real dust_threshold (non-negative rates)
        return common.call_impl(lambda: dust_threshold(unhx(t[1]), _rate(int(t[2]))))
    if op == "fee.is_segwit":
        return common.call_impl(lambda: is_segwit(unhx(t[1])))
    return "bad-op"


# ------------------------------------------------------------------ property oracles (real code only)
def _ceil_div(a: int, b: int) -> int:
    return -((-a) // b)


def _o_fee_ceiling(w):
    v, r = w["v"], w["r"]
    f = fee_from_vsize(v, _rate(r))
    ok = isinstance(f, int) and not isinstance(f, bool) and f * 1000 >= r * v > (f - 1) * 1000 and f >= 0
    return ok, f"fee_from_vsize({v}, {r} sat/kvB) = {f}"


def _o_fee_monotone(w):
    f1 = fee_from_vsize(w["v"], _rate(w["r"]))
    f2 = fee_from_vsize(w["v"] + w["dv"], _rate(w["r"] + w["dr"]))
    return f1 <= f2, f"fee({w['v']},{w['r']})={f1} fee({w['v'] + w['dv']},{w['r'] + w['dr']})={f2}"


def _o_package(w):
    v, r, av, af = w["v"], w["r"], w["av"], w["af"]
    p = package_fee(v, _rate(r), ancestor_vsize=av, ancestor_fee=af)
    own = fee_from_vsize(v, _rate(r))
    pkg = fee_from_vsize(v + av, _rate(r))
    ok = p >= own and p + af >= pkg and (p == own or p + af == pkg)
    if av == 0 and af == 0:
        ok = ok and p == own
    return ok, f"package_fee({v},{r},{av},{af})={p} own={own} package={pkg}"


def core_dust_reference(spk: bytes, rate: int) -> int:
    """Bitcoin Core policy.cpp GetDustThreshold, transcribed independently of btclib and of the Lean model."""
    if (len(spk) > 0 and spk[0] == 0x6A) or len(spk) > 10000:
        return 0
    n = len(spk)
    cs = 1 if n < 253 else 3 if n <= 0xFFFF else 5 if n <= 0xFFFFFFFF else 9
    size = 8 + cs + n
    wit = (4 <= n <= 42 and (spk[0] == 0 or 0x51 <= spk[0] <= 0x60) and spk[1] + 2 == n)
    size += (32 + 4 + 1 + (107 // 4) + 4) if wit else (32 + 4 + 1 + 107 + 4)
    return _ceil_div(rate * size, 1000)


def _o_dust_core(w):
    spk, r = bytes.fromhex(w["spk"]), w["r"]
    d = dust_threshold(spk, _rate(r))
    ref = core_dust_reference(spk, r)
    return d == ref, f"dust_threshold({w['spk'][:80]}…, {r}) = {d}, Core's formula gives {ref}"


def _o_fee_glue(w):
    """public entry points refuse non-integers with the library's TypeError and never answer a non-int."""
    kind = w["kind"]
    bad = {"bool": True, "float": 141.5, "str": "141", "none": None, "decimal": Decimal(141)}[w["bad"]]
    try:
        if kind == "vsize":
            out = fee_from_vsize(bad, _rate(1000))
        elif kind == "rate":
            out = FeeRate(sats_per_kvbyte=bad)
        elif kind == "ancestor_vsize":
            out = package_fee(100, _rate(1000), ancestor_vsize=bad)
        elif kind == "ancestor_fee":
            if w["bad"] in ("none", "decimal", "str"):
                # valid_sats_amount reads these as the integer they spell: must then be an int answer
                out = package_fee(100, _rate(1000), ancestor_vsize=10, ancestor_fee=bad)
                return isinstance(out, int) and not isinstance(out, bool), f"{kind}={bad!r} -> {out!r}"
            out = package_fee(100, _rate(1000), ancestor_vsize=10, ancestor_fee=bad)
        elif kind == "positional_rate":
            out = FeeRate(3000)  # type: ignore[misc]
        else:
            return False, "unknown kind"
    except Exception as e:  # noqa: BLE001
        c = common.err_class(e)
        if kind == "positional_rate":
            return isinstance(e, TypeError), f"FeeRate(3000) raised {type(e).__name__}"
        return c == "type", f"{kind}={bad!r} raised {type(e).__name__} ({c})"
    return False, f"{kind}={bad!r} accepted: {out!r}"


ORACLES = {
    "fee.ceiling": _o_fee_ceiling,
    "fee.monotone": _o_fee_monotone,
    "fee.package": _o_package,
    "fee.dust_core": _o_dust_core,
    "fee.glue": _o_fee_glue,
}


# ------------------------------------------------------------------ run
def _run_fee(ctx):
    rng = ctx.rng
    lines = []
    for _ in range(ctx.n(1500)):
        v, r = G._gen_fee(rng)
        if rng.random() < 0.1:
            r = -r - 1
        lines.append(f"fee.fee_from_vsize {v} {r}")
        if v >= 0 and r >= 0:
            ctx.check("fee.ceiling", {"v": v, "r": r})
            ctx.check("fee.monotone", {"v": v, "r": r, "dv": G._nat(rng, 20), "dr": G._nat(rng, 20)})
    # the residues where a truncating or off-by-one rounding shows: rate*vsize = k*1000 + {0, 1, 999}
    for k in range(ctx.n(200)):
        r = rng.choice([1, 7, 999, 1000, 1001, 1500, 12345])
        target = rng.randrange(0, 10**7) * 1000 + rng.choice([0, 1, 999, 500])
        v = target // r
        for vv in (v, v + 1):
            lines.append(f"fee.fee_from_vsize {vv} {r}")
            ctx.check("fee.ceiling", {"v": vv, "r": r})
    ctx.stream("fee.fee_from_vsize", lines)

    lines = []
    for _ in range(ctx.n(1200)):
        v, av, af, r = G._gen_package(rng)
        if rng.random() < 0.05:
            r = -r - 1
        if rng.random() < 0.3 and v >= 0 and av >= 0 and r >= 0:
            # ancestors paying about what the rate asks: both sides of the max
            af = max(0, fee_from_vsize(av, _rate(r)) + rng.choice([-2, -1, 0, 1, 2, 50]))
            af = min(af, 2_100_000_000_000_000)
        lines.append(f"fee.package_fee {v} {r} {av} {af}")
        if v >= 0 and av >= 0 and r >= 0 and 0 <= af <= 2_100_000_000_000_000:
            ctx.check("fee.package", {"v": v, "r": r, "av": av, "af": af})
    ctx.stream("fee.package_fee", lines)

    lines, core_lines, seg_lines = [], [], []
    for _ in range(ctx.n(1500)):
        spk = G.rand_script(rng)
        r = rng.choice([3000, 3000, 0, 1, 1000, 999, G._nat(rng, 30)])
        if rng.random() < 0.04:
            r = -r - 1
        lines.append(f"fee.dust {hx(spk)} {r}")
        seg_lines.append(f"fee.is_segwit {hx(spk)}")
        if r >= 0:
            core_lines.append(f"fee.core_dust {hx(spk)} {r}")
            ctx.check("fee.dust_core", {"spk": spk.hex(), "r": r})
            ctx.count("dust.class", "segwit" if is_segwit(spk) else "op_return" if spk[:1] == b"\x6a"
                      else "oversize" if len(spk) > 10000 else "legacy")
    ctx.stream("fee.dust", lines)
    ctx.stream("fee.core_dust", core_lines)
    ctx.stream("fee.is_segwit", seg_lines)
    for cls in ("segwit", "op_return", "oversize", "legacy"):
        if not ctx.hist.get("dust.class", {}).get(cls):
            raise common.HarnessError(f"dust generator left class {cls} empty")

    for kind in ("vsize", "rate", "ancestor_vsize", "ancestor_fee"):
        for bad in ("bool", "float", "str", "none", "decimal"):
            if kind == "ancestor_fee" and bad == "str":
                continue
            ctx.check("fee.glue", {"kind": kind, "bad": bad})
    ctx.check("fee.glue", {"kind": "positional_rate", "bad": "bool"})


def run(ctx):
    _run_fee(ctx)
