"""C18 — sizes, fees and amounts are exact integer accounting (DESIGN §3 C18)."""
from __future__ import annotations

import os
import sys
from decimal import Decimal, localcontext
from fractions import Fraction

from btclib import fee as fee_mod
from btclib.amount import btc_from_sats, sats_from_btc, valid_sats_amount
from btclib.fee import FeeRate, dust_threshold, fee_from_vsize, package_fee
from btclib.psbt.psbt import Psbt, prevouts
from btclib.psbt.psbt_in import PsbtIn
from btclib.psbt.psbt_out import PsbtOut
from btclib.script import ScriptPubKey
from btclib.script.script_pub_key import is_segwit
from btclib.tx import OutPoint, Tx, TxIn, TxOut
from btclib.tx_builder import build_psbt

from . import common
from .common import hx, unhx

sys.path.insert(0, os.path.join(common.ROOT, "tools"))

PROP = "C18"
EXE = "drv_c18"
GEN_MODULES = ["Fee"]
RULE = ("op lines come from one seeded PRNG: boundary-heavy integers (multiples of 1000 ± 1, CompactSize and 2^53 "
        "edges), script shapes around every branch of dust_threshold/is_segwit, structure-aware transactions, "
        "blocks and PSBTs; a case is non-trivial when the implementation did not refuse it at the first check; "
        "distinct = distinct (stream, op line / oracle witness)")
TRUSTED = [
    "Model/Common/PyFloat.lean: IEEE-754 description of CPython's int/int true division and math.ceil "
    "(validated by gen.Fee.*_vsize around 2^53 and 2^1024 on every run)",
    "Btc.C18.Core.* is a hand transcription of Bitcoin Core's GetDustThreshold / IsUnspendable / IsWitnessProgram",
    "hand-written entry points (FeeRate guard, is_segwit, funding decision, Decimal model, psbt_size model, sig_op_count) "
    "are tied by correspondence only",
    "T4 compares the estimate with C10's finalizer MODEL (Model/C10/Spend.lean, tied to btclib by C10's streams); "
    "type_and_payload facts and key sizes are hypotheses of the per-template theorems",
    "taproot script path: btclib ships no sizer and finishes only the key path and a lone single-key leaf; multi_a leaves "
    "are signed, never finalized (theorem on C10's finalizer model + oracle psbt.estimate_tapleaf on the real code)",
    "Block/Tx size sums: the items' own sizes are integer parameters of the translated _serialized_size functions "
    "(read off real objects by the size.block stream)",
]
ASSUMPTIONS = ["vsize = ceil(weight/4) is exact only for weight < 2^53 (float division in the source); "
               "consensus weights are < 4*10^6"]


def _spec_gens():
    import importlib.util
    p = os.path.join(common.ROOT, "tools", "specs", "fee.py")
    spec = importlib.util.spec_from_file_location("specs_fee_for_c18", p)
    m = importlib.util.module_from_spec(spec)
    spec.loader.exec_module(m)
    return m


G = _spec_gens()


# ------------------------------------------------------------------ implementation side
def _rate(r: int) -> FeeRate:
    return FeeRate(sats_per_kvbyte=r)


KEY = "02c6047f9441ed7d6d3045406e95c07cd85c778e4b8cef3ca7abac09b95c709ee5"
KEY2 = "02f9308a019258c31049344f85f89d5229b531c845836f99b08601f113bce036f9"
PAY = ScriptPubKey.p2wpkh(KEY)


def _fund_input(kind: str, value: int, i: int) -> PsbtIn:
    """one spendable input map per script kind: w p2wpkh, t p2tr, s p2sh-p2wpkh, p p2pkh, u undetermined type."""
    tx_id = bytes([i + 1]) * 32
    if kind == "w":
        return PsbtIn(witness_utxo=TxOut(value, PAY), previous_tx_id=tx_id, output_index=0)
    if kind == "t":
        return PsbtIn(witness_utxo=TxOut(value, ScriptPubKey.p2tr(KEY)), previous_tx_id=tx_id, output_index=0)
    if kind == "s":
        rs = PAY.script
        return PsbtIn(witness_utxo=TxOut(value, ScriptPubKey.p2sh(rs)), previous_tx_id=tx_id, output_index=0,
                      redeem_script=rs)
    if kind == "p":
        prev = Tx(vin=[TxIn(OutPoint(tx_id, 0))], vout=[TxOut(value, ScriptPubKey.p2pkh(KEY))])
        return PsbtIn(non_witness_utxo=prev, previous_tx_id=prev.id, output_index=0)
    if kind == "u":
        return PsbtIn(witness_utxo=TxOut(value, b"\x51\x87"), previous_tx_id=tx_id, output_index=0)
    raise ValueError(kind)


def _csv(s):
    return [] if s == "_" else s.split(",")


class _Estimator:
    """Observation / injection point on `Psbt.vsize_estimate` for the duration of one build_psbt call.

    mode `real`: the real estimator runs and what it answered per psbt shape is recorded;
    mode `fake`: the estimator is replaced by the op line's numbers (the theorems hold for any estimator)."""

    def __init__(self, mode, n_out, e1, e2):
        self.mode, self.n_out, self.e = mode, n_out, {n_out + 1: e1, n_out: e2}
        self.seen = {}

    def __enter__(self):
        self.orig = Psbt.vsize_estimate
        me = self

        def patched(psbt, sizer=None):
            n = len(psbt.outputs)
            if me.mode == "real":
                try:
                    v = me.orig(psbt, sizer)
                except Exception as e:  # noqa: BLE001
                    me.seen[n] = "E" if common.err_class(e) == "value" else "X"
                    raise
                me.seen[n] = str(v)
                return v
            psbt.assert_valid()
            tok = me.e.get(n, "NA")
            me.seen[n] = tok
            if tok == "E":
                from btclib.exceptions import BTClibValueError
                raise BTClibValueError("injected: no estimate")
            return int(tok)
        Psbt.vsize_estimate = patched
        return self

    def __exit__(self, *a):
        Psbt.vsize_estimate = self.orig


def _funding_call(t):
    """-> (canonical line, FundedPsbt | None, estimator observations)"""
    mode, ins, outs, rate, change, dust_rate, e1, e2 = t[1:9]
    inputs = [_fund_input(x[0], int(x[1:]), i) for i, x in enumerate(_csv(ins))]
    outputs = [TxOut(int(v), PAY) for v in _csv(outs)]
    ch = None if change == "None" else unhx(change)
    with _Estimator(mode, len(outputs), e1, e2) as est:
        try:
            built = build_psbt(inputs, outputs, _rate(int(rate)), ch, dust_fee_rate=_rate(int(dust_rate)))
        except Exception as e:  # noqa: BLE001
            c = common.err_class(e)
            return "err " + (c if not c.startswith("foreign") else "foreign"), None, est
    if mode == "real":
        # the numbers the model was given must be the ones the real estimator answered
        for n, tok in ((len(outputs) + 1, e1), (len(outputs), e2)):
            if n in est.seen and est.seen[n] != tok:
                return f"err estimator-mismatch {n}:{est.seen[n]}!={tok}", built, est
    if built.change_index is not None and built.change_index != len(outputs):
        return f"err change-index {built.change_index}", built, est
    return f"ok {built.fee} {built.change if built.change_index is not None else 'None'}", built, est


def _dec(toks) -> Decimal:
    if toks[0] == "N":
        return Decimal("NaN")
    if toks[0] == "I":
        return Decimal("-Infinity" if toks[1] == "1" else "Infinity")
    return Decimal((int(toks[1]), tuple(int(c) for c in toks[2]), int(toks[3])))


def _dec_tokens(d: Decimal) -> str:
    if d.is_nan():
        return "N"
    if d.is_infinite():
        return f"I {1 if d.is_signed() else 0}"
    sign, digits, exp = d.as_tuple()
    return f"F {sign} {int(''.join(map(str, digits)) or '0')} {exp}"


def _render_dec(d: Decimal) -> str:
    sign, digits, exp = d.as_tuple()
    if sign and any(digits):
        return f"negative {d}"
    return f"{int(''.join(map(str, digits)))} {exp}"


def _hexcsv(tok):
    return [] if tok == "-" else [unhx(x) for x in tok.split(",")]


def _psize_input(t):
    """the real `estimated_input_sizes` on a PsbtIn rebuilt from the op line's fields."""
    from btclib.bip32 import BIP32KeyOrigin
    from btclib.psbt.psbt_size import estimated_input_sizes
    from btclib.script import Witness
    spk, redeem, ws, keys, sht, leaf, fss, fwit, sizer = t[1:10]
    hd = {} if keys == "-" else {unhx(kv.split(":")[0]): BIP32KeyOrigin("deadbeef", f"m/{i}")
                                 for i, kv in enumerate(keys.split(","))}
    psbt_in = PsbtIn(
        witness_utxo=None if spk == "None" else TxOut(1000, unhx(spk), check_validity=False),
        redeem_script=unhx(redeem), witness_script=unhx(ws), hd_key_paths=hd,
        sig_hash_type=None if sht == "None" else int(sht),
        taproot_leaf_scripts={b"\xc0" + bytes(32): (b"\x51", 0xC0)} if leaf == "1" else None,
        final_script_sig=unhx(fss), final_script_witness=Witness(_hexcsv(fwit), check_validity=False),
        check_validity=False)
    tx_in = TxIn(OutPoint(b"\x01" * 32, 0), check_validity=False)
    answer = None if sizer == "None" else ([] if sizer == "_" else [int(x) for x in sizer.split(",")])
    try:
        n, w = estimated_input_sizes(psbt_in, tx_in, sizer=(lambda *_: answer) if sizer != "None" else None)
    except Exception as e:  # noqa: BLE001
        c = common.err_class(e)
        return "err " + (c if not c.startswith("foreign") else "foreign")
    return f"ok {n} " + (",".join(map(str, w)) or "_")


def _psize_weight(t):
    """`Tx.size` / `Tx.weight` of the placeholder transaction `Psbt.weight_estimate` builds from such sizes."""
    from btclib.script import Witness
    ins = [] if t[1] == "_" else t[1].split(";")
    vin = []
    for i, tok in enumerate(ins):
        a, w = tok.split(":")
        stack = [] if w == "-" else [bytes(int(x)) for x in w.split("/")]
        vin.append(TxIn(OutPoint(bytes([i % 250 + 1]) * 32, i), bytes(int(a)), 0xFFFFFFFF, Witness(stack, check_validity=False),
                        check_validity=False))
    vout = [TxOut(1, bytes([0x51]) * int(x), check_validity=False) for x in ([] if t[2] == "_" else t[2].split(","))]
    tx = Tx(2, 0, vin, vout, check_validity=False)
    return f"ok {tx.size} {tx.weight}"


def impl(line: str) -> str:
    t = line.split(" ")
    op = t[0]
    if op == "fee.fee_from_vsize":
        return common.call_impl(lambda: fee_from_vsize(int(t[1]), _rate(int(t[2]))))
    if op == "fee.package_fee":
        return common.call_impl(lambda: package_fee(int(t[1]), _rate(int(t[2])), ancestor_vsize=int(t[3]),
                                                    ancestor_fee=int(t[4])))
    if op == "fee.dust":
        return common.call_impl(lambda: dust_threshold(unhx(t[1]), _rate(int(t[2]))))
    if op == "fee.core_dust":
        # the *model's* transcription of Core against the real dust_threshold (non-negative rates)
        return common.call_impl(lambda: dust_threshold(unhx(t[1]), _rate(int(t[2]))))
    if op == "fee.is_segwit":
        return common.call_impl(lambda: is_segwit(unhx(t[1])))
    if op == "funding.build":
        return _funding_call(t)[0]
    if op == "psize.input":
        return _psize_input(t)
    if op == "psize.weight":
        return _psize_weight(t)
    if op == "size.block":
        return common.call_impl(lambda: _size_block_impl(t), render=lambda v: v[3:])
    if op == "sigops.count":
        from btclib.script.sig_ops import sig_op_count
        return common.call_impl(lambda: sig_op_count(unhx(t[1])))
    if op == "der.len":
        from btclib.ecc import dsa
        return common.call_impl(lambda: len(dsa.Sig(int(t[1]), int(t[2]), check_validity=False).serialize(
            check_validity=False)))
    if op == "amount.sats_from_btc":
        return common.call_impl(lambda: sats_from_btc(_dec(t[1:])))
    if op == "amount.btc_from_sats":
        return common.call_impl(lambda: btc_from_sats(int(t[1])), render=_render_dec)
    if op == "feerate.from_vb":
        return common.call_impl(lambda: FeeRate.from_sats_per_vbyte(_dec(t[1:])).sats_per_kvbyte)
    if op == "feerate.from_btc_kvb":
        return common.call_impl(lambda: FeeRate.from_btc_per_kvbyte(_dec(t[1:])).sats_per_kvbyte)
    if op == "feerate.vb":
        return common.call_impl(lambda: _rate(int(t[1])).sats_per_vbyte, render=_render_dec)
    return "bad-op"


# ------------------------------------------------------------------ property oracles (real code only)
def _ceil_div(a: int, b: int) -> int:
    return -((-a) // b)


def _o_fee_ceiling(w):
    v, r = w["v"], w["r"]
    f = fee_from_vsize(v, _rate(r))
    ok = isinstance(f, int) and not isinstance(f, bool) and f * 1000 >= r * v > (f - 1) * 1000 and f >= 0
    return ok, f"fee_from_vsize({v}, {r} sat/kvB) = {f}"


def _o_fee_monotone(w):
    f1 = fee_from_vsize(w["v"], _rate(w["r"]))
    f2 = fee_from_vsize(w["v"] + w["dv"], _rate(w["r"] + w["dr"]))
    return f1 <= f2, f"fee({w['v']},{w['r']})={f1} fee({w['v'] + w['dv']},{w['r'] + w['dr']})={f2}"


def _o_package(w):
    v, r, av, af = w["v"], w["r"], w["av"], w["af"]
    p = package_fee(v, _rate(r), ancestor_vsize=av, ancestor_fee=af)
    own = fee_from_vsize(v, _rate(r))
    pkg = fee_from_vsize(v + av, _rate(r))
    ok = p >= own and p + af >= pkg and (p == own or p + af == pkg)
    if av == 0 and af == 0:
        ok = ok and p == own
    return ok, f"package_fee({v},{r},{av},{af})={p} own={own} package={pkg}"


def core_dust_reference(spk: bytes, rate: int) -> int:
    """Bitcoin Core policy.cpp GetDustThreshold, transcribed independently of btclib and of the Lean model."""
    if (len(spk) > 0 and spk[0] == 0x6A) or len(spk) > 10000:
        return 0
    n = len(spk)
    cs = 1 if n < 253 else 3 if n <= 0xFFFF else 5 if n <= 0xFFFFFFFF else 9
    size = 8 + cs + n
    wit = (4 <= n <= 42 and (spk[0] == 0 or 0x51 <= spk[0] <= 0x60) and spk[1] + 2 == n)
    size += (32 + 4 + 1 + (107 // 4) + 4) if wit else (32 + 4 + 1 + 107 + 4)
    return _ceil_div(rate * size, 1000)


def _o_dust_core(w):
    spk, r = bytes.fromhex(w["spk"]), w["r"]
    d = dust_threshold(spk, _rate(r))
    ref = core_dust_reference(spk, r)
    return d == ref, f"dust_threshold({w['spk'][:80]}…, {r}) = {d}, Core's formula gives {ref}"


def _o_fee_glue(w):
    """public entry points refuse non-integers with the library's TypeError and never answer a non-int."""
    kind = w["kind"]
    bad = {"bool": True, "float": 141.5, "str": "141", "none": None, "decimal": Decimal(141)}[w["bad"]]
    try:
        if kind == "vsize":
            out = fee_from_vsize(bad, _rate(1000))
        elif kind == "rate":
            out = FeeRate(sats_per_kvbyte=bad)
        elif kind == "ancestor_vsize":
            out = package_fee(100, _rate(1000), ancestor_vsize=bad)
        elif kind == "ancestor_fee":
            if w["bad"] in ("none", "decimal", "str"):
                # valid_sats_amount reads these as the integer they spell: must then be an int answer
                out = package_fee(100, _rate(1000), ancestor_vsize=10, ancestor_fee=bad)
                return isinstance(out, int) and not isinstance(out, bool), f"{kind}={bad!r} -> {out!r}"
            out = package_fee(100, _rate(1000), ancestor_vsize=10, ancestor_fee=bad)
        elif kind == "positional_rate":
            out = FeeRate(3000)  # type: ignore[misc]
        else:
            return False, "unknown kind"
    except Exception as e:  # noqa: BLE001
        c = common.err_class(e)
        if kind == "positional_rate":
            return isinstance(e, TypeError), f"FeeRate(3000) raised {type(e).__name__}"
        return c == "type", f"{kind}={bad!r} raised {type(e).__name__} ({c})"
    return False, f"{kind}={bad!r} accepted: {out!r}"


def _o_funding(w):
    """FundedPsbt invariants read off the real objects: conservation, rate paid on the estimate of the
    psbt returned, no dust change, change only where asked, refusal only when it must."""
    t = w["line"].split(" ")
    mode, ins, outs, rate, change, dust_rate = t[1:7]
    line, built, est = _funding_call(t)
    total_in = sum(int(x[1:]) for x in _csv(ins))
    total_out = sum(int(v) for v in _csv(outs))
    n_out = len(_csv(outs))
    r, dr = _rate(int(rate)), _rate(int(dust_rate))
    if built is None:
        if not line.startswith("err value"):
            return False, f"build_psbt left through {line}"
        if not _csv(ins):
            return True, "no inputs"
        if total_out > 2_100_000_000_000_000 or "E" in est.seen.values() or "E" in (t[7], t[8]):
            return True, "refused upstream of the decision"
        # a refusal must be one of: nothing paid, inputs short of outputs + owed, change above MAX_MONEY
        known = lambda tok: tok if tok not in ("NA", "E", "X") else None  # noqa: E731
        last = est.seen.get(n_out, known(t[8]))
        first_ = est.seen.get(n_out + 1, known(t[7]))
        if n_out == 0 and (change == "None" or first_ is None or int(first_) < 0 or
                           total_in - total_out - fee_from_vsize(int(first_), r) < dust_threshold(unhx(change), dr)):
            return True, "no outputs"
        if last is not None and int(last) >= 0 and total_in - total_out < fee_from_vsize(int(last), r):
            return True, "inputs do not cover"
        first = est.seen.get(n_out + 1, known(t[7]))
        if first is not None and int(first) < 0 or last is not None and int(last) < 0:
            return True, "negative injected estimate refused by fee_from_vsize"
        if first is not None and change != "None":
            ch = total_in - total_out - fee_from_vsize(int(first), r)
            if ch >= dust_threshold(unhx(change), dr) and total_out + ch > 2_100_000_000_000_000:
                return True, "change above MAX_MONEY"
        return False, f"refused without cause: {w['line'][:200]} seen={est.seen}"
    psbt = built.psbt
    vout = [o.value for o in psbt.tx.vout]
    spent = sum(p.value for p in prevouts(psbt))
    ok = spent == total_in == sum(vout) + built.fee
    ok = ok and vout[:n_out] == [int(v) for v in _csv(outs)]
    if mode == "real":
        ok = ok and built.fee >= fee_from_vsize(psbt.vsize_estimate(), r)
    else:
        injected = {n_out + 1: t[7], n_out: t[8]}
        ok = ok and built.fee >= fee_from_vsize(int(est.seen.get(len(psbt.outputs), injected[len(psbt.outputs)])), r)
    if built.change_index is None:
        ok = ok and len(vout) == n_out and built.change == 0
    else:
        ok = ok and change != "None" and len(vout) == n_out + 1 and built.change_index == n_out
        ok = ok and vout[-1] == built.change >= dust_threshold(unhx(change), dr)
        ok = ok and psbt.tx.vout[-1].script_pub_key.script == unhx(change)
    return ok, f"{line} vout={vout} in={total_in} seen={est.seen}"


MAX_SATS = 2_100_000_000_000_000

# ---------------------------------------------------------------- sizes of real transactions and blocks
def _rand_tx(rng, shape):
    """a transaction whose counts / script lengths sit on the CompactSize boundaries named by `shape`."""
    from btclib.script import Witness
    n_in, n_out, sig_len, spk_len, wit = shape
    segwit = wit is not None
    vin = []
    for i in range(n_in):
        w = Witness()
        if segwit and (i == 0 or rng.random() < 0.5):
            w = Witness([bytes(k) for k in wit])
        vin.append(TxIn(OutPoint(rng.getrandbits(256).to_bytes(32, "big"), rng.randrange(4)),
                        bytes([0x51]) * (sig_len if i == 0 else rng.choice([0, 1, 107])), 0xFFFFFFFF, w,
                        check_validity=False))
    vout = [TxOut(rng.randrange(0, 10**8), bytes([0x51]) * (spk_len if j == 0 else rng.choice([0, 22, 25, 34])),
                  check_validity=False) for j in range(n_out)]
    return Tx(rng.choice([1, 2]), rng.choice([0, 500000]), vin, vout, check_validity=False)


def _tx_shape(w):
    return (w["n_in"], w["n_out"], w["sig_len"], w["spk_len"], w["wit"])


def _sizes_ok(obj, what):
    total = obj.serialize(include_witness=True, check_validity=False)
    stripped = obj.serialize(include_witness=False, check_validity=False)
    weight = 3 * len(stripped) + len(total)
    ok = (obj.size == len(total) and obj._serialized_size(include_witness=False) == len(stripped)
          and obj.weight == weight and obj.vsize == -(-weight // 4)
          and all(isinstance(v, int) and not isinstance(v, bool) for v in (obj.size, obj.weight, obj.vsize)))
    return ok, (f"{what}: size={obj.size} len={len(total)} stripped={len(stripped)} weight={obj.weight} "
                f"(3*stripped+total={weight}) vsize={obj.vsize}")


def _o_size_tx(w):
    import random
    tx = _rand_tx(random.Random(w["seed"]), _tx_shape(w))
    ok, d = _sizes_ok(tx, f"tx {_tx_shape(w)}")
    back = Tx.parse(tx.serialize(include_witness=True, check_validity=False), check_validity=False)
    return ok and back.size == tx.size and back.weight == tx.weight, d


def _block_from(w):
    import random
    from btclib.block import Block
    rng = random.Random(w["seed"])
    base = _BLOCK170()
    txs = [_rand_tx(rng, (1, 1, rng.choice([0, 72, 107]), 25, [1, 33] if rng.random() < 0.4 else None))
           for _ in range(w["n_tx"] - 1)]
    big = _rand_tx(rng, (w["n_in"], 2, 107, 25, [72, 33] if w["segwit"] else None))
    return Block(base.header, [base.transactions[0], *txs[:w["n_tx"] - 1], big][:max(1, w["n_tx"])],
                 check_validity=False)


def _o_size_block(w):
    blk = _block_from(w)
    ok, d = _sizes_ok(blk, f"block n_tx={len(blk.transactions)}")
    hdr = 80
    from btclib import var_int
    n = len(var_int.serialize(len(blk.transactions)))
    tx_sum = sum(t.size for t in blk.transactions)
    ok = ok and blk.header._serialized_size() == hdr == len(blk.header.serialize(check_validity=False))
    ok = ok and blk.size == hdr + n + tx_sum
    ok = ok and blk.stripped_size == len(blk.serialize(include_witness=False, check_validity=False))
    # block_weight_is_sum on the real objects: the transactions' weights plus four times (header + count)
    ok = ok and blk.weight == sum(t.weight for t in blk.transactions) + 4 * (hdr + n)
    return ok, d


def _tx_parts(tx):
    """the numbers `Tx._serialized_size` reads, taken from the real objects"""
    return ":".join(str(int(v)) for v in (
        tx.is_segwit, len(tx.vin), len(tx.vout), sum(i._serialized_size() for i in tx.vin),
        sum(o._serialized_size() for o in tx.vout), sum(i.script_witness._serialized_size() for i in tx.vin)))


def _size_block_line(w):
    blk = _block_from(w)
    return (f"size.block {w['seed']} {w['n_tx']} {w['n_in']} {int(w['segwit'])} {blk.header._serialized_size()} "
            + ";".join(_tx_parts(t) for t in blk.transactions))


def _size_block_impl(t):
    blk = _block_from({"seed": int(t[1]), "n_tx": int(t[2]), "n_in": int(t[3]), "segwit": t[4] == "1"})
    return (f"ok {blk.size} {blk.stripped_size} {blk.weight} {sum(x.weight for x in blk.transactions)} "
            f"{blk.transactions[-1].size} {blk.transactions[-1].weight}")


_B170 = []


def _BLOCK170():
    if not _B170:
        from btclib.block import Block
        with open("/repo/tests/block/_data/block_170.bin", "rb") as f:
            _B170.append(Block.parse(f.read(), check_validity=False))
    return _B170[0]


# ---------------------------------------------------------------- estimate >= actual, on signed transactions
XPRV_ROOT = ("xprv9s21ZrQH143K3GJpoapnV8SFfukcVBSfeCficPSGfubmSFDxo1kuHnLisriDvSnRR"
             "uL2Qrg5ggqHKNVpxR86QEC8w35uxmGoggxtQTPvfUu")
TEMPLATES = ["pkh(@1)", "wpkh(@2)", "sh(wpkh(@3))", "tr(@4)", "pk(@1)", "multi(2,@1,@2)", "multi(1,@1,@2,@3)",
             "sh(multi(2,@1,@2,@3))", "sh(multi(3,@1,@2,@3))", "wsh(multi(2,@1,@2,@3))", "wsh(multi(1,@3,@2))",
             "sh(wsh(multi(1,@1,@2)))", "sh(wsh(multi(2,@1,@2,@3)))", "wsh(pk(@1))", "sh(pk(@1))", "sh(wsh(pk(@2)))",
             "wsh(pkh(@1))", "sh(pkh(@1))"]
_SIGNER = {}


def _signer():
    if not _SIGNER:
        from btclib.psbt_signer import SoftwareSigner, export_account
        sg = SoftwareSigner(XPRV_ROOT)
        keys = {}
        for tag, purpose in (("@1", 44), ("@2", 84), ("@3", 49), ("@4", 86)):
            txt = str(export_account(sg, f"m/{purpose}h/0h/0h")[0])
            keys[tag] = txt[txt.index("["):txt.rindex("*") + 1]
        _SIGNER.update(signer=sg, keys=keys, desc={})
    return _SIGNER


def _descriptor(tmpl):
    from btclib.descriptors import parse
    S = _signer()
    if tmpl not in S["desc"]:
        txt = tmpl
        for k, v in S["keys"].items():
            txt = txt.replace(k, v)
        S["desc"][tmpl] = parse(txt)
    return S["desc"][tmpl]


def _pad_sig(e: bytes) -> bytes:
    if 9 <= len(e) <= 72 and e[0] == 0x30 and e[1] == len(e) - 3:
        return e[:-1] + b"\x00" * (72 - len(e)) + e[-1:]
    return e


def _with_worst_case_sigs(tx):
    from btclib.script import Witness, parse, serialize
    vin = []
    for tx_in in tx.vin:
        cmds = []
        for c in parse(tx_in.script_sig):
            if isinstance(c, str) and not c.startswith("OP_"):
                c = _pad_sig(bytes.fromhex(c))
            cmds.append(c)
        vin.append(TxIn(tx_in.prev_out, serialize(cmds), tx_in.sequence,
                        Witness([_pad_sig(e) for e in tx_in.script_witness.stack]), check_validity=False))
    return Tx(tx.version, tx.lock_time, vin, tx.vout, check_validity=False)


# ---- raw-key templates: every signable shape × key compression (the library's xpub signer only derives compressed keys)
RAW_SHAPES = ["pkh", "sh(pkh)", "wsh(pkh)", "sh(wsh(pkh))", "pk", "sh(pk)", "wsh(pk)", "sh(wsh(pk))", "multi23",
              "sh(multi23)", "wsh(multi23)", "sh(wsh(multi12))", "multi11", "wsh(multi33)", "wpkh", "sh(wpkh)"]
# every threshold OP_1 … OP_16 the p2ms shape admits (`m_of_n` shapes are parsed, not listed): the estimate reads m
# off the op code, and OP_16 = 0x60 is the one whose low nibble is not m
MOFN_SHAPES = [f"wsh({m}of16)" for m in range(1, 17)] + ["wsh(15of15)", "wsh(16of16)", "sh(wsh(16of16))", "sh(wsh(15of16))",
                                                          "16of16", "sh(15of15)", "sh(1of15)", "wsh(1of1)", "wsh(8of9)"]
RAW_SHAPES_ALL = RAW_SHAPES + MOFN_SHAPES


def _raw_prv(i):
    return 0x1111 + 7919 * i


def _raw_pub(i, comp):
    from btclib.curves import mult
    from btclib.curves.sec_point import bytes_from_point
    return bytes_from_point(mult(_raw_prv(i)), compressed=comp)


class _RawKeys:
    """a `KeyManager` holding the private key of every `_raw_pub(i, ·)` for i < 64, in both SEC spellings"""
    _table = {}

    def __init__(self):
        if not self._table:
            for i in range(64):
                for c in (True, False):
                    self._table[_raw_pub(i, c)] = _raw_prv(i)

    def sign_ecdsa(self, pub_key, origin, msg_hash):
        from btclib.ecc import dsa
        q = self._table.get(bytes(pub_key))
        return None if q is None else dsa.sign_(msg_hash, q).serialize()

    def sign_schnorr(self, *a):
        return None

    def sign_schnorr_script_path(self, *a):
        return None


def _raw_input(shape, comp, k0):
    """(script_pub_key, redeem_script, witness_script, keys of the script) for keys k0, k0+1, k0+2"""
    from btclib.script import serialize as ser
    k = [_raw_pub((k0 + j) % 64, comp) for j in range(3)]
    ms = lambda m, ks: ser([f"OP_{m}", *ks, f"OP_{len(ks)}", "OP_CHECKMULTISIG"])  # noqa: E731
    wsh = lambda sc: ScriptPubKey.p2wsh(sc).script  # noqa: E731
    sh = lambda sc: ScriptPubKey.p2sh(sc).script  # noqa: E731
    if "of" in shape:
        import re
        m, n = map(int, re.search(r"(\d+)of(\d+)", shape).groups())
        ks = [_raw_pub((k0 + j) % 64, comp) for j in range(n)]
        sc = ms(m, ks)
        if shape.startswith("sh(wsh("):
            return (sh(wsh(sc)), wsh(sc), sc, ks)
        if shape.startswith("wsh("):
            return (wsh(sc), b"", sc, ks)
        if shape.startswith("sh("):
            return (sh(sc), sc, b"", ks)
        return (sc, b"", b"", ks)
    pkh, pk = ScriptPubKey.p2pkh(k[0]).script, ScriptPubKey.p2pk(k[0]).script
    if shape in ("wpkh", "sh(wpkh)"):
        wp = ScriptPubKey.p2wpkh(_raw_pub(k0 % 64, True)).script      # BIP143: compressed only (btclib refuses the other)
        return {"wpkh": (wp, b"", b"", [_raw_pub(k0 % 64, True)]), "sh(wpkh)": (sh(wp), wp, b"", [_raw_pub(k0 % 64, True)])}[shape]
    table = {
        "pkh": (pkh, b"", b"", k[:1]), "sh(pkh)": (sh(pkh), pkh, b"", k[:1]), "wsh(pkh)": (wsh(pkh), b"", pkh, k[:1]),
        "sh(wsh(pkh))": (sh(wsh(pkh)), wsh(pkh), pkh, k[:1]),
        "pk": (pk, b"", b"", k[:1]), "sh(pk)": (sh(pk), pk, b"", k[:1]), "wsh(pk)": (wsh(pk), b"", pk, k[:1]),
        "sh(wsh(pk))": (sh(wsh(pk)), wsh(pk), pk, k[:1]),
        "multi23": (ms(2, k), b"", b"", k), "sh(multi23)": (sh(ms(2, k)), ms(2, k), b"", k),
        "wsh(multi23)": (wsh(ms(2, k)), b"", ms(2, k), k),
        "sh(wsh(multi12))": (sh(wsh(ms(1, k[:2]))), wsh(ms(1, k[:2])), ms(1, k[:2]), k[:2]),
        "multi11": (ms(1, k[:1]), b"", b"", k[:1]), "wsh(multi33)": (wsh(ms(3, k)), b"", ms(3, k), k),
    }
    return table[shape]


def _raw_psbt(inputs, n_out):
    from btclib.bip32 import BIP32KeyOrigin
    ins, prevs = [], []
    for i, (shape_i, comp, k0) in enumerate(inputs):
        spk, redeem, ws, keys = _raw_input(RAW_SHAPES_ALL[shape_i], bool(comp), k0)
        prev = Tx(vin=[TxIn(OutPoint(bytes([i + 1]) * 32, i))], vout=[TxOut(100_000 + i, spk, check_validity=False)],
                  check_validity=False)
        hd = {key: BIP32KeyOrigin("deadbeef", f"m/{i}/{j}") for j, key in enumerate(keys)}
        ins.append(PsbtIn(non_witness_utxo=prev, previous_tx_id=prev.id, output_index=0, redeem_script=redeem,
                          witness_script=ws, hd_key_paths=hd))
        prevs.append(prev.vout[0])
    outs = [PsbtOut(amount=1000 + j, script_pub_key=PAY.script) for j in range(n_out)]
    return Psbt(2, ins, outs, 0, {}, fallback_lock_time=0), prevs


def _o_estimate_raw(w):
    """estimate ≥ actual for every signable script shape × key compression: keys given raw (hd_key_paths names
    them, as an updater does), signed through `psbt.sign` with a KeyManager, finalized, extracted, run under the
    library's own engine; signatures padded to the 72-byte worst case."""
    from btclib.psbt.psbt import extract_tx, finalize, sign
    from btclib.script.engine import verify_transaction
    psbt, prevs = _raw_psbt(w["inputs"], w["n_out"])
    est_w, est_v = psbt.estimated_weight, psbt.estimated_vsize
    signed, _ = sign(psbt, _RawKeys())
    tx = extract_tx(finalize(signed))
    verify_transaction(prevs, tx)
    worst = _with_worst_case_sigs(tx).weight
    ok = est_w >= worst >= tx.weight and est_v >= tx.vsize
    names = [RAW_SHAPES_ALL[s] + ("" if c else "/uncompressed") for s, c, _ in w["inputs"]]
    return ok, f"{names} est={est_w} actual={tx.weight} worst-case-sigs={worst}"


def _o_estimate(w):
    """Psbt.estimated_weight / estimated_vsize of the unsigned psbt never below what the library's own
    signer + finalizer + extractor produce; input i spends TEMPLATES[t] at address index k."""
    from btclib.psbt.psbt import extract_tx, finalize
    from btclib.psbt.psbt_out import PsbtOut
    from btclib.psbt_signer import request_signatures
    S = _signer()
    ins, descs = [], []
    for i, (t, k, sht) in enumerate(w["inputs"]):
        d = _descriptor(TEMPLATES[t])
        prev_tx = Tx(vin=[TxIn(OutPoint(bytes([i + 1]) * 32, i))], vout=[TxOut(100_000 + i, d.script_pub_key(k))])
        ins.append(PsbtIn(non_witness_utxo=prev_tx, previous_tx_id=prev_tx.id, output_index=0,
                          sig_hash_type=sht or None))
        descs.append((d, k))
    outs = [PsbtOut(amount=1000 + j, script_pub_key=PAY.script) for j in range(w["n_out"])]
    psbt = Psbt(2, ins, outs, 0, {}, fallback_lock_time=0)
    for i, (d, k) in enumerate(descs):
        psbt = d.update_psbt_input(psbt, i, k)
    est_w, est_v = psbt.estimated_weight, psbt.estimated_vsize
    tx = extract_tx(finalize(request_signatures(S["signer"], psbt)))
    actual = len(tx.serialize(include_witness=True, check_validity=False)) + 3 * len(
        tx.serialize(include_witness=False, check_validity=False))
    ok = est_w >= actual == tx.weight and est_v >= tx.vsize and est_v == -(-est_w // 4)
    # the library's signer grinds low-R, so its ECDSA signatures are 71 bytes with the sighash byte; another
    # signer of the same psbt may emit 72: the estimate must also cover the same spend with every DER signature
    # at that worst case (this is what makes an estimate one byte short visible)
    worst = _with_worst_case_sigs(tx).weight
    ok = ok and est_w >= worst
    # and not wastefully above: at most 1 byte per signature slack (71/72) plus unused multisig slots is expected,
    # a whole missing element is not
    return ok, (f"{[TEMPLATES[t] for t, _, _ in w['inputs']]} est={est_w} actual={actual} worst-case-sigs={worst} "
                f"vsize {est_v}>={tx.vsize}")



def _o_funding_final(w):
    """end to end on the real code: build_psbt over inputs the library's updater filled, then the library's signer,
    finalizer and extractor: value conserved, the fee at least fee_from_vsize(FINAL vsize, rate) -- also with every
    DER signature at its 72-byte worst case --, change never dust; the remainder is aimed at the change / no-change
    boundary (what the fee leaves = dust threshold + delta) by a first build that learns the fee."""
    from btclib.psbt.psbt import extract_tx, finalize
    from btclib.psbt.psbt_out import PsbtOut
    from btclib.psbt_signer import request_signatures
    S = _signer()
    rate, dr = _rate(w["rate"]), _rate(3000)
    change_script = {"wpkh": PAY.script, "tr": ScriptPubKey.p2tr(KEY2).script, "pkh": ScriptPubKey.p2pkh(KEY2).script,
                     "sh": ScriptPubKey.p2sh(PAY.script).script}[w["change"]]
    outs = [TxOut(v, PAY) for v in w["outs"]]

    def inputs(first_value):
        ins = []
        for i, (t, k) in enumerate(w["inputs"]):
            d = _descriptor(TEMPLATES[t])
            prev_tx = Tx(vin=[TxIn(OutPoint(bytes([i + 1]) * 32, i))],
                         vout=[TxOut(first_value if i == 0 else 10_000, d.script_pub_key(k))])
            pin = PsbtIn(non_witness_utxo=prev_tx, previous_tx_id=prev_tx.id, output_index=0)
            tmp = Psbt(2, [pin], [PsbtOut(amount=1, script_pub_key=PAY.script)], 0, {}, fallback_lock_time=0)
            ins.append(d.update_psbt_input(tmp, 0, k).inputs[0])
        return ins
    probe = build_psbt(inputs(10_000_000), outs, rate, change_script)
    if probe.change_index is None:
        return False, "the probe build created no change"
    dust = dust_threshold(change_script, dr)
    rest = 10_000 * (len(w["inputs"]) - 1)
    first = sum(w["outs"]) + probe.fee + dust + w["delta"] - rest
    if first < 1:
        return True, "aimed value not positive"
    try:
        built = build_psbt(inputs(first), outs, rate, change_script)
    except Exception as e:  # noqa: BLE001
        ok = common.err_class(e) == "value" and w["delta"] < 0
        return ok, f"build_psbt raised {type(e).__name__} at delta={w['delta']}"
    tx = extract_tx(finalize(request_signatures(S["signer"], built.psbt)))
    worst = _with_worst_case_sigs(tx)
    total_in = first + rest
    vout = [o.value for o in tx.vout]
    ok = total_in == sum(vout) + built.fee
    ok = ok and built.fee >= fee_from_vsize(tx.vsize, rate) and built.fee >= fee_from_vsize(worst.vsize, rate)
    if w["delta"] >= 0:
        ok = ok and built.change_index == len(outs) and vout[-1] == dust + w["delta"] and built.fee == probe.fee
    else:
        ok = ok and built.change_index is None and len(vout) == len(outs) and built.fee == probe.fee + dust + w["delta"]
    return ok, (f"{[TEMPLATES[t] for t, _ in w['inputs']]} rate={w['rate']} change={w['change']} delta={w['delta']}: fee={built.fee} "
                f"(with change {probe.fee}), dust={dust}, vout={vout}, final vsize={tx.vsize}, worst-case {worst.vsize}")


NUMS = "50929b74c1a04954b78b4b6035e97a5e078a5a0f28ec96d547bfee9ace803ac0"
TAP_TEMPLATES = ["tr(@4,pk(@1))", f"tr({NUMS},pk(@1))", f"tr({NUMS},multi_a(2,@1,@2))", f"tr({NUMS},{{pk(@1),pk(@2)}})",
                 f"tr({NUMS},{{pk(@1),multi_a(1,@2,@3)}})", "tr(@4,multi_a(1,@1))", f"tr({NUMS},multi_a(1,@2))",
                 "tr(@4,{pk(@1),{pk(@2),pk(@3)}})"]


def _o_estimate_tapleaf(w):
    """taproot inputs that carry leaf scripts.  (1) without a sizer the estimate REFUSES (never a guess);
    (2) the library signs every key it holds in every leaf (multi_a included) but finishes only the key path and a
    lone single-key leaf: any other outcome than `finalized` / BTClibValueError, or a refusal where the model says
    it finishes, fails; (3) where it finishes, the estimate with the sizer a caller who knows the solution writes
    (signature, leaf script, control block -- all known BEFORE signing) is never below the signed weight, and a
    sizer one byte short IS below it (the comparison is tight)."""
    from btclib.psbt.psbt import extract_tx, finalize
    from btclib.psbt.psbt_out import PsbtOut
    from btclib.psbt_signer import request_signatures
    S = _signer()
    d = _descriptor(TAP_TEMPLATES[w["t"]])
    k, sht = w["k"], w["sht"]
    prev_tx = Tx(vin=[TxIn(OutPoint(bytes([7]) * 32, 0))], vout=[TxOut(100_000, d.script_pub_key(k))])
    pin = PsbtIn(non_witness_utxo=prev_tx, previous_tx_id=prev_tx.id, output_index=0, sig_hash_type=sht or None)
    outs = [PsbtOut(amount=1000 + j, script_pub_key=PAY.script) for j in range(w["n_out"])]
    psbt = d.update_psbt_input(Psbt(2, [pin], outs, 0, {}, fallback_lock_time=0), 0, k)
    leaves = dict(psbt.inputs[0].taproot_leaf_scripts)
    if not leaves:
        return False, "the updater wrote no leaf script"
    try:
        guess = psbt.estimated_weight
        return False, f"{TAP_TEMPLATES[w['t']]}: an estimate ({guess}) without a sizer for an input carrying leaf scripts"
    except Exception as e:  # noqa: BLE001
        if common.err_class(e) != "value":
            return False, f"estimate without sizer left through {type(e).__name__}"
    signed = request_signatures(S["signer"], psbt)
    sin = signed.inputs[0]
    key_sig = sin.taproot_key_spend_signature or b""
    ssigs = dict(sin.taproot_script_spend_signatures)
    single = [(cb, sc) for cb, (sc, _v) in leaves.items() if len(sc) == 34 and sc[0] == 0x20 and sc[-1] == 0xAC]
    lone = None
    if not key_sig and len(ssigs) == 1:
        (kd, _sg), = ssigs.items()
        lone = next(((cb, sc) for cb, sc in single if sc[1:33] == kd[:32]), None)
    finishes = bool(key_sig) or lone is not None
    try:
        tx = extract_tx(finalize(signed))
    except Exception as e:  # noqa: BLE001
        ok = common.err_class(e) == "value" and not finishes
        return ok, (f"{TAP_TEMPLATES[w['t']]}: {len(ssigs)} script-path signatures over {len(leaves)} leaves "
                    f"({sorted(len(sc) for sc, _ in leaves.values())} bytes), key sig {len(key_sig)}: finalize raised "
                    f"{type(e).__name__}; model finishes: {finishes}")
    if not finishes:
        return False, f"{TAP_TEMPLATES[w['t']]}: finalized where the model refuses"
    sig_size = 64 + (1 if sht else 0)
    answer = [sig_size] if key_sig else [sig_size, len(lone[1]), len(lone[0])]
    stack = [len(e) for e in tx.vin[0].script_witness.stack]
    est = psbt.weight_estimate(lambda _pi, _ti: list(answer))
    short = psbt.weight_estimate(lambda _pi, _ti: [answer[0] - 1, *answer[1:]])
    ok = stack == answer and est >= tx.weight and -(-est // 4) >= tx.vsize and short < tx.weight
    return ok, f"{TAP_TEMPLATES[w['t']]} sht={sht}: witness {stack}, sizer {answer}, est={est} actual={tx.weight} one-short={short}"


def _o_amount_roundtrip(w):
    s_ = w["s"]
    try:
        b = btc_from_sats(s_)
    except Exception as e:  # noqa: BLE001
        ok = common.err_class(e) == "value" and not 0 <= s_ <= MAX_SATS
        return ok, f"btc_from_sats({s_}) raised {type(e).__name__}"
    if not 0 <= s_ <= MAX_SATS:
        return False, f"btc_from_sats({s_}) accepted: {b}"
    back = sats_from_btc(b)
    exact = Fraction(b) == Fraction(s_, 10**8) and b == b.normalize() and -b.as_tuple().exponent <= 8
    via_str = sats_from_btc(str(b)) == s_ and sats_from_btc(format(b, "f")) == s_
    return back == s_ and exact and via_str and isinstance(back, int), f"s={s_} btc={b!r} back={back}"


def _scaled_ref(x, k, max_value):
    """(known, value): x·10^k as an int when x spells a finite decimal for which that is a whole number in
    0..max_value (None = unbounded), else None — by digit arithmetic only (no 10^huge is ever built)."""
    try:
        ref = Decimal(str(x))
    except Exception:  # noqa: BLE001
        return None
    if not ref.is_finite():
        return None
    sign, digits, exp = ref.as_tuple()
    c = int("".join(map(str, digits)) or "0")
    if c == 0:
        return 0
    while c % 10 == 0:
        c //= 10
        exp += 1
    if sign or exp + k < 0:
        return None
    if max_value is not None and exp + k > 40:
        return None
    if exp + k > 2000:
        raise OverflowError("reference refuses to build 10^%d" % (exp + k))
    v = c * 10 ** (exp + k)
    return v if max_value is None or v <= max_value else None


def _o_amount_spelling(w):
    """any spelling: accepted iff it denotes a whole number of satoshi in the money range, and then exactly that."""
    x = w["x"]
    want = _scaled_ref(x, 8, MAX_SATS)
    try:
        got = sats_from_btc(x)
    except Exception as e:  # noqa: BLE001
        return (common.err_class(e) == "value" and want is None), f"sats_from_btc({x!r}) raised {type(e).__name__}, want {want}"
    return got == want and isinstance(got, int) and not isinstance(got, bool), f"sats_from_btc({x!r}) = {got}, want {want}"


def _o_feerate_units(w):
    x = w["x"]
    want = None
    try:
        ref = Decimal(str(x))
        # refused by design before any ratio is taken: a non-zero quote whose leading digit is above 10^15 sat/vB
        # (more than MAX_MONEY for one vbyte) or below 10^-3 (finer than a millisatoshi)
        if ref.is_finite() and not (ref and not -3 <= ref.adjusted() <= 15):
            want = _scaled_ref(x, 3, None)
    except Exception:  # noqa: BLE001
        want = None
    try:
        got = FeeRate.from_sats_per_vbyte(x).sats_per_kvbyte
    except Exception as e:  # noqa: BLE001
        return (common.err_class(e) == "value" and want is None), f"from_sats_per_vbyte({x!r}) raised {type(e).__name__}, want {want}"
    if got != want:
        return False, f"from_sats_per_vbyte({x!r}) = {got}, want {want}"
    back = FeeRate(sats_per_kvbyte=got).sats_per_vbyte
    ok = Fraction(back) * 1000 == got and FeeRate.from_sats_per_vbyte(back).sats_per_kvbyte == got and got < 10**19
    return ok, f"from_sats_per_vbyte({x!r}) = {got}, want {want}, back {back}"


def _o_bounded_time(w):
    """a 12-character quote must not cost unbounded time or memory (run in a child: 1 GiB, 10 s)."""
    import subprocess
    code = ("import resource,sys;resource.setrlimit(resource.RLIMIT_AS,(2**30,2**30));"
            "from btclib.fee import FeeRate;from btclib.exceptions import BTClibValueError\n"
            "try:\n FeeRate.from_sats_per_vbyte(sys.argv[1]);print('ok')\n"
            "except BTClibValueError: print('refused')\n"
            "except BaseException as e: print('foreign', type(e).__name__)")
    try:
        p = subprocess.run(["/venv/bin/python", "-c", code, w["x"]], capture_output=True, timeout=10)
        out = p.stdout.decode().strip().split("\n")[-1] if p.stdout else f"exit {p.returncode}"
    except subprocess.TimeoutExpired:
        out = "timeout"
    return out in ("ok", "refused"), f"FeeRate.from_sats_per_vbyte({w['x']!r}): {out}"


def _o_amount_glue(w):
    bad = {"bool": True, "float": 1.5, "str": "12", "bytes": b"\x01", "list": [1], "inf": float("inf"),
           "nan": float("nan"), "neg": -1, "big": MAX_SATS + 1}[w["bad"]]
    want = {"bool": "type", "float": "type", "str": "type", "bytes": "value", "list": "type", "inf": "value",
            "nan": "value", "neg": "value", "big": "value"}[w["bad"]]
    try:
        out = valid_sats_amount(bad)
    except Exception as e:  # noqa: BLE001
        return common.err_class(e) == want, f"valid_sats_amount({bad!r}) raised {type(e).__name__}, want {want}"
    return False, f"valid_sats_amount({bad!r}) accepted: {out!r}"


def _o_amount_context(w):
    """the conversions are exact whatever decimal context the caller has set (they are stated to be exact)."""
    s_, prec = w["s"], w["prec"]
    with localcontext() as c:
        c.prec = prec
        try:
            b = btc_from_sats(s_)
            # the text is built from integers: nothing of the oracle's own runs under the lowered precision
            back = sats_from_btc(f"{s_ // 10**8}.{s_ % 10**8:08d}")
        except Exception as e:  # noqa: BLE001
            return False, f"prec={prec}: s={s_} raised {type(e).__name__} ({common.err_class(e)})"
    ok = Fraction(b) == Fraction(s_, 10**8) and back == s_
    return ok, f"prec={prec}: btc_from_sats({s_}) = {b!r}, sats_from_btc back = {back}"


def _o_amount_traps(w):
    """a caller whose decimal context traps Inexact / Rounded still gets the library's refusal (or the exact
    answer), never decimal's own signal: the conversions are stated to read no caller context."""
    from decimal import Inexact, Rounded
    fn = {"valid_btc_amount": __import__("btclib.amount", fromlist=["x"]).valid_btc_amount, "sats_from_btc": sats_from_btc,
          "btc_from_sats": btc_from_sats, "from_sats_per_vbyte": lambda x: FeeRate.from_sats_per_vbyte(x).sats_per_kvbyte,
          "from_btc_per_kvbyte": lambda x: FeeRate.from_btc_per_kvbyte(x).sats_per_kvbyte,
          "sats_per_vbyte": lambda k: _rate(k).sats_per_vbyte}[w["fn"]]
    x = Decimal(w["x"]) if w.get("decimal") else w["x"]
    def run():
        try:
            return ("ok", fn(x))
        except Exception as e:  # noqa: BLE001
            return ("err", common.err_class(e))
    plain = run()
    with localcontext() as c:
        c.traps[Inexact] = True
        c.traps[Rounded] = True
        trapped = run()
    return plain == trapped and plain[1] != "foreign", f"{w['fn']}({x!r}): default context {plain}, Inexact/Rounded trapped {trapped}"


_CTX_CASES = [
    ("valid_btc_amount", "0.123456789", False), ("valid_btc_amount", "0.12345678", False), ("valid_btc_amount", "21000000", False),
    ("valid_btc_amount", "1E+7", False), ("valid_btc_amount", "2.1E+7", False), ("valid_btc_amount", "2.10000001E+7", False),
    ("sats_from_btc", "1", False), ("sats_from_btc", "0.5", False), ("sats_from_btc", "1.000000001", True),
    ("sats_from_btc", "20999999.99999999", False), ("sats_from_btc", "0.00000001", False), ("sats_from_btc", "1e-8", True),
    ("sats_from_btc", "1e-9", False), ("sats_from_btc", "0e-400", False), ("sats_from_btc", "1e400", False),
    ("sats_from_btc", "-0", False), ("sats_from_btc", "NaN", False), ("sats_from_btc", "abc", False),
    ("btc_from_sats", 0, False), ("btc_from_sats", 1, False), ("btc_from_sats", 123456789, False),
    ("btc_from_sats", 2099999999999999, False), ("btc_from_sats", 2100000000000000, False), ("btc_from_sats", 10**10, False),
    ("btc_from_sats", 2100000000000001, False),
    ("from_sats_per_vbyte", "1.5", False), ("from_sats_per_vbyte", "1.0004", False), ("from_sats_per_vbyte", "0.001", True),
    ("from_sats_per_vbyte", "9999999999999999.999", False), ("from_sats_per_vbyte", "1e16", False),
    ("from_sats_per_vbyte", "1.00000000000000000000000000001", False), ("from_sats_per_vbyte", "1e-400", False),
    ("from_btc_per_kvbyte", "0.000123456", False), ("from_btc_per_kvbyte", "0.00012345", False),
    ("sats_per_vbyte", 0, False), ("sats_per_vbyte", 1, False), ("sats_per_vbyte", 1500, False),
    ("sats_per_vbyte", 1234567891, False), ("sats_per_vbyte", 10**18 + 1, False), ("sats_per_vbyte", 10**30 + 1, False),
    # the JSON amount fields, BIP21's amount and the caller's `dust` Decimal
    ("txout_to_dict", 0, False), ("txout_to_dict", 1, False), ("txout_to_dict", 10**10, False), ("txout_to_dict", 123456789, False),
    ("txout_to_dict", 2099999999999999, False), ("txout_to_dict", 2100000000000000, False), ("txout_to_dict", 10**15, False),
    ("txout_from_dict", "1E+2", False), ("txout_from_dict", "1e+2", False), ("txout_from_dict", "20999999.99999999", False),
    ("txout_from_dict", "0.000000010", False), ("txout_from_dict", "1e-9", False), ("txout_from_dict", "2.1E+7", False),
    ("txout_from_dict", "21000000.00000001", False), ("txout_from_dict", "0E-400", False), ("txout_from_dict", "sNaN", False),
    ("tx_from_dict", "1E+2", False), ("tx_from_dict", "0.123456789", False), ("tx_from_dict", "20999999.99999999", False),
    ("bip21", "1E+2", False), ("bip21", "0.00000001", False), ("bip21", "20999999.99999999", False), ("bip21", "0.5", True),
    ("bip21", "1e-9", False), ("bip21", "2.1E+7", True),
    ("valid_btc_amount_dust", ["0.00000546", "0.00000546"], False), ("valid_btc_amount_dust", ["0.00000545", "0.00000546"], False),
    ("valid_btc_amount_dust", ["1", "1.0000000000000000000000000000000000001"], False),
    ("valid_btc_amount_dust", ["20999999.99999999", "1E-400"], False), ("valid_btc_amount_dust", ["0", "-1E+400"], False),
]
_CTX_SIGNALS = ["Clamped", "DivisionByZero", "Inexact", "Overflow", "Rounded", "Subnormal", "Underflow", "FloatOperation",
                "InvalidOperation"]
_CTX_ROUNDINGS = ["ROUND_CEILING", "ROUND_DOWN", "ROUND_FLOOR", "ROUND_HALF_DOWN", "ROUND_HALF_EVEN", "ROUND_HALF_UP",
                  "ROUND_UP", "ROUND_05UP"]


def _context_fields():
    """the attributes a decimal.Context has, read off the class (constructor parameters + public data attributes):
    a Python whose Context grows a field makes `amount.context_fields` fail until the generator below varies it"""
    import decimal
    import inspect
    c = decimal.Context()
    names = {a for a in dir(c) if not a.startswith("_") and not callable(getattr(c, a))}
    names |= {p for p in inspect.signature(decimal.Context).parameters if not p.startswith("_")}
    return sorted(names)


_CTX_VARIED = ["Emax", "Emin", "capitals", "clamp", "flags", "prec", "rounding", "traps"]


def _o_context_fields(w):
    got = _context_fields()
    return got == _CTX_VARIED, f"decimal.Context attributes {got}; varied by the generator: {_CTX_VARIED}"


def _rand_context(rng):
    """every field of decimal.Context a caller may have set"""
    return {"prec": rng.choice([1, 2, 3, 6, 8, 9, 15, 16, 17, 28, 50]),
            "Emax": rng.choice([0, 1, 5, 7, 8, 15, 16, 20, 999999, 999999999999999999]),
            "Emin": rng.choice([0, -1, -5, -7, -8, -9, -20, -999999, -999999999999999999]),
            "capitals": rng.choice([0, 1]), "clamp": rng.choice([0, 1]),
            "rounding": rng.choice(_CTX_ROUNDINGS),
            "traps": sorted(sg for sg in _CTX_SIGNALS if rng.random() < 0.4),
            "flags": sorted(sg for sg in _CTX_SIGNALS if rng.random() < 0.3),
            # the same fields written into decimal.DefaultContext as well (what `Context(prec=…)` copies the
            # fields it is not given from, at the time it is called)
            "default": rng.random() < 0.25}


_TXOUT_DICT = {}


def _txout_dict(value_text):
    if not _TXOUT_DICT:
        _TXOUT_DICT.update(TxOut(0, PAY).to_dict())
    return dict(_TXOUT_DICT, value=value_text)


def _bip21(x):
    from btclib.bip21 import Bip21
    uri = Bip21("bc1qq6hag67dl53wl99vzg42z8eyzfz2xlkvxechjp", x).serialize()
    return uri, Bip21.parse(uri).amount


_CTX_FNS = {
    "valid_btc_amount": lambda x: __import__("btclib.amount", fromlist=["x"]).valid_btc_amount(x),
    # the second argument is a Decimal of the caller's: compared inside the library's context
    "valid_btc_amount_dust": lambda x: __import__("btclib.amount", fromlist=["x"]).valid_btc_amount(x[0], Decimal(x[1])),
    "sats_from_btc": lambda x: sats_from_btc(x),
    "btc_from_sats": lambda x: btc_from_sats(x),
    "from_sats_per_vbyte": lambda x: FeeRate.from_sats_per_vbyte(x).sats_per_kvbyte,
    "from_btc_per_kvbyte": lambda x: FeeRate.from_btc_per_kvbyte(x).sats_per_kvbyte,
    "sats_per_vbyte": lambda k: _rate(k).sats_per_vbyte,
    # the JSON amount fields: TxOut.to_dict writes str(btc_from_sats(value)) and from_dict reads it back with
    # sats_from_btc; the TEXT may differ in the case of the exponent letter (Decimal.__str__ reads the caller's
    # `capitals`), the amount it denotes may not
    "txout_to_dict": lambda v: (lambda d: (d["value"].upper(), TxOut.from_dict(d).value))(TxOut(v, PAY).to_dict()),
    "txout_from_dict": lambda x: TxOut.from_dict(_txout_dict(x)).value,
    "tx_from_dict": lambda x: Tx.from_dict({"version": 2, "locktime": 0, "vin": [], "vout": [_txout_dict(x)]},
                                           check_validity=False).vout[0].value,
    "bip21": _bip21,
}


def _o_amount_anycontext(w):
    """the conversions read NO field of the caller's decimal context: precision, Emax/Emin, clamp, capitals, rounding,
    flags and traps may be anything, the answer (exact value and representation, or the library's refusal) is the one
    given under the default context -- and the caller's context is left as it was, flags included."""
    import decimal
    fn = _CTX_FNS[w["fn"]]
    x = Decimal(w["x"]) if w.get("decimal") else w["x"]

    def run():
        try:
            v = fn(x)
        except Exception as e:  # noqa: BLE001
            return ("err", common.err_class(e))
        if isinstance(v, tuple):
            v = tuple(tuple(e.as_tuple()) if isinstance(e, Decimal) else e for e in v)
        return ("ok", tuple(v.as_tuple()) if isinstance(v, Decimal) else v)
    plain = run()
    c = w["ctx"]

    def build():
        return decimal.Context(prec=c["prec"], Emax=c["Emax"], Emin=c["Emin"], capitals=c["capitals"], clamp=c["clamp"],
                               rounding=getattr(decimal, c["rounding"]), traps=[getattr(decimal, t) for t in c["traps"]],
                               flags=[getattr(decimal, t) for t in c.get("flags", [])])

    def state(k):
        return (k.prec, k.Emax, k.Emin, k.capitals, k.clamp, k.rounding, sorted(s.__name__ for s, v in k.traps.items() if v),
                sorted(s.__name__ for s, v in k.flags.items() if v))
    want = (c["prec"], c["Emax"], c["Emin"], c["capitals"], c["clamp"], c["rounding"], sorted(c["traps"]),
            sorted(c.get("flags", [])))
    saved = decimal.DefaultContext.copy() if c.get("default") else None
    try:
        if saved is not None:
            src = build()
            for a in ("prec", "Emax", "Emin", "capitals", "clamp", "rounding"):
                setattr(decimal.DefaultContext, a, getattr(src, a))
            for sg in src.traps:
                decimal.DefaultContext.traps[sg] = src.traps[sg]
                decimal.DefaultContext.flags[sg] = src.flags[sg]
        with localcontext(build()) as live:
            theirs = run()
            untouched = state(live) == want
        if saved is not None:
            untouched = untouched and state(decimal.DefaultContext) == want
    finally:
        if saved is not None:
            for a in ("prec", "Emax", "Emin", "capitals", "clamp", "rounding"):
                setattr(decimal.DefaultContext, a, getattr(saved, a))
            for sg in saved.traps:
                decimal.DefaultContext.traps[sg] = saved.traps[sg]
                decimal.DefaultContext.flags[sg] = saved.flags[sg]
    ok = plain == theirs and not str(plain[1]).startswith("foreign") and untouched
    return ok, f"{w['fn']}({x!r}): default context {plain}, caller's context {c} -> {theirs}, caller's context untouched: {untouched}"


def _o_feerate_context(w):
    k, prec = w["k"], w["prec"]
    if "x" in w:
        # the way in: a quote finer than a millisatoshi is refused whatever precision the caller has set
        with localcontext() as c:
            c.prec = prec
            try:
                got = FeeRate.from_sats_per_vbyte(w["x"]).sats_per_kvbyte
            except Exception as e:  # noqa: BLE001
                return (common.err_class(e) == "value" and k is None), f"prec={prec}: from_sats_per_vbyte({w['x']!r}) raised {type(e).__name__}"
        return got == k, f"prec={prec}: from_sats_per_vbyte({w['x']!r}) = {got}, want {k}"
    with localcontext() as c:
        if prec:
            c.prec = prec
        v = FeeRate(sats_per_kvbyte=k).sats_per_vbyte
    return Fraction(v) * 1000 == k, f"prec={prec or 'default'}: FeeRate({k}).sats_per_vbyte = {v!r}"


ORACLES = {
    "size.tx": _o_size_tx,
    "size.block": _o_size_block,
    "psbt.estimate": _o_estimate,
    "psbt.estimate_raw": _o_estimate_raw,
    "psbt.estimate_tapleaf": _o_estimate_tapleaf,
    "amount.roundtrip": _o_amount_roundtrip,
    "amount.spelling": _o_amount_spelling,
    "amount.glue": _o_amount_glue,
    "amount.context": _o_amount_context,
    "amount.traps": _o_amount_traps,
    "amount.anycontext": _o_amount_anycontext,
    "amount.context_fields": _o_context_fields,
    "feerate.units": _o_feerate_units,
    "feerate.context": _o_feerate_context,
    "feerate.bounded_time": _o_bounded_time,
    "funding.invariants": _o_funding,
    "funding.final": _o_funding_final,
    "fee.ceiling": _o_fee_ceiling,
    "fee.monotone": _o_fee_monotone,
    "fee.package": _o_package,
    "fee.dust_core": _o_dust_core,
    "fee.glue": _o_fee_glue,
}


# ------------------------------------------------------------------ run
def _run_fee(ctx):
    rng = ctx.rng
    lines = []
    for _ in range(ctx.n(1500)):
        v, r = G._gen_fee(rng)
        if rng.random() < 0.1:
            r = -r - 1
        lines.append(f"fee.fee_from_vsize {v} {r}")
        if v >= 0 and r >= 0:
            ctx.check("fee.ceiling", {"v": v, "r": r})
            ctx.check("fee.monotone", {"v": v, "r": r, "dv": G._nat(rng, 20), "dr": G._nat(rng, 20)})
    # the residues where a truncating or off-by-one rounding shows: rate*vsize = k*1000 + {0, 1, 999}
    for k in range(ctx.n(200)):
        r = rng.choice([1, 7, 999, 1000, 1001, 1500, 12345])
        target = rng.randrange(0, 10**7) * 1000 + rng.choice([0, 1, 999, 500])
        v = target // r
        for vv in (v, v + 1):
            lines.append(f"fee.fee_from_vsize {vv} {r}")
            ctx.check("fee.ceiling", {"v": vv, "r": r})
    ctx.stream("fee.fee_from_vsize", lines)

    lines = []
    for _ in range(ctx.n(1200)):
        v, av, af, r = G._gen_package(rng)
        if rng.random() < 0.05:
            r = -r - 1
        if rng.random() < 0.3 and v >= 0 and av >= 0 and r >= 0:
            # ancestors paying about what the rate asks: both sides of the max
            af = max(0, fee_from_vsize(av, _rate(r)) + rng.choice([-2, -1, 0, 1, 2, 50]))
            af = min(af, 2_100_000_000_000_000)
        lines.append(f"fee.package_fee {v} {r} {av} {af}")
        if v >= 0 and av >= 0 and r >= 0 and 0 <= af <= 2_100_000_000_000_000:
            ctx.check("fee.package", {"v": v, "r": r, "av": av, "af": af})
    ctx.stream("fee.package_fee", lines)

    lines, core_lines, seg_lines = [], [], []
    for _ in range(ctx.n(1500)):
        spk = G.rand_script(rng)
        r = rng.choice([3000, 3000, 0, 1, 1000, 999, G._nat(rng, 30)])
        if rng.random() < 0.04:
            r = -r - 1
        lines.append(f"fee.dust {hx(spk)} {r}")
        seg_lines.append(f"fee.is_segwit {hx(spk)}")
        if r >= 0:
            core_lines.append(f"fee.core_dust {hx(spk)} {r}")
            ctx.check("fee.dust_core", {"spk": spk.hex(), "r": r})
            ctx.count("dust.class", "segwit" if is_segwit(spk) else "op_return" if spk[:1] == b"\x6a"
                      else "oversize" if len(spk) > 10000 else "legacy")
    ctx.stream("fee.dust", lines)
    ctx.stream("fee.core_dust", core_lines)
    ctx.stream("fee.is_segwit", seg_lines)
    for cls in ("segwit", "op_return", "oversize", "legacy"):
        if not ctx.hist.get("dust.class", {}).get(cls):
            raise common.HarnessError(f"dust generator left class {cls} empty")

    for kind in ("vsize", "rate", "ancestor_vsize", "ancestor_fee"):
        for bad in ("bool", "float", "str", "none", "decimal"):
            if kind == "ancestor_fee" and bad == "str":
                continue
            ctx.check("fee.glue", {"kind": kind, "bad": bad})
    ctx.check("fee.glue", {"kind": "positional_rate", "bad": "bool"})


def _learn_estimates(kinds_values, outs, change):
    """the real estimator's answer for both psbt shapes, asked on psbts of those shapes directly
    (`Psbt.vsize_estimate`), independently of how build_psbt goes about pricing them."""
    toks = []
    inputs = lambda: [_fund_input(x[0], int(x[1:]), i) for i, x in enumerate(_csv(kinds_values))]  # noqa: E731
    for with_change in (True, False):
        if with_change and change == "None":
            toks.append("NA")
            continue
        outputs = [PsbtOut(amount=int(v), script_pub_key=PAY.script) for v in _csv(outs)]
        if with_change:
            outputs.append(PsbtOut(amount=0, script_pub_key=unhx(change)))
        try:
            psbt = Psbt(2, inputs(), outputs, 0, {}, fallback_lock_time=0, check_validity=False)
            toks.append(str(psbt.vsize_estimate()))
        except Exception as e:  # noqa: BLE001
            toks.append("E" if common.err_class(e) == "value" else "X")
    return toks


def _run_funding(ctx):
    rng = ctx.rng
    M = 2_100_000_000_000_000
    change_scripts = [PAY.script, ScriptPubKey.p2tr(KEY2).script, ScriptPubKey.p2pkh(KEY2).script,
                      ScriptPubKey.p2sh(PAY.script).script, b"\x6a\x01\x00", b"", bytes([0x51]) * 300]
    lines = []
    for _ in range(ctx.n(1500, 20000)):
        mode = "real" if rng.random() < 0.55 else "fake"
        kinds = "".join(rng.choice("wwtsp") for _ in range(rng.choice([1, 1, 2, 3, 5])))
        if rng.random() < 0.04:
            kinds += "u"
        if rng.random() < 0.04:
            kinds = ""        # "no inputs": refused before anything else
        n_out = rng.choice([0, 1, 1, 1, 2, 3])
        out_vals = [rng.choice([0, 546, 1000, 60_000, rng.randrange(0, 200_000)]) for _ in range(n_out)]
        change = "None" if rng.random() < 0.25 else hx(rng.choice(change_scripts))
        rate = rng.choice([0, 1, 999, 1000, 1001, 2500, 10_000, 123_456, G._nat(rng, 24)])
        dust_rate = rng.choice([3000, 3000, 0, 1, 1000, 30_000])
        in_vals = [rng.randrange(1000, 150_000) for _ in kinds]
        outs = ",".join(map(str, out_vals)) or "_"
        if not kinds:
            e1 = e2 = "NA"
        elif mode == "real":
            e1, e2 = _learn_estimates(",".join(k + "1000" for k in kinds), outs, change)
        else:
            e1 = rng.choice(["E", str(rng.randrange(-3, 3))] + [str(rng.randrange(50, 2000))] * 6)
            e2 = rng.choice(["E", str(rng.randrange(-3, 3))] + [str(rng.randrange(50, 2000))] * 6)
            if change == "None":
                e1 = "NA"
        # aim the remainder at the decision boundaries: dust threshold ± 1, owed ± 1, nothing left
        if kinds and e1 not in ("E", "NA", "X") and e2 not in ("E", "NA", "X") and rng.random() < 0.7 and int(e2) >= 0 \
                and (change == "None" or int(e1) >= 0):
            owed = fee_from_vsize(int(e2), _rate(rate))
            if change != "None":
                f1 = fee_from_vsize(int(e1), _rate(rate))
                d = dust_threshold(unhx(change), _rate(dust_rate))
                target = sum(out_vals) + rng.choice([f1 + d, f1 + d - 1, f1 + d + 1, owed, owed - 1, owed + 1, f1, 0])
            else:
                target = sum(out_vals) + rng.choice([owed, owed - 1, owed + 1, 0, owed + 5000])
            target = max(target, len(kinds))
            in_vals = [target // len(kinds)] * len(kinds)
            in_vals[0] += target - sum(in_vals)
            if max(in_vals) > M:      # a fee no input could hold: every input at MAX_MONEY instead
                in_vals = [M] * len(kinds)
        elif kinds and rng.random() < 0.06:
            in_vals = [rng.choice([M, M - 1, M // 2 + 1]) for _ in kinds]   # sums above MAX_MONEY
            if rng.random() < 0.5 and out_vals:
                out_vals[0] = M - rng.randrange(0, 2000)
                outs = ",".join(map(str, out_vals))
        ins = ",".join(k + str(v) for k, v in zip(kinds, in_vals)) or "_"
        line = f"funding.build {mode} {ins} {outs} {rate} {change} {dust_rate} {e1} {e2}"
        lines.append(line)
        ctx.check("funding.invariants", {"line": line})
    outs_ = ctx.stream("funding.build", lines)
    for ln in lines:
        o = impl(ln)
        ctx.count("funding.outcome", "change" if o.startswith("ok") and not o.endswith("None")
                  else "no-change" if o.startswith("ok") else "refused")
    for cls in ("change", "no-change", "refused"):
        if not ctx.hist.get("funding.outcome", {}).get(cls):
            raise common.HarnessError(f"funding generator left class {cls} empty")


def _rand_dec(rng, scale):
    """Decimals around the acceptance boundaries of a ×10^scale conversion."""
    r = rng.random()
    if r < 0.04:
        return Decimal(rng.choice(["NaN", "Infinity", "-Infinity", "sNaN"]))
    sign = 1 if rng.random() < 0.08 else 0
    if r < 0.3:
        exp = rng.choice([-scale - 2, -scale - 1, -scale, -scale + 1, -3, -1, 0, 1, 2, 7, 8, 14, 15, 16, 17, 30, -30,
                          400, -400])
        coeff = rng.choice([0, 1, 9, 10, 99, 100, 21, 2099999997690000, 21 * 10**14, 21 * 10**14 + 1, 10**15,
                            10**16 - 1, 10**16, 10**19 - 1, rng.getrandbits(20)])
        if coeff == 0 and rng.random() < 0.3:
            exp = rng.choice([999999999, -999999999, 10**6])   # zero at any exponent is zero
    elif r < 0.6:
        coeff = rng.randrange(0, 21 * 10**14 + 3)
        exp = -scale
        k = rng.randrange(0, 6)     # same value with trailing zeros / extra digits
        if rng.random() < 0.5:
            coeff, exp = coeff * 10**k, exp - k
        else:
            coeff, exp = coeff * 10**k + rng.choice([0, 0, 1]), exp - k
    elif r < 0.7:
        # more digits than any default precision holds: an over-fine tail must be refused, never rounded away
        n = rng.randrange(29, 45)
        coeff = rng.randrange(1, 2000) * 10 ** (n - 4) + rng.choice([0, 1, 5 * 10 ** (n - 20), rng.randrange(10 ** (n - 4))])
        exp = -(n - rng.choice([1, 2, 4, 7]))
    else:
        coeff = rng.getrandbits(rng.choice([1, 4, 10, 30, 51, 60]))
        exp = rng.randrange(-12, 10)
    return Decimal((sign, tuple(int(c) for c in str(coeff)), exp))


SPELLINGS = ["1.00000000000000000000000000001", "1.0000000000000000000000000000000000", "1.5000000000000000000000000000001",
             "0.00100000000000000000000000000001", "20999999.999999990000000000000000000001",
             "9999999999999999.999", "1e16", "0.9999e16", "1e15", "10000000000000000", "1e-3", "1e-4", "0.0010",
             "-1e20", "-0e999999999", "0",  "-0", "0.0", "1", "1.5", "0.00000001", "0.000000001", "0.123456789", "1.000000000", "21000000",
             "21000000.00000001", "20999999.99999999", "2.1e7", "2.1E+7", "2.10000001e7", "1e-8", "1e-9", "-1e-8",
             " 1.5 ", "1_0.5", "1,5", "abc", "", "NaN", "Infinity", "-Infinity", "0e-50", "0e50", "1e-400", "1e400",
             "1e-999999999", "1e999999999", "0e999999999", "٠.٥", "+1.5", ".5", "5.", "0x10", "1/2", "1e", "--1"]


def _run_amount(ctx):
    rng = ctx.rng
    sats = [0, 1, 9, 10, 99_999_999, 100_000_000, 100_000_001, 10**10, 2099999997690000, MAX_SATS - 1, MAX_SATS,
            MAX_SATS + 1, -1, 2 * MAX_SATS, 2**53, 2**63, 2**64]
    sats += [rng.randrange(0, MAX_SATS + 1) for _ in range(ctx.n(800))]
    sats += [rng.randrange(0, 10**rng.randrange(1, 16)) * 10**rng.randrange(0, 9) for _ in range(ctx.n(400))]
    lines = []
    for v in sats:
        lines.append(f"amount.btc_from_sats {v}")
        ctx.check("amount.roundtrip", {"s": v}, nontrivial=0 <= v <= MAX_SATS)
    ctx.stream("amount.btc_from_sats", lines)

    l1, l2, l3 = [], [], []
    for _ in range(ctx.n(1500)):
        l1.append("amount.sats_from_btc " + _dec_tokens(_rand_dec(rng, 8)))
        l2.append("feerate.from_vb " + _dec_tokens(_rand_dec(rng, 3)))
        l3.append("feerate.from_btc_kvb " + _dec_tokens(_rand_dec(rng, 8)))
    ctx.stream("amount.sats_from_btc", l1)
    ctx.stream("feerate.from_vb", l2)
    ctx.stream("feerate.from_btc_kvb", l3)
    ks = [0, 1, 10, 100, 999, 1000, 1001, 1500, 3000, 10**6, 10**24 + 1] + [G._nat(rng, 60) for _ in range(ctx.n(600))]
    ctx.stream("feerate.vb", [f"feerate.vb {k}" for k in ks])

    xs = list(SPELLINGS)
    for _ in range(ctx.n(600)):
        d = _rand_dec(rng, 8)
        xs.append(rng.choice([str(d), format(d, "f") if d.is_finite() and abs(d.as_tuple().exponent) < 50 else str(d),
                              format(d, "E") if d.is_finite() else str(d)]))
    for x in xs:
        ctx.check("amount.spelling", {"x": x})
        ctx.check("feerate.units", {"x": x})
    ctx.check("feerate.bounded_time", {"x": "1e999999999"}, key="feerate.huge-exponent")
    # every field of the caller's decimal.Context varied at once (Emax/Emin, clamp, capitals, rounding, prec, traps)
    edge_ctx = {"prec": 28, "Emax": 5, "Emin": -999999, "capitals": 1, "clamp": 0, "rounding": "ROUND_HALF_EVEN",
                "traps": ["DivisionByZero", "InvalidOperation", "Overflow"]}
    ctx.check("amount.context_fields", {})
    for fn, x, dec in _CTX_CASES:
        for cx in (edge_ctx, dict(edge_ctx, Emax=999999, Emin=-5, traps=["Subnormal", "Underflow", "Clamped"]),
                   dict(edge_ctx, Emax=0, Emin=0, clamp=1, capitals=0, rounding="ROUND_UP")):
            ctx.check("amount.anycontext", {"fn": fn, "x": x, "decimal": dec, "ctx": cx}, key="amount.context-emax")
    for _ in range(ctx.n(600, 8000)):
        fn, x, dec = rng.choice(_CTX_CASES)
        if fn == "btc_from_sats" and rng.random() < 0.5:
            x = rng.randrange(0, MAX_SATS + 1)
        elif fn == "sats_per_vbyte" and rng.random() < 0.5:
            x = G._nat(rng, 60)
        elif fn == "sats_from_btc" and rng.random() < 0.5:
            d = _rand_dec(rng, 8)
            x, dec = str(d), rng.random() < 0.5 and d.is_finite()
        elif fn == "from_sats_per_vbyte" and rng.random() < 0.5:
            x = str(_rand_dec(rng, 3))
        elif fn == "txout_to_dict" and rng.random() < 0.7:
            x = rng.choice([rng.randrange(0, MAX_SATS + 1), rng.randrange(0, 10**rng.randrange(1, 8)) * 10**rng.randrange(8, 10)])
        elif fn in ("txout_from_dict", "tx_from_dict", "bip21") and rng.random() < 0.7:
            d = _rand_dec(rng, 8)
            x, dec = str(d), fn == "bip21" and rng.random() < 0.5 and d.is_finite()
        ctx.check("amount.anycontext", {"fn": fn, "x": x, "decimal": bool(dec), "ctx": _rand_context(rng)},
                  key="amount.context-emax")
    for fn, x, dec in (("valid_btc_amount", "0.123456789", False), ("sats_from_btc", "1.000000001", True),
                       ("sats_from_btc", "0.5", False), ("sats_from_btc", "20999999.99999999", False),
                       ("btc_from_sats", 123456789, False), ("btc_from_sats", 2099999999999999, False),
                       ("from_sats_per_vbyte", "1.5", False), ("from_sats_per_vbyte", "1.0004", False),
                       ("from_btc_per_kvbyte", "0.000123456", False), ("sats_per_vbyte", 1234567891, False)):
        ctx.check("amount.traps", {"fn": fn, "x": x, "decimal": dec}, key="amount.decimal-traps")
    for x in (1.5, 0.1, 1e-8, 1e-9, 2.1e7, 3, Decimal("0.5"), 10**7, float("nan"), float("inf")):
        ctx.check("amount.spelling", {"x": x})
        ctx.check("feerate.units", {"x": x})
    for bad in ("bool", "float", "str", "bytes", "list", "inf", "nan", "neg", "big"):
        ctx.check("amount.glue", {"bad": bad})
    # regressions of three defects found here and since repaired in /repo (c9e1a4da, fa1e16b2, 47ff6651):
    # exactness must not depend on the caller's decimal context, and a short quote must not cost unbounded time
    for prec in (6, 12):
        for v in (123456789, 2099999997690000, 50_000_000):
            ctx.check("amount.context", {"s": v, "prec": prec}, key="amount.decimal-context")
    for k, prec in ((1234567891, 6), (1500, 6), (10**30 + 1, 0)):
        ctx.check("feerate.context", {"k": k, "prec": prec}, key="feerate.decimal-context")
    for x, k in (("1.2345678", None), ("1234.5678", None), ("1234567.891", 1234567891), ("0.001", 1), ("1.0004", None)):
        for prec in (3, 6):
            ctx.check("feerate.context", {"x": x, "k": k, "prec": prec}, key="feerate.decimal-context")


def _run_sizes(ctx):
    rng = ctx.rng
    edge = [0, 1, 2, 75, 76, 252, 253, 254, 255, 256, 300]
    for _ in range(ctx.n(80, 1500)):
        wit = None
        if rng.random() < 0.6:
            wit = [rng.choice([0, 1, 64, 65, 72, 252, 253, 520]) for _ in range(rng.choice([0, 1, 2, 3, 252, 253]))]
        w = {"seed": rng.getrandbits(32), "n_in": rng.choice([1, 2, 3, 252, 253, 254]),
             "n_out": rng.choice([0, 1, 2, 252, 253, 300]), "sig_len": rng.choice(edge + [65535, 65536]),
             "spk_len": rng.choice(edge + [10000, 10001, 65535, 65536]), "wit": wit}
        ctx.check("size.tx", w)
        ctx.count("size.tx.class", "segwit" if wit is not None else "legacy")
    lines = []
    for _ in range(ctx.n(12, 120)):
        w = {"seed": rng.getrandbits(32), "n_tx": rng.choice([1, 2, 3, 252, 253, 254, 300]),
             "n_in": rng.choice([1, 252, 253]), "segwit": rng.random() < 0.6}
        ctx.check("size.block", w)
        # the model's sums (translated Block._serialized_size / Tx._serialized_size over the parts) against the real block
        lines.append(_size_block_line(w))
    ctx.stream("size.block", lines)


def _psize_line(rng, psbt_in, spk):
    """op line for `psize.input` from a PsbtIn the library's updater filled, possibly perturbed."""
    from btclib.hashes import hash160
    redeem, ws = psbt_in.redeem_script, psbt_in.witness_script
    keys = list(psbt_in.hd_key_paths)
    sht, leaf, fss, fwit, sizer = psbt_in.sig_hash_type, bool(psbt_in.taproot_leaf_scripts), b"", [], "None"
    r = rng.random()
    if r < 0.08:
        redeem = b""
    elif r < 0.14:
        ws = b""
    elif r < 0.2:
        keys = []
    elif r < 0.25:
        spk = None
    elif r < 0.3:
        fss, fwit = bytes(rng.randrange(0, 300)), [bytes(rng.randrange(0, 80)) for _ in range(rng.randrange(0, 4))]
    elif r < 0.36:
        leaf = True
    elif r < 0.42:
        redeem, ws = ws, redeem
    elif r < 0.48:
        spk = G.rand_script(rng)[:600]
        # the driver judges key validity by SHAPE (it has no curve arithmetic): a random p2pk-shaped script whose
        # "key" has a valid prefix byte but is not a curve point would be a harness artefact, so its prefix is spoiled
        if len(spk) in (35, 67) and spk[0] == len(spk) - 2 and spk[-1] == 0xAC and spk[1] in (2, 3, 4):
            from btclib.curves.sec_point import point_from_octets
            try:
                point_from_octets(spk[1:-1])
            except Exception:  # noqa: BLE001
                spk = spk[:1] + b"\x05" + spk[2:]
    if rng.random() < 0.3:
        sizer = rng.choice(["_", "72", "65,34,33", "1,2,3,300", "0"])
    if rng.random() < 0.15:
        sht = rng.choice([None, 0, 1, 3, 0x81])
    ktok = ",".join(f"{k.hex()}:{hash160(k).hex()}" for k in keys) or "-"
    return (f"psize.input {'None' if spk is None else hx(spk)} {hx(redeem)} {hx(ws)} {ktok} "
            f"{'None' if sht is None else sht} {1 if leaf else 0} {hx(fss)} "
            f"{','.join(hx(e) for e in fwit) or '-'} {sizer}")


def _o_sigops_tx(w):
    """Tx.sig_op_count / Block.sig_op_count are the sums of sig_op_count over script_sigs and script_pub_keys."""
    import random
    from btclib.script.sig_ops import sig_op_count
    rng = random.Random(w["seed"])
    vin = [TxIn(OutPoint(bytes([i + 1]) * 32, i), _rand_sigops_script(rng), 0, check_validity=False)
           for i in range(rng.choice([1, 2, 5]))]
    vout = [TxOut(1, _rand_sigops_script(rng), check_validity=False) for _ in range(rng.choice([0, 1, 3]))]
    tx = Tx(1, 0, vin, vout, check_validity=False)
    want = sum(sig_op_count(i.script_sig) for i in tx.vin) + sum(sig_op_count(o.script_pub_key.script) for o in tx.vout)
    return tx.sig_op_count == want, f"tx.sig_op_count={tx.sig_op_count} sum={want}"


def _rand_sigops_script(rng):
    parts = []
    for _ in range(rng.randrange(0, 12)):
        r = rng.random()
        if r < 0.4:
            parts.append(bytes([rng.choice([0xAC, 0xAD, 0xAE, 0xAF, 0xAB, 0x51, 0x00, 0x6A, 0xBA])]))
        elif r < 0.7:
            n = rng.choice([1, 2, 20, 33, 75])
            parts.append(bytes([n]) + bytes(rng.choice([0xAC, 0xAE, 7]) for _ in range(n)))
        elif r < 0.8:
            n = rng.choice([0, 1, 76, 255])
            parts.append(bytes([0x4C, n]) + bytes([0xAE]) * n)
        elif r < 0.88:
            n = rng.choice([0, 3, 256, 300])
            parts.append(bytes([0x4D]) + n.to_bytes(2, "little") + bytes([0xAC]) * n)
        elif r < 0.92:
            parts.append(bytes([0x4E]) + (5).to_bytes(4, "little") + bytes([0xAC]) * 5)
        else:   # a push running past the end: the count stops there
            parts.append(bytes([rng.choice([0x20, 0x4B, 0x4C, 0x4D, 0x4E])]) + bytes([0xAC]) * rng.randrange(0, 3))
    return b"".join(parts)


ORACLES["sigops.tx"] = _o_sigops_tx


def _run_psize(ctx):
    """the psbt_size model against the real estimated_input_sizes / placeholder weight, and sig_op_count."""
    from btclib.hashes import hash160
    from btclib.psbt.psbt_out import PsbtOut as _PsbtOut
    rng = ctx.rng
    lines = []
    for _ in range(ctx.n(500, 8000)):
        t, k = rng.randrange(len(TEMPLATES)), rng.randrange(100)
        d = _descriptor(TEMPLATES[t])
        spk = d.script_pub_key(k).script
        pin = PsbtIn(witness_utxo=TxOut(1000, spk, check_validity=False), previous_tx_id=b"\x07" * 32, output_index=0)
        psbt = Psbt(2, [pin], [_PsbtOut(amount=1, script_pub_key=PAY.script)], 0, {}, fallback_lock_time=0,
                    check_validity=False)
        psbt = d.update_psbt_input(psbt, 0, k)
        lines.append(_psize_line(rng, psbt.inputs[0], spk))
        ctx.count("psize.template", TEMPLATES[t])
    # raw-key shapes in both compressions (pkh inside sh / wsh / sh-wsh included), key named by the psbt or not
    for _ in range(ctx.n(300, 4000)):
        sh_i, comp = rng.randrange(len(RAW_SHAPES)), rng.choice([0, 0, 1])
        psbt, _prevs = _raw_psbt([[sh_i, comp, rng.randrange(60)]], 1)
        pin = psbt.inputs[0]
        spk = pin.non_witness_utxo.vout[0].script_pub_key.script
        line = _psize_line(rng, pin, spk) if rng.random() < 0.4 else None
        if line is None:
            keys = list(pin.hd_key_paths) if rng.random() < 0.8 else []
            ktok = ",".join(f"{k.hex()}:{hash160(k).hex()}" for k in keys) or "-"
            line = f"psize.input {hx(spk)} {hx(pin.redeem_script)} {hx(pin.witness_script)} {ktok} None 0 _ - None"
        lines.append(line)
        ctx.count("psize.raw", RAW_SHAPES[sh_i] + ("" if comp else "/uncompressed"))
    # every multisig threshold OP_1 … OP_16, bare / sh / wsh / sh-wsh (the size model reads m off the first op code)
    for m in range(1, 17):
        for n in sorted({m, 16, rng.randrange(m, 17)}):
            for wrap in ("{}", "wsh({})", "sh(wsh({}))") + (("sh({})",) if n <= 15 else ()):
                spk, redeem, ws, keys = _raw_input(wrap.format(f"{m}of{n}"), True, rng.randrange(60))
                lines.append(f"psize.input {hx(spk)} {hx(redeem)} {hx(ws)} - None 0 _ - None")
                ctx.count("psize.threshold", f"OP_{m}")
    unc = bytes.fromhex("04" + KEY[2:]) + bytes.fromhex(
        "1ae168fea63dc339a3c58419466ceaeef7f632653266d0e1236431a950cfe52a")
    spk = ScriptPubKey.p2pkh(unc).script
    for ktok in ("-", f"{unc.hex()}:{hash160(unc).hex()}"):
        lines.append(f"psize.input {hx(spk)} _ _ {ktok} None 0 _ - None")
    ctx.stream("psize.input", lines)

    edge = [0, 1, 72, 75, 76, 107, 252, 253, 254, 255, 256, 520, 65535, 65536]
    lines = []
    for _ in range(ctx.n(300, 5000)):
        n_in = rng.choice([1, 1, 2, 3, 5, 252, 253])
        ins = []
        for _i in range(n_in):
            w = "-" if rng.random() < 0.5 else "/".join(
                str(rng.choice(edge[:12])) for _ in range(rng.choice([1, 2, 3, 4] if n_in > 5 else [1, 2, 3, 252, 253])))
            ins.append(f"{rng.choice(edge if n_in < 6 else edge[:8])}:{w}")
        outs = ",".join(str(rng.choice([0, 22, 25, 34, 252, 253, 10000])) for _ in range(rng.choice([0, 1, 2, 3]))) or "_"
        lines.append(f"psize.weight {';'.join(ins)} {outs}")
    ctx.stream("psize.weight", lines)

    lines = []
    for _ in range(ctx.n(1200)):
        r = rng.random()
        sc = _rand_sigops_script(rng) if r < 0.7 else G.rand_script(rng)[:400]
        lines.append(f"sigops.count {hx(sc)}")
    ctx.stream("sigops.count", lines)
    for _ in range(ctx.n(100)):
        ctx.check("sigops.tx", {"seed": rng.getrandbits(32)})


def _run_estimate(ctx):
    rng = ctx.rng
    lines = []
    for _ in range(ctx.n(400)):
        bits = [rng.choice([1, 7, 8, 9, 15, 16, 127, 128, 247, 248, 249, 254, 255, 256]) for _ in range(2)]
        r, s_ = [max(1, rng.getrandbits(b) | (1 << (b - 1)) if rng.random() < 0.7 else rng.getrandbits(b)) for b in bits]
        lines.append(f"der.len {r} {s_}")
    ctx.stream("der.len", lines)
    # every template alone (two address indexes, default and explicit sighash), then random mixes
    for t in range(len(TEMPLATES)):
        for k in (0, rng.randrange(1, 50)):
            ctx.check("psbt.estimate", {"inputs": [[t, k, 0]], "n_out": 1})
        ctx.check("psbt.estimate", {"inputs": [[t, rng.randrange(50), 1]], "n_out": 2})
        ctx.count("estimate.template", TEMPLATES[t])
    for _ in range(ctx.n(300, 6000)):
        n = rng.choice([1, 2, 3, 5])
        ins = [[rng.randrange(len(TEMPLATES)), rng.randrange(200), rng.choice([0, 0, 1])] for _ in range(n)]
        ctx.check("psbt.estimate", {"inputs": ins, "n_out": rng.choice([1, 2, 3])})
    # every shape × {compressed, uncompressed} alone, then mixes
    # funded, signed, finalized: the fee on the FINAL vsize, at the change / no-change boundary
    for _ in range(ctx.n(40, 300)):
        ins = [[rng.randrange(len(TEMPLATES)), rng.randrange(100)] for _ in range(rng.choice([1, 1, 2, 3]))]
        ctx.check("funding.final", {"inputs": ins, "outs": [rng.choice([546, 1000, 60_000]) for _ in range(rng.choice([1, 2]))],
                                    "rate": rng.choice([1, 999, 1000, 1001, 2500, 10_000, 123_456]),
                                    "change": rng.choice(["wpkh", "tr", "pkh", "sh"]), "delta": rng.choice([-1, 0, 0, 1, -1, 5000])})
    for t in range(len(TAP_TEMPLATES)):
        for sht in (0, 1) if t < 3 or ctx.tier != "quick" else (rng.choice([0, 1, 0x81]),):
            ctx.check("psbt.estimate_tapleaf", {"t": t, "k": rng.randrange(40), "sht": sht, "n_out": rng.choice([1, 2])})
    for sh_i in range(len(RAW_SHAPES)):
        for comp in (1, 0):
            ctx.check("psbt.estimate_raw", {"inputs": [[sh_i, comp, rng.randrange(60)]], "n_out": 1})
            ctx.count("estimate.raw", RAW_SHAPES[sh_i] + ("" if comp else "/uncompressed"))
    # the multisig threshold over its whole range OP_1 … OP_16 (quick: the edges and two inside; thorough: all)
    mofn = list(range(len(RAW_SHAPES), len(RAW_SHAPES_ALL)))
    edges = [i for i in mofn if RAW_SHAPES_ALL[i] in ("wsh(1of16)", "wsh(15of16)", "wsh(16of16)", "wsh(15of15)",
                                                       "sh(wsh(16of16))", "16of16", "sh(15of15)", "wsh(1of1)")]
    for sh_i in (mofn if ctx.tier != "quick" else edges + rng.sample(mofn, 2)):
        ctx.check("psbt.estimate_raw", {"inputs": [[sh_i, 1, rng.randrange(60)]], "n_out": 1})
        ctx.count("estimate.raw", RAW_SHAPES_ALL[sh_i])
    for _ in range(ctx.n(150, 3000)):
        ins = [[rng.randrange(len(RAW_SHAPES)), rng.choice([0, 1]), rng.randrange(60)] for _ in range(rng.choice([1, 2, 3, 4]))]
        ctx.check("psbt.estimate_raw", {"inputs": ins, "n_out": rng.choice([1, 2])})


def run(ctx):
    _run_fee(ctx)
    _run_funding(ctx)
    _run_amount(ctx)
    _run_sizes(ctx)
    _run_estimate(ctx)
    _run_psize(ctx)
