"""C18 — sizes, fees and amounts are exact integer accounting (DESIGN §3 C18)."""
from __future__ import annotations

import os
import sys
from decimal import Decimal

from btclib import fee as fee_mod
from btclib.fee import FeeRate, dust_threshold, fee_from_vsize, package_fee
from btclib.psbt.psbt import Psbt, prevouts
from btclib.psbt.psbt_in import PsbtIn
from btclib.script import ScriptPubKey
from btclib.script.script_pub_key import is_segwit
from btclib.tx import OutPoint, Tx, TxIn, TxOut
from btclib.tx_builder import build_psbt

from . import common
from .common import hx, unhx

sys.path.insert(0, os.path.join(common.ROOT, "tools"))

PROP = "C18"
EXE = "drv_c18"
GEN_MODULES = ["Fee"]
RULE = ("op lines come from one seeded PRNG: boundary-heavy integers (multiples of 1000 ± 1, CompactSize and 2^53 "
        "edges), script shapes around every branch of dust_threshold/is_segwit, structure-aware transactions, "
        "blocks and PSBTs; a case is non-trivial when the implementation did not refuse it at the first check; "
        "distinct = distinct (stream, op line / oracle witness)")
TRUSTED = [
    "Model/Common/PyFloat.lean: IEEE-754 description of CPython's int/int true division and math.ceil "
    "(validated by gen.Fee.*_vsize around 2^53 and 2^1024 on every run)",
    "Btc.C18.Core.* is a hand transcription of Bitcoin Core's GetDustThreshold / IsUnspendable / IsWitnessProgram",
    "hand-written entry points (FeeRate guard, is_segwit, funding decision, Decimal model) are tied by correspondence only",
]
ASSUMPTIONS = ["vsize = ceil(weight/4) is exact only for weight < 2^53 (float division in the source); "
               "consensus weights are < 4*10^6"]


def _spec_gens():
    import importlib.util
    p = os.path.join(common.ROOT, "tools", "specs", "fee.py")
    spec = importlib.util.spec_from_file_location("specs_fee_for_c18", p)
    m = importlib.util.module_from_spec(spec)
    spec.loader.exec_module(m)
    return m


G = _spec_gens()


# ------------------------------------------------------------------ implementation side
def _rate(r: int) -> FeeRate:
    return FeeRate(sats_per_kvbyte=r)


KEY = "02c6047f9441ed7d6d3045406e95c07cd85c778e4b8cef3ca7abac09b95c709ee5"
KEY2 = "02f9308a019258c31049344f85f89d5229b531c845836f99b08601f113bce036f9"
PAY = ScriptPubKey.p2wpkh(KEY)


def _fund_input(kind: str, value: int, i: int) -> PsbtIn:
    """one spendable input map per script kind: w p2wpkh, t p2tr, s p2sh-p2wpkh, p p2pkh, u undetermined type."""
    tx_id = bytes([i + 1]) * 32
    if kind == "w":
        return PsbtIn(witness_utxo=TxOut(value, PAY), previous_tx_id=tx_id, output_index=0)
    if kind == "t":
        return PsbtIn(witness_utxo=TxOut(value, ScriptPubKey.p2tr(KEY)), previous_tx_id=tx_id, output_index=0)
    if kind == "s":
        rs = PAY.script
        return PsbtIn(witness_utxo=TxOut(value, ScriptPubKey.p2sh(rs)), previous_tx_id=tx_id, output_index=0,
                      redeem_script=rs)
    if kind == "p":
        prev = Tx(vin=[TxIn(OutPoint(tx_id, 0))], vout=[TxOut(value, ScriptPubKey.p2pkh(KEY))])
        return PsbtIn(non_witness_utxo=prev, previous_tx_id=prev.id, output_index=0)
    if kind == "u":
        return PsbtIn(witness_utxo=TxOut(value, b"\x51\x87"), previous_tx_id=tx_id, output_index=0)
    raise ValueError(kind)


def _csv(s):
    return [] if s == "_" else s.split(",")


class _Estimator:
    """Observation / injection point on `Psbt.vsize_estimate` for the duration of one build_psbt call.

    mode `real`: the real estimator runs and what it answered per psbt shape is recorded;
    mode `fake`: the estimator is replaced by the op line's numbers (the theorems hold for any estimator)."""

    def __init__(self, mode, n_out, e1, e2):
        self.mode, self.n_out, self.e = mode, n_out, {n_out + 1: e1, n_out: e2}
        self.seen = {}

    def __enter__(self):
        self.orig = Psbt.vsize_estimate
        me = self

        def patched(psbt, sizer=None):
            n = len(psbt.outputs)
            if me.mode == "real":
                try:
                    v = me.orig(psbt, sizer)
                except Exception as e:  # noqa: BLE001
                    me.seen[n] = "E" if common.err_class(e) == "value" else "X"
                    raise
                me.seen[n] = str(v)
                return v
            psbt.assert_valid()
            tok = me.e.get(n, "NA")
            me.seen[n] = tok
            if tok == "E":
                from btclib.exceptions import BTClibValueError
                raise BTClibValueError("injected: no estimate")
            return int(tok)
        Psbt.vsize_estimate = patched
        return self

    def __exit__(self, *a):
        Psbt.vsize_estimate = self.orig


def _funding_call(t):
    """-> (canonical line, FundedPsbt | None, estimator observations)"""
    mode, ins, outs, rate, change, dust_rate, e1, e2 = t[1:9]
    inputs = [_fund_input(x[0], int(x[1:]), i) for i, x in enumerate(_csv(ins))]
    outputs = [TxOut(int(v), PAY) for v in _csv(outs)]
    ch = None if change == "None" else unhx(change)
    with _Estimator(mode, len(outputs), e1, e2) as est:
        try:
            built = build_psbt(inputs, outputs, _rate(int(rate)), ch, dust_fee_rate=_rate(int(dust_rate)))
        except Exception as e:  # noqa: BLE001
            c = common.err_class(e)
            return "err " + (c if not c.startswith("foreign") else "foreign"), None, est
    if mode == "real":
        # the numbers the model was given must be the ones the real estimator answered
        for n, tok in ((len(outputs) + 1, e1), (len(outputs), e2)):
            if n in est.seen and est.seen[n] != tok:
                return f"err estimator-mismatch {n}:{est.seen[n]}!={tok}", built, est
    if built.change_index is not None and built.change_index != len(outputs):
        return f"err change-index {built.change_index}", built, est
    return f"ok {built.fee} {built.change if built.change_index is not None else 'None'}", built, est


def impl(line: str) -> str:
    t = line.split(" ")
    op = t[0]
    if op == "fee.fee_from_vsize":
        return common.call_impl(lambda: fee_from_vsize(int(t[1]), _rate(int(t[2]))))
    if op == "fee.package_fee":
        return common.call_impl(lambda: package_fee(int(t[1]), _rate(int(t[2])), ancestor_vsize=int(t[3]),
                                                    ancestor_fee=int(t[4])))
    if op == "fee.dust":
        return common.call_impl(lambda: dust_threshold(unhx(t[1]), _rate(int(t[2]))))
    if op == "fee.core_dust":
        # the *model's* transcription of Core against the real dust_threshold (non-negative rates)
        return common.call_impl(lambda: dust_threshold(unhx(t[1]), _rate(int(t[2]))))
    if op == "fee.is_segwit":
        return common.call_impl(lambda: is_segwit(unhx(t[1])))
    if op == "funding.build":
        return _funding_call(t)[0]
    return "bad-op"


# ------------------------------------------------------------------ property oracles (real code only)
def _ceil_div(a: int, b: int) -> int:
    return -((-a) // b)


def _o_fee_ceiling(w):
    v, r = w["v"], w["r"]
    f = fee_from_vsize(v, _rate(r))
    ok = isinstance(f, int) and not isinstance(f, bool) and f * 1000 >= r * v > (f - 1) * 1000 and f >= 0
    return ok, f"fee_from_vsize({v}, {r} sat/kvB) = {f}"


def _o_fee_monotone(w):
    f1 = fee_from_vsize(w["v"], _rate(w["r"]))
    f2 = fee_from_vsize(w["v"] + w["dv"], _rate(w["r"] + w["dr"]))
    return f1 <= f2, f"fee({w['v']},{w['r']})={f1} fee({w['v'] + w['dv']},{w['r'] + w['dr']})={f2}"


def _o_package(w):
    v, r, av, af = w["v"], w["r"], w["av"], w["af"]
    p = package_fee(v, _rate(r), ancestor_vsize=av, ancestor_fee=af)
    own = fee_from_vsize(v, _rate(r))
    pkg = fee_from_vsize(v + av, _rate(r))
    ok = p >= own and p + af >= pkg and (p == own or p + af == pkg)
    if av == 0 and af == 0:
        ok = ok and p == own
    return ok, f"package_fee({v},{r},{av},{af})={p} own={own} package={pkg}"


def core_dust_reference(spk: bytes, rate: int) -> int:
    """Bitcoin Core policy.cpp GetDustThreshold, transcribed independently of btclib and of the Lean model."""
    if (len(spk) > 0 and spk[0] == 0x6A) or len(spk) > 10000:
        return 0
    n = len(spk)
    cs = 1 if n < 253 else 3 if n <= 0xFFFF else 5 if n <= 0xFFFFFFFF else 9
    size = 8 + cs + n
    wit = (4 <= n <= 42 and (spk[0] == 0 or 0x51 <= spk[0] <= 0x60) and spk[1] + 2 == n)
    size += (32 + 4 + 1 + (107 // 4) + 4) if wit else (32 + 4 + 1 + 107 + 4)
    return _ceil_div(rate * size, 1000)


def _o_dust_core(w):
    spk, r = bytes.fromhex(w["spk"]), w["r"]
    d = dust_threshold(spk, _rate(r))
    ref = core_dust_reference(spk, r)
    return d == ref, f"dust_threshold({w['spk'][:80]}…, {r}) = {d}, Core's formula gives {ref}"


def _o_fee_glue(w):
    """public entry points refuse non-integers with the library's TypeError and never answer a non-int."""
    kind = w["kind"]
    bad = {"bool": True, "float": 141.5, "str": "141", "none": None, "decimal": Decimal(141)}[w["bad"]]
    try:
        if kind == "vsize":
            out = fee_from_vsize(bad, _rate(1000))
        elif kind == "rate":
            out = FeeRate(sats_per_kvbyte=bad)
        elif kind == "ancestor_vsize":
            out = package_fee(100, _rate(1000), ancestor_vsize=bad)
        elif kind == "ancestor_fee":
            if w["bad"] in ("none", "decimal", "str"):
                # valid_sats_amount reads these as the integer they spell: must then be an int answer
                out = package_fee(100, _rate(1000), ancestor_vsize=10, ancestor_fee=bad)
                return isinstance(out, int) and not isinstance(out, bool), f"{kind}={bad!r} -> {out!r}"
            out = package_fee(100, _rate(1000), ancestor_vsize=10, ancestor_fee=bad)
        elif kind == "positional_rate":
            out = FeeRate(3000)  # type: ignore[misc]
        else:
            return False, "unknown kind"
    except Exception as e:  # noqa: BLE001
        c = common.err_class(e)
        if kind == "positional_rate":
            return isinstance(e, TypeError), f"FeeRate(3000) raised {type(e).__name__}"
        return c == "type", f"{kind}={bad!r} raised {type(e).__name__} ({c})"
    return False, f"{kind}={bad!r} accepted: {out!r}"


def _o_funding(w):
    """FundedPsbt invariants read off the real objects: conservation, rate paid on the estimate of the
    psbt returned, no dust change, change only where asked, refusal only when it must."""
    t = w["line"].split(" ")
    mode, ins, outs, rate, change, dust_rate = t[1:7]
    line, built, est = _funding_call(t)
    total_in = sum(int(x[1:]) for x in _csv(ins))
    total_out = sum(int(v) for v in _csv(outs))
    n_out = len(_csv(outs))
    r, dr = _rate(int(rate)), _rate(int(dust_rate))
    if built is None:
        if not line.startswith("err value"):
            return False, f"build_psbt left through {line}"
        if total_out > 2_100_000_000_000_000 or "E" in est.seen.values():
            return True, "refused upstream of the decision"
        # a refusal must be one of: nothing paid, inputs short of outputs + owed, change above MAX_MONEY
        last = est.seen.get(n_out)
        if n_out == 0 and (change == "None" or last is None):
            return True, "no outputs"
        if last is not None and int(last) >= 0 and total_in - total_out < fee_from_vsize(int(last), r):
            return True, "inputs do not cover"
        first = est.seen.get(n_out + 1)
        if first is not None and int(first) < 0 or last is not None and int(last) < 0:
            return True, "negative injected estimate refused by fee_from_vsize"
        if first is not None and change != "None":
            ch = total_in - total_out - fee_from_vsize(int(first), r)
            if ch >= dust_threshold(unhx(change), dr) and total_out + ch > 2_100_000_000_000_000:
                return True, "change above MAX_MONEY"
        return False, f"refused without cause: {w['line'][:200]} seen={est.seen}"
    psbt = built.psbt
    vout = [o.value for o in psbt.tx.vout]
    spent = sum(p.value for p in prevouts(psbt))
    ok = spent == total_in == sum(vout) + built.fee
    ok = ok and vout[:n_out] == [int(v) for v in _csv(outs)]
    if mode == "real":
        ok = ok and built.fee >= fee_from_vsize(psbt.vsize_estimate(), r)
    else:
        ok = ok and built.fee >= fee_from_vsize(int(est.seen[len(psbt.outputs)]), r)
    if built.change_index is None:
        ok = ok and len(vout) == n_out and built.change == 0
    else:
        ok = ok and change != "None" and len(vout) == n_out + 1 and built.change_index == n_out
        ok = ok and vout[-1] == built.change >= dust_threshold(unhx(change), dr)
        ok = ok and psbt.tx.vout[-1].script_pub_key.script == unhx(change)
    return ok, f"{line} vout={vout} in={total_in} seen={est.seen}"


ORACLES = {
    "funding.invariants": _o_funding,
    "fee.ceiling": _o_fee_ceiling,
    "fee.monotone": _o_fee_monotone,
    "fee.package": _o_package,
    "fee.dust_core": _o_dust_core,
    "fee.glue": _o_fee_glue,
}


# ------------------------------------------------------------------ run
def _run_fee(ctx):
    rng = ctx.rng
    lines = []
    for _ in range(ctx.n(1500)):
        v, r = G._gen_fee(rng)
        if rng.random() < 0.1:
            r = -r - 1
        lines.append(f"fee.fee_from_vsize {v} {r}")
        if v >= 0 and r >= 0:
            ctx.check("fee.ceiling", {"v": v, "r": r})
            ctx.check("fee.monotone", {"v": v, "r": r, "dv": G._nat(rng, 20), "dr": G._nat(rng, 20)})
    # the residues where a truncating or off-by-one rounding shows: rate*vsize = k*1000 + {0, 1, 999}
    for k in range(ctx.n(200)):
        r = rng.choice([1, 7, 999, 1000, 1001, 1500, 12345])
        target = rng.randrange(0, 10**7) * 1000 + rng.choice([0, 1, 999, 500])
        v = target // r
        for vv in (v, v + 1):
            lines.append(f"fee.fee_from_vsize {vv} {r}")
            ctx.check("fee.ceiling", {"v": vv, "r": r})
    ctx.stream("fee.fee_from_vsize", lines)

    lines = []
    for _ in range(ctx.n(1200)):
        v, av, af, r = G._gen_package(rng)
        if rng.random() < 0.05:
            r = -r - 1
        if rng.random() < 0.3 and v >= 0 and av >= 0 and r >= 0:
            # ancestors paying about what the rate asks: both sides of the max
            af = max(0, fee_from_vsize(av, _rate(r)) + rng.choice([-2, -1, 0, 1, 2, 50]))
            af = min(af, 2_100_000_000_000_000)
        lines.append(f"fee.package_fee {v} {r} {av} {af}")
        if v >= 0 and av >= 0 and r >= 0 and 0 <= af <= 2_100_000_000_000_000:
            ctx.check("fee.package", {"v": v, "r": r, "av": av, "af": af})
    ctx.stream("fee.package_fee", lines)

    lines, core_lines, seg_lines = [], [], []
    for _ in range(ctx.n(1500)):
        spk = G.rand_script(rng)
        r = rng.choice([3000, 3000, 0, 1, 1000, 999, G._nat(rng, 30)])
        if rng.random() < 0.04:
            r = -r - 1
        lines.append(f"fee.dust {hx(spk)} {r}")
        seg_lines.append(f"fee.is_segwit {hx(spk)}")
        if r >= 0:
            core_lines.append(f"fee.core_dust {hx(spk)} {r}")
            ctx.check("fee.dust_core", {"spk": spk.hex(), "r": r})
            ctx.count("dust.class", "segwit" if is_segwit(spk) else "op_return" if spk[:1] == b"\x6a"
                      else "oversize" if len(spk) > 10000 else "legacy")
    ctx.stream("fee.dust", lines)
    ctx.stream("fee.core_dust", core_lines)
    ctx.stream("fee.is_segwit", seg_lines)
    for cls in ("segwit", "op_return", "oversize", "legacy"):
        if not ctx.hist.get("dust.class", {}).get(cls):
            raise common.HarnessError(f"dust generator left class {cls} empty")

    for kind in ("vsize", "rate", "ancestor_vsize", "ancestor_fee"):
        for bad in ("bool", "float", "str", "none", "decimal"):
            if kind == "ancestor_fee" and bad == "str":
                continue
            ctx.check("fee.glue", {"kind": kind, "bad": bad})
    ctx.check("fee.glue", {"kind": "positional_rate", "bad": "bool"})


def _learn_estimates(kinds_values, outs, change):
    """ask the real estimator (through build_psbt's own construction) for both psbt shapes."""
    toks = []
    for with_change in (True, False):
        if with_change and change == "None":
            toks.append("NA")
            continue
        t = ["funding.build", "real", kinds_values, outs, "0", change if with_change else "None", "0", "NA", "NA"]
        _, _, est = _funding_call(t)
        n = len(_csv(outs)) + (1 if with_change else 0)
        toks.append(est.seen.get(n, "NA"))
    return toks


def _run_funding(ctx):
    rng = ctx.rng
    M = 2_100_000_000_000_000
    change_scripts = [PAY.script, ScriptPubKey.p2tr(KEY2).script, ScriptPubKey.p2pkh(KEY2).script,
                      ScriptPubKey.p2sh(PAY.script).script, b"\x6a\x01\x00", b"", bytes([0x51]) * 300]
    lines = []
    for _ in range(ctx.n(1500, 20000)):
        mode = "real" if rng.random() < 0.55 else "fake"
        kinds = "".join(rng.choice("wwtsp") for _ in range(rng.choice([1, 1, 2, 3, 5])))
        if rng.random() < 0.04:
            kinds += "u"
        n_out = rng.choice([0, 1, 1, 1, 2, 3])
        out_vals = [rng.choice([0, 546, 1000, 60_000, rng.randrange(0, 200_000)]) for _ in range(n_out)]
        change = "None" if rng.random() < 0.25 else hx(rng.choice(change_scripts))
        rate = rng.choice([0, 1, 999, 1000, 1001, 2500, 10_000, 123_456, G._nat(rng, 24)])
        dust_rate = rng.choice([3000, 3000, 0, 1, 1000, 30_000])
        in_vals = [rng.randrange(1000, 150_000) for _ in kinds]
        outs = ",".join(map(str, out_vals)) or "_"
        if mode == "real":
            e1, e2 = _learn_estimates(",".join(k + "1000" for k in kinds), outs, change)
        else:
            e1 = rng.choice(["E", str(rng.randrange(-3, 3))] + [str(rng.randrange(50, 2000))] * 6)
            e2 = rng.choice(["E", str(rng.randrange(-3, 3))] + [str(rng.randrange(50, 2000))] * 6)
            if change == "None":
                e1 = "NA"
        # aim the remainder at the decision boundaries: dust threshold ± 1, owed ± 1, nothing left
        if e1 not in ("E", "NA", "X") and e2 not in ("E", "NA", "X") and rng.random() < 0.7 and int(e2) >= 0 \
                and (change == "None" or int(e1) >= 0):
            owed = fee_from_vsize(int(e2), _rate(rate))
            if change != "None":
                f1 = fee_from_vsize(int(e1), _rate(rate))
                d = dust_threshold(unhx(change), _rate(dust_rate))
                target = sum(out_vals) + rng.choice([f1 + d, f1 + d - 1, f1 + d + 1, owed, owed - 1, owed + 1, f1, 0])
            else:
                target = sum(out_vals) + rng.choice([owed, owed - 1, owed + 1, 0, owed + 5000])
            target = max(target, len(kinds))
            in_vals = [target // len(kinds)] * len(kinds)
            in_vals[0] += target - sum(in_vals)
            if max(in_vals) > M:      # a fee no input could hold: every input at MAX_MONEY instead
                in_vals = [M] * len(kinds)
        elif rng.random() < 0.06:
            in_vals = [rng.choice([M, M - 1, M // 2 + 1]) for _ in kinds]   # sums above MAX_MONEY
            if rng.random() < 0.5 and out_vals:
                out_vals[0] = M - rng.randrange(0, 2000)
                outs = ",".join(map(str, out_vals))
        ins = ",".join(k + str(v) for k, v in zip(kinds, in_vals))
        line = f"funding.build {mode} {ins} {outs} {rate} {change} {dust_rate} {e1} {e2}"
        lines.append(line)
        ctx.check("funding.invariants", {"line": line})
    outs_ = ctx.stream("funding.build", lines)
    for ln in lines:
        o = impl(ln)
        ctx.count("funding.outcome", "change" if o.startswith("ok") and not o.endswith("None")
                  else "no-change" if o.startswith("ok") else "refused")
    for cls in ("change", "no-change", "refused"):
        if not ctx.hist.get("funding.outcome", {}).get(cls):
            raise common.HarnessError(f"funding generator left class {cls} empty")


def run(ctx):
    _run_fee(ctx)
    _run_funding(ctx)
