"""C12 — taproot outputs commit to exactly their key and script tree (DESIGN §3 C12).

Correspondence: the Lean model (lean/Model/C12/Taproot.lean executed with `Btc.EC.ops secp256k1` and
`Btc.taggedHash`) against the real `btclib.script.taproot` entry points, on BOTH arithmetic arms
(`op@lib` = libsecp256k1 bindings serving, `op@py` = pure Python).  Oracles: the property itself on
the real code alone.
"""
from __future__ import annotations

import contextlib
import json
import os
import warnings

from btclib import b32, bip44
from btclib.curves import mult, secp256k1
from btclib.curves import curve as _curve
from btclib.descriptors import descriptors as D
from btclib.script import taproot as T
from btclib.script.engine import taproot_unwrap_script, verify_input
from btclib.script.engine.flags import ALL_FLAGS, ScriptFlag
from btclib.script import script_pub_key as SPK
from btclib.script.witness import Witness
from btclib.tx import OutPoint, Tx, TxIn, TxOut

from . import common, shared
from .common import hx, unhx

PROP = "C12"
EXE = "drv_c12"
GEN_MODULES = ["Taproot", "VarInt"]
RULE = ("one seeded PRNG draws script trees (random shapes, balanced, left/right chains to depth 127/128 and, refused for their depth by _subtree_helper, 129/200/5000, "
        "duplicated leaves and subtrees), internal keys in every SEC spelling and both y parities, and every "
        "leaf index; each op line runs on the real taproot.* entry point under the named arithmetic arm and on "
        "the Lean model; non-trivial = the implementation answered (did not refuse); distinct = distinct "
        "(stream, op line).  Oracles are evaluated on the real code alone.")
TRUSTED = ["SHA-256 / tagged hash of the model is executable Lean validated against hashlib each run (hash.* streams)",
           "T1/T2 over the raw arithmetic of secp256k1 carry no curve-level hypothesis (C01's `Lawful (opsSub K)`, the "
           "discriminant, primality of p, n and cofactor one `Btc.E2E.secpCofactorOne` are all proved); for another curve "
           "they take `hcof` (cofactor one) as an explicit hypothesis; T3 needs no group assumption (`LiftEven (EC.ops C)` is proved)",
           "taproot.serialize is modelled (serializeTap) for commands that are ints, ASCII strs, bytes-like objects or objects that are "
           "none of these and no list / tuple; a str command with a non-ASCII character (Python's Unicode strip / upper / int) and a "
           "list / tuple in command position are outside the model, not streamed; int(str)'s digit limit is the interpreter's "
           "(sys.get_int_max_str_digits() == 4300 is checked before the run)",
           "collision resistance of the tagged hash: soundness is a REDUCTION to an explicit collision / tweak alias"]
ASSUMPTIONS = ["libsecp256k1's xonly tweak functions are compared with the model, not verified"]

N = secp256k1.n
P_FIELD = secp256k1.p
warnings.filterwarnings("ignore")


# ------------------------------------------------------------------ arms
@contextlib.contextmanager
def arm(name):
    """Run the real code with the bindings serving ('lib') or the Python arithmetic ('py')."""
    old = _curve.is_libsecp256k1_serving()
    _curve.set_libsecp256k1_serving(serving=(name == "lib"))
    try:
        yield
    finally:
        _curve.set_libsecp256k1_serving(serving=old)


def err_kind(e: BaseException) -> str:
    c = common.err_class(e)
    m = str(e)
    if c == "type" and "invalid leaf version type" in m:
        return "err vtype"
    if c == "type" and "invalid tapscript type" in m:
        return "err stype"
    if c == "type" and ("invalid script command type" in m or "non-integer script number" in m):
        return "err ctype"
    if c != "value":
        return "err " + (c if not c.startswith("foreign") else "foreign")
    if "invalid string command" in m or "invalid OP_SUCCESS number" in m or "OP_SUCCESS must be followed" in m \
            or "script number out of range" in m or "too many bytes for OP_PUSHDATA" in m:
        return "err cmd"
    if "nesting levels" in m:
        return "err deep"
    if "invalid script tree node" in m:
        return "err node"
    if "invalid script tree leaf" in m:
        return "err leaf"
    if "invalid leaf version" in m:
        return "err version"
    if "control block too long" in m:
        return "err toolong"
    if "invalid control block length" in m:
        return "err badlen"
    if "Invalid script tree hash" in m:
        return "err tweak"
    if "missing data" in m:
        return "err missing"
    if "invalid leaf index" in m:
        return "err index"
    if "private key" in m:
        return "err prv"
    return "err key"


# ------------------------------------------------------------------ trees
# python tree: [(version, script_list)] | [left, right];  token: L.<v>.<hex> | N;<T>;<T>
def tok_of(tree) -> str:
    out, todo = [], [tree]          # iterative: chains go thousands deep
    while todo:
        t = todo.pop()
        if len(t) == 1:
            v, script = t[0]
            out.append(f"L.{v}.{hx(T.serialize(list(script)))}")
        else:
            out.append("N")
            todo += [t[1], t[0]]
    return ";".join(out)


def depth_of(tree) -> int:
    best, todo = 0, [(tree, 0)]
    while todo:
        t, d = todo.pop()
        if len(t) == 1:
            best = max(best, d)
        else:
            todo += [(t[0], d + 1), (t[1], d + 1)]
    return best


def tree_of(tok: str):
    toks = tok.split(";")
    pos = 0
    stack = []   # iterative prefix parser (chains are deeper than the recursion limit allows comfortably)
    out = None
    while True:
        t = toks[pos]
        pos += 1
        if t == "N":
            stack.append([])
            continue
        _, v, s = t.split(".")
        node = [(int(v), _script_list(unhx(s)))]
        while stack:
            stack[-1].append(node)
            if len(stack[-1]) == 2:
                node = stack.pop()
            else:
                node = None
                break
        if node is not None:
            out = node
            break
    if pos != len(toks):
        raise ValueError("trailing tokens")
    return out


_PARSE_CACHE: dict[bytes, list] = {}


def _script_list(b: bytes):
    """A command list that `taproot.serialize` turns back into exactly `b` (checked)."""
    if b not in _PARSE_CACHE:
        lst = T.parse(b)
        if T.serialize(list(lst)) != b:
            raise common.HarnessError(f"script {b.hex()} does not round-trip through taproot.parse/serialize")
        _PARSE_CACHE[b] = lst
    return list(_PARSE_CACHE[b])


from btclib.script import op_codes_tapscript as _OC  # noqa: E402
_OP_NAMES = sorted(_OC.OP_CODES)
OPS = ["OP_1", "OP_2", "OP_16", "OP_DUP", "OP_DROP", "OP_CHECKSIG", "OP_CHECKSIGADD", "OP_EQUAL", "OP_VERIFY",
       "OP_0", "OP_IF", "OP_ENDIF", "OP_NUMEQUAL", "OP_SWAP"]


def rand_script(rng, big=False):
    """canonical tapscript bytes built from commands (minimal pushes, so parse∘serialize is the identity)"""
    cmds = []
    for _ in range(rng.choice([0, 1, 1, 2, 3, 5])):
        r = rng.random()
        if r < 0.5:
            cmds.append(rng.choice(OPS))
        else:
            n = rng.choice([2, 20, 32, 33, 75, 76, 80, 255, 256, 300])
            cmds.append(common.rand_bytes(rng, n))
    if big:
        cmds += [common.rand_bytes(rng, 500)] * rng.choice([1, 140])   # CompactSize 253.. and 65536..
    return T.serialize(cmds)


def rand_leaf(rng, pool=None, big_ok=True):
    if pool and rng.random() < 0.4:
        return rng.choice(pool)
    v = rng.choice([0xC0, 0xC0, 0xC0, 0xC1, 0xC2, 0x00, 0x01, 0xFE, 0xFF, 0x50, 256 + 0xC0, 1000])
    lf = [(v, _script_list(rand_script(rng, big=big_ok and rng.random() < 0.04)))]
    if pool is not None:
        pool.append(lf)
    return lf


def rand_tree(rng, n_leaves, pool=None):
    if n_leaves <= 1:
        return rand_leaf(rng, pool)
    k = rng.randrange(1, n_leaves)
    return [rand_tree(rng, k, pool), rand_tree(rng, n_leaves - k, pool)]


def balanced(rng, depth, pool=None):
    if depth == 0:
        return rand_leaf(rng, pool, big_ok=False)
    return [balanced(rng, depth - 1, pool), balanced(rng, depth - 1, pool)]


def chain(rng, depth, left, pool=None):
    t = rand_leaf(rng, pool, big_ok=depth < 8)
    for _ in range(depth):
        sib = rand_leaf(rng, pool, big_ok=depth < 8)
        t = [t, sib] if left else [sib, t]
    return t


def chain_on(rng, sub, depth):
    """`sub` hung below a right-leaning chain of `depth` branches"""
    t = sub
    for _ in range(depth):
        t = [rand_leaf(rng, None, big_ok=False), t]
    return t


def n_leaves(tree):
    n, todo = 0, [tree]
    while todo:
        t = todo.pop()
        if len(t) == 1:
            n += 1
        else:
            todo += [t[0], t[1]]
    return n


def _position_bits(tree, i):
    """left/right choices (0/1) from the root to the i-th leaf in tree order — computed here, not by btclib"""
    bits = ""
    while len(tree) == 2:
        nl = n_leaves(tree[0])
        if i < nl:
            bits, tree = bits + "0", tree[0]
        else:
            bits, tree, i = bits + "1", tree[1], i - nl
    return bits


def gen_trees(ctx):
    rng = ctx.rng
    out = []
    for _ in range(ctx.n(10, 120)):
        pool = [] if rng.random() < 0.5 else None
        out.append(("random", rand_tree(rng, rng.choice([1, 2, 3, 4, 5, 8, 13]), pool)))
    for d in ([1, 3] if ctx.tier == "quick" else [1, 2, 3, 4, 5, 6]):
        out.append(("balanced", balanced(rng, d, [] if d % 2 else None)))
    dup = rand_leaf(rng)
    out.append(("dup-subtree", [[dup, dup], [dup, [dup, dup]]]))      # equal child hashes: the k == e branch
    sub = rand_tree(rng, 3)
    out.append(("dup-subtree", [sub, sub]))
    depths = [2, 7, 127, 128] if ctx.tier == "quick" else [1, 2, 7, 31, 64, 127, 128]
    for d in depths:
        for left in (True, False):
            out.append(("chain-left" if left else "chain-right", chain(rng, d, left, [] if d > 8 else None)))
    for d in (129, 200, 5000):      # _subtree_helper refuses depth > MAX_TREE_DEPTH (and never recurses past it)
        out.append(("chain-too-deep", chain(rng, d, rng.random() < 0.5, [])))
    deep_mid = chain(rng, 100, True, [])          # too deep in the middle of a tree, right subtree
    out.append(("chain-too-deep", [rand_leaf(rng), [rand_leaf(rng), deep_mid]]))
    out[-1] = ("chain-too-deep", chain_on(rng, out[-1][1], 30))
    return out


# ------------------------------------------------------------------ arbitrary Python values (what reaches tree_helper)
# AST: ("I", int) | ("A", truthy, k) | ("C", scriptbytes) | ("E", is_list) | ("O", is_list, x) | ("T", is_list, x, y)
#      | ("M", is_list, k)            token grammar: see lean/Driver/C12Main.lean
ATOMS_T = ["ab", b"x", 1.5, True, {"a": 1}, frozenset([1]), bytearray(b"\x51"), range(2), "OP_1", b"\xc0" * 34]
ATOMS_F = [None, "", b"", False, 0.0, {}, bytearray(), range(0)]
_GOOD_LEAF = ("O", True, ("T", False, ("I", 0xC0), ("C", b"\x51")))


# script commands: ("i", int) | ("s", ascii str) | ("b", bytes) | ("x", k)      token: i.<int> | s.<hex> | b.<hex> | x.<k>
CMD_OTHER = [None, 1.5, True, False, {"a": 1}, 0.0, frozenset()]


def cmd_tok(c) -> str:
    if c[0] == "i":
        return f"i.{c[1]}"
    if c[0] == "s":
        return f"s.{hx(c[1].encode('ascii'))}"
    if c[0] == "b":
        return f"b.{hx(c[1])}"
    return f"x.{c[1]}"


def cmd_obj(c):
    if c[0] == "i":
        return c[1]
    if c[0] == "s":
        return c[1]
    if c[0] == "b":         # every bytes-like spelling, chosen by the content so that the token determines the object
        return (bytes, bytearray, memoryview)[(len(c[1]) + sum(c[1][:2])) % 3](c[1])
    return CMD_OTHER[c[1] % len(CMD_OTHER)]


_WS = [" ", "\t", "\n", "\x0b", "\x0c", "\r", "\x1c", "\x1f", "  "]
_INTS = [0, 1, -1, 2, 16, 17, 127, 128, 129, 255, 256, -127, -128, -255, 32767, 32768, -32768, 2 ** 31 - 1, 2 ** 31, 2 ** 32,
         2 ** 63 - 1, -2 ** 63 + 1, -2 ** 63, 2 ** 63, -2 ** 63 - 1, 2 ** 64, 10 ** 30]


def rand_cmd(rng, ctx=None):
    """one script command of any kind, mostly one `taproot.serialize` accepts"""
    r = rng.random()

    def note(k):
        if ctx is not None:
            ctx.count("command kind", k)
    if r < 0.16:
        note("int")
        return ("i", rng.choice(_INTS) if rng.random() < 0.7 else rng.randrange(-2 ** 63, 2 ** 63))
    if r < 0.36:
        name = rng.choice(_OP_NAMES)
        q = rng.random()
        if q < 0.3:
            name = "".join(ch.lower() if rng.random() < 0.5 else ch for ch in name)
            note("str op name, mixed case")
        elif q < 0.45:
            name = rng.choice(_WS) + name + rng.choice(_WS)
            note("str op name, padded")
        elif q < 0.52:
            name = rng.choice([name[:-1], name + "X", name.replace("_", " ", 1), name[:3] + " " + name[3:], "OP_", ""])
            note("str op name, damaged")
        else:
            note("str op name")
        return ("s", name)
    if r < 0.52:
        h = common.rand_bytes(rng, rng.choice([0, 1, 2, 20, 32, 33, 75, 76, 77, 255, 256, 300])).hex()
        q = rng.random()
        if q < 0.2:
            h = h.upper()
        elif q < 0.4:
            h = "".join(ch.upper() if rng.random() < 0.5 else ch for ch in h)
        if q > 0.7 and len(h) >= 4:
            sep = rng.choice([" ", "\t", "\n", "  ", "\r", "\x0b"])
            h = sep.join(h[i:i + 2] for i in range(0, len(h), 2))
        if rng.random() < 0.15:
            h = rng.choice(_WS) + h + rng.choice(_WS)
        note("str hex")
        return ("s", h)
    if r < 0.60:
        note("str hex, damaged")
        g = common.rand_bytes(rng, rng.choice([1, 2, 5])).hex()
        return ("s", rng.choice([g[:-1], g[0] + " " + g[1:], g + "g", "0x" + g, g[:2] + "\x1c" + g[2:], g + "_", "-" + g, g[:1],
                                 g[:2] + "\x1c", "\x1c" + g, "+" + g]))
    if r < 0.70:
        note("str OP_SUCCESSx")
        n = rng.choice(T.OP_SUCCESS) if rng.random() < 0.6 else rng.choice([0, 79, 81, 97, 186, 255, 256, -80, 99])
        sp = rng.choice(["OP_SUCCESS{}", "OP_SUCCESS{}", "op_success{}", "Op_Success{}", " OP_SUCCESS{} ", "OP_SUCCESS {}", "OP_SUCCESS+{}",
                         "OP_SUCCESS0{}", "OP_SUCCESS{}_", "OP_SUCCESS_{}", "OP_SUCCESS{} \x1f", "OP_SUCCESS\t{}", "OP_SUCCESS{}.0",
                         "OP_SUCCESS", "OP_SUCCESSX", "OP_SUCCESS+ {}", "XOP_SUCCESS{}", "OP_SUCCESS0x{}"])
        t = sp.format(n)
        if rng.random() < 0.2 and len(str(n)) == 3:
            t = sp.format(str(n)[0] + "_" + str(n)[1:])
        return ("s", t)
    if r < 0.92:
        note("bytes")
        return ("b", common.rand_bytes(rng, rng.choice([0, 1, 1, 2, 20, 32, 33, 64, 74, 75, 76, 77, 254, 255, 256, 257, 520, 521])))
    note("other object")
    return ("x", rng.randrange(len(CMD_OTHER)))


def rand_cmds(rng, ctx=None):
    """a command list mixing every kind; an OP_SUCCESSx, when drawn, is mostly followed the way serialize wants"""
    n = rng.choice([0, 1, 1, 2, 3, 4, 6, 9])
    cs = [rand_cmd(rng, ctx) for _ in range(n)]
    for i, c in enumerate(cs):
        if c[0] == "s" and "success" in c[1].lower() and rng.random() < 0.7:
            cs = cs[:i + 1] + [("b", common.rand_bytes(rng, rng.choice([0, 1, 5, 80])))]
            if rng.random() < 0.15:
                cs.append(rand_cmd(rng, ctx))
            break
    return cs


def py_tok(a) -> str:
    k = a[0]
    lt = lambda b: "l" if b else "t"  # noqa: E731
    if k == "I":
        return f"I.{a[1]}"
    if k == "A":
        return f"A.{'t' if a[1] else 'f'}.{a[2]}"
    if k == "C":
        return f"C.{len(_script_list(a[1]))}.{hx(a[1])}"
    if k == "S":
        return ";".join([f"S.{len(a[1])}"] + [cmd_tok(c) for c in a[1]])
    if k == "E":
        return f"E.{lt(a[1])}"
    if k == "M":
        return f"M.{lt(a[1])}.{a[2]}"
    if k == "O":
        return f"O.{lt(a[1])};{py_tok(a[2])}"
    return f"T.{lt(a[1])};{py_tok(a[2])};{py_tok(a[3])}"


def py_ast(tok: str):
    toks = tok.split(";")
    pos = [0]

    def go():
        t = toks[pos[0]].split(".")
        pos[0] += 1
        k = t[0]
        if k == "I":
            return ("I", int(t[1]))
        if k == "A":
            return ("A", t[1] == "t", int(t[2]))
        if k == "C":
            return ("C", unhx(t[2]))
        if k == "S":
            cs = []
            for _ in range(int(t[1])):
                c = toks[pos[0]].split(".")
                pos[0] += 1
                cs.append({"i": lambda v: ("i", int(v)), "s": lambda v: ("s", unhx(v).decode("ascii")),
                           "b": lambda v: ("b", unhx(v)), "x": lambda v: ("x", int(v))}[c[0]](c[1]))
            return ("S", cs)
        if k == "E":
            return ("E", t[1] == "l")
        if k == "M":
            return ("M", t[1] == "l", int(t[2]))
        if k == "O":
            return ("O", t[1] == "l", go())
        x = go()
        return ("T", t[1] == "l", x, go())
    a = go()
    if pos[0] != len(toks):
        raise ValueError("trailing tokens")
    return a


def py_obj(a):
    """the Python object an AST stands for"""
    k = a[0]
    seq = lambda is_list, xs: list(xs) if is_list else tuple(xs)  # noqa: E731
    if k == "I":
        return a[1]
    if k == "A":
        pool = ATOMS_T if a[1] else ATOMS_F
        return pool[a[2] % len(pool)]
    if k == "C":
        return _script_list(a[1])
    if k == "S":
        return [cmd_obj(c) for c in a[1]]
    if k == "E":
        return seq(a[1], [])
    if k == "M":
        return seq(a[1], [py_obj(_GOOD_LEAF) for _ in range(a[2] + 3)])
    if k == "O":
        return seq(a[1], [py_obj(a[2])])
    return seq(a[1], [py_obj(a[2]), py_obj(a[3])])


def py_of_tree(rng, tree):
    """a well-formed AST for a python tree of this module, nodes and pairs spelled as lists or tuples at random"""
    if len(tree) == 1:
        v, script = tree[0]
        return ("O", rng.random() < 0.6, ("T", rng.random() < 0.3, ("I", v), ("C", T.serialize(list(script)))))
    return ("T", rng.random() < 0.6, py_of_tree(rng, tree[0]), py_of_tree(rng, tree[1]))


def rand_junk(rng, depth=0):
    r = rng.randrange(11)
    b = rng.random() < 0.5
    if r == 0:
        return ("I", rng.choice([0, 1, -1, 0xC0, 2 ** 70]))
    if r == 1:
        return ("A", True, rng.randrange(16))
    if r == 2:
        return ("A", False, rng.randrange(16))
    if r == 3:
        return ("E", b)
    if r == 4:
        return ("M", b, rng.choice([0, 0, 1, 5]))
    if r == 5:
        return ("C", T.serialize(rng.choice([[], ["OP_1"], ["OP_1", "OP_2"], ["OP_1", "OP_2", "OP_DROP"], [b"\x01" * 32, "OP_CHECKSIG"]])))
    if r == 6 and depth < 3:
        return ("O", b, rand_junk(rng, depth + 1))
    if r == 7 and depth < 3:
        return ("T", b, rand_junk(rng, depth + 1), rand_junk(rng, depth + 1))
    if r == 8:
        return _GOOD_LEAF
    if r == 9:   # a pair that is almost a leaf
        ver = rng.choice([("I", rng.choice([0xC0, -1, -256, 2 ** 70, 0x1C1])), ("A", True, 3), ("A", False, 3), ("A", True, 2), ("A", False, 0)])
        scr = rng.choice([("C", b"\x51"), ("C", b""), ("E", True), ("E", False), ("A", True, 1), ("A", False, 0), ("A", True, 6),
                          ("O", False, ("A", True, 8)), ("I", 0x51), ("T", False, ("A", True, 8), ("A", True, 8))])
        return ("O", b, ("T", rng.random() < 0.5, ver, scr))
    return ("O", b, ("O", rng.random() < 0.5, ("I", 0xC0)))     # (version,) : not a pair


def decodec(a):
    """a non-empty LIST in the script position of a leaf pair is `taproot.serialize`'s to judge (the codec, outside the
    model: `Err.codec`): spell it as a tuple, which `assert_type(script, list)` refuses"""
    if a[0] == "O":
        x = a[2]
        if x[0] == "T" and x[3][0] in ("O", "T", "M") and x[3][1]:
            x = ("T", x[1], x[2], (x[3][0], False) + tuple(x[3][2:]))
        return ("O", a[1], x)
    if a[0] == "T":
        return ("T", a[1], decodec(a[2]), decodec(a[3]))
    return a


def mutate(rng, a):
    """replace one random position of a (mostly well-formed) AST by junk"""
    if a[0] in ("O", "T") and rng.random() < 0.7:
        if a[0] == "O":
            return ("O", a[1], mutate(rng, a[2]))
        if rng.random() < 0.5:
            return ("T", a[1], mutate(rng, a[2]), a[3])
        return ("T", a[1], a[2], mutate(rng, a[3]))
    return rand_junk(rng)


# the shapes AUDIT2 names, spelled out: tree_helper([]), 1- and 3-element nodes, non-bytes / non-list leaves
FIXED_PY = [("E", True), ("E", False), ("M", True, 0), ("M", False, 0), ("M", True, 7), ("O", True, _GOOD_LEAF),
            ("O", True, ("O", True, _GOOD_LEAF)), ("T", True, _GOOD_LEAF, ("E", True)), ("T", True, ("E", True), _GOOD_LEAF),
            ("T", True, _GOOD_LEAF, ("M", True, 0)), ("T", True, ("M", True, 0), ("A", True, 0)),
            ("A", False, 0), ("A", True, 0), ("A", True, 1), ("I", 0), ("I", 7),
            ("C", b""), ("C", b"\x51"), ("C", b"\x51\x52"), ("C", b"\x51\x52\x53"),
            ("O", True, ("A", False, 0)), ("O", True, ("A", True, 1)), ("O", True, ("I", 0xC0)), ("O", True, ("C", b"\x51")),
            ("O", True, ("O", False, ("I", 0xC0))), ("O", True, ("M", False, 0)), ("O", True, ("E", False)),
            ("O", True, ("T", False, ("A", True, 3), ("C", b"\x51"))), ("O", True, ("T", False, ("A", False, 3), ("C", b"\x51"))),
            ("O", True, ("T", False, ("A", True, 2), ("C", b"\x51"))), ("O", True, ("T", False, ("A", False, 0), ("C", b"\x51"))),
            ("O", True, ("T", False, ("I", 0xC0), ("A", True, 1))), ("O", True, ("T", False, ("I", 0xC0), ("A", False, 0))),
            ("O", True, ("T", False, ("I", 0xC0), ("O", False, ("A", True, 8)))), ("O", True, ("T", False, ("I", 0xC0), ("E", False))),
            ("O", True, ("T", False, ("I", 0xC0), ("E", True))), ("O", True, ("T", False, ("I", 0xC0), ("I", 0x51))),
            ("O", True, ("T", True, ("I", -1), ("C", b"\x51"))), ("O", False, ("T", True, ("I", 2 ** 70 + 0xC3), ("C", b"\x51"))),
            ("O", True, ("T", False, ("I", -256), ("C", b""))), ("T", False, _GOOD_LEAF, _GOOD_LEAF),
            ("T", True, ("I", 0xC0), ("C", b"\x51")),           # a bare pair where a node is expected
            ("T", True, _GOOD_LEAF, ("T", True, _GOOD_LEAF, ("O", True, ("T", False, ("I", 0xC0), ("A", True, 1)))))]


# ------------------------------------------------------------------ keys
def spellings(rng, d):
    """every SEC spelling of the point d·G (and of its negation): (label, sec)"""
    x, y = mult(d)
    xb, yb = x.to_bytes(32, "big"), y.to_bytes(32, "big")
    par = y % 2
    return [("comp", bytes([2 + par]) + xb), ("comp-neg", bytes([3 - par]) + xb), ("uncomp", b"\x04" + xb + yb),
            ("uncomp-neg", b"\x04" + xb + (P_FIELD - y).to_bytes(32, "big"))]


def non_liftable_x(rng):
    while True:
        x = rng.randrange(1, P_FIELD)
        try:
            secp256k1.y_even_var(x)
        except Exception:  # noqa: BLE001
            return x


def bad_secs(rng, d):
    x, y = mult(d)
    xb, yb = x.to_bytes(32, "big"), y.to_bytes(32, "big")
    nl = non_liftable_x(rng).to_bytes(32, "big")
    return [b"\x02" + nl, b"\x03" + nl, b"\x04" + nl + yb, b"\x04" + xb + ((y + 1) % P_FIELD).to_bytes(32, "big"),
            b"\x04" + xb + bytes(32), b"\x02" + P_FIELD.to_bytes(32, "big"), b"\x02" + bytes(32),
            b"\x02" + b"\xff" * 32, b"\x05" + xb, b"\x00" + xb, b"\x04" + xb + P_FIELD.to_bytes(32, "big")]


# ------------------------------------------------------------------ implementation side
def _opt_tree(tok):
    return None if tok == "-" else tree_of(tok)


def _impl(op, a):
    if op == "tree":
        info, root = T.tree_helper(tree_of(a[0]))
        return f"ok {hx(root)} " + "|".join(f"{v}:{hx(T.serialize(list(s)))}:{hx(p)}" for (v, s), p in info)
    if op == "leafhash":
        return "ok " + hx(T.leaf_hash(int(a[0]), unhx(a[1])))
    if op == "p2trspk":
        spk = SPK.ScriptPubKey.p2tr(None if a[0] == "-" else unhx(a[0]), _opt_tree(a[1]))
        return f"ok {hx(spk.script)}"
    if op == "isp2tr":
        b = unhx(a[0])
        try:
            SPK.assert_p2tr(b)
            g = "-"
        except Exception as e:  # noqa: BLE001
            m = str(e)
            if common.err_class(e) != "value":
                raise
            g = "1" if "invalid witness version" in m else "2" if "length marker" in m else "0"
        r = SPK.is_p2tr(b)
        if not isinstance(r, bool):
            return f"ok non-bool:{r!r}"
        return f"ok {'True' if r else 'False'} {g}"
    if op == "pathof":
        tree, i = tree_of(a[0]), int(a[1])
        info, _ = T.tree_helper(tree)
        if not 0 <= i < len(info):
            return "err index"
        (v, sc), path = info[i]
        return f"ok {_position_bits(tree, i) or '_'} {v}:{hx(T.serialize(list(sc)))}:{hx(path)}"
    if op == "ser":
        return "ok " + hx(T.serialize(py_obj(py_ast(a[0]))))
    if op == "pytree":
        info, root = T.tree_helper(py_obj(py_ast(a[0])))
        return f"ok {hx(root)} " + "|".join(f"{v}:{hx(T.serialize(list(s)))}:{hx(p)}" for (v, s), p in info)
    if op == "outpubpy":
        q, par = T.output_pubkey(None if a[0] == "-" else unhx(a[0]), py_obj(py_ast(a[1])))
        return f"ok {hx(q)} {par}"
    if op == "outprvpy":
        return f"ok {T.output_prvkey(int(a[0]), py_obj(py_ast(a[1])))}"
    if op == "isspy":
        script, control = T.input_script_sig(None if a[0] == "-" else unhx(a[0]), py_obj(py_ast(a[1])), int(a[2]))
        return f"ok {hx(T.serialize(list(script)))} {hx(control)}"
    if op == "outpub":
        q, par = T.output_pubkey(None if a[0] == "-" else unhx(a[0]), _opt_tree(a[1]))
        return f"ok {hx(q)} {par}"
    if op == "outpubroot":
        q, par = T.output_pubkey_from_merkle_root(unhx(a[0]), unhx(a[1]))
        return f"ok {hx(q)} {par}"
    if op == "outprv":
        return f"ok {T.output_prvkey(int(a[0]), _opt_tree(a[1]))}"
    if op == "outprvroot":
        return f"ok {T.output_prvkey_from_merkle_root(int(a[0]), unhx(a[1]))}"
    if op == "iss":
        script, control = T.input_script_sig(None if a[0] == "-" else unhx(a[0]), tree_of(a[1]), int(a[2]))
        return f"ok {hx(T.serialize(list(script)))} {hx(control)}"
    if op == "check":
        r = T.check_output_pubkey(unhx(a[0]), unhx(a[1]), unhx(a[2]))
        if not isinstance(r, bool):
            return f"ok non-bool:{r!r}"
        return "ok True" if r else "ok False"
    return "bad-op"


def impl(line: str) -> str:
    t = line.split(" ")
    if t[0] == "const":
        return (f"ok {hx(b'TapLeaf')} {hx(b'TapBranch')} {hx(b'TapTweak')} {T.MAX_TREE_DEPTH} 33 32 254 1 "
                "0250929b74c1a04954b78b4b6035e97a5e078a5a0f28ec96d547bfee9ace803ac0")
    op, _, which = t[0].partition("@")
    try:
        with arm(which or "lib"):
            return _impl(op, t[1:])
    except Exception as e:  # noqa: BLE001 - the class is the observation
        return err_kind(e)


# ------------------------------------------------------------------ property oracles (real code only)
def _call(fn, *a):
    try:
        return ("ok", fn(*a))
    except Exception as e:  # noqa: BLE001
        return ("err", err_kind(e))


def _o_proves(w):
    """every leaf's control block proves its leaf against the output key; the engine unwraps it"""
    tree = tree_of(w["tree"])
    key = None if w["key"] is None else bytes.fromhex(w["key"])
    with arm(w["arm"]):
        q, par = T.output_pubkey(key, tree)
        leaves, root = T.tree_helper(tree)
        spk = b"\x51\x20" + q
        for i in (w.get("idx") or range(len(leaves))):
            script, control = T.input_script_sig(key, tree, i)
            sb = T.serialize(list(script))
            deep = (len(control) - 33) // 32 > T.MAX_TREE_DEPTH
            r = _call(T.check_output_pubkey, q, sb, control)
            if deep:
                if r != ("err", "err toolong"):
                    return False, f"leaf {i} at depth > {T.MAX_TREE_DEPTH}: {r}"
                continue
            if r != ("ok", True):
                return False, f"leaf {i}: check_output_pubkey -> {r}"
            if control[0] & 1 != par or control[1:33] != (key or bytes.fromhex(w.get("nums", "")))[1:33]:
                return False, f"leaf {i}: control block head {control[:33].hex()} (parity {par})"
            u = _call(taproot_unwrap_script, spk, [b"\x01", sb, control])
            if u[0] != "ok" or u[1] != (sb, [b"\x01"], leaves[i][0][0]):
                return False, f"leaf {i}: engine.taproot_unwrap_script -> {u}"
            if q != T.output_pubkey_from_merkle_root((key or bytes.fromhex(w.get("nums", "")))[1:33], root)[0]:
                return False, "output_pubkey != output_pubkey_from_merkle_root"
    return True, f"{len(leaves)} leaves"


def _flip(b: bytes, i: int) -> bytes:
    return b[: i // 8] + bytes([b[i // 8] ^ (1 << (i % 8))]) + b[i // 8 + 1:]


def _o_bitflip(w):
    """no single-bit alteration of control block / script / output key still verifies; never a foreign exception"""
    q, s, c = bytes.fromhex(w["q"]), bytes.fromhex(w["script"]), bytes.fromhex(w["control"])
    rng = __import__("random").Random(w.get("seed", 0))
    cap = w.get("cap")
    n = 0
    with arm(w["arm"]):
        if T.check_output_pubkey(q, s, c) is not True:
            return False, "the unaltered triple does not verify"
        for name, val in (("control", c), ("script", s), ("q", q)):
            bits = list(range(8 * len(val)))
            if cap and len(bits) > cap:
                head = [b for b in bits if b < 8 * 33] if name == "control" else []
                bits = head + rng.sample(bits, cap)
            for i in bits:
                alt = _flip(val, i)
                args = {"control": (q, s, alt), "script": (q, alt, c), "q": (alt, s, c)}[name]
                r = _call(T.check_output_pubkey, *args)
                n += 1
                if r == ("ok", True):
                    return False, f"{name} bit {i} flipped still verifies: {alt.hex()[:200]}"
                if r[0] == "err" and r[1] in ("err foreign", "err type", "err runtime"):
                    return False, f"{name} bit {i} flipped: {r[1]}"
                if r[0] == "ok" and r[1] is not False:
                    return False, f"{name} bit {i} flipped: non-bool answer {r[1]!r}"
        # 32 octets more or fewer are not "a bit", but must not verify either
        for alt in (c + bytes(32), c[:-32] if len(c) > 33 else c + b"\x00", c[:-1], c + c[-32:]):
            r = _call(T.check_output_pubkey, q, s, alt)
            n += 1
            if r == ("ok", True) or (r[0] == "err" and r[1] in ("err foreign", "err type", "err runtime")):
                return False, f"resized control block ({len(alt)} octets): {r}"
    return True, f"{n} alterations rejected"


def _o_agree(w):
    """output_prvkey(d)·G is output_pubkey(d·G), x and parity, for every spelling and both parities; the
    *_from_merkle_root twins agree with the tree forms"""
    d = int(w["d"])
    tree = _opt_tree(w["tree"])
    with arm(w["arm"]):
        d2 = T.output_prvkey(d, tree)
        root = T.tree_helper(tree)[1] if tree else b""
        if d2 != T.output_prvkey_from_merkle_root(d, root):
            return False, "output_prvkey != output_prvkey_from_merkle_root"
        Q = mult(d2)
        x, y = mult(d)
        for sec in w["secs"]:
            q, par = T.output_pubkey(bytes.fromhex(sec), tree)
            if (int.from_bytes(q, "big"), par) != (Q[0], Q[1] % 2):
                return False, f"d={d} sec={sec}: output key {q.hex()} parity {par} but prvkey·G = {Q[0]:x} parity {Q[1] % 2}"
        q2, par2 = T.output_pubkey_from_merkle_root(x.to_bytes(32, "big"), root)
        if (int.from_bytes(q2, "big"), par2) != (Q[0], Q[1] % 2):
            return False, "output_pubkey_from_merkle_root disagrees with the private tweak"
        if not (0 < d2 < N):
            return False, f"tweaked private key out of range: {d2}"
    return True, f"parity of d·G: {y % 2}"


def _o_refuse(w):
    """an internal key that is no point is refused (library ValueError) by the output side and the check side"""
    sec = bytes.fromhex(w["sec"])
    tree = _opt_tree(w["tree"])
    res = []
    with arm(w["arm"]):
        for fn, args in ((T.output_pubkey, (sec, tree)), (T.input_script_sig, (sec, tree or [(0xC0, ["OP_1"])], 0))):
            r = _call(fn, *args)
            res.append(r[1] if r[0] == "err" else "answered")
            if r != ("err", "err key"):
                return False, f"{fn.__name__}({sec.hex()}) -> {r}"
        if len(sec) == 33:
            c = b"\xc0" + sec[1:33]
            for q in (sec[1:33], bytes(32), b"\x00" + sec[1:33]):
                r = _call(T.check_output_pubkey, q, b"\x51", c)
                if r != ("err", "err key"):
                    return False, f"check_output_pubkey with internal key {sec[1:33].hex()} -> {r}"
    return True, ",".join(res)


def _o_tweak_range(w):
    """a tweak t ≥ n is refused on every entry point (hash patched to a chosen digest for this oracle only)"""
    digest = bytes.fromhex(w["digest"])
    d = int(w["d"])
    tree = tree_of(w["tree"])
    orig = T.tagged_hash
    expect_refusal = int.from_bytes(digest, "big") >= N
    sec = bytes.fromhex(w["sec"])

    def patched(tag, m, *a, **k):
        return digest if tag == b"TapTweak" else orig(tag, m, *a, **k)
    T.tagged_hash = patched
    try:
        with arm(w["arm"]):
            rs = [_call(T.output_pubkey, sec, tree), _call(T.output_prvkey, d, tree),
                  _call(T.input_script_sig, sec, tree, 0),
                  _call(T.check_output_pubkey, sec[1:33], b"\x51", b"\xc0" + sec[1:33])]
    finally:
        T.tagged_hash = orig
    for r in rs:
        if expect_refusal and r != ("err", "err tweak"):
            return False, f"t = {digest.hex()} ≥ n not refused: {r}"
        if not expect_refusal and r[0] == "err":
            return False, f"t = {digest.hex()} < n refused: {r}"
    return True, "refused" if expect_refusal else "answered"


def _o_backends(w):
    """both arithmetic arms give the same answer (or the same refusal class) for the same call"""
    sec = bytes.fromhex(w["sec"])
    tree = _opt_tree(w["tree"])
    out = {}
    for a in ("lib", "py"):
        with arm(a):
            r = _call(T.output_pubkey, sec, tree)
            out[a] = r if r[0] == "err" else ("ok", (r[1][0].hex(), r[1][1]))
    return out["lib"] == out["py"], f"sec={sec.hex()} lib={out['lib']} py={out['py']}"


def _o_desc(w):
    """a tr() descriptor commits to the tree taproot.* builds from the same keys; BIP86 = key-only tweak"""
    xs = w["keys"]
    shape = w["shape"]

    def expr(s):
        return f"pk({xs[s]})" if isinstance(s, int) else "{" + expr(s[0]) + "," + expr(s[1]) + "}"

    def pytree(s):
        if isinstance(s, int):
            return [(0xC0, [xs[s], "OP_CHECKSIG"])]
        return [pytree(s[0]), pytree(s[1])]
    ik = "02" + w["internal"]
    with arm(w["arm"]):
        if shape is None:
            d = D.parse(D.add_checksum(f"tr({w['internal']})"))
            q = T.output_pubkey(bytes.fromhex(ik))[0]
            ok = (d.script_pub_key().script == b"\x51\x20" + q and d.taproot_merkle_root() == b""
                  and d.taproot_leaf_scripts() == {} and d.address() == b32.p2tr(q)
                  and bip44._p2tr(bytes.fromhex(ik), "mainnet") == b32.p2tr(q))
            return ok, f"tr(KEY): {d.address()}"
        d = D.parse(D.add_checksum(f"tr({w['internal']},{expr(shape)})"))
        tree = pytree(shape)
        info, root = T.tree_helper(tree)
        q, par = T.output_pubkey(bytes.fromhex(ik), tree)
        if d.taproot_merkle_root() != root:
            return False, "descriptor merkle root != tree_helper root"
        if d.script_pub_key().script != b"\x51\x20" + q:
            return False, "descriptor scriptPubKey != OP_1 output_pubkey"
        want = {}
        for i in range(len(info)):
            s, c = T.input_script_sig(bytes.fromhex(ik), tree, i)
            want[c] = (T.serialize(list(s)), 0xC0)
        got = d.taproot_leaf_scripts()
        if got != want:
            return False, f"taproot_leaf_scripts: {len(got)} entries vs {len(want)} expected"
        for c, (s, _) in got.items():
            if T.check_output_pubkey(q, s, c) is not True:
                return False, "a descriptor control block does not prove its leaf"
    return True, f"{len(info)} leaves"


_VEC = os.path.join("/repo", "tests", "script", "_data", "taproot_test_vector.json")


def _vec_tree(t):
    if isinstance(t, list):
        return [_vec_tree(t[0]), _vec_tree(t[1])]
    return [(t["leafVersion"], _script_list(bytes.fromhex(t["script"])))]


def _o_bip341(w):
    """BIP341 wallet test vector: root, tweaked key, scriptPubKey, control blocks, leaf hashes"""
    v = w["vector"]
    g, mid, exp = v["given"], v["intermediary"], v["expected"]
    key = bytes.fromhex("02" + g["internalPubkey"])
    tree = _vec_tree(g["scriptTree"]) if g["scriptTree"] else None
    with arm(w["arm"]):
        q, _ = T.output_pubkey(key, tree)
        if q.hex() != mid["tweakedPubkey"] or (b"\x51\x20" + q).hex() != exp["scriptPubKey"]:
            return False, f"tweaked key {q.hex()}"
        if b32.p2tr(q) != exp["bip350Address"]:
            return False, "address"
        if tree:
            info, root = T.tree_helper(tree)
            if root.hex() != mid["merkleRoot"]:
                return False, f"root {root.hex()}"
            lh = [T.leaf_hash(lv, T.serialize(list(s))).hex() for (lv, s), _ in info]
            if lh != mid["leafHashes"]:
                return False, "leaf hashes"
            for i, cb in enumerate(exp["scriptPathControlBlocks"]):
                s, c = T.input_script_sig(key, tree, i)
                if c.hex() != cb or T.check_output_pubkey(q, T.serialize(list(s)), c) is not True:
                    return False, f"control block {i}"
    return True, exp["bip350Address"]


def _o_keypath(w):
    """BIP341 key path vector: tweaked private key from the internal one and the merkle root"""
    v = w["vector"]
    d = int(v["given"]["internalPrivkey"], 16)
    root = bytes.fromhex(v["given"]["merkleRoot"] or "")
    with arm(w["arm"]):
        d2 = T.output_prvkey_from_merkle_root(d, root)
    return f"{d2:064x}" == v["intermediary"]["tweakedPrivkey"], f"{d2:064x}"


def _spend(q, stack, flags=None):
    """verify_input on a real one-input transaction spending the p2tr output `OP_1 q` with this witness"""
    prev = [TxOut(1000, b"\x51\x20" + q, check_validity=False)]
    tx = Tx(2, 0, [TxIn(OutPoint(b"\x01" * 32, 0), b"", 0, Witness(list(stack)))], [TxOut(900, b"\x51\x20" + bytes(32), check_validity=False)])
    try:
        verify_input(prev, tx, 0, flags)
    except Exception as e:  # noqa: BLE001
        c = common.err_class(e)
        return "rejected" if c in ("value", "script") else "bad:" + c + ":" + str(e)[:80]
    return "accepted"


def _o_engine(w):
    """through engine.verify_input, for ANY leaf version: the honest script-path spend is accepted (refused only
    under DISCOURAGE_UPGRADABLE_TAPROOT_VERSION for a version other than 0xC0; a control block starting 0x50
    needs an explicit annex), and every single-bit alteration of control block / script / output key is rejected"""
    tree = tree_of(w["tree"])
    sec = bytes.fromhex(w["sec"])
    rng = __import__("random").Random(w.get("seed", 0))
    cap = w.get("cap")
    n = 0
    disc = ALL_FLAGS | ScriptFlag.DISCOURAGE_UPGRADABLE_TAPROOT_VERSION
    with arm(w["arm"]):
        q, _ = T.output_pubkey(sec, tree)
        script, c = T.input_script_sig(sec, tree, w["idx"])
        s = T.serialize(list(script))
        version = c[0] & 0xFE
        for annex in ([], [b"\x50" + bytes.fromhex(w.get("annex", "00"))]):
            ambiguous = not annex and c[:1] == b"\x50"
            r = _spend(q, [s, c, *annex])
            if r != ("rejected" if ambiguous else "accepted"):
                return False, f"honest spend, leaf version {version:#x}, annex={bool(annex)}: {r}"
            r = _spend(q, [s, c, *annex], disc)
            if r != ("accepted" if version == 0xC0 and not ambiguous else "rejected"):
                return False, f"honest spend under DISCOURAGE_UPGRADABLE, leaf version {version:#x}, annex={bool(annex)}: {r}"
            n += 2
            fields = (("control", c), ("script", s), ("q", q)) if annex else (("control", c),)
            for name, val in fields:
                bits = list(range(8 * len(val)))
                if cap and len(bits) > cap:
                    bits = [b for b in bits if b < 8] + rng.sample(bits, cap)
                for i in bits:
                    alt = _flip(val, i)
                    qq, ss, cc = (alt if name == "q" else q), (alt if name == "script" else s), (alt if name == "control" else c)
                    r = _spend(qq, [ss, cc, *annex])
                    n += 1
                    if r != "rejected":
                        return False, (f"leaf version {version:#x}, annex={bool(annex)}: {name} bit {i} flipped -> {r} "
                                       f"(q={qq.hex()} script={ss.hex()} control={cc.hex()[:200]})")
    return True, f"leaf version {version:#x}: {n} spends"


def _zero_padded_probe(w):
    """('accepted' | 'rejected' | 'other', detail): does check_output_pubkey verify 00‖q / 0000‖q ?  'other' = anything
    that is NOT the known finding (the unaltered triple fails, an exception, a non-bool answer)"""
    sec = bytes.fromhex(w["sec"])
    tree = tree_of(w["tree"])
    bad = []
    try:
        for a in ("lib", "py"):
            with arm(a):
                q, _ = T.output_pubkey(sec, tree)
                script, c = T.input_script_sig(sec, tree, 0)
                s = T.serialize(list(script))
                if T.check_output_pubkey(q, s, c) is not True:
                    return "other", f"{a}: the unaltered triple does not verify"
                for alt in (b"\x00" + q, b"\x00\x00" + q):
                    r = _call(T.check_output_pubkey, alt, s, c)
                    if r == ("ok", True):
                        bad.append(f"{a}:{len(alt)} octets")
                    elif r != ("ok", False) and not (r[0] == "err" and r[1] in ("err key", "err badlen", "err toolong", "err tweak")):
                        return "other", f"{a}: check_output_pubkey on a {len(alt)}-octet key -> {r}"
    except Exception as e:  # noqa: BLE001
        return "other", f"raised {type(e).__name__}: {str(e)[:200]}"
    if bad:
        return "accepted", "check_output_pubkey verifies a zero-padded output key: " + ", ".join(bad)
    return "rejected", "rejected"


def _o_zero_padded(w):
    """KEYED (known finding taproot.check_output_pubkey.zero_padded_key_accepted): fails ONLY when a key altered by a
    leading zero byte still verifies (it does: integer comparison).  Anything else that goes wrong with the same witness
    is NOT filed under the key: it fails the unkeyed oracle key.zero_padded.sane"""
    st, detail = _zero_padded_probe(w)
    if st == "other":
        return True, "n/a (see key.zero_padded.sane): " + detail
    return st == "rejected", detail


def _o_zero_padded_sane(w):
    """UNKEYED: with the witness of key.zero_padded the unaltered triple verifies and every answer for the padded keys is
    a bool or a library refusal — an exception or a foreign answer here is a NEW finding, not the known one"""
    st, detail = _zero_padded_probe(w)
    return st != "other", detail


def _o_desc_ranged(w):
    """tr(xpub/…/*, {tree of pk(xpub/…/*)}) at a derivation index: what the descriptor layer answers (script_pub_key,
    taproot_merkle_root, taproot_leaf_scripts, the psbt updater, satisfy) is what taproot.* builds from the keys
    derived INDEPENDENTLY at that index, and every control block proves its leaf against script_pub_key(index)"""
    from btclib import bip32
    from btclib.psbt.psbt_in import PsbtIn
    idx = w["index"]
    xs = [bip32.xpub_from_xprv(bip32.derive(bip32.rootxprv_from_seed(bytes.fromhex(sd)), "m/86h/0h/0h")) for sd in w["seeds"]]

    def path(k, ranged):
        return f"{k}/*" if ranged else f"{k}/{w['fixed']}"

    def child(x, k, ranged):
        return bip32.BIP32KeyData.b58decode(bip32.derive(x, f"m/{k}/{idx if ranged else w['fixed']}")).key

    shape = w["shape"]

    def expr(sh):
        return f"pk({xs[1]}/{path(sh, w['ranged_leaves'])})" if isinstance(sh, int) else "{" + expr(sh[0]) + "," + expr(sh[1]) + "}"

    def pytree(sh):
        if isinstance(sh, int):
            return [(0xC0, [child(xs[1], sh, w["ranged_leaves"])[1:].hex(), "OP_CHECKSIG"])]
        return [pytree(sh[0]), pytree(sh[1])]
    with arm(w["arm"]):
        d = D.parse(D.add_checksum(f"tr({xs[0]}/{path(0, w['ranged_internal'])},{expr(shape)})"))
        ik = child(xs[0], 0, w["ranged_internal"])
        tree = pytree(shape)
        info, root = T.tree_helper(tree)
        q, par = T.output_pubkey(ik, tree)
        spk = d.script_pub_key(idx).script
        if spk != b"\x51\x20" + q:
            return False, f"index {idx}: script_pub_key is not OP_1 output_pubkey(derived internal key, derived tree)"
        if d.taproot_merkle_root(idx) != root:
            return False, f"index {idx}: taproot_merkle_root"
        want = {}
        for i in range(len(info)):
            sc, c = T.input_script_sig(ik, tree, i)
            want[c] = (T.serialize(list(sc)), 0xC0)
        pin = PsbtIn()
        d._update(pin, idx, None)
        views = {"taproot_leaf_scripts": d.taproot_leaf_scripts(idx), "psbt updater": dict(pin.taproot_leaf_scripts)}
        if pin.taproot_internal_key != ik[1:] or pin.taproot_merkle_root != root:
            return False, f"index {idx}: psbt updater internal key / merkle root"
        # satisfy(): a script-path witness for each leaf key in turn (dummy signature: only the commitment is read here)
        for i in range(len(info)):
            leaf_key = child(xs[1], _leaf_at(shape, i), w["ranged_leaves"])
            _, wit = d.satisfy({leaf_key: b"\x01" * 64}, idx)
            st = [bytes(x) for x in wit.stack]
            views[f"satisfy leaf {i}"] = {st[-1]: (st[-2], 0xC0)}
        for name, got in views.items():
            if name.startswith("satisfy"):
                if not set(got.items()) <= set(want.items()):
                    return False, f"index {idx}: {name}: control block / script not the ones of the derived tree"
            elif got != want:
                return False, f"index {idx}: {name} differs from input_script_sig on the derived keys"
            for c, (sc, _) in got.items():
                if c[1:33] != ik[1:]:
                    return False, f"index {idx}: {name}: control block names internal key {c[1:33].hex()}, derived {ik[1:].hex()}"
                if T.check_output_pubkey(spk[2:], sc, c) is not True:
                    return False, f"index {idx}: {name}: control block does not prove its leaf against script_pub_key({idx})"
                u = _call(taproot_unwrap_script, spk, [b"\x01" * 64, sc, c])
                if u[0] != "ok":
                    return False, f"index {idx}: {name}: engine.taproot_unwrap_script -> {u}"
    return True, f"index {idx}: {len(info)} leaves"


def _leaf_at(shape, i):
    flat = []

    def walk(sh):
        if isinstance(sh, int):
            flat.append(sh)
        else:
            walk(sh[0])
            walk(sh[1])
    walk(shape)
    return flat[i]


def _o_p2tr_glue(w):
    """ScriptPubKey.p2tr / b32.p2tr / bip44 / from_address / the witness-program reader agree on ONE output key, and a
    control block of the tree proves its leaf against the scriptPubKey's own payload"""
    key = None if w["key"] is None else bytes.fromhex(w["key"])
    tree = _opt_tree(w["tree"])
    with arm(w["arm"]):
        q, _ = T.output_pubkey(key, tree)
        spk = SPK.ScriptPubKey.p2tr(key, tree, w["network"])
        if spk.script != b"\x51\x20" + q or not SPK.is_p2tr(spk.script) or SPK.is_p2tr(spk.script[:-1]):
            return False, f"ScriptPubKey.p2tr script {spk.script.hex()} vs output key {q.hex()}"
        if SPK._witness_type_and_payload(spk.script) != ("p2tr", q) or spk.type != "p2tr":
            return False, "witness program of the p2tr script is not the output key"
        addr = b32.p2tr(q, w["network"])
        if spk.address != addr:
            return False, "ScriptPubKey.address != b32.p2tr(output key)"
        ver, prog, net = b32.witness_from_address(addr)[:3]
        if (ver, bytes(prog), net) != (1, q, w["network"]):
            return False, f"b32.witness_from_address(p2tr address) -> {(ver, bytes(prog).hex(), net)}"
        if SPK.ScriptPubKey.from_address(addr).script != spk.script:
            return False, "from_address(address).script != script"
        if tree is None and key is not None and bip44._p2tr(key, w["network"]) != addr:
            return False, "bip44._p2tr != b32.p2tr(output_pubkey(key))"
        if tree is not None:
            script, c = T.input_script_sig(key, tree, 0)
            if T.check_output_pubkey(spk.script[2:], T.serialize(list(script)), c) is not True:
                return False, "control block does not prove its leaf against the scriptPubKey payload"
    return True, addr


def _o_deep_refused(w):
    """a script tree nested deeper than MAX_TREE_DEPTH is refused (library ValueError naming the nesting), never a
    RecursionError, by tree_helper and by every entry point that walks it; one level less is accepted"""
    tree = tree_of(w["tree"])
    key = None if w["key"] is None else bytes.fromhex(w["key"])
    with arm(w["arm"]):
        for fn, args in ((T.tree_helper, (tree,)), (T.output_pubkey, (key, tree)), (T.output_prvkey, (int(w["d"]), tree)),
                         (T.input_script_sig, (key, tree, 0)), (SPK.ScriptPubKey.p2tr, (key, tree))):
            r = _call(fn, *args)
            if r != ("err", "err deep"):
                return False, f"{fn.__name__} on a tree of depth {depth_of(tree)} -> {r[0]} {str(r[1])[:80]}"
    return True, f"depth {depth_of(tree)} refused"


def _guard(fn):
    """an oracle that raises has found something: the real code left through an exception it should not"""
    def g(w):
        try:
            return fn(w)
        except Exception as e:  # noqa: BLE001
            return False, f"{fn.__name__} raised {type(e).__name__}: {str(e)[:200]}"
    g.__name__ = fn.__name__
    return g


ORACLES = {"cb.proves": _o_proves, "cb.bitflip": _o_bitflip, "tweak.agree": _o_agree, "key.refused": _o_refuse,
           "tweak.range": _o_tweak_range, "backends.agree": _o_backends, "desc.tr": _o_desc, "bip341.vector": _o_bip341,
           "bip341.keypath": _o_keypath, "engine.spend": _o_engine,
           "p2tr.glue": _o_p2tr_glue, "deep.refused": _o_deep_refused, "key.zero_padded": _o_zero_padded, "key.zero_padded.sane": _o_zero_padded_sane, "desc.ranged": _o_desc_ranged}
ORACLES = {k: _guard(v) for k, v in ORACLES.items()}


def _o_answers(w):
    """valid key and tree: output_pubkey answers (used where the run itself needs the answer)"""
    with arm(w["arm"]):
        T.output_pubkey(None if w["key"] is None else bytes.fromhex(w["key"]), tree_of(w["tree"]))
    return True, "answered"


ORACLES["outpub.answers"] = _guard(_o_answers)


def _o_leaf_commits(w):
    """a leaf whose script is a command list of any kinds: tree_helper answers iff taproot.serialize does (same refusal
    otherwise); the root is the TapLeaf hash of the SERIALISED octets, the control block input_script_sig builds proves
    those octets against the output key, and (no OP_SUCCESSx met) taproot.parse reads them back to the same octets"""
    cs = py_obj(py_ast(w["script"]))
    v = w["version"]
    ser = _call(T.serialize, list(cs))
    th = _call(T.tree_helper, [(v, list(cs))])
    if ser[0] == "err":
        return (th == ser), f"serialize {ser[1]}, tree_helper {th[0]} {th[1] if th[0] == 'err' else ''}"
    if th[0] == "err":
        return False, f"serialize answers, tree_helper {th[1]}"
    b = ser[1]
    info, root = th[1]
    if root != T.leaf_hash(v & 0xFE, b) or len(info) != 1 or info[0][1] != b"" or info[0][0][0] != v & 0xFE:
        return False, "root is not the TapLeaf hash of the serialised script"
    with arm(w["arm"]):
        q, _ = T.output_pubkey(bytes.fromhex(w["key"]), [(v, list(cs))])
        scr, control = T.input_script_sig(bytes.fromhex(w["key"]), [(v, list(cs))], 0)
        if T.serialize(list(scr)) != b or not T.check_output_pubkey(q, b, control):
            return False, "the control block does not prove the serialised script"
        if T.check_output_pubkey(q, b + b"\x00", control):
            return False, "the control block proves a longer script too"
    pr = _call(T.parse, b)
    if pr[0] == "ok" and T.serialize(list(pr[1])) != b:
        return False, "parse / serialize do not read the octets back"
    return True, f"{len(cs)} commands, {len(b)} octets"


ORACLES["leaf.commits_to_serialized"] = _guard(_o_leaf_commits)

NUMS = "0250929b74c1a04954b78b4b6035e97a5e078a5a0f28ec96d547bfee9ace803ac0"


# ------------------------------------------------------------------ run
def run(ctx):
    rng = ctx.rng
    shared.validate_hashes(ctx, EXE)
    ctx.stream("const", ["const"])
    if not _curve.is_libsecp256k1_serving():
        try:
            _curve.set_libsecp256k1_serving(serving=True)
        except Exception as e:  # noqa: BLE001
            raise common.HarnessError(f"libsecp256k1 bindings not available: both arms are required ({e})") from e
    arms = ("lib", "py")
    trees = gen_trees(ctx)
    vec = json.load(open(_VEC))
    for v in vec["scriptPubKey"]:
        if v["given"]["scriptTree"]:
            trees.append(("bip341", _vec_tree(v["given"]["scriptTree"])))

    stk0 = tok_of([(0xC0, ["OP_1"])])
    L = {k: [] for k in ("p2tr.deep", "tree", "pathof", "leafhash", "outpub", "outpubroot", "outprv", "outprvroot", "iss", "check",
                          "check.mutated", "malformed")}
    flips = []
    for kind, tree in trees:
        tk = tok_of(tree)
        nl = n_leaves(tree)
        ctx.count("trees", kind)
        ctx.count("leaves", "1" if nl == 1 else "2-4" if nl <= 4 else "5-16" if nl <= 16 else ">16")
        L["tree"].append(f"tree {tk}")
        for i in sorted(set([0, nl - 1, nl, rng.randrange(nl), rng.randrange(nl)])):
            L["pathof"].append(f"pathof {tk} {i}")
        d = rng.randrange(1, N)
        sp = spellings(rng, d)
        if depth_of(tree) > T.MAX_TREE_DEPTH:
            # nested deeper than MAX_TREE_DEPTH: refused by tree_helper and by every entry point that walks the tree
            ctx.count("too deep", str(depth_of(tree)))
            for a in arms:
                keyhex = rng.choice([hx(rng.choice(sp)[1]), "-"])
                L["outpub"].append(f"outpub@{a} {keyhex} {tk}")
                L["outprv"].append(f"outprv@{a} {d} {tk}")
                L["iss"] += [f"iss@{a} {keyhex} {tk} {j}" for j in (0, nl - 1, nl)]
                L["p2tr.deep"].append(f"p2trspk@{a} {keyhex} {tk}")
                ctx.check("deep.refused", {"tree": tk, "key": None if keyhex == "-" else keyhex, "d": str(d), "arm": a})
            continue
        ctx.count("internal key parity", "even" if mult(d)[1] % 2 == 0 else "odd")
        big = nl > 40
        for a in arms:
            if big and a == "py" and ctx.tier == "quick" and kind != "chain-too-deep" and rng.random() < 0.5:
                continue
            label, sec = rng.choice(sp)
            ctx.count("key spelling", label)
            keyhex = rng.choice([hx(sec), hx(sec), hx(sec), "-"])
            L["outpub"].append(f"outpub@{a} {keyhex} {tk}")
            L["outprv"].append(f"outprv@{a} {d} {tk}")
            pidx = None
            if big and a == "py" and ctx.tier == "quick":
                pidx = sorted(set([0, 1, nl - 2, nl - 1] + rng.sample(range(nl), 12)))
            ctx.check("cb.proves", {"tree": tk, "key": None if keyhex == "-" else keyhex, "arm": a, "nums": NUMS,
                                    "idx": pidx})
            ctx.check("tweak.agree", {"d": str(d), "tree": tk, "arm": a, "secs": [s.hex() for _, s in sp]})
            # every leaf index (chains: every index on one arm, a sample on the other)
            idx = list(range(nl))
            if big and (a == "py" or ctx.tier == "quick"):
                idx = sorted(set([0, 1, nl - 2, nl - 1] + rng.sample(idx, 6)))
            if not ctx.check("outpub.answers", {"key": None if keyhex == "-" else keyhex, "tree": tk, "arm": a}):
                continue
            with arm(a):
                q = T.output_pubkey(None if keyhex == "-" else unhx(keyhex), tree)[0]
            for i in idx:
                line = f"iss@{a} {keyhex} {tk} {i}"
                L["iss"].append(line)
                r = impl(line)
                if r.startswith("ok "):
                    _, s_hex, c_hex = r.split(" ")
                    L["check"].append(f"check@{a} {hx(q)} {s_hex} {c_hex}")
                    s, c = unhx(s_hex), unhx(c_hex)
                    if len(c) <= 33 + 32 * 128:
                        flips.append((a, q, s, c))
                    # mutated triples through both model and code
                    for _ in range(2):
                        which = rng.choice(["c", "c", "s", "q", "len", "qlen"])
                        if which == "c":
                            m = f"check@{a} {hx(q)} {s_hex} {hx(_flip(c, rng.randrange(8 * len(c))))}"
                        elif which == "s" and s:
                            m = f"check@{a} {hx(q)} {hx(_flip(s, rng.randrange(8 * len(s))))} {c_hex}"
                        elif which == "q":
                            m = f"check@{a} {hx(_flip(q, rng.randrange(256)))} {s_hex} {c_hex}"
                        elif which == "len":
                            cut = rng.choice([0, 1, 2, 32, 33, 34, 64, 65, len(c) - 1, len(c) - 32])
                            m = f"check@{a} {hx(q)} {s_hex} {hx(c[:max(cut, 0)])}"
                        else:
                            m = f"check@{a} {hx(rng.choice([b'', b'\x00' + q, q[1:], q + b'\x00', b'\x00' * 5 + q]))} {s_hex} {c_hex}"
                        L["check.mutated"].append(m)
            L["iss"] += [f"iss@{a} {keyhex} {tk} {j}" for j in (-1, nl, nl + 1, -nl)]
        try:
            root = T.tree_helper(tree)[1]
        except Exception:  # noqa: BLE001 - the `tree` stream above reports it
            continue
        x = mult(d)[0].to_bytes(32, "big")
        a = rng.choice(arms)
        L["outpubroot"].append(f"outpubroot@{a} {hx(x)} {hx(root)}")
        L["outprvroot"].append(f"outprvroot@{a} {d} {hx(root)}")

    # key-only outputs (BIP86), every spelling, both arms; private keys at the range ends
    for _ in range(ctx.n(6, 60)):
        d = rng.choice([1, 2, N - 1, N - 2, rng.randrange(1, N), rng.randrange(1, 2 ** 32)])
        for a in arms:
            for label, sec in spellings(rng, d):
                L["outpub"].append(f"outpub@{a} {hx(sec)} -")
            L["outprv"].append(f"outprv@{a} {d} -")
            L["outpubroot"].append(f"outpubroot@{a} {hx(mult(d)[0].to_bytes(32, 'big'))} {hx(common.rand_bytes(rng, rng.choice([0, 32, 32, 31, 33])))}")
            L["outprvroot"].append(f"outprvroot@{a} {d} {hx(common.rand_bytes(rng, rng.choice([0, 32, 32, 5])))}")
            ctx.check("tweak.agree", {"d": str(d), "tree": "-", "arm": a, "secs": [s.hex() for _, s in spellings(rng, d)]})
    # the output key is compared as an integer: ONE keyed oracle, deterministic witness (known finding)
    zp = {"sec": "02" + f"{mult(1)[0]:064x}", "tree": stk0}
    ctx.check("key.zero_padded.sane", zp)          # unkeyed: anything but the specific failure lands here
    ctx.check("key.zero_padded", zp, key="taproot.check_output_pubkey.zero_padded_key_accepted")
    # an EMPTY internal key is Python-falsy: btclib falls back to the NUMS point exactly as for None
    for kind, tree in trees[:6] + trees[-3:]:
        tk = tok_of(tree)
        for a in arms:
            L["outpub"] += [f"outpub@{a} _ {tk}", f"outpub@{a} - {tk}"]
            L["iss"] += [f"iss@{a} _ {tk} 0", f"iss@{a} - {tk} 0", f"iss@{a} _ {tk} {n_leaves(tree)}"]
    for a in arms:
        L["outpub"].append(f"outpub@{a} _ -")
        L["outpub"].append(f"outpub@{a} - -")
        for d in (0, N, N + 1, -1):
            L["outprv"].append(f"outprv@{a} {d} -")
            L["outprvroot"].append(f"outprvroot@{a} {d} _")

    # leaf hashes: every version byte, scripts across the CompactSize widths
    for v in range(256):
        s = rand_script(rng, big=(v % 32 == 0)) if v % 4 else common.rand_bytes(rng, rng.choice([0, 1, 252, 253, 254, 600]))
        L["leafhash"].append(f"leafhash {v} {hx(s)}")
    # … and the versions the public leaf_hash refuses (outside one byte): never wrapped
    for v in [-1, -2, -192, -256, 256, 257, 256 + 0xC0, 511, 512, 1000, 2 ** 31, 2 ** 64, -(2 ** 64)] + \
            [rng.choice([-1, 1]) * rng.randrange(256, 2 ** 40) for _ in range(ctx.n(8, 80))]:
        L["leafhash"].append(f"leafhash {v} {hx(rand_script(rng))}")
    if ctx.tier == "thorough":
        L["leafhash"].append(f"leafhash 192 {hx(common.rand_bytes(rng, 65535))}")
        L["leafhash"].append(f"leafhash 192 {hx(common.rand_bytes(rng, 65536))}")

    # malformed: keys that are no point, control blocks of every small length and around the cap
    small = [(0xC0, ["OP_1"])]
    stk = tok_of(small)
    for _ in range(ctx.n(2, 12)):
        d = rng.randrange(1, N)
        for sec in bad_secs(rng, d):
            for a in arms:
                L["malformed"].append(f"outpub@{a} {hx(sec)} {rng.choice([stk, '-'])}")
                L["malformed"].append(f"iss@{a} {hx(sec)} {stk} 0")
                if len(sec) in (33, 65) and sec[0] in (2, 3, 4):
                    ctx.check("key.refused", {"sec": sec.hex(), "tree": rng.choice([stk, "-"]), "arm": a})
                if len(sec) == 33:
                    L["malformed"].append(f"outpubroot@{a} {hx(sec[1:])} _")
        x, y = mult(d)
        for pre in (6, 7):
            hyb = bytes([pre]) + x.to_bytes(32, "big") + y.to_bytes(32, "big")
            ctx.check("backends.agree", {"sec": hyb.hex(), "tree": stk}, key="c12.backend.hybrid_internal_key")
        for _, sec in spellings(rng, d) + [("bad", s) for s in bad_secs(rng, d)[:6]]:
            ctx.check("backends.agree", {"sec": sec.hex(), "tree": rng.choice([stk, "-"])})
    d = rng.randrange(1, N)
    sec = spellings(rng, d)[0][1]
    tr = chain(rng, 3, True)
    try:
        with arm("lib"):
            qs = T.output_pubkey(sec, tr)[0]
            sl, cs = T.input_script_sig(sec, tr, 0)
            ss = T.serialize(list(sl))
    except Exception as e:  # noqa: BLE001
        ctx.oracle("outpub.answers", False, f"output_pubkey / input_script_sig raised {type(e).__name__}: {e}",
                   witness={"oracle": "outpub.answers", "witness": {"key": sec.hex(), "tree": tok_of(tr), "arm": "lib"}})
        qs, ss, cs = bytes(32), b"\x51", b"\xc0" + bytes(32 + 96)
    cap = 33 + 32 * T.MAX_TREE_DEPTH
    lens = list(range(0, 70)) + [96, 97, 98, 128, 129, 130, cap - 32, cap - 1, cap, cap + 1, cap + 31, cap + 32, cap + 33]
    for n in lens:
        c = (cs + common.rand_bytes(rng, max(0, n - len(cs))))[:n]
        for a in arms:
            L["malformed"].append(f"check@{a} {hx(qs)} {hx(ss)} {hx(c)}")
    for a in arms:
        L["malformed"] += [f"check@{a} {hx(qs)} {hx(ss)} {hx(bytes([v]) + cs[1:])}" for v in (0, 1, 0xC1, 0xC2, 0xFF)]
        L["malformed"] += [f"check@{a} {hx(qs)} _ {hx(cs)}", f"check@{a} _ _ c0", f"check@{a} _ _ _"]

    # tree_helper's own guards: ANY Python value — well-formed trees in list / tuple spellings, one position replaced
    # by junk, the shapes AUDIT2 names — through tree_helper and through the three entry points that walk a tree
    pys = list(FIXED_PY)
    small_trees = [t for _, t in trees if n_leaves(t) <= 16]
    for _ in range(ctx.n(120, 1500)):
        a = py_of_tree(rng, rng.choice(small_trees))
        r = rng.random()
        if r < 0.25:
            ctx.count("pytree shape", "well-formed")
        elif r < 0.85:
            a = mutate(rng, a)
            ctx.count("pytree shape", "one position replaced")
        else:
            a = rand_junk(rng)
            ctx.count("pytree shape", "junk")
        pys.append(decodec(a))
    def hang(a, depth):             # `a` below a left-leaning chain of `depth` branches (so `a` sits at that depth)
        for _ in range(depth):
            a = ("T", rng.random() < 0.5, a, _GOOD_LEAF)
        return a
    for dd in (127, 128, 129, 130, 200):
        for a in (_GOOD_LEAF, ("E", True), ("A", True, 0), ("M", False, 0), ("O", True, ("A", True, 1)),
                  ("O", True, ("T", False, ("A", True, 3), ("C", b"\x51")))):
            pys.append(hang(a, dd))
    pys.append(("T", True, _GOOD_LEAF, hang(_GOOD_LEAF, 128)))       # too deep in the RIGHT subtree only
    pys.append(("T", True, ("E", True), hang(_GOOD_LEAF, 128)))       # a bad left node is met first
    # leaf scripts of EVERY command kind (int, str: op name / OP_SUCCESSx / hex, bytes-like, other objects), valid and malformed:
    # taproot.serialize alone (`ser`), as the script of a leaf, and in the positions where a tree node / a leaf pair is expected
    import sys as _sys
    if _sys.get_int_max_str_digits() != 4300:
        raise common.HarnessError("int(str) digit limit of this interpreter is not the modelled 4300")
    fixed_s = [[], [("i", 1)], [("b", b"\x01\x02")], [("i", 0)], [("s", "OP_1")], [("x", 0)], [("x", 2)], [("x", 3)],
               [("i", 0xC0), ("s", "OP_1")], [("s", "ab"), ("s", "OP_1")], [("i", 1), ("i", 2), ("i", 3)],
               [("s", "OP_SUCCESS80"), ("b", b"\xff\x4c")], [("s", "OP_SUCCESS80")], [("s", "OP_SUCCESS80"), ("s", "OP_1")],
               [("s", "OP_SUCCESS80"), ("b", b""), ("b", b"")], [("s", "op_success80"), ("s", "OP_1")], [("s", "op_success80")],
               [("s", "OP_SUCCESS" + "0" * 4298 + "80"), ("b", b"\x01")], [("s", "OP_SUCCESS" + "0" * 4299 + "80"), ("b", b"\x01")],
               [("s", "OP_SUCCESS" + "0_" * 2149 + "80"), ("b", b"\x01")], [("s", "OP_SUCCESS" + "0_" * 2150 + "80"), ("b", b"\x01")],
               [("s", "OP_SUCCESS-80"), ("b", b"")], [("s", "OP_SUCCESS8__0"), ("b", b"")], [("s", "OP_SUCCESS\x1c80\x1d"), ("b", b"")],
               [("s", "  OP_SUCCESS98\n"), ("b", b"abc")], [("s", "")], [("s", " ")], [("s", "a b")], [("s", "ab cd")], [("s", "ab  cd\t")],
               [("s", "ab\x1ccd")], [("s", "OP_FALSE"), ("s", "op_true"), ("s", "OP_PUSHDATA1")], [("s", "OP_RESERVED")], [("s", "OP_VER")],
               [("b", bytes(75))], [("b", bytes(76))], [("b", bytes(255))], [("b", bytes(256))], [("b", bytes(65535))], [("b", bytes(65536))],
               [("s", "00" * 65536)], [("i", 2 ** 63 - 1), ("i", -2 ** 63), ("i", -2 ** 63 + 1)], [("i", 2 ** 63)], [("i", -2 ** 63 - 1)],
               [("b", b"\x01"), ("x", 0), ("s", "zz")], [("b", b"\x01"), ("s", "zz"), ("x", 0)]]
    scripts = fixed_s + [rand_cmds(rng, ctx) for _ in range(ctx.n(700, 12000))]
    L["ser"] = [f"ser {py_tok(('S', cs))}" for cs in scripts]
    L["pyscript"] = []
    kser = hx(spellings(rng, rng.randrange(1, N))[0][1])
    for j, cs in enumerate(fixed_s + [rand_cmds(rng) for _ in range(ctx.n(150, 2500))]):
        sa = ("S", cs)
        ver = rng.choice([0xC0, 0xC0, 0xC1, 0, -1, 0x1C2, 2 ** 70])
        leaf = ("O", rng.random() < 0.6, ("T", rng.random() < 0.3, ("I", ver), sa))
        shapes = [leaf, leaf, ("T", True, leaf, _GOOD_LEAF), ("T", False, _GOOD_LEAF, leaf), sa, ("O", True, sa),
                  ("T", True, sa, _GOOD_LEAF), ("O", True, ("T", True, sa, ("C", b"\x51")))]
        a = shapes[j % len(shapes)] if j >= len(fixed_s) else leaf
        L["pyscript"].append(f"pytree {py_tok(a)}")
        if j % 5 == 0:
            arm_ = arms[j % 2]
            L["pyscript"] += [f"outpubpy@{arm_} {kser} {py_tok(a)}", f"isspy@{arm_} {kser} {py_tok(a)} 0", f"outprvpy@{arm_} 7 {py_tok(a)}"]
        if j % 4 == 0 or j < len(fixed_s):
            ctx.check("leaf.commits_to_serialized", {"script": py_tok(sa), "version": ver & 0xFF, "key": kser, "arm": arms[j % 2]})
    for dd in (127, 128, 129):      # a two-command list IS a two-element node: its children are met one level down
        for a in (("S", [("s", "OP_1"), ("i", 2)]), ("S", [("b", b"\x01")]), ("C", b"\x51\x52"), ("S", [])):
            L["pyscript"].append(f"pytree {py_tok(hang(a, dd))}")
    L["pytree"] = [f"pytree {py_tok(a)}" for a in pys]
    L["pyentry"] = []
    dk = rng.randrange(1, N)
    good = spellings(rng, dk)
    keys = [hx(s) for _, s in good] + ["-", "_", hx(bad_secs(rng, dk)[0]), hx(b"\x05" + good[0][1][1:]),
                                       hx(good[0][1][:5]), hx(good[0][1] + b"\x00"), hx(b"\x02" + P_FIELD.to_bytes(32, "big"))]
    for a in FIXED_PY + pys[-32:] + rng.sample(pys[len(FIXED_PY):-32], ctx.n(40, 400)):
        tk = py_tok(a)
        for arm_ in arms:
            kk = rng.choice(keys)
            L["pyentry"] += [f"outpubpy@{arm_} {kk} {tk}", f"isspy@{arm_} {kk} {tk} {rng.choice([0, 0, 1, -1, 3])}",
                             f"outprvpy@{arm_} {rng.choice([dk, dk, 0, N, 1])} {tk}"]

    # p2tr glue: ScriptPubKey.p2tr on both arms (keys in every spelling / none / bad, trees / none), is_p2tr on every
    # guard (length, version opcode, push marker), and the glue oracle on every network
    L["p2tr"] = []
    dg = rng.randrange(1, N)
    gk = [hx(sx) for _, sx in spellings(rng, dg)] + ["-", "_", hx(bad_secs(rng, dg)[0]), hx(b"\x05" + mult(dg)[0].to_bytes(32, "big"))]
    gt = [tok_of(t) for _, t in trees if n_leaves(t) <= 8][:6] + ["-"]
    for kk in gk:
        for tk in rng.sample(gt, 3) + ["-"]:
            a_ = rng.choice(arms)
            L["p2tr"].append(f"p2trspk@{a_} {kk} {tk}")
            if kk in gk[:5] and not (kk == "-" and tk == "-"):       # the four spellings and None
                ctx.check("p2tr.glue", {"key": None if kk == "-" else kk, "tree": tk, "arm": a_,
                                        "network": rng.choice(["mainnet", "testnet", "regtest"])})
    qg = common.rand_bytes(rng, 32)
    for ln in list(range(0, 40)) + [64, 65]:
        L["p2tr"].append(f"isp2tr {hx((b'\x51\x20' + qg + bytes(40))[:ln])}")
    for b0 in (0x00, 0x50, 0x52, 0x60, 0x51):
        for b1 in (0x20, 0x1f, 0x21, 0x00, 0x4c):
            L["p2tr"].append(f"isp2tr {hx(bytes([b0, b1]) + qg)}")
    # the parity bit, every branch of check_output_pubkey: bindings with a 32-octet q (tweak_add_check), bindings with
    # another length (Python path), pure Python; parity right / wrong; x right / wrong; internal key ≥ p, not liftable
    L["check.parity"] = []
    nlx = non_liftable_x(rng).to_bytes(32, "big")
    for a_, q, sx, c in rng.sample(flips, min(len(flips), ctx.n(24, 200))):
        for arm_ in arms:
            for qq, ql in ((q, "32"), (b"\x00" + q, "33"), (_flip(q, rng.randrange(256)), "32-wrong-x")):
                for cc, cl in ((c, "parity kept"), (bytes([c[0] ^ 1]) + c[1:], "parity flipped")):
                    ctx.count("check.parity branch", f"{arm_} q:{ql} {cl}")
                    L["check.parity"].append(f"check@{arm_} {hx(qq)} {hx(sx)} {hx(cc)}")
            for xb_, xl in ((P_FIELD.to_bytes(32, "big"), "x = p"), (b"\xff" * 32, "x > p"), (nlx, "x not liftable"), (bytes(32), "x = 0")):
                ql = rng.choice([q, b"\x00" + q])
                ctx.count("check.parity branch", f"{arm_} q:{len(ql)} {xl}")
                L["check.parity"].append(f"check@{arm_} {hx(ql)} {hx(sx)} {hx(c[:1] + xb_ + c[33:])}")

    for name in ("tree", "pathof", "leafhash", "outpub", "outpubroot", "outprv", "outprvroot", "iss", "check", "check.mutated"):
        ctx.stream(name, L[name])
    ctx.stream("malformed", L["malformed"], nontrivial=lambda ln, out: True)
    ctx.stream("p2tr", L["p2tr"] + L["p2tr.deep"], nontrivial=lambda ln, out: True)
    ctx.stream("check.parity", L["check.parity"], nontrivial=lambda ln, out: True)
    ctx.stream("pytree", L["pytree"], nontrivial=lambda ln, out: True)
    ctx.stream("ser", L["ser"])
    ctx.stream("pyscript", L["pyscript"], nontrivial=lambda ln, out: True)
    ctx.stream("pyentry", L["pyentry"], nontrivial=lambda ln, out: True)

    # every single-bit alteration (small control blocks: all bits; deep ones: head + sample)
    rng.shuffle(flips)
    small_flips = [f for f in flips if len(f[3]) <= 33 + 32 * 4 and len(f[2]) <= 80]
    deep_flips = [f for f in flips if len(f[3]) > 33 + 32 * 60]
    budget = {"lib": ctx.n(10, 120), "py": ctx.n(1, 12)}
    for a, q, s, c in small_flips:
        if budget[a] > 0:
            budget[a] -= 1
            ctx.check("cb.bitflip", {"q": q.hex(), "script": s.hex(), "control": c.hex(), "arm": a})
    for a in arms:
        for f in [f for f in deep_flips if f[0] == a][: (2 if a == "lib" else 1)]:
            ctx.check("cb.bitflip", {"q": f[1].hex(), "script": f[2].hex(), "control": f[3].hex(), "arm": a,
                                     "cap": 2000 if a == "lib" else 100, "seed": rng.randrange(2 ** 32)})

    # tweak range refusal (digest chosen, both arms)
    d = rng.randrange(1, N)
    sec = spellings(rng, d)[0][1].hex()
    for a in arms:
        for dg in (N, N + 1, 2 ** 256 - 1, N - 1, 1):
            ctx.check("tweak.range", {"digest": f"{dg:064x}", "d": str(d), "tree": stk, "arm": a, "sec": sec})

    # the commitment is checked by the ENGINE for every leaf version (only the execution is version-gated)
    def eng_case(v):
        target = [(v + rng.choice([0, 0, 1]), ["OP_1"])]      # an odd spelling is masked by the library
        other = lambda: [(rng.choice([0xC0, 0xC2, v]), [rng.choice(["OP_1", "OP_2", "OP_DUP"])])]  # noqa: E731
        shape = rng.randrange(4)
        if shape == 0:
            return target, 0
        if shape == 1:
            return [target, other()], 0
        if shape == 2:
            return [other(), target], 1
        return [other(), [target, other()]], 1
    evens = list(range(0, 256, 2))
    if ctx.tier == "quick":
        vs = [0xC0, 0xC2, 0x50, 0x52, 0x4E, 0x00, 0xFE, 0x7E, 0x66, 0xBE] + rng.sample(evens, 6)
    else:
        vs = evens + [0xC0, 0x50, 0x50, 0x50]
    for v in vs:
        tr, i = eng_case(v)
        d = rng.randrange(1, N)
        ctx.count("engine leaf version", "0xc0" if v == 0xC0 else "0x50" if v == 0x50 else "other")
        ctx.check("engine.spend", {"tree": tok_of(tr), "idx": i, "sec": rng.choice(spellings(rng, d))[1].hex(), "arm": "lib",
                                   "annex": common.rand_bytes(rng, rng.randrange(1, 5)).hex(), "seed": rng.randrange(2 ** 32)})
    # parity of the output key decides whether a 0x50 leaf gives a control block that looks like an annex: both
    for par_want in (0, 1):
        for _ in range(64):
            d = rng.randrange(1, N)
            sec = spellings(rng, d)[0][1]
            tr, i = eng_case(0x50)
            if T.output_pubkey(sec, tr)[1] == par_want:
                ctx.count("engine 0x50 control[0]", hex(0x50 + par_want))
                ctx.check("engine.spend", {"tree": tok_of(tr), "idx": i, "sec": sec.hex(), "arm": "lib", "annex": "aa",
                                           "seed": rng.randrange(2 ** 32)})
                break
    for v in rng.sample(vs, ctx.n(2, 10)) + [0xC0, 0x50]:
        tr, i = eng_case(v)
        d = rng.randrange(1, N)
        ctx.check("engine.spend", {"tree": tok_of(tr), "idx": i, "sec": rng.choice(spellings(rng, d))[1].hex(), "arm": "py",
                                   "annex": "00", "cap": ctx.n(24, 60), "seed": rng.randrange(2 ** 32)})

    # descriptors and BIP86 (duplicated leaves and identical subtrees included)
    shapes = [None, 0, (0, 1), (0, 0), (0, (1, 2)), ((0, 1), 2), ((0, 1), (2, 3)), (0, (1, (2, (3, 4)))), ((0, 0), (0, 0)),
              ((0, 1), (0, 1)), (2, (1, 1)), ((1, 1), 2), (((3, 3), (3, 3)), ((3, 3), (3, 3)))]
    for _ in range(ctx.n(1, 6)):
        for shape in shapes:
            ks = [f"{mult(rng.randrange(1, N))[0]:064x}" for _ in range(5)]
            ctx.check("desc.tr", {"keys": ks, "shape": shape, "internal": f"{mult(rng.randrange(1, N))[0]:064x}",
                                  "arm": rng.choice(arms)})

    # ranged tr(): internal key and leaf keys ranged independently, at several derivation indexes
    rshapes = [1, (1, 2), (1, (2, 3)), ((1, 2), (3, 4)), (1, 1), ((1, 2), (1, 2))]
    for ri, rl in ((True, True), (True, False), (False, True)):
        for idx in (0, 1, 2, 2 ** 31 - 1):
            for shape in (rng.sample(rshapes, 2) if ctx.tier == "quick" else rshapes):
                ctx.count("desc.ranged index", str(idx))
                ctx.check("desc.ranged", {"seeds": [common.rand_bytes(rng, 32).hex() for _ in range(2)], "shape": shape,
                                          "ranged_internal": ri, "ranged_leaves": rl, "index": idx,
                                          "fixed": rng.randrange(0, 1000), "arm": rng.choice(arms)})

    # BIP341 wallet vectors
    for a in arms:
        for v in vec["scriptPubKey"]:
            ctx.check("bip341.vector", {"vector": v, "arm": a})
        for v in vec["keyPathSpending"][0]["inputSpending"]:
            ctx.check("bip341.keypath", {"vector": v, "arm": a})
