"""C04 — the libsecp256k1 and pure-Python backends are observationally identical (DESIGN §3 C04).

Every op line names ONE call of a dual-path API.  `both(line)` executes it twice in-process, once with
`set_libsecp256k1_serving(serving=True)` and once with `serving=False`, and canonicalises each answer to
`ok <value bytes>` | `err value|type|runtime|script|foreign:<Name>`.

  dual.<api>     property oracle `dual`: the two answers must be equal (any difference is a C04 violation with
                 the op line as replay);
  model.<api>    correspondence stream: the Python-arm answer against the backend-free model M (drv_c04:
                 shared EC model, ECDSA/RFC6979, BIP340, taproot tweak) where one exists;
  verdict.<api>  the T2 verdict tables of lean/Model/C04/Verdict.lean against the real code, arm by arm, one
                 representative input per class of the finite lattice (every class populated);
  guard.<site>   the GENERATED delegation guards (tools/specs/backend.py → Generated/Backend.lean) against the
                 real code: the bindings are wrapped by a spy and "were the bindings called" is compared with the
                 generated guard evaluated on the input's atoms.
  refusal.class  the rows of `Btc.C04.refusalTable` (lean/Model/C04/Refusal.lean): the class's representative on the Python
                 arm against the row's `py`, on the bindings arm against the GENERATED handlers unwound (T4).

Observation layer (harness/c04_sites.py, on for the whole run): every public callable of `btclib._libsecp256k1` is wrapped
(found by introspection), and every function of the generated dispatch inventory reports when it is entered; oracles
`site_reach`, `off_arm_silent`, `held_object` read it.
"""
from __future__ import annotations

import contextlib
import dataclasses
import hashlib
import json
import os
import sys
import time

from btclib import silent_payments as sp
from btclib.bip32 import bip32
from btclib.curves import curve as _curve
from btclib.curves import sec_point
from btclib.curves.curve import secp256k1
from btclib.ecc import bms, commit_nonce, dh, dsa, ellswift, musig2, ssa
from btclib.script import taproot
from btclib.script.engine import script as eng_script
from btclib.script.engine import tapscript as eng_tapscript

from . import c04_sites as sites
from . import common
from .common import hx, unhx

PROP = "C04"
EXE = "drv_c04"
GEN_MODULES = ["Backend", "BackendSites"]
RULE = ("one seeded PRNG; every op line is one call of a dual-path API, executed on both backends in-process "
        "(set_libsecp256k1_serving True/False) and canonicalised to value bytes | error class; inputs are mostly "
        "valid (random scalars/points/keys/signatures/transactions built with the real code) plus the hostile "
        "lattice of T2 (key: valid / x not on curve / x >= p / wrong length / infinity / hybrid prefix; scalar: 0 / "
        "in range / n / >n / negative; signature: valid / r=0 / s=0 / r>=n / high-s / lax DER / wrong key; message "
        "length), every class populated (class_histogram); non-trivial = at least one arm did not refuse; "
        "distinct = distinct (stream, op line)")
TRUSTED = ["the C library libsecp256k1 and its cffi bindings: compared on the explored inputs, not verified",
           "Model/C04/Verdict.lean outcome tables are hand-modelled from each arm's check order and tied by the "
           "verdict.* streams (one representative per class); completeness of the class lattice is argued from "
           "the branch conditions in Props/C04.lean comments",
           "tools/specs/backend.py AST pattern matcher (guards validated against observed delegation by the "
           "guard.* streams: bindings wrapped by a spy; handler actions by the refusal.class stream; the package-wide "
           "inventory by name matching: a delegation reached through a name it does not know -- getattr, a re-export "
           "under another module -- would escape it, and then also escapes the site_reach accounting)",
           "Model/C04/Refusal.lean: the Python-arm column of the refusal table is hand-written (tied per row by "
           "refusal.class on the real code); `site_reach` exemptions are listed with reasons in harness/c04_sites.py"]
ASSUMPTIONS = ["agreement of the C arm with the model is established on the explored inputs only"]

N = secp256k1.n
P = secp256k1.p
G = secp256k1.G
EC = secp256k1


# ------------------------------------------------------------------ backend switch
@contextlib.contextmanager
def arm(serving: bool):
    old = _curve.is_libsecp256k1_serving()
    _curve.set_libsecp256k1_serving(serving=serving)
    try:
        yield
    finally:
        _curve.set_libsecp256k1_serving(serving=old)


# ------------------------------------------------------------------ canonical rendering
def render(v) -> str:  # noqa: PLR0911, PLR0912
    if v is None:
        return "None"
    if isinstance(v, bool):
        return "True" if v else "False"
    if isinstance(v, int):
        return str(v)
    if isinstance(v, (bytes, bytearray)):
        return hx(bytes(v))
    if isinstance(v, str):
        return "s:" + v
    if isinstance(v, dsa.Sig):
        return f"{v.r} {v.s}"
    if isinstance(v, ssa.Sig):
        return f"{v.r} {v.s}"
    if isinstance(v, bms.Sig):
        return f"{v.rf} {v.dsa_sig.r} {v.dsa_sig.s}"
    if isinstance(v, sp.SilentPaymentOutput):
        return f"{hx(v.pub_key)}:{v.prv_key_tweak}"
    if isinstance(v, tuple):
        return " ".join(render(x) for x in v)
    if isinstance(v, (list, frozenset, set)):
        items = [render(x) for x in v]
        if not isinstance(v, list):
            items.sort()
        return "[" + ",".join(items) + "]"
    if dataclasses.is_dataclass(v):
        return type(v).__name__ + "(" + ",".join(render(getattr(v, f.name)) for f in dataclasses.fields(v)) + ")"
    raise TypeError(f"cannot render {type(v).__name__}")


def canon(fn) -> str:
    try:
        v = fn()
    except Exception as e:  # noqa: BLE001 - the class *is* the observation
        return "err " + common.err_class(e)
    return "ok " + render(v)


# ------------------------------------------------------------------ tokens
def t_int(tok):
    return int(tok)


def t_optint(tok):
    return None if tok == "-" else int(tok)


def t_bool(tok):
    return tok == "1"


def t_opthex(tok):
    return None if tok == "-" else unhx(tok)


def t_pt(xt, yt):
    return None if xt == "-" else (int(xt), int(yt))


def f_pt(Q):
    return "- -" if Q is None else f"{Q[0]} {Q[1]}"


def f_opt(b):
    return "-" if b is None else hx(b)


def f_b(b):
    return "1" if b else "0"


# ------------------------------------------------------------------ the dual-path APIs (one op per line)
def _points(toks):
    return [(int(toks[i]), int(toks[i + 1])) for i in range(0, len(toks), 2)]


def _terms(toks):
    return [int(toks[i]) for i in range(0, len(toks), 3)], [(int(toks[i + 1]), int(toks[i + 2])) for i in range(0, len(toks), 3)]


def _tweakchain(t):
    ch = _curve._TweakChain((int(t[0]), int(t[1])), EC)
    return [ch.point(int(x)) for x in t[2].split(",")]


def _dsa_sig(tok):
    """`r:s` → Sig built without validation (so the API's own assert_valid is what judges it); hex → octets"""
    if ":" in tok:
        r, s = tok.split(":")
        return dsa.Sig(int(r), int(s), EC, check_validity=False)
    return unhx(tok)


def _ssa_sig(tok):
    if ":" in tok:
        r, s = tok.split(":")
        return ssa.Sig(int(r), int(s), EC, check_validity=False)
    return unhx(tok)


def _key(tok):
    """public key token: `x,y` tuple | hex octets"""
    if "," in tok:
        x, y = tok.split(",")
        return (int(x), int(y))
    return unhx(tok)


def _dsa_signer(t):
    with dsa.Signer(int(t[1])) as s:
        return s.sign_(unhx(t[0]), grind=t_bool(t[2]), verify=t_bool(t[3]))


def _ssa_signer(t):
    with ssa.Signer(int(t[1])) as s:
        return s.sign_(unhx(t[0]), t_opthex(t[2]), verify=t_bool(t[3]))


def _ssa_batch(t):
    items = [x.split("/") for x in t]
    return ssa.assert_batch_as_valid_([unhx(i[0]) for i in items], [_key(i[1]) for i in items],
                                      [_ssa_sig(i[2]) for i in items])


def _ell_encode(t):
    Q = _key(t[0])
    return ellswift.decode_var(ellswift.encode_var(Q))


def _pkd(sec):
    from btclib import to_pub_key as tpk  # noqa: PLC0415
    for name in ("pub_keydata_from_key", "pub_key_data_from_key", "pub_keydata"):
        f = getattr(tpk, name, None)
        if f is not None:
            return f(sec)
    raise common.HarnessError("no PubKeyData constructor found in btclib.to_pub_key")


def _musig_pverify(t):
    pks = [unhx(x) for x in t[4].split(",")]
    tweaks = [] if t[5] == "-" else [unhx(x.split("/")[0]) for x in t[5].split(",")]
    xonly = [] if t[5] == "-" else [x.split("/")[1] == "1" for x in t[5].split(",")]
    ctx_ = musig2.SessionContext(unhx(t[3]), pks, tweaks, xonly, unhx(t[6]))
    return musig2.partial_sig_verify_(unhx(t[0]), unhx(t[1]), unhx(t[2]), ctx_)


def _outpoints(tok):
    from btclib.tx import OutPoint  # noqa: PLC0415
    return [OutPoint(unhx(x.split(":")[0]), int(x.split(":")[1])) for x in tok.split(",")]


def _sp_out(t):
    prv = [(int(x.split("/")[0]), unhx(x.split("/")[1])) for x in t[0].split(",")]
    addrs = [] if t[2] == "-" else t[2].split(",")
    return sp.output_keys(prv, _outpoints(t[1]), addrs)


def _sp_scan(t):
    pubs = [(_key(x.split("/")[0]), unhx(x.split("/")[1])) for x in t[3].split(",")]
    outs = [] if t[4] == "-" else [unhx(x) for x in t[4].split(",")]
    labels = None
    if t[5] != "-":
        labels = {unhx(x.split("/")[0]): unhx(x.split("/")[1]) for x in t[5].split(",")}
    return sp.scan_transaction_outputs(int(t[0]), _key(t[1]), _outpoints(t[2]), pubs, outs, labels)


API = {
    # curve.py
    "mult": lambda t: _curve.mult(int(t[0]), t_pt(t[1], t[2])),
    "prepared": lambda t: _curve.PreparedPoint((int(t[1]), int(t[2]))).mult(int(t[0])),
    "dmult": lambda t: _curve.double_mult_var(int(t[0]), (int(t[1]), int(t[2])), int(t[3]), (int(t[4]), int(t[5]))),
    "mmult": lambda t: _curve.multi_mult_var(*_terms(t)),
    "mmultx": lambda t: _curve._multi_mult_x_only_var([int(x) for x in t[0::2]], [int(x) for x in t[1::2]], EC),
    "sum": lambda t: _curve._sum_var(_points(t), EC),
    "tweakadd": lambda t: _curve._tweak_add_var((int(t[0]), int(t[1])), int(t[2]), EC),
    "tweakchain": _tweakchain,
    "isx": lambda t: _curve._is_x_coordinate_var(int(t[0]), EC),
    "yeven": lambda t: _curve._y_even_var(int(t[0]), EC),
    # sec_point.py
    "pubkey": lambda t: sec_point.bytes_from_prv_key_int(int(t[0]), EC, t_bool(t[1])),
    "pfo": lambda t: sec_point.point_from_octets(unhx(t[0]), EC, hybrid=t_bool(t[1])),
    "sfo": lambda t: sec_point._sec_from_octets(unhx(t[0]), EC),
    "multsec": lambda t: sec_point._mult_sec_var(unhx(t[0]), int(t[1]), EC),
    # dsa.py
    "dsa.sign": lambda t: dsa.sign_(unhx(t[0]), int(t[1]), t_optint(t[2]), t_bool(t[3]), grind=t_bool(t[4]),
                                    verify=t_bool(t[5]), pub_key=None if t[6] == "-" else _key(t[6])),
    "dsa.signrec": lambda t: dsa.sign_recoverable_(unhx(t[0]), int(t[1]), t_optint(t[2]), t_bool(t[3])),
    "dsa.signer": _dsa_signer,
    "dsa.assert": lambda t: dsa.assert_as_valid_(unhx(t[0]), _key(t[1]), _dsa_sig(t[2])),
    "dsa.verify": lambda t: dsa.verify_(unhx(t[0]), _key(t[1]), _dsa_sig(t[2])),
    "dsa.recover": lambda t: dsa.recover_pub_key_(int(t[0]), unhx(t[1]), _dsa_sig(t[2])),
    "dsa.recoverall": lambda t: dsa.recover_pub_keys_(unhx(t[0]), _dsa_sig(t[1])),
    # ssa.py
    "ssa.sign": lambda t: ssa.sign_(unhx(t[0]), int(t[1]), unhx(t[2]), verify=t_bool(t[3])),
    "ssa.signer": _ssa_signer,
    "ssa.assert": lambda t: ssa.assert_as_valid_(unhx(t[0]), _key(t[1]), _ssa_sig(t[2])),
    "ssa.verify": lambda t: ssa.verify_(unhx(t[0]), unhx(t[1]), _ssa_sig(t[2])),
    "ssa.batch": _ssa_batch,
    # bms.py
    "bms.sign": lambda t: bms.sign(unhx(t[0]), t[1], None if t[2] == "-" else t[2]),
    "bms.assert": lambda t: bms.assert_as_valid(unhx(t[0]), t[1], t[2]),
    "bms.verify": lambda t: bms.verify(unhx(t[0]), t[1], t[2]),
    # bip32
    "bip32.derive": lambda t: bip32.derive(t[0], t[1]),
    # taproot
    "tap.pub": lambda t: taproot._tweaked_pubkey(_pkd(unhx(t[0])), unhx(t[1])),
    "tap.prv": lambda t: taproot._tweaked_prvkey(int(t[0]), unhx(t[1])),
    "tap.check": lambda t: taproot.check_output_pubkey(unhx(t[0]), unhx(t[1]), unhx(t[2])),
    # dh / ellswift / commit_nonce / musig2
    "dh": lambda t: dh.diffie_hellman(int(t[0]), (int(t[1]), int(t[2])), int(t[3])),
    # create_var / encode_var draw fresh randomness on both arms: the observable is the point the encoding decodes to
    "ell.create": lambda t: ellswift.decode_var(ellswift.create_var(int(t[0]))),
    "ell.encode": _ell_encode,
    "ell.decode": lambda t: ellswift.decode_var(unhx(t[0])),
    "ell.xdh": lambda t: ellswift.xdh(unhx(t[0]), unhx(t[1]), int(t[2]), int(t[3])),
    "commit": lambda t: commit_nonce.commit_nonce_(unhx(t[0]), int(t[1]), unhx(t[2])),
    "musig.pverify": _musig_pverify,
    # silent payments
    "sp.out": _sp_out,
    "sp.scan": _sp_scan,
    # script engine wrappers
    "eng.dsa": lambda t: eng_script.dsa_verify(unhx(t[0]), unhx(t[1]), unhx(t[2])),
    "eng.ssa": lambda t: eng_tapscript.ssa_verify(unhx(t[0]), unhx(t[1]), unhx(t[2])),
}


def run_line(line: str) -> str:
    toks = line.split(" ")
    name = toks[0].split(".", 1)[1] if toks[0].startswith("dual.") else toks[0]
    f = API.get(name)
    if f is None:
        return "bad-op"
    return canon(lambda: f(toks[1:]))


_BOTH: dict[str, tuple[str, str]] = {}


def both(line: str) -> tuple[str, str]:
    """(bindings-arm answer, Python-arm answer) of one op line"""
    got = _BOTH.get(line)
    if got is None:
        R = sites.REACH
        with arm(True):
            R.begin()
            a = run_line(line)
            on = R.end()
        with arm(False):
            R.begin()
            b = run_line(line)
            off = R.end()
        R.account(line, a, b, on, off)
        got = (a, b)
        if len(_BOTH) < 200000:
            _BOTH[line] = got
    return got


def impl(line: str) -> str:
    """the implementation side of a model.* stream: the Python-arm answer (the bindings arm is tied to it by `dual`)"""
    if line.startswith("verdict "):
        return _impl_verdict(line)
    if line.startswith("guard "):
        return _impl_guard(line)
    if line.startswith("refusal "):
        return _impl_refusal(line)
    return both(line)[1]


def _o_dual(line):
    a, b = both(line)
    if a != b:
        return False, f"`{line[:400]}`: bindings arm -> {a[:200]} ; Python arm -> {b[:200]}"
    return True, a[:80]


def dual(ctx, api, lines, key=None, model=False):
    """run `lines` of one API on both arms; any difference is a property finding"""
    for ln in lines:
        a, b = both(ln)
        ctx.oracle(f"dual.{api}", a == b,
                   f"`{ln[:400]}`: bindings arm -> {a[:200]} ; Python arm -> {b[:200]}",
                   key=key or f"dual.{api}", witness={"oracle": "dual", "witness": ln},
                   nontrivial=not (a.startswith("err") and b.startswith("err")))
        ctx.count(f"dual.{api}", (a.split(" ")[0] if not a.startswith("err") else a) if a == b else "DIVERGE")
    mlines = [ln for ln in lines if model is True or (callable(model) and model(ln))]
    if mlines:
        ctx.correspond(f"model.{api}", EXE, [(ln, mcanon(api, both(ln)[1])) for ln in mlines])


_INF_RE = None


def mcanon(api, out):
    """the model names the point at infinity `inf` whatever its spelling (btclib answers INF = (5, 0), or echoes (x, 0))"""
    global _INF_RE  # noqa: PLW0603
    if api in ("isx", "yeven", "pubkey", "sfo") or "." in api or not out.startswith("ok "):
        return out
    if _INF_RE is None:
        import re  # noqa: PLC0415
        _INF_RE = re.compile(r"(?<![0-9a-f])-?[0-9]+ 0(?![0-9a-f])")
    return "ok " + _INF_RE.sub("inf", out[3:])


ORACLES = {"dual": _o_dual}


# ------------------------------------------------------------------ generators: scalars, points, keys
def g_scalar(rng):
    r = rng.random()
    if r < 0.7:
        return rng.randrange(1, N)
    if r < 0.8:
        return rng.choice([1, 2, 3, N - 1, N - 2, (N - 1) // 2, (N + 1) // 2, 2**255, 2**128])
    return rng.randrange(1, 2**rng.choice([8, 32, 64, 128, 200]))


def scalar_lattice(rng):
    """(class, value): 0 / in range / n / > n / negative (and their neighbours)"""
    q = rng.randrange(1, N)
    return [("zero", 0), ("one", 1), ("in_range", q), ("n_minus_1", N - 1), ("n", N), ("n_plus_1", N + 1),
            ("gt_n", N + q), ("two_n", 2 * N), ("negative", -q), ("minus_one", -1), ("minus_n", -N),
            ("big", 2**256 + q), ("2_256", 2**256)]


def g_point(rng):
    return _PY_MULT(g_scalar(rng))


def _PY_MULT(m, Q=None):
    with arm(True):
        return _curve.mult(m, Q)


def non_x(rng):
    while True:
        x = rng.randrange(1, P)
        if not _curve._is_x_coordinate_var(x, EC):
            return x


def point_lattice(rng):
    """(class, point): valid / G / infinity spellings / off curve / coordinates out of range"""
    Q = g_point(rng)
    nx = non_x(rng)
    return [("valid", Q), ("G", G), ("neg", (Q[0], P - Q[1])), ("inf_00", (0, 0)), ("inf_x0", (Q[0], 0)), ("inf_50", (5, 0)),
            ("off_y", (Q[0], Q[1] % (P - 1) + 1 if (Q[1] % (P - 1) + 1) != Q[1] else 1)), ("off_nonx", (nx, Q[1])),
            ("swap", (Q[1], Q[0])), ("x_plus_p", (Q[0] + P, Q[1])), ("x_minus_p", (Q[0] - P, Q[1])),
            ("y_plus_p", (Q[0], Q[1] + P)), ("y_neg", (Q[0], -Q[1])), ("y_eq_p", (Q[0], P)), ("x_eq_p", (P, Q[1])),
            ("zero_one", (0, 1))]


def sec_of(Q, compressed=True):
    if compressed:
        return (b"\x03" if Q[1] & 1 else b"\x02") + Q[0].to_bytes(32, "big")
    return b"\x04" + Q[0].to_bytes(32, "big") + Q[1].to_bytes(32, "big")


def key_lattice(rng):
    """(class, octets): SEC keys, valid and hostile"""
    Q = g_point(rng)
    nx = non_x(rng)
    c, u = sec_of(Q), sec_of(Q, False)
    hyb = bytes([6 + (Q[1] & 1)]) + u[1:]
    hyb_bad = bytes([7 - (Q[1] & 1)]) + u[1:]
    small = P + rng.randrange(0, 2**256 - P)
    out = [("compressed", c), ("uncompressed", u), ("hybrid", hyb), ("hybrid_wrong_parity", hyb_bad),
           ("x_not_on_curve", b"\x02" + nx.to_bytes(32, "big")), ("x_not_on_curve_03", b"\x03" + nx.to_bytes(32, "big")),
           ("x_ge_p", b"\x02" + small.to_bytes(32, "big")), ("x_eq_p", b"\x03" + P.to_bytes(32, "big")),
           ("unc_off_curve", u[:-1] + bytes([u[-1] ^ 1])), ("unc_y_zero", u[:33] + bytes(32)),
           ("unc_y_ge_p", u[:33] + (P + 1).to_bytes(32, "big")), ("unc_x_ge_p", b"\x04" + small.to_bytes(32, "big") + u[33:]),
           ("unc_prefix_02", b"\x02" + u[1:]), ("comp_prefix_04", b"\x04" + c[1:]), ("prefix_00", b"\x00" + c[1:]),
           ("prefix_05", b"\x05" + c[1:]), ("prefix_ff", b"\xff" + c[1:]), ("short_32", c[:-1]), ("long_34", c + b"\x00"),
           ("len_64", u[:-1]), ("len_66", u + b"\x00"), ("empty", b""), ("one_byte", b"\x02"), ("zeros_33", bytes(33)),
           ("zeros_65", bytes(65)), ("x_zero", b"\x02" + bytes(32))]
    return out


# ------------------------------------------------------------------ stream builders
def s_curve(ctx, rng):  # noqa: PLR0912, PLR0915
    n = ctx.n(80, 3200)
    L = {k: [] for k in ("mult", "prepared", "dmult", "mmult", "sum", "tweakadd", "tweakchain", "isx", "yeven", "mmultx")}
    xr = {k: [] for k in L}  # x outside 0..p-1: recorded divergence (OverflowError on the bindings arm)
    pl = point_lattice(rng)
    sl = scalar_lattice(rng)

    def xrange_(Q):
        return Q is not None and Q[1] != 0 and not 0 <= Q[0] < P

    def put(api, line, *pts, scalars_zero=False):
        (xr if any(xrange_(Q) for Q in pts) else L)[api].append(line)

    # the full lattice: every scalar class x every point class
    for cs, m in sl:
        for cp, Q in [("none", None)] + pl:
            ctx.count("mult.class", f"{cs}|{cp}")
            put("mult", f"dual.mult {m} {f_pt(Q)}", Q)
    for cs, m in sl:
        for cp, Q in pl:
            put("prepared", f"dual.prepared {m} {f_pt(Q)}", Q)
            put("tweakadd", f"dual.tweakadd {f_pt(Q)} {m}", Q)
            ctx.count("tweakadd.class", f"{cs}|{cp}")
    # double mult: lattice on each side with a valid other side, plus cancelling sums
    Hh, Qq, u0 = g_point(rng), g_point(rng), g_scalar(rng)
    for cs, m in sl:
        for cp, Q in pl:
            ctx.count("dmult.class", f"{cs}|{cp}")
            put("dmult", f"dual.dmult {m} {f_pt(Q)} {u0} {f_pt(Hh)}", Q)
            put("dmult", f"dual.dmult {u0} {f_pt(Hh)} {m} {f_pt(Q)}", Q)
    for u in (1, u0, N - 1):
        ctx.count("dmult.class", "sum_is_infinity")
        put("dmult", f"dual.dmult {u} {f_pt(Qq)} {N - u} {f_pt(Qq)}", Qq)
        put("dmult", f"dual.dmult {u} {f_pt(Qq)} {u} {Qq[0]} {P - Qq[1]}", Qq)
    for _ in range(n):
        m, Q = g_scalar(rng), rng.choice([None, G, g_point(rng)])
        put("mult", f"dual.mult {m} {f_pt(Q)}", Q)
        ctx.count("mult.class", "random_valid")
        put("dmult", f"dual.dmult {g_scalar(rng)} {f_pt(rng.choice([G, g_point(rng)]))} {g_scalar(rng)} {f_pt(g_point(rng))}")
        ctx.count("dmult.class", "random_valid")
    # multi mult / sum: term counts 0..40 (Bos-Coster threshold crossed on the Python arm), hostile terms, cancelling terms
    for k in [0, 1, 2, 3, 4, 5, 8, 16, 33, 40] + [rng.randrange(2, 12) for _ in range(ctx.n(36, 800))]:
        terms = [(g_scalar(rng), g_point(rng)) for _ in range(k)]
        kind = rng.choice(["valid", "valid", "zero_scalar", "inf_term", "cancel", "off_curve", "x_range", "scalar_edge"]) if k else "empty"
        if kind == "zero_scalar" and k:
            terms[rng.randrange(k)] = (rng.choice([0, N, -N]), terms[0][1])
        elif kind == "inf_term" and k:
            terms[rng.randrange(k)] = (g_scalar(rng), rng.choice([(0, 0), (7, 0)]))
        elif kind == "cancel" and k >= 2:
            terms[1] = (N - terms[0][0], terms[0][1])
            if rng.random() < 0.5:
                terms = terms[:2]
        elif kind == "off_curve" and k:
            q = terms[0][1]
            terms[rng.randrange(k)] = (g_scalar(rng), (q[0], q[1] ^ 1))
        elif kind == "x_range" and k:
            q = terms[0][1]
            terms[rng.randrange(k)] = (g_scalar(rng), (q[0] + P, q[1]))
        elif kind == "scalar_edge" and k:
            terms[rng.randrange(k)] = (rng.choice([-1, N + 1, 2**256, -g_scalar(rng)]), terms[0][1])
        ctx.count("mmult.class", f"{kind}|k={'0' if k == 0 else '1' if k == 1 else '2..7' if k < 8 else '8+'}")
        put("mmult", "dual.mmult" + "".join(f" {m} {Q[0]} {Q[1]}" for m, Q in terms), *[Q for _, Q in terms])
        put("sum", "dual.sum" + "".join(f" {Q[0]} {Q[1]}" for _, Q in terms), *[Q for _, Q in terms])
        # the x-only sum of BIP340's batch verification (in-range scalars, x-coordinates: its caller's contract)
        if k >= 2 and kind in ("valid", "cancel"):
            L["mmultx"].append("dual.mmultx" + "".join(f" {m % N or 1} {Q[0]}" for m, Q in terms))
    # a scalar that is a multiple of n (0, n, 2n, -n) at every position of a 2- and a 3-term sum: the guard must read the
    # REDUCED scalars (the bindings refuse a zero tweak with a bare ValueError)
    for k in (2, 3):
        pts = [g_point(rng) for _ in range(k)]
        for pos in range(k):
            for z in (0, N, 2 * N, -N, -2 * N):
                sc = [g_scalar(rng) for _ in range(k)]
                sc[pos] = z
                ctx.count("mmult.class", f"multiple_of_n|k={k}")
                L["mmult"].append("dual.mmult" + "".join(f" {m} {Q[0]} {Q[1]}" for m, Q in zip(sc, pts)))
    for a in (Qq, Hh):
        L["sum"].append(f"dual.sum {f_pt(a)} {a[0]} {P - a[1]}")
        L["sum"].append(f"dual.sum {f_pt(a)} {a[0]} {P - a[1]} {f_pt(Hh)}")
        L["sum"].append(f"dual.sum {f_pt(a)} 0 0 {f_pt(a)}")
    # tweak add landing on infinity; tweak chains (repeats, decreasing tweaks, a step onto infinity, then onwards)
    q = g_scalar(rng)
    Pq = _PY_MULT(q)
    for t in (N - q, -q, 2 * N - q):
        ctx.count("tweakadd.class", "sum_is_infinity")
        L["tweakadd"].append(f"dual.tweakadd {f_pt(Pq)} {t}")
    for _ in range(ctx.n(60, 1200)):
        base_q = g_scalar(rng)
        base = rng.choice([_PY_MULT(base_q), _PY_MULT(base_q), (0, 0), (5, 0)])
        ts = [rng.choice([g_scalar(rng), 0, N, 1, N - base_q, -base_q, N + 5]) for _ in range(rng.randrange(1, 7))]
        if rng.random() < 0.4:
            ts.append(ts[0])
        ctx.count("tweakchain.class", ("inf_base" if base[1] == 0 else "valid") + ("|hits_infinity" if any((base_q + t) % N == 0 for t in ts) and base[1] else ""))
        L["tweakchain"].append(f"dual.tweakchain {f_pt(base)} {','.join(str(t) for t in ts)}")
    # x-coordinate questions
    Q = g_point(rng)
    for cls, x in [("x_coord", Q[0]), ("non_x", non_x(rng)), ("zero", 0), ("p_minus_1", P - 1), ("p", P), ("p_plus_x", P + Q[0]),
                   ("negative", -Q[0]), ("2_256", 2**256), ("2_256_plus", 2**256 + Q[0]), ("one", 1), ("five", 5)]:
        ctx.count("isx.class", cls)
        L["isx"].append(f"dual.isx {x}")
        L["yeven"].append(f"dual.yeven {x}")
    for _ in range(n):
        x = rng.choice([g_point(rng)[0], rng.randrange(P)])
        L["isx"].append(f"dual.isx {x}")
        L["yeven"].append(f"dual.yeven {x}")
    for api, lines in L.items():
        dual(ctx, api, lines, model=api in MODELLED)
    # recorded divergence: an x-coordinate outside 0..p-1 that is valid modulo p
    for api, lines in xr.items():
        if lines:
            ctx.count("x_out_of_range", api, len(lines))
            dual(ctx, api + ".x_out_of_range", sorted(set(lines))[:ctx.n(18, 160)], key="curve.x_out_of_range_backend_divergence")


def _m_dsa_sign(ln):
    return ln.endswith(" -")  # no pub_key= argument


def _m_ssa_assert(ln):
    t = ln.split(" ")
    return "," not in t[2] and len(t[2]) == 64 and ":" in t[3]


# the schemes' own models (properties C02 / C03), for the entry points whose argument forms they cover
MODEL_FILTER = {"dsa.sign": _m_dsa_sign, "dsa.signrec": True, "ssa.sign": True, "ssa.assert": _m_ssa_assert}

MODELLED = {"mult", "prepared", "dmult", "mmult", "sum", "tweakadd", "tweakchain", "isx", "yeven", "mmultx", "pubkey", "pfo",
            "sfo", "multsec"}


def s_sec(ctx, rng):
    L = {k: [] for k in ("pubkey", "pfo", "sfo", "multsec")}
    for cs, m in scalar_lattice(rng):
        ctx.count("pubkey.class", cs)
        for c in (True, False):
            L["pubkey"].append(f"dual.pubkey {m} {f_b(c)}")
    for _ in range(ctx.n(90, 2000)):
        L["pubkey"].append(f"dual.pubkey {g_scalar(rng)} {f_b(rng.random() < 0.5)}")
    for rep in range(ctx.n(6, 80)):
        for ck, k in key_lattice(rng):
            ctx.count("key.class", ck)
            for hyb in (False, True):
                L["pfo"].append(f"dual.pfo {hx(k)} {f_b(hyb)}")
            L["sfo"].append(f"dual.sfo {hx(k)}")
            if ck == "hybrid":
                # `_mult_sec_var` is a private helper whose callers hand it octets `pub_keyinfo_from_pub_key` has proved
                # (never a hybrid key): outside its contract, exercised through its public callers (sp.shared) instead
                ctx.count("key.class", "hybrid (not handed to _mult_sec_var: outside its caller contract)")
                continue
            for m in (g_scalar(rng), 0, N) if rep == 0 else (g_scalar(rng),):
                L["multsec"].append(f"dual.multsec {hx(k)} {m}")
    for _ in range(ctx.n(90, 2000)):
        k = sec_of(g_point(rng), rng.random() < 0.7)
        L["pfo"].append(f"dual.pfo {hx(k)} 0")
        L["sfo"].append(f"dual.sfo {hx(k)}")
        L["multsec"].append(f"dual.multsec {hx(k)} {g_scalar(rng)}")
    for api, lines in L.items():
        dual(ctx, api, lines, model=api in MODELLED)


# -- ECDSA
def msg_lattice(rng):
    return [("len_32", common.rand_bytes(rng, 32)), ("len_0", b""), ("len_31", common.rand_bytes(rng, 31)),
            ("len_33", common.rand_bytes(rng, 33)), ("len_64", common.rand_bytes(rng, 64)), ("zeros_32", bytes(32)),
            ("ff_32", b"\xff" * 32)]


def boundary_digests():
    """32-byte strings whose integer sits on the edges of the reduction `% n` (and of the field)"""
    vals = [("0", 0), ("1", 1), ("n-1", N - 1), ("n", N), ("n+1", N + 1), ("p", P), ("2^256-1", 2**256 - 1), ("2^255", 2**255),
            ("n//2", N // 2), ("2^256-n", 2**256 - N)]  # 2n does not fit 32 bytes: n+1 and 2^256-1 are the multiples' neighbours that do
    return [(name, v.to_bytes(32, "big")) for name, v in vals]


def der(r, s):
    def enc(v):
        b = v.to_bytes((v.bit_length() + 8) // 8 or 1, "big")
        return b"\x02" + bytes([len(b)]) + b
    body = enc(r) + enc(s)
    return b"\x30" + bytes([len(body)]) + body


def dsa_sig_lattice(rng, msg, q):
    """(class, sig token) around a valid signature of msg under q"""
    with arm(True):
        sig = dsa.sign_(msg, q, grind=False)
    r, s = sig.r, sig.s
    hi = N - s
    nx = non_x(rng)
    d = der(r, s)
    out = [("valid", f"{r}:{s}"), ("valid_der", hx(d)), ("high_s", f"{r}:{hi}"), ("high_s_der", hx(der(r, hi))),
           ("r_zero", f"0:{s}"), ("s_zero", f"{r}:0"), ("r_eq_n", f"{N}:{s}"), ("s_eq_n", f"{r}:{N}"), ("r_gt_n", f"{N + 5}:{s}"),
           ("s_gt_n", f"{r}:{N + s}"), ("r_negative", f"{-r}:{s}"), ("s_negative", f"{r}:{-s}"), ("r_not_x", f"{nx % N or 1}:{s}"),
           ("wrong_r", f"{G[0]}:{s}"), ("wrong_s", f"{r}:{s % (N - 1) + 1}"), ("r_2_256", f"{2**256}:{s}"),
           ("der_trailing", hx(d + b"\x00")), ("der_truncated", hx(d[:-1])), ("der_bad_tag", hx(b"\x31" + d[1:])),
           ("der_long_len", hx(b"\x30\x81" + d[1:2] + d[2:])), ("der_neg_r", hx(der(r, s)[:4] + bytes([d[4] | 0x80]) + d[5:])),
           ("der_pad_r", hx(b"\x30" + bytes([d[1] + 1]) + b"\x02" + bytes([d[3] + 1]) + b"\x00" + d[4:])),
           ("der_empty", "_"), ("der_r_zero", hx(der(0, s))), ("der_s_zero", hx(der(r, 0))), ("der_s_eq_n", hx(der(r, N))),
           ("compact_64", hx(r.to_bytes(32, "big") + s.to_bytes(32, "big")))]
    return out


def s_dsa(ctx, rng):  # noqa: PLR0912, PLR0915
    L = {k: [] for k in ("dsa.sign", "dsa.signrec", "dsa.signer", "dsa.assert", "dsa.verify", "dsa.recover", "dsa.recoverall",
                         "eng.dsa")}
    eng_high_s = []
    q = g_scalar(rng)
    Q = _PY_MULT(q)
    msg = common.rand_bytes(rng, 32)
    # signing: scalar lattice x message lattice x options
    for cs, qq in scalar_lattice(rng):
        ctx.count("dsa.sign.class", "key_" + cs)
        L["dsa.sign"].append(f"dual.dsa.sign {hx(msg)} {qq} - 1 1 1 -")
        L["dsa.sign"].append(f"dual.dsa.sign {hx(msg)} {qq} - 1 0 0 -")
        L["dsa.signrec"].append(f"dual.dsa.signrec {hx(msg)} {qq} - 1")
        L["dsa.signer"].append(f"dual.dsa.signer {hx(msg)} {qq} 1 1")
    for cm, m in msg_lattice(rng):
        ctx.count("dsa.sign.class", "msg_" + cm)
        L["dsa.sign"].append(f"dual.dsa.sign {hx(m)} {q} - 1 1 1 -")
        L["dsa.signrec"].append(f"dual.dsa.signrec {hx(m)} {q} - 1")
        L["dsa.signer"].append(f"dual.dsa.signer {hx(m)} {q} {f_b(rng.random() < 0.5)} 1")
    # message digests on the edges of `% n`: every signing and verifying entry point, every option that changes the arm
    for name, bm in boundary_digests():
        ctx.count("dsa.sign.class", "msg_int_" + name)
        for qq in (q, 1, N - 1):
            L["dsa.sign"].append(f"dual.dsa.sign {hx(bm)} {qq} - 1 1 1 -")
            L["dsa.sign"].append(f"dual.dsa.sign {hx(bm)} {qq} - 1 0 0 -")
            L["dsa.sign"].append(f"dual.dsa.sign {hx(bm)} {qq} - 0 0 1 -")
            L["dsa.sign"].append(f"dual.dsa.sign {hx(bm)} {qq} 7 1 0 1 -")
            L["dsa.signrec"].append(f"dual.dsa.signrec {hx(bm)} {qq} - 1")
            L["dsa.signrec"].append(f"dual.dsa.signrec {hx(bm)} {qq} 9 0")
            L["dsa.signer"].append(f"dual.dsa.signer {hx(bm)} {qq} 1 1")
            L["dsa.signer"].append(f"dual.dsa.signer {hx(bm)} {qq} 0 0")
        # a signature made by EACH arm, verified / recovered by both
        for serving in (True, False):
            with arm(serving):
                bsg = dsa.sign_(bm, q, grind=False)
            st = f"{bsg.r}:{bsg.s}"
            for ktok in (hx(sec_of(Q)), f"{Q[0]},{Q[1]}"):
                L["dsa.assert"].append(f"dual.dsa.assert {hx(bm)} {ktok} {st}")
                L["dsa.verify"].append(f"dual.dsa.verify {hx(bm)} {ktok} {st}")
            for kid in (0, 1):
                L["dsa.recover"].append(f"dual.dsa.recover {kid} {hx(bm)} {st}")
            L["dsa.recoverall"].append(f"dual.dsa.recoverall {hx(bm)} {st}")
            L["eng.dsa"].append(f"dual.eng.dsa {hx(bm)} {hx(sec_of(Q))} {hx(der(bsg.r, min(bsg.s, N - bsg.s)))}")
    for cs, k in scalar_lattice(rng):  # explicit nonce: both arms take the Python path (guard: nonce is None)
        ctx.count("dsa.sign.class", "nonce_" + cs)
        L["dsa.sign"].append(f"dual.dsa.sign {hx(msg)} {q} {k} 1 0 1 -")
        L["dsa.signrec"].append(f"dual.dsa.signrec {hx(msg)} {q} {k} {f_b(rng.random() < 0.5)}")
    hybrid_lines = []  # recorded divergence: SEC octets handed over unproven, ec_pubkey_parse takes the hybrid prefixes
    for ck, key in key_lattice(rng):  # pub_key= for the check
        ctx.count("dsa.sign.class", "pubkey_" + ck)
        (hybrid_lines if ck == "hybrid" else L["dsa.sign"]).append(f"dual.dsa.sign {hx(msg)} {q} - 1 1 1 {hx(key) if key else '_'}")
    for tok in (hx(sec_of(Q)), hx(sec_of(Q, False)), f"{Q[0]},{Q[1]}", hx(sec_of(G))):
        ctx.count("dsa.sign.class", "pubkey_own" if tok != hx(sec_of(G)) else "pubkey_foreign")
        L["dsa.sign"].append(f"dual.dsa.sign {hx(msg)} {q} - 1 1 1 {tok}")
        L["dsa.sign"].append(f"dual.dsa.sign {hx(msg)} {q} - 1 1 0 {tok}")
    for _ in range(ctx.n(90, 2400)):
        m, qq = common.rand_bytes(rng, 32), g_scalar(rng)
        ls, gr, vf = rng.random() < 0.8, rng.random() < 0.6, rng.random() < 0.7
        ctx.count("dsa.sign.class", f"random ls={f_b(ls)} grind={f_b(gr)}")
        L["dsa.sign"].append(f"dual.dsa.sign {hx(m)} {qq} - {f_b(ls)} {f_b(gr)} {f_b(vf)} -")
        L["dsa.signrec"].append(f"dual.dsa.signrec {hx(m)} {qq} - {f_b(ls)}")
        L["dsa.signer"].append(f"dual.dsa.signer {hx(m)} {qq} {f_b(gr)} {f_b(vf)}")
    # verification / recovery: signature lattice x key lattice x message lattice
    sigs = dsa_sig_lattice(rng, msg, q)
    pk = sec_of(Q)
    for cs, st in sigs:
        ctx.count("dsa.sig.class", cs)
        for ktok in (hx(pk), f"{Q[0]},{Q[1]}"):
            L["dsa.assert"].append(f"dual.dsa.assert {hx(msg)} {ktok} {st}")
            L["dsa.verify"].append(f"dual.dsa.verify {hx(msg)} {ktok} {st}")
        for kid in (0, 1, 2, 3):
            L["dsa.recover"].append(f"dual.dsa.recover {kid} {hx(msg)} {st}")
        L["dsa.recoverall"].append(f"dual.dsa.recoverall {hx(msg)} {st}")
        if ":" not in st:
            (eng_high_s if cs == "high_s_der" else L["eng.dsa"]).append(f"dual.eng.dsa {hx(msg)} {hx(pk)} {st}")
    for kid in (-1, 4, 5, 255, 2**32):
        ctx.count("dsa.recover.class", f"key_id_{kid}")
        L["dsa.recover"].append(f"dual.dsa.recover {kid} {hx(msg)} {sigs[0][1]}")
    v = sigs[0][1]
    for ck, key in key_lattice(rng):
        ctx.count("dsa.key.class", ck)
        kt = hx(key) if key else "_"
        (hybrid_lines if ck == "hybrid" else L["dsa.assert"]).append(f"dual.dsa.assert {hx(msg)} {kt} {v}")
        (hybrid_lines if ck == "hybrid" else L["dsa.verify"]).append(f"dual.dsa.verify {hx(msg)} {kt} {v}")
        L["eng.dsa"].append(f"dual.eng.dsa {hx(msg)} {kt} {sigs[1][1]}")
    for cp, pt in point_lattice(rng):
        ctx.count("dsa.key.class", "tuple_" + cp)
        if pt[1] != 0 and not 0 <= pt[0] < P:
            continue
        L["dsa.assert"].append(f"dual.dsa.assert {hx(msg)} {pt[0]},{pt[1]} {v}")
    for cm, m in msg_lattice(rng):
        ctx.count("dsa.msg.class", cm)
        L["dsa.assert"].append(f"dual.dsa.assert {hx(m)} {hx(pk)} {v}")
        L["dsa.verify"].append(f"dual.dsa.verify {hx(m)} {hx(pk)} {v}")
        L["dsa.recover"].append(f"dual.dsa.recover 0 {hx(m)} {v}")
        L["dsa.recoverall"].append(f"dual.dsa.recoverall {hx(m)} {v}")
        L["eng.dsa"].append(f"dual.eng.dsa {hx(m)} {hx(pk)} {sigs[1][1]}")
    # hybrid own key in the engine wrapper (consensus accepts it on both arms)
    u = sec_of(Q, False)
    for pre in (6 + (Q[1] & 1), 7 - (Q[1] & 1)):
        L["eng.dsa"].append(f"dual.eng.dsa {hx(msg)} {hx(bytes([pre]) + u[1:])} {sigs[1][1]}")
    for _ in range(ctx.n(90, 2400)):
        m, qq = common.rand_bytes(rng, 32), g_scalar(rng)
        with arm(True):
            sg = dsa.sign_(m, qq, lower_s=rng.random() < 0.7, grind=False, nonce=g_scalar(rng))
            QQ = _curve.mult(qq)
        kt = hx(sec_of(QQ, rng.random() < 0.6))
        st = rng.choice([f"{sg.r}:{sg.s}", hx(der(sg.r, sg.s))])
        L["dsa.assert"].append(f"dual.dsa.assert {hx(m)} {kt} {st}")
        L["dsa.verify"].append(f"dual.dsa.verify {hx(m)} {kt} {st}")
        L["dsa.recover"].append(f"dual.dsa.recover {rng.randrange(4)} {hx(m)} {st}")
        L["dsa.recoverall"].append(f"dual.dsa.recoverall {hx(m)} {st}")
        if sg.s <= N // 2:
            L["eng.dsa"].append(f"dual.eng.dsa {hx(m)} {kt} {hx(der(sg.r, sg.s))}")
    for api, lines in L.items():
        dual(ctx, api, lines, model=MODEL_FILTER.get(api, False))
    ctx.count("eng.dsa.class", "high_s_der", len(eng_high_s))
    dual(ctx, "eng.dsa.high_s", eng_high_s[:1], key="engine.dsa_verify.high_s_backend_divergence")
    dual(ctx, "dsa.verify.hybrid_key", hybrid_lines, key="dsa.verify.hybrid_key_backend_divergence")


# -- BIP340
def s_ssa(ctx, rng):  # noqa: PLR0915
    L = {k: [] for k in ("ssa.sign", "ssa.signer", "ssa.assert", "ssa.verify", "ssa.batch", "eng.ssa")}
    q = g_scalar(rng)
    aux = common.rand_bytes(rng, 32)
    msg = common.rand_bytes(rng, 32)
    with arm(True):
        sg = ssa.sign_(msg, q, aux)
        x_q = _curve.mult(q)[0]
    for cs, qq in scalar_lattice(rng):
        ctx.count("ssa.sign.class", "key_" + cs)
        L["ssa.sign"].append(f"dual.ssa.sign {hx(msg)} {qq} {hx(aux)} 1")
        L["ssa.signer"].append(f"dual.ssa.signer {hx(msg)} {qq} {hx(aux)} 1")
    for ln in (0, 1, 31, 32, 33, 64, 100):  # BIP340 messages of any size: 32 is the delegated one for MuSig2 only
        m = common.rand_bytes(rng, ln)
        ctx.count("ssa.sign.class", f"msg_len_{ln}")
        L["ssa.sign"].append(f"dual.ssa.sign {hx(m)} {q} {hx(aux)} 1")
        L["ssa.sign"].append(f"dual.ssa.sign {hx(m)} {q} {hx(aux)} 0")
        L["ssa.signer"].append(f"dual.ssa.signer {hx(m)} {q} {hx(aux)} 1")
        with arm(True):
            s2 = ssa.sign_(m, q, aux)
        L["ssa.assert"].append(f"dual.ssa.assert {hx(m)} {hx(x_q.to_bytes(32, 'big'))} {s2.r}:{s2.s}")
        L["eng.ssa"].append(f"dual.eng.ssa {hx(m)} {hx(x_q.to_bytes(32, 'big'))} {hx(s2.serialize())}")
    for name, bm in boundary_digests():  # BIP340 reduces its challenge `% n` too: the same edges as messages and as aux
        ctx.count("ssa.sign.class", "msg_int_" + name)
        for qq in (q, 1, N - 1):
            L["ssa.sign"].append(f"dual.ssa.sign {hx(bm)} {qq} {hx(aux)} 1")
            L["ssa.sign"].append(f"dual.ssa.sign {hx(msg)} {qq} {hx(bm)} 0")
            L["ssa.signer"].append(f"dual.ssa.signer {hx(bm)} {qq} {hx(bm)} 1")
        for serving in (True, False):
            with arm(serving):
                s3 = ssa.sign_(bm, q, aux)
            L["ssa.assert"].append(f"dual.ssa.assert {hx(bm)} {hx(x_q.to_bytes(32, 'big'))} {s3.r}:{s3.s}")
            L["ssa.verify"].append(f"dual.ssa.verify {hx(bm)} {hx(x_q.to_bytes(32, 'big'))} {hx(s3.serialize())}")
            L["eng.ssa"].append(f"dual.eng.ssa {hx(bm)} {hx(x_q.to_bytes(32, 'big'))} {hx(s3.serialize())}")
    for ln in (0, 16, 31, 33, 64):
        ctx.count("ssa.sign.class", f"aux_len_{ln}")
        L["ssa.sign"].append(f"dual.ssa.sign {hx(msg)} {q} {hx(common.rand_bytes(rng, ln))} 1")
    for _ in range(ctx.n(90, 2400)):
        ctx.count("ssa.sign.class", "random")
        m = common.rand_bytes(rng, rng.choice([32, 32, 32, 0, 5, 70]))
        L["ssa.sign"].append(f"dual.ssa.sign {hx(m)} {g_scalar(rng)} {hx(common.rand_bytes(rng, 32))} {f_b(rng.random() < 0.7)}")
        L["ssa.signer"].append(f"dual.ssa.signer {hx(m)} {g_scalar(rng)} {hx(common.rand_bytes(rng, 32))} 1")
    # verification lattice
    nx = non_x(rng)
    xb = x_q.to_bytes(32, "big")
    sig_l = [("valid", f"{sg.r}:{sg.s}"), ("valid_bytes", hx(sg.serialize())), ("s_zero", f"{sg.r}:0"), ("s_eq_n", f"{sg.r}:{N}"),
             ("s_gt_n", f"{sg.r}:{N + sg.s}"), ("s_negative", f"{sg.r}:{-sg.s}"), ("r_zero", f"0:{sg.s}"), ("r_eq_p", f"{P}:{sg.s}"),
             ("r_gt_p", f"{P + 1}:{sg.s}"), ("r_not_x", f"{nx}:{sg.s}"), ("r_negative", f"{-sg.r}:{sg.s}"),
             ("wrong_s", f"{sg.r}:{sg.s % (N - 1) + 1}"), ("wrong_r", f"{G[0]}:{sg.s}"), ("neg_s", f"{sg.r}:{N - sg.s}"),
             ("len_63", hx(sg.serialize()[:-1])), ("len_65", hx(sg.serialize() + b"\x01")), ("len_0", "_"),
             ("bytes_s_eq_n", hx(sg.serialize()[:32] + N.to_bytes(32, "big"))), ("bytes_r_eq_p", hx(P.to_bytes(32, "big") + sg.serialize()[32:])),
             ("bytes_r_not_x", hx(nx.to_bytes(32, "big") + sg.serialize()[32:]))]
    key_l = [("valid", hx(xb)), ("not_x", hx(nx.to_bytes(32, "big"))), ("x_eq_p", hx(P.to_bytes(32, "big"))),
             ("x_gt_p", hx((P + 5).to_bytes(32, "big"))), ("zero", hx(bytes(32))), ("len_31", hx(xb[:-1])), ("len_33_sec", hx(b"\x02" + xb)),
             ("len_33_junk", hx(xb + b"\x00")), ("len_0", "_"), ("len_65", hx(sec_of(_PY_MULT(q), False))), ("other_key", hx(G[0].to_bytes(32, "big"))),
             ("ff", hx(b"\xff" * 32))]
    for cs, st in sig_l:
        ctx.count("ssa.sig.class", cs)
        L["ssa.assert"].append(f"dual.ssa.assert {hx(msg)} {hx(xb)} {st}")
        L["ssa.verify"].append(f"dual.ssa.verify {hx(msg)} {hx(xb)} {st}")
        if ":" not in st:
            L["eng.ssa"].append(f"dual.eng.ssa {hx(msg)} {hx(xb)} {st}")
    for ck, kt in key_l:
        ctx.count("ssa.key.class", ck)
        L["ssa.assert"].append(f"dual.ssa.assert {hx(msg)} {kt} {sig_l[0][1]}")
        L["ssa.verify"].append(f"dual.ssa.verify {hx(msg)} {kt} {sig_l[0][1]}")
        L["eng.ssa"].append(f"dual.eng.ssa {hx(msg)} {kt} {sig_l[1][1]}")
    for cp, pt in point_lattice(rng):  # BIP340PubKey given as a point
        if pt[1] != 0 and not 0 <= pt[0] < P:
            continue
        ctx.count("ssa.key.class", "tuple_" + cp)
        L["ssa.assert"].append(f"dual.ssa.assert {hx(msg)} {pt[0]},{pt[1]} {sig_l[0][1]}")
    for ln in (0, 31, 33):
        L["eng.ssa"].append(f"dual.eng.ssa {hx(common.rand_bytes(rng, ln))} {hx(xb)} {sig_l[1][1]}")
    # batches: valid, one bad member, duplicated member, hostile member
    for _ in range(ctx.n(36, 800)):
        k = rng.choice([1, 2, 3, 5, 9, 17])
        items = []
        for _i in range(k):
            qq, m = g_scalar(rng), common.rand_bytes(rng, rng.choice([32, 32, 7]))
            with arm(True):
                s2 = ssa.sign_(m, qq, common.rand_bytes(rng, 32))
                xx = _curve.mult(qq)[0]
            items.append([hx(m), hx(xx.to_bytes(32, "big")), f"{s2.r}:{s2.s}"])
        kind = rng.choice(["valid", "valid", "bad_s", "bad_key_not_x", "dup", "r_not_x", "s_eq_n", "key_x_ge_p"])
        j = rng.randrange(k)
        if kind == "bad_s":
            r_, s_ = items[j][2].split(":")
            items[j][2] = f"{r_}:{int(s_) % (N - 1) + 1}"
        elif kind == "bad_key_not_x":
            items[j][1] = hx(non_x(rng).to_bytes(32, "big"))
        elif kind == "key_x_ge_p":
            items[j][1] = hx((P + 1).to_bytes(32, "big"))
        elif kind == "dup":
            items.append(list(items[j]))
        elif kind == "r_not_x":
            items[j][2] = f"{non_x(rng)}:{items[j][2].split(':')[1]}"
        elif kind == "s_eq_n":
            items[j][2] = f"{items[j][2].split(':')[0]}:{N}"
        ctx.count("ssa.batch.class", f"{kind}|k={k}")
        L["ssa.batch"].append("dual.ssa.batch " + " ".join("/".join(i) for i in items))
    for _ in range(ctx.n(90, 2400)):
        qq, m = g_scalar(rng), common.rand_bytes(rng, rng.choice([32, 32, 0, 50]))
        with arm(True):
            s2 = ssa.sign_(m, qq, common.rand_bytes(rng, 32))
            xx = _curve.mult(qq)[0]
        L["ssa.verify"].append(f"dual.ssa.verify {hx(m)} {hx(xx.to_bytes(32, 'big'))} {hx(s2.serialize())}")
        L["eng.ssa"].append(f"dual.eng.ssa {hx(m)} {hx(xx.to_bytes(32, 'big'))} {hx(s2.serialize())}")
    for api, lines in L.items():
        dual(ctx, api, lines, model=MODEL_FILTER.get(api, False))



# -- recorded divergences: one deterministic witness each (no rng), reported under their own keys
W_FIXED = [
    # (stream, key, op line)
    ("dh.infinity_key", "dh.infinity_key_backend_divergence", "dual.dh 5 7 0 32"),
    ("mult.x_out_of_range", "curve.x_out_of_range_backend_divergence", f"dual.mult 5 {G[0] + P} {G[1]}"),
    ("dh.x_out_of_range", "curve.x_out_of_range_backend_divergence", f"dual.dh 5 {G[0] + P} {G[1]} 32"),
]


def _hybrid(Q):
    return bytes([6 + (Q[1] & 1)]) + Q[0].to_bytes(32, "big") + Q[1].to_bytes(32, "big")


def s_fixed(ctx):
    for stream, key, line in W_FIXED:
        dual(ctx, stream, [line], key=key)
    h = b"\x11" * 32
    Q = _PY_MULT(5)
    with arm(True):
        sig = dsa.sign_(h, 5)
    hyb = hx(_hybrid(Q))
    dual(ctx, "dsa.verify.hybrid_key", [f"dual.dsa.verify {hx(h)} {hyb} {sig.r}:{sig.s}", f"dual.dsa.assert {hx(h)} {hyb} {sig.r}:{sig.s}",
                                        f"dual.dsa.sign {hx(h)} 5 - 1 1 1 {hyb}"],
         key="dsa.verify.hybrid_key_backend_divergence")
    hs = sig.s if sig.s > N // 2 else N - sig.s
    dual(ctx, "eng.dsa.high_s", [f"dual.eng.dsa {hx(h)} {hx(sec_of(Q))} {hx(der(sig.r, hs))}"],
         key="engine.dsa_verify.high_s_backend_divergence")
    # silent payments: an outputs_to_check entry that is no x-coordinate (one p2wpkh input), and the FIXED empty list
    c1 = sec_of(_PY_MULT(1))
    spk = b"\x00\x14" + _h160(c1)
    base = f"dual.sp.scan 2 {hx(sec_of(_PY_MULT(3)))} {'00' * 32}:0 {hx(c1)}/{hx(spk)}"
    dual(ctx, "sp.scan.offcurve", [f"{base} {hx((5).to_bytes(32, 'big'))} -"], key="sp.scan.offcurve_backend_divergence")
    dual(ctx, "sp.scan.empty_outputs", [f"{base} - -"], key="sp.scan.empty_outputs_backend_divergence")


def _h160(b):
    from btclib.hashes import hash160  # noqa: PLC0415
    return hash160(b)


# -- message signing, BIP32, taproot
def s_bms(ctx, rng):
    from btclib import b58, b32  # noqa: PLC0415
    L = {k: [] for k in ("bms.sign", "bms.assert", "bms.verify")}
    for i in range(ctx.n(30, 600)):
        q = g_scalar(rng)
        compressed = rng.random() < 0.7
        wif = b58.wif_from_prv_key(q, "mainnet", compressed)
        wif = wif if isinstance(wif, str) else wif.decode()
        kinds = ["p2pkh"] + (["p2wpkh", "p2wpkh_p2sh"] if compressed else [])
        kind = rng.choice(kinds)
        addr = {"p2pkh": lambda: b58.p2pkh(wif), "p2wpkh": lambda: b32.p2wpkh(wif), "p2wpkh_p2sh": lambda: b58.p2wpkh_p2sh(wif)}[kind]()
        addr = addr if isinstance(addr, str) else addr.decode()
        msg = common.rand_bytes(rng, rng.choice([0, 1, 12, 32, 100]))
        ctx.count("bms.class", f"{kind}|{'c' if compressed else 'u'}")
        L["bms.sign"].append(f"dual.bms.sign {hx(msg)} {wif} {addr if rng.random() < 0.6 else '-'}")
        with arm(True):
            sig = bms.sign(msg, wif, addr)
        b64 = sig.b64encode()
        b64 = b64 if isinstance(b64, str) else b64.decode()
        L["bms.assert"].append(f"dual.bms.assert {hx(msg)} {addr} {b64}")
        L["bms.verify"].append(f"dual.bms.verify {hx(msg)} {addr} {b64}")
        # the hostile lattice: every recovery flag 27..42 and beyond, wrong message, wrong address, r/s edits
        for rf in ([27, 28, 30, 31, 34, 35, 38, 39, 42, 26, 43] if i < 3 else [rng.randrange(27, 43)]):
            ctx.count("bms.class", "rf_edit")
            try:
                s2 = bms.Sig(rf, sig.dsa_sig, check_validity=False).b64encode(check_validity=False)
            except Exception:  # noqa: BLE001
                continue
            s2 = s2 if isinstance(s2, str) else s2.decode()
            L["bms.assert"].append(f"dual.bms.assert {hx(msg)} {addr} {s2}")
        for cls, r_, s_ in (("high_s", sig.dsa_sig.r, N - sig.dsa_sig.s), ("r_not_x", non_x(rng) % N or 1, sig.dsa_sig.s),
                            ("wrong_s", sig.dsa_sig.r, sig.dsa_sig.s % (N - 1) + 1), ("r_small", 1, sig.dsa_sig.s)):
            ctx.count("bms.class", cls)
            import base64  # noqa: PLC0415
            raw = bytes([sig.rf]) + r_.to_bytes(32, "big") + s_.to_bytes(32, "big")
            L["bms.assert"].append(f"dual.bms.assert {hx(msg)} {addr} {base64.b64encode(raw).decode()}")
            L["bms.verify"].append(f"dual.bms.verify {hx(msg)} {addr} {base64.b64encode(raw).decode()}")
        ctx.count("bms.class", "wrong_msg")
        L["bms.verify"].append(f"dual.bms.verify {hx(msg + b'x')} {addr} {b64}")
    for api, lines in L.items():
        dual(ctx, api, lines)


def _bms_mirror(rf, r, s_):
    """the other valid form of a message signature: (r, n - s) and the parity bit of the key_id flipped"""
    return 27 + 4 * ((rf - 27) // 4) + (((rf - 27) % 4) ^ 1), r, N - s_


def _b64sig(rf, r, s_):
    import base64  # noqa: PLC0415
    return base64.b64encode(bytes([rf]) + r.to_bytes(32, "big") + s_.to_bytes(32, "big")).decode()


def s_bms_flags(ctx, rng):
    """message signatures of EVERY recovery-flag class (27-30 uncompressed p2pkh, 31-34 compressed p2pkh, 35-38
    p2wpkh-p2sh, 39-42 p2wpkh; both key_id parities of each) in BOTH valid forms (low s as `bms.sign` makes it, and its
    high-s mirror with the parity bit flipped), through sign / assert_as_valid / verify on both arms.  Independent
    expectation (oracle `bms.flags.honest_verifies`): both forms verify True on BOTH arms — the SEC 1 equation holds and
    the flag's key_id recovers the signer's key; the same (r, s) is also checked with `dsa` on the Python arm under the
    key the Python ladder computes.  Then every one of the 16 flags is put on each form (cross-class: Electrum-style
    31-34 on segwit addresses, a segwit flag on a p2pkh address, the wrong parity): the arms must agree."""
    from btclib import b32, b58  # noqa: PLC0415
    from btclib.hashes import magic_message, reduce_to_hlen  # noqa: PLC0415
    L = {k: [] for k in ("bms.sign", "bms.assert", "bms.verify")}
    seen: dict[tuple, int] = {}
    need = {(k, par, form) for k in ("p2pkh_u", "p2pkh_c", "p2wpkh_p2sh", "p2wpkh") for par in (0, 1) for form in ("low", "high")}
    tries = 0
    while tries < ctx.n(60, 1200) and (tries < ctx.n(24, 400) or not need <= set(seen)):
        tries += 1
        q = g_scalar(rng)
        kind = rng.choice(["p2pkh_u", "p2pkh_c", "p2wpkh_p2sh", "p2wpkh"])
        compressed = kind != "p2pkh_u"
        wif = b58.wif_from_prv_key(q, "mainnet", compressed)
        wif = wif if isinstance(wif, str) else wif.decode()
        addr = {"p2pkh_u": b58.p2pkh, "p2pkh_c": b58.p2pkh, "p2wpkh_p2sh": b58.p2wpkh_p2sh, "p2wpkh": b32.p2wpkh}[kind](wif)
        addr = addr if isinstance(addr, str) else addr.decode()
        msg = common.rand_bytes(rng, rng.choice([0, 1, 12, 32, 100]))
        L["bms.sign"].append(f"dual.bms.sign {hx(msg)} {wif} {addr}")
        with arm(False):
            sig = bms.sign(msg, wif, addr)
            Qpy = _curve.mult(q)
        low = (sig.rf, sig.dsa_sig.r, sig.dsa_sig.s)
        for form, (rf, r_, s_) in (("low", low), ("high", _bms_mirror(*low))):
            cls = (kind, (rf - 27) % 2, form)
            seen[cls] = seen.get(cls, 0) + 1
            ctx.count("bms.flags", f"{kind}|rf={rf}|{form}_s")
            b64 = _b64sig(rf, r_, s_)
            ln = f"dual.bms.verify {hx(msg)} {addr} {b64}"
            L["bms.verify"].append(ln)
            L["bms.assert"].append(f"dual.bms.assert {hx(msg)} {addr} {b64}")
            a, b = both(ln)
            # independent of bms: the same (r, s) under the signer's key, by dsa on the Python arm
            with arm(False):
                ind = canon(lambda: dsa.assert_as_valid_(reduce_to_hlen(magic_message(msg)), Qpy, dsa.Sig(r_, s_, EC)))
            ctx.oracle("bms.flags.honest_verifies", a == "ok True" and b == "ok True" and ind == "ok None",
                       f"{kind} rf={rf} {form}-s message signature of an honest signer: bindings arm -> {a}, Python arm -> {b}, "
                       f"dsa on the Python arm under the signer's key -> {ind}; `{ln}`",
                       key="bms.flags.honest_verifies", witness={"oracle": "dual", "witness": ln})
            # every flag on this (r, s): cross-class and wrong-parity included
            for rf2 in range(27, 43):
                if rf2 != rf:
                    L["bms.verify"].append(f"dual.bms.verify {hx(msg)} {addr} {_b64sig(rf2, r_, s_)}")
                    if tries <= 6:
                        L["bms.assert"].append(f"dual.bms.assert {hx(msg)} {addr} {_b64sig(rf2, r_, s_)}")
    missing = sorted(need - set(seen))
    ctx.oracle("bms.flags.coverage", not missing, f"recovery-flag classes never generated: {missing}", key="bms.flags.coverage",
               witness={"oracle": "dual", "witness": "coverage"}, nontrivial=False)
    for api, lines in L.items():
        dual(ctx, api + ".flags", lines)


def s_bip32(ctx, rng):
    L = []
    H = 0x80000000
    for i in range(ctx.n(36, 800)):
        seed = common.rand_bytes(rng, rng.choice([16, 32, 64]))
        xprv = bip32.rootxprv_from_seed(seed)
        xprv = xprv if isinstance(xprv, str) else xprv.decode()
        xpub = bip32.xpub_from_xprv(xprv)
        xpub = xpub if isinstance(xpub, str) else xpub.decode()
        for _ in range(3):
            depth = rng.choice([0, 1, 2, 3, 5, 8])
            idx = [rng.choice([0, 1, 2**31 - 1, rng.randrange(2**31)]) + (H if rng.random() < 0.4 else 0) for _ in range(depth)]
            path = "m" + "".join(f"/{j - H}h" if j >= H else f"/{j}" for j in idx)
            ctx.count("bip32.class", f"prv depth={depth}")
            L.append(f"dual.bip32.derive {xprv} {path}")
            pidx = [j % H for j in idx] if rng.random() < 0.8 else idx
            ppath = "m" + "".join(f"/{j - H}h" if j >= H else f"/{j}" for j in pidx)
            ctx.count("bip32.class", f"pub depth={depth}" + (" hardened(refused)" if any(j >= H for j in pidx) else ""))
            L.append(f"dual.bip32.derive {xpub} {ppath}")
    # hostile extended keys: key bytes that are no point / zero private key / key >= n (built without validation)
    from btclib.bip32 import BIP32KeyData  # noqa: PLC0415
    good = BIP32KeyData.b58decode(L[0].split(" ")[1]) if L else None
    if good is not None:
        nx = non_x(rng)
        for cls, ver, key in (("xpub_not_x", b"\x04\x88\xb2\x1e", b"\x02" + nx.to_bytes(32, "big")),
                              ("xpub_x_ge_p", b"\x04\x88\xb2\x1e", b"\x03" + (P + 1).to_bytes(32, "big")),
                              ("xpub_prefix_04", b"\x04\x88\xb2\x1e", b"\x04" + G[0].to_bytes(32, "big")),
                              ("xprv_zero", b"\x04\x88\xad\xe4", b"\x00" + bytes(32)),
                              ("xprv_n", b"\x04\x88\xad\xe4", b"\x00" + N.to_bytes(32, "big")),
                              ("xprv_n_minus_1", b"\x04\x88\xad\xe4", b"\x00" + (N - 1).to_bytes(32, "big"))):
            try:
                d = BIP32KeyData(ver, 0, bytes(4), 0, good.chain_code, key, check_validity=False)
                tok = d.b58encode(check_validity=False)
                tok = tok if isinstance(tok, str) else tok.decode()
            except Exception as e:  # noqa: BLE001
                ctx.note(f"bip32 hostile key {cls} not built: {type(e).__name__}: {e}")
                continue
            ctx.count("bip32.class", cls)
            for path in ("m", "m/0", "m/1/2", "m/0h"):
                L.append(f"dual.bip32.derive {tok} {path}")
    dual(ctx, "bip32.derive", L)


class _FakeHmac:
    """`hmac` as bip32.py sees it: a fixed digest for messages ending in one 4-byte index, the real one otherwise"""

    def __init__(self, index, digest):
        self.index, self.digest_ = index.to_bytes(4, "big"), digest

    def new(self, key, msg, digestmod):
        import hmac as _h  # noqa: PLC0415
        real = _h.new(key, msg, digestmod)
        if bytes(msg).endswith(self.index):
            fake = self

            class _D:
                def digest(self):
                    return fake.digest_
            return _D()
        return real


def _bip32_mac(t):
    old = bip32.hmac
    bip32.hmac = _FakeHmac(int(t[2]), unhx(t[3]))
    try:
        return bip32.derive(t[0], t[1])
    finally:
        bip32.hmac = old


def _commit_stub(t):
    old = commit_nonce._tweak
    if t[3] == "1":
        commit_nonce._tweak = lambda _c, _r, _t, ec, _h: (ec.n - int(t[1])) % ec.n
    try:
        return commit_nonce.commit_nonce_(unhx(t[0]), int(t[1]), unhx(t[2]))
    finally:
        commit_nonce._tweak = old


API["bip32.mac"] = _bip32_mac
API["commit.stub"] = _commit_stub
API["tap.outroot"] = lambda t: taproot.output_pubkey_from_merkle_root(unhx(t[0]), unhx(t[1]))
API["tap.outpub"] = lambda t: taproot.output_pubkey(_key(t[0]) if t[0] != "-" else None, None)
API["tap.prvroot"] = lambda t: taproot.output_prvkey_from_merkle_root(int(t[0]), unhx(t[1]))
API["sp.shared"] = lambda t: sp.shared_secret(int(t[0]), _key(t[1]))


def s_taproot(ctx, rng):
    L = {k: [] for k in ("tap.outroot", "tap.outpub", "tap.prvroot", "tap.check")}
    hyb_lines = []
    nx = non_x(rng)
    for _ in range(ctx.n(75, 1600)):
        q = g_scalar(rng)
        Q = _PY_MULT(q)
        root = rng.choice([b"", common.rand_bytes(rng, 32)])
        L["tap.outroot"].append(f"dual.tap.outroot {hx(Q[0].to_bytes(32, 'big'))} {hx(root)}")
        L["tap.prvroot"].append(f"dual.tap.prvroot {q} {hx(root)}")
        L["tap.outpub"].append(f"dual.tap.outpub {hx(sec_of(Q, rng.random() < 0.5))}")
        ctx.count("tap.class", "valid")
    for cls, x in (("not_x", nx.to_bytes(32, "big")), ("x_eq_p", P.to_bytes(32, "big")), ("x_gt_p", (P + 7).to_bytes(32, "big")),
                   ("zero", bytes(32)), ("len_31", bytes(31)), ("len_33", b"\x02" + G[0].to_bytes(32, "big")), ("ff", b"\xff" * 32)):
        ctx.count("tap.class", "xonly_" + cls)
        L["tap.outroot"].append(f"dual.tap.outroot {hx(x)} {hx(common.rand_bytes(rng, 32))}")
        L["tap.outroot"].append(f"dual.tap.outroot {hx(x)} _")
    for ck, key in key_lattice(rng):
        ctx.count("tap.class", "key_" + ck)
        if ck == "hybrid":
            hyb_lines.append(f"dual.tap.outpub {hx(key)}")
            continue
        L["tap.outpub"].append(f"dual.tap.outpub {hx(key) if key else '_'}")
    for cs, qq in scalar_lattice(rng):
        ctx.count("tap.class", "prv_" + cs)
        L["tap.prvroot"].append(f"dual.tap.prvroot {qq} {hx(common.rand_bytes(rng, 32))}")
    for ln in (0, 1, 31, 33, 64):
        L["tap.outroot"].append(f"dual.tap.outroot {hx(G[0].to_bytes(32, 'big'))} {hx(common.rand_bytes(rng, ln))}")
    # control blocks: built with the real code, then the lattice of edits
    for _ in range(ctx.n(36, 800)):
        q = g_scalar(rng)
        Q = _PY_MULT(q)
        n_leaf = rng.choice([1, 2, 3, 4])
        leaves = [[(0xC0, [rng.choice(["OP_1", "OP_2", "OP_DROP", "OP_DUP"]), common.rand_bytes(rng, rng.choice([1, 20, 32])).hex()])] for _ in range(n_leaf)]
        tree = leaves[0]
        for lf in leaves[1:]:
            tree = [tree, lf] if rng.random() < 0.5 else [lf, tree]
        i = rng.randrange(n_leaf)
        with arm(True):
            outq, _par = taproot.output_pubkey(sec_of(Q), tree)
            script, control = taproot.input_script_sig(sec_of(Q), tree, i)
            from btclib.script import serialize as _ser  # noqa: PLC0415
            sb = _ser(script)
        cb = bytes(control)
        edits = [("valid", outq, sb, cb), ("parity_flipped", outq, sb, bytes([cb[0] ^ 1]) + cb[1:]),
                 ("leaf_version_edit", outq, sb, bytes([cb[0] ^ 2]) + cb[1:]), ("wrong_q", G[0].to_bytes(32, "big"), sb, cb),
                 ("script_edit", outq, sb + b"\x51", cb), ("p_not_x", outq, sb, cb[:1] + nx.to_bytes(32, "big") + cb[33:]),
                 ("p_ge_p", outq, sb, cb[:1] + (P + 3).to_bytes(32, "big") + cb[33:]), ("p_zero", outq, sb, cb[:1] + bytes(32) + cb[33:]),
                 ("path_truncated", outq, sb, cb[:-1]), ("path_extended", outq, sb, cb + bytes(32)), ("control_32", outq, sb, cb[:32]),
                 ("control_empty", outq, sb, b""), ("q_len_31", outq[:-1], sb, cb), ("q_len_33", b"\x02" + outq, sb, cb),
                 ("q_not_x", nx.to_bytes(32, "big"), sb, cb), ("q_ge_p", (P + 1).to_bytes(32, "big"), sb, cb),
                 ("too_long", outq, sb, cb[:33] + bytes(32 * 129))]
        for cls, q_, s_, c_ in edits:
            ctx.count("tap.check.class", cls)
            L["tap.check"].append(f"dual.tap.check {hx(q_)} {hx(s_)} {hx(c_)}")
    for api, lines in L.items():
        dual(ctx, api, lines)
    dual(ctx, "tap.outpub.hybrid_key", hyb_lines, key="dsa.verify.hybrid_key_backend_divergence")


# -- ECDH, ElligatorSwift, nonce commitment, MuSig2 partial verification
def s_misc(ctx, rng):  # noqa: PLR0915
    L = {k: [] for k in ("dh", "ell.create", "ell.encode", "ell.decode", "ell.xdh", "commit", "sp.shared")}
    pl = point_lattice(rng)
    for cs, d in scalar_lattice(rng):
        for cp, Q in pl:
            if Q[1] != 0 and not 0 <= Q[0] < P:
                continue
            ctx.count("dh.class", f"{cs}|{cp}")
            L["dh"].append(f"dual.dh {d} {Q[0]} {Q[1]} {rng.choice([16, 32, 48])}")
    for size in (0, -1, 1, 32, 33, 255 * 32, 255 * 32 + 1, 2**40):
        ctx.count("dh.class", f"size_{size}")
        L["dh"].append(f"dual.dh {g_scalar(rng)} {f_pt(g_point(rng))} {size}")
    for _ in range(ctx.n(75, 1600)):
        L["dh"].append(f"dual.dh {g_scalar(rng)} {f_pt(g_point(rng))} 32")
        ctx.count("dh.class", "random_valid")
    for cs, qq in scalar_lattice(rng):
        ctx.count("ell.class", "create_" + cs)
        L["ell.create"].append(f"dual.ell.create {qq}")
        L["sp.shared"].append(f"dual.sp.shared {qq} {hx(sec_of(g_point(rng)))}")
    for ck, key in key_lattice(rng):
        ctx.count("ell.class", "encode_" + ck)
        L["ell.encode"].append(f"dual.ell.encode {hx(key) if key else '_'}")
        L["sp.shared"].append(f"dual.sp.shared {g_scalar(rng)} {hx(key) if key else '_'}")
    for _ in range(ctx.n(60, 1600)):
        qa, qb = g_scalar(rng), g_scalar(rng)
        L["ell.create"].append(f"dual.ell.create {qa}")
        L["ell.encode"].append(f"dual.ell.encode {hx(sec_of(g_point(rng)))}")
        with arm(True):
            ea, eb = ellswift.create_var(qa), ellswift.create_var(qb)
        r = rng.random()
        ell = common.rand_bytes(rng, 64)
        if r < 0.3:
            hi = (P + rng.randrange(0, 2**256 - P)).to_bytes(32, "big")
            ell = rng.choice([hi + ell[32:], ell[:32] + hi, bytes(64), hi + hi, bytes(32) + ell[32:], ell[:32] + bytes(32)])
            ctx.count("ell.class", "decode_edge")
        else:
            ctx.count("ell.class", "decode_random")
        L["ell.decode"].append(f"dual.ell.decode {hx(ell)}")
        L["ell.xdh"].append(f"dual.ell.xdh {hx(ea)} {hx(eb)} {qa} 0")
        L["ell.xdh"].append(f"dual.ell.xdh {hx(ea)} {hx(eb)} {qb} 1")
        L["ell.xdh"].append(f"dual.ell.xdh {hx(ell)} {hx(eb)} {qb} {rng.choice([0, 1])}")
    for cls, tok in (("len_63", hx(bytes(63))), ("len_65", hx(bytes(65))), ("len_0", "_")):
        ctx.count("ell.class", "decode_" + cls)
        L["ell.decode"].append(f"dual.ell.decode {tok}")
        L["ell.xdh"].append(f"dual.ell.xdh {tok} {hx(bytes(64))} 5 0")
    for party in (-1, 2, 3):
        L["ell.xdh"].append(f"dual.ell.xdh {hx(bytes(64))} {hx(bytes(64))} 5 {party}")
    for cs, qq in scalar_lattice(rng):
        L["ell.xdh"].append(f"dual.ell.xdh {hx(common.rand_bytes(rng, 64))} {hx(common.rand_bytes(rng, 64))} {qq} 0")
        ctx.count("commit.class", "nonce_" + cs)
        L["commit"].append(f"dual.commit {hx(common.rand_bytes(rng, 32))} {qq} {hx(b'tag')}")
    for _ in range(ctx.n(60, 1200)):
        ctx.count("commit.class", "random")
        L["commit"].append(f"dual.commit {hx(common.rand_bytes(rng, rng.choice([0, 20, 32, 64])))} {g_scalar(rng)} {hx(common.rand_bytes(rng, rng.choice([0, 3, 32])))}")
    for api, lines in L.items():
        dual(ctx, api, lines)


def s_musig(ctx, rng):  # noqa: PLR0915
    L = []
    for _ in range(ctx.n(24, 480)):
        k = rng.choice([1, 2, 2, 3, 5])
        prvs = [g_scalar(rng) for _ in range(k)]
        msg = common.rand_bytes(rng, rng.choice([32, 32, 32, 0, 38]))
        tweaks = [(common.rand_bytes(rng, 32), rng.random() < 0.5) for _ in range(rng.choice([0, 0, 1, 2]))]
        with arm(True):
            pks = [sec_point.bytes_from_prv_key_int(q) for q in prvs]
            secnonces, pubnonces = [], []
            for q, pk in zip(prvs, pks):
                sn, pn = musig2.nonce_gen(q, pk, None, msg, None)
                secnonces.append(sn)
                pubnonces.append(pn)
            aggnonce = musig2.nonce_agg(pubnonces)
            sctx = musig2.SessionContext(aggnonce, pks, [t for t, _ in tweaks], [x for _, x in tweaks], msg)
            psigs = [musig2.sign(bytearray(sn), q, sctx) for sn, q in zip(secnonces, prvs)]
        ttok = ",".join(f"{hx(t)}/{f_b(x)}" for t, x in tweaks) or "-"
        ptok = ",".join(hx(p) for p in pks)

        def line(psig, pn, pk, agg=aggnonce, m=msg, pt=ptok, tt=ttok):
            return f"dual.musig.pverify {hx(psig)} {hx(pn)} {hx(pk)} {hx(agg)} {pt} {tt} {hx(m)}"
        for i in range(k):
            ctx.count("musig.class", f"valid|msg_len_{len(msg)}|tweaks={len(tweaks)}")
            L.append(line(psigs[i], pubnonces[i], pks[i]))
        i = rng.randrange(k)
        ps = int.from_bytes(psigs[i], "big")
        nx = non_x(rng)
        hostile = [("psig_wrong", ((ps + 1) % N).to_bytes(32, "big"), pubnonces[i], pks[i]),
                   ("psig_eq_n", N.to_bytes(32, "big"), pubnonces[i], pks[i]), ("psig_zero", bytes(32), pubnonces[i], pks[i]),
                   ("psig_len_31", psigs[i][:-1], pubnonces[i], pks[i]), ("psig_ff", b"\xff" * 32, pubnonces[i], pks[i]),
                   ("nonce_not_x", psigs[i], b"\x02" + nx.to_bytes(32, "big") + pubnonces[i][33:], pks[i]),
                   ("nonce_len_65", psigs[i], pubnonces[i][:-1], pks[i]), ("nonce_prefix_04", psigs[i], b"\x04" + pubnonces[i][1:], pks[i]),
                   ("nonce_zero", psigs[i], bytes(66), pks[i]), ("nonce_other", psigs[i], pubnonces[(i + 1) % k], pks[i]),
                   ("key_foreign", psigs[i], pubnonces[i], sec_of(g_point(rng))), ("key_not_x", psigs[i], pubnonces[i], b"\x02" + nx.to_bytes(32, "big")),
                   ("key_len_32", psigs[i], pubnonces[i], pks[i][1:]), ("key_uncompressed", psigs[i], pubnonces[i], sec_of(_PY_MULT(prvs[i]), False)),
                   ("key_other_member", psigs[i], pubnonces[i], pks[(i + 1) % k])]
        for cls, a, b, c in hostile:
            ctx.count("musig.class", cls)
            L.append(line(a, b, c))
        ctx.count("musig.class", "agg_nonce_edit")
        L.append(line(psigs[i], pubnonces[i], pks[i], agg=pubnonces[i]))
        ctx.count("musig.class", "msg_edit")
        L.append(line(psigs[i], pubnonces[i], pks[i], m=msg + b"\x00"))
    dual(ctx, "musig.pverify", L)
    s_musig_parity(ctx)


def s_musig_parity(ctx):
    """every (gacc in {1, n-1}) x (tweaked aggregate key Q with even / odd y) combination, for every plain / x-only tweak
    pattern of length 0..3: sessions are searched (own PRNG stream) until each reachable combination occurs; honest and
    tampered partial signatures of every signer, 32-byte (delegated) and 38-byte (Python on both settings) messages"""
    import itertools  # noqa: PLC0415
    import random  # noqa: PLC0415
    rng = random.Random(f"musig-parity/{ctx.seed}")
    L = []
    for length in range(4):
        for pattern in itertools.product((False, True), repeat=length):
            want = {(1, 0), (1, 1)} | ({(N - 1, 0), (N - 1, 1)} if any(pattern) else set())
            found = {}
            for _try in range(400):
                if len(found) == len(want):
                    break
                prvs = [rng.randrange(1, N) for _ in range(2)]
                tweaks = [common.rand_bytes(rng, 32) for _ in pattern]
                with arm(True):
                    pks = [sec_point.bytes_from_prv_key_int(q) for q in prvs]
                combo = None
                for mlen in (32, 38):  # gacc and Q do not depend on the message: both lengths for every combination found
                    msg = common.rand_bytes(rng, mlen)
                    with arm(True):
                        pairs = [musig2.nonce_gen(q, pk, None, msg, None) for q, pk in zip(prvs, pks)]
                        agg = musig2.nonce_agg([pn for _sn, pn in pairs])
                        try:
                            sctx = musig2.SessionContext(agg, pks, tweaks, list(pattern), msg)
                            v = musig2.session_values(sctx)
                        except Exception:  # noqa: BLE001 - a tweak out of range / an aggregate at infinity: draw again
                            break
                        combo = (v.gacc, v.Q[1] % 2)
                        if mlen == 32 and (combo in found or combo not in want):
                            combo = None
                            break
                        psigs = [musig2.sign(bytearray(sn), q, sctx) for (sn, _pn), q in zip(pairs, prvs)]
                    ttok = ",".join(f"{hx(t)}/{f_b(x)}" for t, x in zip(tweaks, pattern)) or "-"
                    ptok = ",".join(hx(pk) for pk in pks)
                    cls = (f"tweaks={''.join('x' if x else 'p' for x in pattern) or 'none'}|gacc={'1' if v.gacc == 1 else 'n-1'}|"
                           f"Q_{'odd' if combo[1] else 'even'}|msg{mlen}")
                    for i, ((_sn, pn), pk, ps) in enumerate(zip(pairs, pks, psigs)):
                        ctx.count("musig.parity", cls)
                        for tag, pb in (("honest", ps), ("negated", ((N - int.from_bytes(ps, "big")) % N).to_bytes(32, "big")),
                                        ("plus_one", ((int.from_bytes(ps, "big") + 1) % N).to_bytes(32, "big"))):
                            L.append(f"dual.musig.pverify {hx(pb)} {hx(pn)} {hx(pk)} {hx(agg)} {ptok} {ttok} {hx(msg)}")
                            if tag == "honest":
                                # the honest partial signature must VERIFY on both arms, not merely get the same answer
                                a, b = both(L[-1])
                                ctx.oracle("musig.parity.honest_verifies", a == "ok True" and b == "ok True",
                                           f"{cls} signer {i}: honest partial signature: bindings arm -> {a}, Python arm -> {b}; "
                                           f"`{L[-1][:300]}`", key="musig.parity.honest_verifies",
                                           witness={"oracle": "dual", "witness": L[-1]})
                if combo is not None:
                    found[combo] = True
            missing = want - set(found)
            if missing:
                raise common.HarnessError(f"musig parity search: pattern {pattern} never reached {sorted(missing)} in 400 draws")
    dual(ctx, "musig.pverify.parity", L)


# -- silent payments
def s_sp(ctx, rng):  # noqa: PLR0915
    Lo, Ls = [], []
    sig70 = b"\x30" + bytes(70)
    for _ in range(ctx.n(30, 600)):
        n_in = rng.choice([1, 1, 2, 3])
        ins = []
        for _i in range(n_in):
            q = g_scalar(rng)
            Q = _PY_MULT(q)
            c = sec_of(Q)
            kind = rng.choice(["p2wpkh", "p2tr", "p2pkh"])
            spk = {"p2wpkh": b"\x00\x14" + _h160(c), "p2tr": b"\x51\x20" + c[1:], "p2pkh": b"\x76\xa9\x14" + _h160(c) + b"\x88\xac"}[kind]
            # the scanner is handed the even-y point for a taproot input
            pub = (Q[0], Q[1] if Q[1] % 2 == 0 else P - Q[1]) if kind == "p2tr" else Q
            ins.append((q, spk, pub, kind))
        outpoints = ",".join(f"{common.rand_bytes(rng, 32).hex()}:{rng.choice([0, 1, 7, 2**32 - 1])}" for _ in range(n_in))
        wallets = [(g_scalar(rng), g_scalar(rng)) for _ in range(rng.choice([1, 2]))]
        with arm(True):
            addrs = []
            for bs, bp in wallets:
                m = rng.choice([None, None, 0, 1, 7])
                a = sp.address_from_keys(_curve.mult(bs), _curve.mult(bp)) if m is None else sp.labeled_address_from_keys(bs, _curve.mult(bp), m)
                addrs.append((a if isinstance(a, str) else a.decode(), m))
            if rng.random() < 0.4:
                addrs.append(addrs[0])
        ptok = ",".join(f"{q}/{hx(spk)}" for q, spk, _p, _k in ins)
        atok = ",".join(a for a, _m in addrs)
        ctx.count("sp.class", "out " + "+".join(sorted({k for *_x, k in ins})) + f" -> {len(addrs)}")
        Lo.append(f"dual.sp.out {ptok} {outpoints} {atok}")
        with arm(True):
            try:
                keys = API["sp.out"]([ptok, outpoints, atok])
            except Exception:  # noqa: BLE001 - the private keys summed to zero etc.: the dual line above records it
                continue
        decoys = [g_point(rng)[0].to_bytes(32, "big") for _ in range(rng.choice([0, 1, 2]))]
        outs = keys + decoys
        rng.shuffle(outs)
        pubtok = ",".join(f"{p[0]},{p[1]}/{hx(spk)}" for _q, spk, p, _k in ins)
        for (bs, bp), (_a, m) in zip(wallets, addrs):
            with arm(True):
                lab = sp.label_lookup(bs, sorted({0} | ({m} if m is not None else set())))
            ltok = ",".join(f"{hx(k)}/{hx(v)}" for k, v in sorted(lab.items())) or "-"
            spend = hx(sec_of(_PY_MULT(bp)))
            ctx.count("sp.class", f"scan outs={len(outs)} labelled={f_b(m is not None)}")
            Ls.append(f"dual.sp.scan {bs} {spend} {outpoints} {pubtok} {','.join(hx(o) for o in outs)} {ltok}")
            Ls.append(f"dual.sp.scan {bs} {spend} {outpoints} {pubtok} {','.join(hx(o) for o in decoys) or '-'} -")
        # hostile: wrong-length output, scan key edge, spend key hostile, input key hostile (x-coordinates stay on the curve:
        # the off-curve output is the recorded divergence with its own witness)
        bs, bp = wallets[0]
        spend = hx(sec_of(_PY_MULT(bp)))
        otok = ",".join(hx(o) for o in outs)
        for cls, ln in (("output_len_31", f"dual.sp.scan {bs} {spend} {outpoints} {pubtok} {hx(outs[0][:-1])} -"),
                        ("output_len_33", f"dual.sp.scan {bs} {spend} {outpoints} {pubtok} {hx(b'\x02' + outs[0])} -"),
                        ("scan_key_zero", f"dual.sp.scan 0 {spend} {outpoints} {pubtok} {otok} -"),
                        ("scan_key_n", f"dual.sp.scan {N} {spend} {outpoints} {pubtok} {otok} -"),
                        ("spend_not_x", f"dual.sp.scan {bs} {hx(b'\x02' + non_x(rng).to_bytes(32, 'big'))} {outpoints} {pubtok} {otok} -"),
                        ("spend_len_32", f"dual.sp.scan {bs} {spend[2:]} {outpoints} {pubtok} {otok} -"),
                        ("input_key_off_curve", f"dual.sp.scan {bs} {spend} {outpoints} {ins[0][2][0]},{ins[0][2][1] ^ 1}/{hx(ins[0][1])} {otok} -"),
                        ("input_keys_cancel", f"dual.sp.scan {bs} {spend} {outpoints.split(',')[0]},{outpoints.split(',')[0]} "
                                              f"{G[0]},{G[1]}/{hx(b'\x00\x14' + bytes(20))},{G[0]},{P - G[1]}/{hx(b'\x00\x14' + bytes(20))} {otok} -")):
            ctx.count("sp.class", cls)
            Ls.append(ln)
        for cls, ln in (("prv_zero", f"dual.sp.out 0/{hx(ins[0][1])} {outpoints.split(',')[0]} {atok}"),
                        ("prv_cancel", f"dual.sp.out 5/{hx(b'\x00\x14' + bytes(20))},{N - 5}/{hx(b'\x00\x14' + bytes(20))} {outpoints.split(',')[0]} {atok}"),
                        ("no_address", f"dual.sp.out {ptok} {outpoints} -"), ("bad_address", f"dual.sp.out {ptok} {outpoints} sp1qqqqqq")):
            ctx.count("sp.class", cls)
            Lo.append(ln)
    dual(ctx, "sp.out", Lo)
    dual(ctx, "sp.scan", Ls)


# -- the script engine on the vendored corpus under /repo/tests (both arms; what python_path_test.py was meant to do)
_CORPUS = None


def corpus():
    global _CORPUS  # noqa: PLW0603
    if _CORPUS is not None:
        return _CORPUS
    if "/repo" not in sys.path:
        sys.path.insert(0, "/repo")
    out = []
    try:
        from tests.script_engine import script_test as _st  # noqa: PLC0415
        for i, p in enumerate(_st.script_vectors()):
            out.append(("script", i))
        globals()["_SCRIPT_VECS"] = [p.values[0] for p in _st.script_vectors()]
    except Exception as e:  # noqa: BLE001
        raise common.HarnessError(f"vendored script vectors not loadable: {type(e).__name__}: {e}") from e
    for fname in ("tx_valid.json", "tx_invalid.json"):
        with open(f"/repo/tests/script_engine/_data/{fname}", encoding="utf8") as f:
            rows = [x for x in json.load(f) if not isinstance(x[0], str)]
        globals()["_TX_" + fname.split(".")[0]] = rows
        out += [(fname.split(".")[0], i) for i in range(len(rows))]
    _CORPUS = out
    return out


def _run_script_vec(i):
    from btclib.script import ScriptPubKey, Witness  # noqa: PLC0415
    from btclib.script.engine import verify_input  # noqa: PLC0415
    from btclib.tx import OutPoint, Tx, TxIn, TxOut  # noqa: PLC0415
    from tests.script_engine import parse_script  # noqa: PLC0415
    v = _SCRIPT_VECS[i]  # noqa: F821
    cin = TxIn(sequence=0xFFFFFFFF, prev_out=OutPoint(), script_sig=b"\x00\x00")
    cout = TxOut(value=v.amount, script_pub_key=ScriptPubKey(parse_script(v.script_pub_key)))
    coinbase = Tx(version=1, lock_time=0, vin=[cin], vout=[cout])
    sin = TxIn(sequence=0xFFFFFFFF, prev_out=OutPoint(tx_id=coinbase.id, vout=0), script_sig=parse_script(v.script_sig),
               script_witness=Witness(v.stack))
    spending = Tx(version=1, lock_time=0, vin=[sin], vout=[TxOut(v.amount, ScriptPubKey(""))])
    verify_input([cout], spending, 0, v.flags)


def _run_tx_vec(which, i):
    from btclib.script import ScriptPubKey  # noqa: PLC0415
    from btclib.script.engine import NO_FLAGS, ScriptFlag, verify_transaction  # noqa: PLC0415
    from btclib.tx import Tx, TxOut  # noqa: PLC0415
    from tests.script_engine import parse_script  # noqa: PLC0415
    x = globals()["_TX_" + which][i]
    check_amounts = True
    prevouts = []
    for inp in x[0]:
        amount = 0 if len(inp) == 3 else inp[3]
        if not amount:
            check_amounts = False
        prevouts.append(TxOut(amount, ScriptPubKey(parse_script(inp[2]))))
    tx = Tx.parse(x[1])
    if which == "tx_valid":
        flags = (ScriptFlag.P2SH | ScriptFlag.SIGPUSHONLY | ScriptFlag.LOW_S | ScriptFlag.STRICTENC | ScriptFlag.DERSIG
                 | ScriptFlag.CONST_SCRIPTCODE | ScriptFlag.NULLDUMMY | ScriptFlag.CLEANSTACK | ScriptFlag.MINIMALDATA
                 | ScriptFlag.CHECKLOCKTIMEVERIFY | ScriptFlag.CHECKSEQUENCEVERIFY | ScriptFlag.WITNESS
                 | ScriptFlag.WITNESS_PUBKEYTYPE | ScriptFlag.TAPROOT)
        for f in x[2].split(","):
            if f in ScriptFlag.__members__:
                flags &= ~ScriptFlag[f]
    else:
        flags = NO_FLAGS if x[2] == "BADTX" else str(x[2])
    verify_transaction(prevouts, tx, flags, check_amounts)


def _eng(t):
    corpus()
    if t[0] == "script":
        return _run_script_vec(int(t[1]))
    return _run_tx_vec(t[0], int(t[1]))


API["eng.corpus"] = _eng


def s_engine(ctx, rng):
    vecs = corpus()
    if ctx.tier != "thorough":
        # quick: every transaction vector, and a seeded third of the script vectors plus every one naming CHECKSIG / CHECKMULTISIG
        sv = globals()["_SCRIPT_VECS"]
        keep = []
        for kind, i in vecs:
            if kind != "script":
                keep.append((kind, i))
            elif "CHECK" in sv[i].script_pub_key.upper() or "CHECK" in sv[i].script_sig.upper() or sv[i].stack or rng.random() < 0.2:
                keep.append((kind, i))
        vecs = keep
    lines = []
    for kind, i in vecs:
        ctx.count("eng.corpus", kind)
        lines.append(f"dual.eng.corpus {kind} {i}")
    dual(ctx, "eng.corpus", lines)
    # the verdicts themselves: tx_valid accepted, tx_invalid refused, on BOTH arms (the arm must not change the verdict)
    for ln in lines:
        kind = ln.split(" ")[1]
        if kind in ("tx_valid", "tx_invalid"):
            a, b = both(ln)
            want_ok = kind == "tx_valid"
            ctx.oracle("eng.corpus.verdict", a.startswith("ok") == want_ok and b.startswith("ok") == want_ok,
                       f"{ln}: Core says {'valid' if want_ok else 'invalid'}; bindings arm -> {a}, Python arm -> {b}",
                       key="eng.corpus.verdict", witness={"oracle": "dual", "witness": ln})


# -- T3: the switch writes the flag and nothing else; the answer does not depend on the switching history
def _module_state():
    import types  # noqa: PLC0415
    snap = {}
    for name, mod in list(sys.modules.items()):
        if not name.startswith("btclib") or mod is None:
            continue
        for k, v in vars(mod).items():
            if k.startswith("__") or isinstance(v, (types.ModuleType, types.FunctionType, type)) or callable(v):
                continue
            snap[f"{name}.{k}"] = id(v) if not isinstance(v, (bool, int, str, bytes, type(None))) else ("v", v)
    return snap


def _o_switch(w):
    initial = _curve.is_libsecp256k1_serving()
    try:
        for start in (True, False):
            _curve.set_libsecp256k1_serving(serving=start)
            for target in (True, False):
                _curve.set_libsecp256k1_serving(serving=start)
                before = _module_state()
                r = _curve.set_libsecp256k1_serving(serving=target)
                after = _module_state()
                changed = sorted(k for k in set(before) | set(after) if before.get(k) != after.get(k))
                allowed = ["btclib.curves.curve._libsecp256k1_available"] if start != target else []
                if r is not None or changed != allowed:
                    return False, f"set_libsecp256k1_serving({start}->{target}) returned {r!r} and changed {changed}, expected {allowed}"
                if _curve.is_libsecp256k1_serving() is not target:
                    return False, f"is_libsecp256k1_serving() is {_curve.is_libsecp256k1_serving()} after serving={target}"
        for bad in (1, 0, None, "True"):
            before = _curve.is_libsecp256k1_serving()
            try:
                _curve.set_libsecp256k1_serving(serving=bad)
                return False, f"serving={bad!r} accepted"
            except Exception as e:  # noqa: BLE001
                if common.err_class(e) != "type" or _curve.is_libsecp256k1_serving() is not before:
                    return False, f"serving={bad!r}: {type(e).__name__}, flag now {_curve.is_libsecp256k1_serving()}"
        # history independence: the same line after any switching history gives its arm's answer
        line = w["line"]
        want = both(line)
        for hist in w["histories"]:
            for h in hist:
                _curve.set_libsecp256k1_serving(serving=bool(h))
            got = run_line(line)
            if got != want[0 if hist[-1] else 1]:
                return False, f"after history {hist} `{line[:120]}` answers {got[:120]}, its arm answers {want[0 if hist[-1] else 1][:120]}"
        return True, "flag only"
    finally:
        _curve.set_libsecp256k1_serving(serving=initial)


ORACLES["switch"] = _o_switch


def _o_held_object(w):  # noqa: PLR0911, PLR0912, PLR0915
    """objects that hold a bindings-side object from construction (`dsa.Signer`, `ssa.Signer`, `_TweakChain`), built under
    one setting of the switch and used across a HISTORY of flips (`w["flips"]`, the setting before each use).

    (1) ANSWERS: every signature is verified INDEPENDENTLY — on the Python arm, under the public key the Python ladder
        computes from q, for `verify=True` and `verify=False` alike — and equals the free function's; every chain point
        equals `((q + t) mod n)·G` computed by the Python ladder.
    (2) DISPATCH, observed by wrappers on EVERY public callable of `btclib._libsecp256k1` (harness/c04_sites.py): a use
        calls into the bindings iff the object still holds its bindings-side object OR the switch is on at that moment —
        built serving ⇒ keeps delegating after `serving=False`; built NOT serving ⇒ holds nothing and its use re-asks the
        switch, so after `serving=True` the bindings ARE called; built not serving and used not serving ⇒ no entry point
        is called at all.  A `_TweakChain` drops its chain on a cancelling tweak and from then on follows the switch."""
    initial = _curve.is_libsecp256k1_serving()
    msg, q, aux, ts = unhx(w["msg"]), w["q"], unhx(w["aux"]), w["tweaks"]
    flips = [bool(x) for x in w.get("flips") or []]
    R = sites.REACH
    own = None
    if not R.active:
        own = sites.BindingSpy()
        own.install()
    spy_ = own or R.spy
    try:
        with arm(False):
            spy_.window()
            Qpy = _curve.mult(q)
            want_pts = [_curve.mult((q + t) % N) for t in ts]
            want_dsa = {g: canon(lambda g=g: dsa.sign_(msg, q, grind=g).serialize()) for g in (True, False)}
            want_ssa = canon(lambda: ssa.sign_(msg, q, aux).serialize())
            if spy_.window():
                return False, "the Python arm called into the bindings while computing the references"
        with arm(True):
            lib = ({g: canon(lambda g=g: dsa.sign_(msg, q, grind=g).serialize()) for g in (True, False)},
                   canon(lambda: ssa.sign_(msg, q, aux).serialize()))
        if lib != (want_dsa, want_ssa):
            return False, f"free functions differ between the arms: {lib} / {(want_dsa, want_ssa)}"

        def verified(kind, sig_hex):
            with arm(False):
                try:
                    if kind == "dsa":
                        dsa.assert_as_valid_(msg, Qpy, unhx(sig_hex))
                    else:
                        ssa.assert_as_valid_(msg, Qpy[0].to_bytes(32, "big"), unhx(sig_hex))
                except Exception as e:  # noqa: BLE001
                    return f"{type(e).__name__}: {e}"
            return None

        for built in (True, False):
            _curve.set_libsecp256k1_serving(serving=built)
            ds, ss_, ch = dsa.Signer(q), ssa.Signer(q), _curve._TweakChain(Qpy, EC)
            holds = (ds._pub_key_sec is not None, ss_._signer is not None, ch._chain is not None)
            if holds != (built, built, built):
                return False, f"built with serving={built}: holds bindings objects {holds}"
            for step, flag in enumerate([not built] + flips):
                _curve.set_libsecp256k1_serving(serving=flag)
                where = f"built serving={built}, use {step} under serving={flag} (history {[not built] + flips})"
                for grind in (True, False):
                    for verify in (True, False):
                        held = ds._pub_key_sec is not None
                        spy_.window()
                        got = canon(lambda g=grind, v=verify: ds.sign_(msg, grind=g, verify=v))
                        hits = spy_.window()
                        if got != want_dsa[grind]:
                            return False, f"dsa.Signer {where} grind={grind} verify={verify}: {got}, the free function answers {want_dsa[grind]}"
                        bad = verified("dsa", got[3:])
                        if bad:
                            return False, f"dsa.Signer {where} verify={verify}: signature does not verify on the Python arm: {bad}"
                        if bool(hits) != (held or flag):
                            return False, (f"dsa.Signer {where}: holds={held}, bindings entry points called: "
                                           f"{sorted({h[0] for h in hits})}; expected {'some' if held or flag else 'none'}")
                for verify in (True, False):
                    held = ss_._signer is not None
                    spy_.window()
                    got = canon(lambda v=verify: ss_.sign_(msg, aux, verify=v))
                    hits = spy_.window()
                    if got != want_ssa:
                        return False, f"ssa.Signer {where} verify={verify}: {got}, the free function answers {want_ssa}"
                    bad = verified("ssa", got[3:])
                    if bad:
                        return False, f"ssa.Signer {where} verify={verify}: signature does not verify on the Python arm: {bad}"
                    if bool(hits) != (held or flag):
                        return False, (f"ssa.Signer {where}: holds={held}, bindings entry points called: "
                                       f"{sorted({h[0] for h in hits})}; expected {'some' if held or flag else 'none'}")
                for t, wp in zip(ts, want_pts):
                    held = ch._chain is not None
                    spy_.window()
                    got = canon(lambda t=t: ch.point(t))
                    hits = spy_.window()
                    exp = canon(lambda wp=wp: wp)
                    if mcanon("tweakchain", got) != mcanon("tweakchain", exp):
                        return False, f"_TweakChain {where} point({t}): {got}, the Python ladder gives {exp}"
                    if bool(hits) != (held or flag):
                        return False, (f"_TweakChain {where} point({t}): holds={held}, bindings entry points called: "
                                       f"{sorted({h[0] for h in hits})}; expected {'some' if held or flag else 'none'}")
                    if (q + t) % N == 0 and ch._chain is not None:
                        return False, f"_TweakChain {where}: still holds its chain after the cancelling tweak {t}"
            ds.wipe()
            ss_.wipe()
        return True, "answers verified independently; dispatch = holds-or-serving"
    finally:
        if own is not None:
            own.uninstall()
        _curve.set_libsecp256k1_serving(serving=initial)


ORACLES["held_object"] = _o_held_object


def s_switch(ctx, rng):
    for _ in range(ctx.n(18, 240)):
        m, Q = g_scalar(rng), g_point(rng)
        line = rng.choice([f"dual.mult {m} {f_pt(Q)}", f"dual.pubkey {m} 1", f"dual.dsa.sign {hx(common.rand_bytes(rng, 32))} {m} - 1 1 1 -",
                           f"dual.ssa.sign {hx(common.rand_bytes(rng, 32))} {m} {hx(bytes(32))} 1", f"dual.tweakadd {f_pt(Q)} {m}"])
        hists = [[rng.getrandbits(1) for _ in range(rng.randrange(1, 7))] for _ in range(4)]
        ctx.check("switch", {"line": line, "histories": hists})
    digs = boundary_digests()
    for i in range(ctx.n(12, 200)):
        qh = g_scalar(rng)
        ts = [rng.choice([0, 1, N - qh, g_scalar(rng), N, -qh]) for _ in range(rng.randrange(1, 5))]
        ctx.check("held_object", {"msg": (digs[i][1] if i < len(digs) else common.rand_bytes(rng, 32)).hex(), "q": qh,
                                  "aux": common.rand_bytes(rng, 32).hex(), "tweaks": ts,
                                  "flips": [rng.getrandbits(1) for _ in range(rng.randrange(0, 4))]})


# ------------------------------------------------------------------ T2: verdict tables against the real code
_VREP: dict[str, str] = {}
PREDICATES = {"eng.dsa", "tap.check", "musig", "eng.ssa"}


def _impl_verdict(line: str) -> str:
    toks = line.split(" ")
    api, arm_ = toks[1], toks[2]
    rep = _VREP.get(" ".join([api] + toks[3:]))
    if rep is None:
        return "no-representative"
    out = both(rep)[0 if arm_ == "bind" else 1]   # through `both`: the representative is accounted to the sites it enters
    if out.startswith("err foreign"):
        return "err foreign"
    if api == "eng.tx" and out == "err script":
        return "err value"  # a ScriptError is a BTClibValueError: the table speaks of "refused"
    if out.startswith("err"):
        return out
    if api in PREDICATES:
        return out[3:]
    return "value"


def s_verdict(ctx, rng, register_only=False):  # noqa: PLR0912, PLR0915
    import random  # noqa: PLC0415
    rng = random.Random(f"verdict/{ctx.seed}")  # own stream: a recorded line can be rebuilt by --replay
    q = rng.randrange(2, N)
    Q = _PY_MULT(q)
    nx = non_x(rng)
    SC = {"zero": 0, "inRange": rng.randrange(1, N), "eqN": N, "gtN": N + rng.randrange(1, N), "negative": -rng.randrange(1, N)}
    PT = {"generator": G, "valid": Q, "infinity": (Q[0], 0), "offCurve": (Q[0], Q[1] ^ 1), "yOutOfRange": (Q[0], Q[1] + P),
          "xOutOfRange": (Q[0] + P, Q[1])}
    classes = []

    def reg(api, cls, rep):
        _VREP[" ".join([api] + cls)] = rep
        for a in ("py", "bind"):
            classes.append((api, f"verdict {api} {a} " + " ".join(cls)))
        ctx.count(f"verdict.{api}", " ".join(cls))

    for cs, m in SC.items():
        for cp, pt in PT.items():
            reg("mult", [cs, cp], f"dual.mult {m} {f_pt(pt)}")
            reg("dh", [cs, cp], f"dual.dh {m} {f_pt(pt)} 32")
        reg("pubkey", [cs], f"dual.pubkey {m} 1")
    qq = {"generator": 1, "valid": q}
    for ct in ("zero", "inRange", "cancels"):
        for cp, pt in PT.items():
            t = {"zero": 0, "inRange": rng.randrange(1, N - 1), "cancels": N - qq.get(cp, q)}[ct]
            if ct == "inRange" and (t + qq.get(cp, q)) % N == 0:
                t += 1
            reg("tweakadd", [ct, cp], f"dual.tweakadd {f_pt(pt)} {t}")
    c, u = sec_of(Q), sec_of(Q, False)
    SEC = {"compressed": c, "uncompressed": u, "hybrid": _hybrid(Q), "hybridWrongParity": bytes([7 - (Q[1] & 1)]) + u[1:],
           "xNotOnCurve": b"\x02" + nx.to_bytes(32, "big"), "xGeP": b"\x03" + (P + 1).to_bytes(32, "big"),
           "uncOffCurve": u[:-1] + bytes([u[-1] ^ 1]), "uncYZero": u[:33] + bytes(32), "badPrefix": b"\x05" + c[1:], "wrongLength": c[:-1]}
    for ck, key in SEC.items():
        for hyb in ("0", "1"):
            reg("pfo", [hyb, ck], f"dual.pfo {hx(key)} {hyb}")
    msg = common.rand_bytes(rng, 32)
    with arm(True):
        sg = dsa.sign_(msg, q, grind=False)
    lo, hi = min(sg.s, N - sg.s), max(sg.s, N - sg.s)
    wrong_s = lo % (N // 2 - 1) + 1 if (lo % (N // 2 - 1) + 1) != lo else lo - 1
    MSG = {"len32": msg, "other": msg[:-1]}
    KEY = {"valid": c, "hybrid": _hybrid(Q), "notOnCurve": b"\x02" + nx.to_bytes(32, "big"), "wrongLength": c[1:]}
    SIG = {"valid": f"{sg.r}:{lo}", "highS": f"{sg.r}:{hi}", "wrong": f"{sg.r}:{wrong_s}", "outOfRange": f"0:{lo}",
           "unparsable": hx(der(sg.r, lo)[:-1])}
    for cm, m in MSG.items():
        for ck, key in KEY.items():
            for cs, st in SIG.items():
                reg("dsa.assert", [cm, ck, cs], f"dual.dsa.assert {hx(m)} {hx(key)} {st}")
    EKEY = {"valid": c, "hybrid": _hybrid(Q), "hybridWrongParity": bytes([7 - (Q[1] & 1)]) + u[1:],
            "notOnCurve": b"\x02" + nx.to_bytes(32, "big"), "wrongLength": c[1:]}
    ESIG = {"valid": der(sg.r, lo), "highS": der(sg.r, hi), "wrong": der(sg.r, wrong_s), "outOfRange": der(0, lo),
            "unparsable": der(sg.r, lo)[:-1]}
    for cm, m in MSG.items():
        for ck, key in EKEY.items():
            for cs, sb in ESIG.items():
                reg("eng.dsa", [cm, ck, cs], f"dual.eng.dsa {hx(m)} {hx(key)} {hx(sb)}")
    for ckid, kid in (("low", rng.choice([0, 1])), ("high", rng.choice([2, 3])), ("outside", rng.choice([-1, 4, 7]))):
        for cm, m in MSG.items():
            for cs, st in SIG.items():
                reg("dsa.recover", [ckid, cm, cs], f"dual.dsa.recover {kid} {hx(m)} {st}")
    aux = common.rand_bytes(rng, 32)
    with arm(True):
        ss = ssa.sign_(msg, q, aux)
    xb = Q[0].to_bytes(32, "big")
    XK = {"valid": xb, "notX": nx.to_bytes(32, "big"), "geP": (P + 2).to_bytes(32, "big"), "wrongLength": xb[:-1]}
    SS = {"valid": f"{ss.r}:{ss.s}", "wrong": f"{ss.r}:{ss.s % (N - 1) + 1}", "outOfRange": f"{ss.r}:{N}", "wrongLength": hx(ss.serialize()[:-1])}
    for ck, key in XK.items():
        for cs, st in SS.items():
            reg("ssa.assert", [ck, cs], f"dual.ssa.assert {hx(msg)} {hx(key)} {st}")
    PUB = {"none_": "-", "own": hx(c), "foreign": hx(sec_of(G)), "notOnCurve": hx(b"\x02" + nx.to_bytes(32, "big")),
           "hybrid": hx(_hybrid(Q)), "wrongLength": hx(c[1:])}
    SCQ = dict(SC, inRange=q)
    for cs, m in SCQ.items():
        for cm, mm in MSG.items():
            for ck, kt in PUB.items():
                reg("dsa.sign", [cs, cm, ck], f"dual.dsa.sign {hx(mm)} {m} - 1 1 1 {kt}")
            reg("ssa.sign", [cs, cm], f"dual.ssa.sign {hx(msg)} {m} {hx(mm)} 1")
    # ---- second batch (Model/C04/Verdict2.lean)
    root = common.rand_bytes(rng, 32)
    for ck, key in XK.items():
        reg("tap.outroot", [ck], f"dual.tap.outroot {hx(key)} {hx(root)}")
    for ck, key in SEC.items():
        # `output_pubkey` takes a `Key`: 32 octets would be read as a PRIVATE key, so the wrong length here is 34
        reg("tap.outpub", [ck], f"dual.tap.outpub {hx(c + bytes(1) if ck == 'wrongLength' else key)}")
        reg("ell.encode", [ck], f"dual.ell.encode {hx(key)}")
    for cs, m in SCQ.items():
        reg("tap.prvroot", [cs], f"dual.tap.prvroot {m} {hx(root)}")
        reg("ell.create", [cs], f"dual.ell.create {m}")
        for canc in ("0", "1"):
            reg("commit", [cs, canc], f"dual.commit.stub {hx(root)} {m} {hx(b'tag')} {canc}")
    from btclib.script import serialize as _ser  # noqa: PLC0415
    tree = [[(0xC0, ["OP_1"])], [(0xC0, ["OP_2", "OP_DROP", "OP_1"])]]
    with arm(True):
        outq, _par = taproot.output_pubkey(c, tree)
        script, control = taproot.input_script_sig(c, tree, 0)
        sb, cb = _ser(script), bytes(control)
    CTRL = {"valid": cb, "parityFlipped": bytes([cb[0] ^ 1]) + cb[1:], "otherKey": cb[:1] + G[0].to_bytes(32, "big") + cb[33:],
            "pNotX": cb[:1] + nx.to_bytes(32, "big") + cb[33:], "pGeP": cb[:1] + (P + 3).to_bytes(32, "big") + cb[33:],
            "badLength": cb[:-1], "tooLong": cb[:33] + bytes(32 * 129)}
    # several representatives per class: `another length` is not homogeneous (the key is compared as an integer)
    qreps = [("len32", outq), ("zeroPadded", b"\x00" + outq), ("zeroPadded", b"\x00\x00" + outq), ("zeroPadded", bytes(8) + outq),
             ("otherValue", b"\x02" + outq), ("otherValue", outq[:31]), ("otherValue", outq + b"\x00"), ("otherValue", b""),
             ("otherValue", b"\x01" + outq[1:] + b"\x00")]
    if outq[0] == 0:
        qreps.append(("zeroPadded", outq.lstrip(b"\x00")))
    for j, (cq, qb) in enumerate(qreps):
        for cc, ctl in CTRL.items():
            reg("tap.check", [cq, cc, str(j)], f"dual.tap.check {hx(qb)} {hx(sb)} {hx(ctl)}")
    # BIP32: one step under a stubbed HMAC (IL >= n, the cancelling IL and the ordinary one)
    from btclib.bip32 import BIP32KeyData  # noqa: PLC0415
    kpar = rng.randrange(2, N)
    ccode = common.rand_bytes(rng, 32)
    xprv = BIP32KeyData(b"\x04\x88\xad\xe4", 0, bytes(4), 0, ccode, b"\x00" + kpar.to_bytes(32, "big")).b58encode()
    xpub = BIP32KeyData(b"\x04\x88\xb2\x1e", 0, bytes(4), 0, ccode, sec_of(_PY_MULT(kpar))).b58encode()
    xprv, xpub = (x if isinstance(x, str) else x.decode() for x in (xprv, xpub))
    ILS = {"ok": rng.randrange(1, N - kpar - 1), "geN": N, "cancels": N - kpar}
    H = 0x80000000
    for cch, xk in (("prv", xprv), ("pub", xpub)):
        for ci, (path, idx) in (("normal", ("m/5", 5)), ("hardened", ("m/5h", 5 + H))):
            for cil, il in ILS.items():
                reg("bip32", [cch, ci, cil], f"dual.bip32.mac {xk} {path} {idx} {hx(il.to_bytes(32, 'big') + ccode)}")
    # MuSig2: one two-signer session per message length
    for cm, mmsg in (("len32", msg), ("other", msg + b"\x00" * 6)):
        prvs = [rng.randrange(1, N), rng.randrange(1, N)]
        with arm(True):
            pks = [sec_point.bytes_from_prv_key_int(x) for x in prvs]
            sn, pn = zip(*[musig2.nonce_gen(x, pk, None, mmsg, None) for x, pk in zip(prvs, pks)])
            agg = musig2.nonce_agg(pn)
            sctx = musig2.SessionContext(agg, pks, [], [], mmsg)
            ps0 = musig2.sign(bytearray(sn[0]), prvs[0], sctx)
        PS = {"valid": ps0, "wrong": ((int.from_bytes(ps0, "big") + 1) % N).to_bytes(32, "big"), "geN": N.to_bytes(32, "big"),
              "wrongLength": ps0[:-1]}
        PN = {"valid": pn[0], "other": pn[1], "notPoint": b"\x02" + nx.to_bytes(32, "big") + pn[0][33:], "wrongLength": pn[0][:-1]}
        SK = {"member": pks[0], "foreign": sec_of(g_point(rng)), "notPoint": b"\x02" + nx.to_bytes(32, "big"), "wrongLength": pks[0][1:]}
        for cps, psb in PS.items():
            for cpn, pnb in PN.items():
                for csk, skb in SK.items():
                    reg("musig", [cm, cps, cpn, csk], f"dual.musig.pverify {hx(psb)} {hx(pnb)} {hx(skb)} {hx(agg)} "
                                                      f"{','.join(hx(x) for x in pks)} - {hx(mmsg)}")
    # ElligatorSwift
    with arm(True):
        ea, eb = ellswift.create_var(q), ellswift.create_var(kpar)
    ELL = {"len64": None, "other": None}
    reg("ell.decode", ["len64"], f"dual.ell.decode {hx(ea)}")
    reg("ell.decode", ["other"], f"dual.ell.decode {hx(ea[:-1])}")
    for ca in ELL:
        for cb_ in ELL:
            for cp, party in (("zeroOrOne", rng.choice([0, 1])), ("outside", rng.choice([-1, 2, 7]))):
                for cs, m in SCQ.items():
                    reg("ell.xdh", [ca, cb_, cp, cs], f"dual.ell.xdh {hx(ea if ca == 'len64' else ea + b'x')} "
                                                     f"{hx(eb if cb_ == 'len64' else eb[:-2])} {m} {party}")
    # the engine's BIP340 wrapper (octets in)
    SSB = {"valid": ss.serialize(), "wrong": ss.serialize()[:32] + (ss.s % (N - 1) + 1).to_bytes(32, "big"),
           "outOfRange": ss.serialize()[:32] + N.to_bytes(32, "big"), "wrongLength": ss.serialize()[:-1]}
    for ck, key in XK.items():
        for cs, sb_ in SSB.items():
            reg("eng.ssa", [ck, cs], f"dual.eng.ssa {hx(msg)} {hx(key)} {hx(sb_)}")
    # whole transactions: Core's verdict, per vector, per arm
    for kind, i in corpus():
        if kind in ("tx_valid", "tx_invalid"):
            reg("eng.tx", ["coreValid" if kind == "tx_valid" else "coreInvalid", str(i)], f"dual.eng.corpus {kind} {i}")
    # silent payments: one p2wpkh input paying one wallet
    c1 = sec_of(_PY_MULT(7))
    spk = b"\x00\x14" + _h160(c1)
    bs, bp = 11, 13
    with arm(True):
        addr = sp.address_from_keys(_curve.mult(bs), _curve.mult(bp))
        addr = addr if isinstance(addr, str) else addr.decode()
        ours = API["sp.out"]([f"7/{hx(spk)}", f"{'11' * 32}:0", addr])[0]
    base = f"dual.sp.scan {bs} {hx(sec_of(_PY_MULT(bp)))} {'11' * 32}:0 {hx(c1)}/{hx(spk)}"
    zero_keys = f"5/{hx(spk)},{N - 5}/{hx(spk)}"
    for ck, kt in (("ok", f"7/{hx(spk)}"), ("zero", zero_keys)):
        for ca, at in (("none_", "-"), ("valid", addr), ("malformed", "sp1qqqq")):
            reg("sp.out", [ck, ca], f"dual.sp.out {kt} {'11' * 32}:0 {at}")
    for cls, tok in (("none_", "-"), ("foreignX", hx(g_point(rng)[0].to_bytes(32, "big"))), ("ours", hx(ours)),
                     ("notX", hx(nx.to_bytes(32, "big"))), ("wrongLength", hx(ours[:-1]))):
        reg("sp.scan", [cls], f"{base} {tok} -")
    by_api: dict[str, list[str]] = {}
    for api, ln in classes:
        by_api.setdefault(api, []).append(ln)
    if register_only:
        return
    for api, lines in by_api.items():
        ctx.stream(f"verdict.{api}", lines, nontrivial=lambda _l, out: not out.startswith("err"))
        ctx.exhaustive_streams.append(f"verdict.{api}")


def s_hostile_extra(ctx, rng):
    """hostile inputs for the sites the `site_reach` oracle found reached by valid inputs only"""
    L = []
    for _cls, pt in point_lattice(rng):
        ts = ",".join(str(rng.choice([0, 1, g_scalar(rng), N, -1])) for _ in range(3))
        L.append(f"dual.tweakchain {pt[0]} {pt[1]} {ts}")
    dual(ctx, "tweakchain.hostile", L)
    L = []
    for _ in range(ctx.n(6, 60)):
        q, msg = g_scalar(rng), common.rand_bytes(rng, rng.choice([0, 31, 32, 33]))
        for aux in (common.rand_bytes(rng, 31), common.rand_bytes(rng, 33), b""):
            L.append(f"dual.ssa.signer {hx(msg)} {q} {hx(aux) or '-'} {rng.choice('01')}")
    dual(ctx, "ssa.signer.hostile", L)


# ------------------------------------------------------------------ T4: refusal classes — the GENERATED handlers against the real code
_RROWS: dict[str, tuple] = {}    # row index -> (site, atom, class key)
_REXERCISED: dict[str, bool] = {}


def _impl_refusal(line: str) -> str:
    _tag, i, arm_ = line.split(" ")
    row = _RROWS.get(i)
    if row is None:
        return "no-row"
    api, _, rest = row[2].partition(" ")
    out = _impl_verdict(f"verdict {api} {arm_} {rest}")
    if arm_ == "bind":
        _REXERCISED[i] = sites.REACH.c_refused_lines.get(_VREP.get(row[2]))
    return out


def s_refusal(ctx, rng, register_only=False):
    """every row of `Btc.C04.refusalTable` (site, way of being outside the C entry point's domain, class of the T2 lattice):
    the class's representative on the Python arm against the row's `py`, and on the bindings arm against
    `refusalOutcome` = the GENERATED handlers unwound.  `exercised`: the C call really raised ValueError under it."""
    import random  # noqa: PLC0415
    rng = random.Random(f"refusal/{ctx.seed}")
    out = ctx.model(EXE, ["refusals"])
    if not out or not out[0].startswith("ok "):
        ctx.broken.append("driver does not serve `refusals`")
        return
    if not _VREP:
        s_verdict(ctx, None, register_only=True)
    nx = non_x(rng)
    Q = g_point(rng)
    _VREP["mmultx notX"] = f"dual.mmultx {g_scalar(rng)} {Q[0]} {g_scalar(rng)} {nx}"
    _VREP["multsec xNotOnCurve"] = f"dual.multsec {hx(b'\x02' + nx.to_bytes(32, 'big'))} {g_scalar(rng)}"
    _VREP["multsec gtN"] = f"dual.multsec {hx(sec_of(Q))} {N + rng.randrange(1, N)}"
    _VREP["yeven notX"] = f"dual.yeven {nx}"
    lines = []
    for ent in out[0][3:].split(";"):
        i, site, atom, cls = ent.split("|")
        _RROWS[i] = (site, atom, cls)
        if cls not in _VREP:
            ctx.broken.append(f"refusal row {i} ({site}, {atom}): no representative for class `{cls}`")
            continue
        lines += [f"refusal {i} py", f"refusal {i} bind"]
    if register_only:
        return
    ctx.stream("refusal.class", lines, nontrivial=lambda _l, o: True)
    ctx.exhaustive_streams.append("refusal.class")
    for i, (site, atom, cls) in _RROWS.items():
        ctx.count("refusal.exercised", f"{site}|{atom}|{cls}|C-call-raised={_REXERCISED.get(i)}")


# ------------------------------------------------------------------ T1: generated guards against observed delegation
class _Proxy:
    def __init__(self, target, attr, hit):
        self._t, self._a, self._hit = target, attr, hit

    def __getattr__(self, name):
        v = getattr(self._t, name)
        if name == self._a:
            def wrapped(*a, **k):
                self._hit.append(1)
                return v(*a, **k)
            return wrapped
        return v


@contextlib.contextmanager
def spy(module, dotted):
    """count the calls of `module.<dotted>` (a bindings entry point or a private delegate), calling through"""
    hit: list[int] = []
    root, _, attr = dotted.partition(".")
    orig = getattr(module, root)
    if attr:
        setattr(module, root, _Proxy(orig, attr, hit))
    else:
        def wrapped(*a, **k):
            hit.append(1)
            return orig(*a, **k)
        setattr(module, root, wrapped)
    try:
        yield hit
    finally:
        setattr(module, root, orig)


_GREP: dict[str, tuple] = {}


def _impl_guard(line: str) -> str:
    if line not in _GREP:
        return "no-representative"
    module, dotted, serving, thunk = _GREP[line]
    with arm(serving), spy(module, dotted) as hit:
        with contextlib.suppress(Exception):
            thunk()
    return "ok 1" if hit else "ok 0"


def s_guard(ctx, rng, register_only=False):  # noqa: PLR0915
    import json as _json  # noqa: PLC0415
    import random  # noqa: PLC0415
    rng = random.Random(f"guard/{ctx.seed}")  # own stream: a recorded line can be rebuilt by --replay
    from btclib.curves import CURVES  # noqa: PLC0415
    sha256 = _curve.sha256
    idx = _json.load(open(os.path.join(common.LEAN, "Generated", "index.json")))  # noqa: F841
    with open(os.path.join(common.LEAN, "Generated", "Backend.lean"), encoding="utf8") as f:
        src = f.read()
    import re  # noqa: PLC0415
    names = re.search(r"def atomNames : List String := \[(.*?)\]", src).group(1)
    atoms = [x.strip().strip('"') for x in names.split(",")]
    r1 = CURVES["secp256r1"]
    lines_by_site: dict[str, list[str]] = {}
    n_tag = [0]

    def emit(site, module, dotted, serving, thunk, **at):
        bits = "".join("1" if at.get(a, a in ("flag",) and serving) else "0" for a in atoms)
        at["flag"] = serving
        bits = "".join("1" if at.get(a, False) else "0" for a in atoms)
        n_tag[0] += 1
        ln = f"guard bit {site} {bits} {n_tag[0]}"
        _GREP[ln] = (module, dotted, serving, thunk)
        lines_by_site.setdefault(site, []).append(ln)

    reps = ctx.n(2, 60)
    for _ in range(reps):
        for serving in (True, False):
            for ec in (EC, r1):
                is_k1 = ec == EC
                qpt = _curve.mult(rng.randrange(1, ec.n), ec.G, ec)
                hpt = _curve.mult(rng.randrange(1, ec.n), ec.G, ec)
                for m in (0, ec.n, rng.randrange(1, ec.n), -rng.randrange(1, ec.n)):
                    for Qc, Qv in (("none", None), ("G", ec.G), ("valid", qpt), ("inf", (qpt[0], 0))):
                        at = dict(ec_is_secp256k1=is_k1, s1_nonzero=m % ec.n != 0, p1_is_generator=Qc in ("none", "G"),
                                  p1_finite=Qc in ("G", "valid"))
                        emit("mult_checked__libsecp256k1_pubkey_from_prvkey", _curve, "libsecp256k1_pubkey_from_prvkey", serving,
                             lambda m=m, Qv=Qv, ec=ec: _curve.mult(m, Qv, ec), **at)
                        emit("mult_checked__libsecp256k1_multi_mult", _curve, "_libsecp256k1_multi_mult", serving,
                             lambda m=m, Qv=Qv, ec=ec: _curve.mult(m, Qv, ec), **at)
                        if Qv is not None:
                            v = rng.choice([0, rng.randrange(1, ec.n)])
                            Hc = rng.choice([hpt, (hpt[0], 0)])
                            emit("double_mult__libsecp256k1_multi_mult", _curve, "_libsecp256k1_multi_mult", serving,
                                 lambda m=m, Qv=Qv, ec=ec, v=v, Hc=Hc: _curve.double_mult_var(m, Qv, v, Hc, ec),
                                 ec_is_secp256k1=is_k1, s1_nonzero=m % ec.n != 0, s2_nonzero=v != 0, p1_finite=Qv[1] != 0, p2_finite=Hc[1] != 0)
                            emit("tweak_add__libsecp256k1_pubkey_tweak_add", _curve, "libsecp256k1_pubkey_tweak_add", serving,
                                 lambda m=m, Qv=Qv, ec=ec: _curve._tweak_add_var(Qv, m, ec), ec_is_secp256k1=is_k1, p1_finite=Qv[1] != 0)
                            emit("dh__pubkey_tweak_mul", dh, "libsecp256k1_keys.pubkey_tweak_mul", serving,
                                 lambda m=m, Qv=Qv, ec=ec: dh.diffie_hellman(m, Qv, 32, None, ec), ec_is_secp256k1=is_k1,
                                 s1_nonzero=m % ec.n != 0, p1_finite=Qv[1] != 0)
                    emit("bytes_from_prv_key_int__libsecp256k1_pubkey_from_prvkey", sec_point, "libsecp256k1_pubkey_from_prvkey", serving,
                         lambda m=m, ec=ec: sec_point.bytes_from_prv_key_int(m, ec), ec_is_secp256k1=is_k1, s1_nonzero=m % ec.n != 0)
                # sums
                for k in (0, 1, 2, 3):
                    pts = [_curve.mult(rng.randrange(1, ec.n), ec.G, ec) for _ in range(k)]
                    if k and rng.random() < 0.5:
                        pts[0] = (pts[0][0], 0)
                    fin = sum(1 for p_ in pts if p_[1])
                    emit("sum__libsecp256k1_pubkey_sum", _curve, "libsecp256k1_pubkey_sum", serving,
                         lambda pts=pts, ec=ec: _curve._sum_var(pts, ec), ec_is_secp256k1=is_k1, n_finite_lt_2=fin < 2)
                    sc = [rng.choice([0, ec.n, -ec.n, 2 * ec.n, rng.randrange(1, ec.n), rng.randrange(1, ec.n), rng.randrange(1, ec.n)])
                          for _ in range(k)]
                    emit("multi_mult__libsecp256k1_multi_mult", _curve, "_libsecp256k1_multi_mult", serving,
                         lambda pts=pts, sc=sc, ec=ec: _curve.multi_mult_var(sc, pts, ec), ec_is_secp256k1=is_k1, n_terms_gt_1=k > 1,
                         all_terms_nonzero_finite=all(s_ % ec.n and p_[1] for s_, p_ in zip(sc, pts)))
                # multiples of n among the RAW scalars: the guard reads the reduced ones
                for sc in ([ec.n, 5], [7, -ec.n], [2 * ec.n, 3, 4], [ec.n + 1, 2 * ec.n - 1]):
                    pts = [_curve.mult(rng.randrange(1, ec.n), ec.G, ec) for _ in sc]
                    emit("multi_mult__libsecp256k1_multi_mult", _curve, "_libsecp256k1_multi_mult", serving,
                         lambda pts=pts, sc=sc, ec=ec: _curve.multi_mult_var(sc, pts, ec), ec_is_secp256k1=is_k1, n_terms_gt_1=True,
                         all_terms_nonzero_finite=all(s_ % ec.n for s_ in sc))
                # x-coordinate questions
                for x in (qpt[0], ec.p, ec.p + 5, -1, 0):
                    emit("is_x_coordinate__libsecp256k1_xonly_pubkey_verify", _curve, "libsecp256k1_xonly_pubkey_verify", serving,
                         lambda x=x, ec=ec: _curve._is_x_coordinate_var(x, ec), ec_is_secp256k1=is_k1, x_in_field=0 <= x < ec.p)
                # ECDSA / BIP340 signing
                for hf in (sha256, hashlib.sha1):
                    for nonce in (None, 5):
                        for ls in (True, False):
                            for commit in (None, b"\x01" * 32):
                                if commit is not None and nonce is not None:
                                    continue
                                msgh = bytes(hf().digest_size)
                                emit("dsa_sign__libsecp256k1_sign", dsa, "_libsecp256k1_sign_", serving,
                                     lambda msgh=msgh, nonce=nonce, ls=ls, ec=ec, hf=hf, commit=commit:
                                     dsa.sign_(msgh, 7, nonce, ls, ec, hf, grind=False, commit_hash=commit),
                                     ec_is_secp256k1=is_k1, hf_none_or_sha256=hf is sha256, nonce_is_none=nonce is None, lower_s=ls,
                                     commit_is_none=commit is None)
                    emit("dsa_signer_init__sec_from_pub_key", dsa, "_sec_from_pub_key", serving,
                         lambda ec=ec, hf=hf: dsa.Signer(7, ec, hf), ec_is_secp256k1=is_k1, hf_none_or_sha256=hf is sha256)
                    emit("ssa_signer_init__Signer", ssa, "libsecp256k1_ssa.Signer", serving,
                         lambda ec=ec, hf=hf: ssa.Signer(7, ec, hf), ec_is_secp256k1=is_k1, hf_none_or_sha256=hf is sha256)
                    for commit in (None, b"\x01" * 32):
                        emit("ssa_sign__sign_custom", ssa, "libsecp256k1_ssa.sign_custom", serving,
                             lambda ec=ec, hf=hf, commit=commit: ssa.sign_(b"m", 7, bytes(hf().digest_size), ec, hf, commit_hash=commit),
                             ec_is_secp256k1=is_k1, hf_none_or_sha256=hf is sha256, commit_is_none=commit is None)
            # secp256k1-only sites
            msgh = common.rand_bytes(rng, 32)
            with arm(True):
                sg = dsa.sign_(msgh, 9)
            for kid in (-1, 0, 1, 2, 3, 4):
                for hf in (sha256, hashlib.sha1):
                    mh = msgh[:hf().digest_size]
                    emit("dsa_recover_pub_key__libsecp256k1_recover_point", dsa, "_libsecp256k1_recover_point_", serving,
                         lambda kid=kid, mh=mh, hf=hf: dsa.recover_pub_key_(kid, mh, sg, hf), ec_is_secp256k1=True,
                         hf_none_or_sha256=hf is sha256, key_id_0_3=0 <= kid <= 3)
            for key in (sec_of(G), sec_of(G, False), sec_of(G)[:-1]):
                emit("sec_from_octets__libsecp256k1_pubkey_verify", sec_point, "libsecp256k1_pubkey_verify", serving,
                     lambda key=key: sec_point._sec_from_octets(key, EC), ec_is_secp256k1=True, compressed_len=len(key) == 33)
            for qb in (G[0].to_bytes(32, "big"), b"\x02" + G[0].to_bytes(32, "big"), bytes(31)):
                emit("taproot_check_output_pubkey__tweak_add_check", taproot, "libsecp256k1_xonly.tweak_add_check", serving,
                     lambda qb=qb: taproot.check_output_pubkey(qb, b"\x51", b"\xc0" + G[0].to_bytes(32, "big")), q_len_32=len(qb) == 32)
    if register_only:
        return
    # coverage report of T1 (domain_from_guard_alone / handler_sites_need_their_handler), per site
    rep = ctx.model(EXE, ["sites"])
    if rep and rep[0].startswith("ok "):
        for ent in rep[0][3:].split(" "):
            nm, _, frm = ent.partition("=")
            ctx.count("site.domain_from", f"{nm}: {frm.replace('_', ' ')}")
            ctx.count("site.domain_from.summary", frm.replace("_", " "))
            ctx.count("site.correspondence", f"{nm}: " + ("guard.* stream (observed delegation)" if nm in lines_by_site else "AST only"))
    for site, lines in lines_by_site.items():
        ctx.stream(f"guard.{site}", lines, nontrivial=lambda _l, out: out == "ok 1")


def replay(ctx, rec):
    """re-execute one recorded finding on the current tree"""
    res = {"still_fails": False}
    w = rec.get("property_oracle")
    if w:
        ok, detail = ORACLES[w["oracle"]](w["witness"])
        res.update(oracle=w["oracle"], ok=ok, detail=detail, still_fails=not ok)
        return res
    line = rec.get("op_line")
    if not line:
        res["note"] = "record names obligations/streams only; re-run the check itself"
        res["still_fails"] = bool(ctx.broken)
        return res
    sub = common.Ctx(PROP, rec.get("tier", "quick"), int(rec.get("seed", 0)), driver_ok=ctx.driver_ok)
    sub.harness = sys.modules[__name__]
    if line.startswith("verdict "):
        s_verdict(sub, None, register_only=True)
    elif line.startswith("guard "):
        s_guard(sub, None, register_only=True)
    elif line.startswith("refusal "):
        s_refusal(sub, None, register_only=True)
    out = ctx.model(EXE, [line])
    got = impl(line)
    res.update(op_line=line, impl=got, model=out[0] if out else None)
    res["still_fails"] = out is None or out[0] != mcanon(line.split(" ")[0].replace("dual.", ""), got)
    return res


def run(ctx):
    rng = ctx.rng
    initial = _curve.is_libsecp256k1_serving()
    t0 = time.time()
    try:
        if ctx.driver_ok:
            # observation layer: wrappers on every bindings entry point + entry events on every function of the generated inventory
            sites.REACH.__init__()
            sites.REACH.start(sites.inventory_from_driver(ctx, EXE))
        for name, f in (("fixed", lambda: s_fixed(ctx)), ("curve", lambda: s_curve(ctx, rng)), ("sec", lambda: s_sec(ctx, rng)),
                        ("dsa", lambda: s_dsa(ctx, rng)), ("ssa", lambda: s_ssa(ctx, rng)), ("bms", lambda: s_bms(ctx, rng)),
                        ("bms.flags", lambda: s_bms_flags(ctx, rng)),
                        ("bip32", lambda: s_bip32(ctx, rng)), ("taproot", lambda: s_taproot(ctx, rng)), ("misc", lambda: s_misc(ctx, rng)),
                        ("musig", lambda: s_musig(ctx, rng)), ("sp", lambda: s_sp(ctx, rng)), ("engine", lambda: s_engine(ctx, rng)),
                        ("switch", lambda: s_switch(ctx, rng)), ("hostile", lambda: s_hostile_extra(ctx, rng)),
                        ("verdict", lambda: s_verdict(ctx, rng)), ("refusal", lambda: s_refusal(ctx, rng)),
                        ("reach", lambda: sites.report(ctx) if sites.REACH.active else None),
                        ("guard", lambda: s_guard(ctx, rng))):
            t = time.time()
            f()
            ctx.count("seconds", name, round(time.time() - t, 1))
    finally:
        sites.REACH.stop()
        _curve.set_libsecp256k1_serving(serving=initial)
    ctx.note(f"harness time {time.time() - t0:.1f}s")
