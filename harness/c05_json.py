"""C05: the JSON form (to_dict / from_dict) of OutPoint, Witness, TxIn, TxOut, Tx against `Model/C05/Json.lean`.

  json.to <class> <hex of x.serialize()> [network]    objects built by the constructors; btclib's `x.to_dict()` against
      the model's `toDict` (keys and their order, hex spellings, integers, nesting, and for Tx the reported txid, hash,
      size, vsize, weight -- computed by the model from the octets)
  json.from <class> <cv> <json tokens>                `X.from_dict(d, check_validity=cv)` on dicts written by `to_dict` and
      on mutations of them (missing / extra key, null, wrong type, bool for int, negative, too large, odd-length hex,
      non-hex, upper-case hex, hex with spaces, bare hex script, wrong asm, unknown network): refusal or the object

What other code computes is masked / resolved on this side, as `Env` says in the model: `asm` (compared with btclib's own
rendering of the accompanying hex: `~` when equal), `type` and `addresses` (`~`), the BTC-decimal text of a value
(`~<satoshi>` outwards; resolved through `sats_from_btc` inwards).  Not generated: floats, non-ascii text, and, with
check_validity=False, a non-integer in an integer field (btclib keeps it as it came; the model's objects hold integers).
"""
from __future__ import annotations

import copy

from btclib.amount import sats_from_btc
from btclib.script import Witness
from btclib.script.script import script_to_dict
from btclib.tx import OutPoint, Tx, TxIn, TxOut

from . import common
from .common import hx

CLASSES = {"outpoint": OutPoint, "witness": Witness, "txin": TxIn, "txout": TxOut, "tx": Tx}
INT_KEYS = {"vout", "sequence", "version", "locktime"}
SCRIPT_KEYS = {"scriptSig", "scriptPubKey"}


def enc(v):
    if v is None:
        return ["n"]
    if v is True:
        return ["t"]
    if v is False:
        return ["f"]
    if isinstance(v, int):
        return [f"i{v}"]
    if isinstance(v, str):
        return ["s" + hx(v.encode("ascii"))]
    if isinstance(v, (list, tuple)):
        return [f"a{len(v)}"] + [t for x in v for t in enc(x)]
    if isinstance(v, dict):
        return [f"o{len(v)}"] + [t for k, x in v.items() for t in enc(k) + enc(x)]
    raise TypeError(type(v).__name__)


def mask_out(d):
    """what `to_dict` wrote, with the parts other code computes masked"""
    if isinstance(d, list):
        return [mask_out(x) for x in d]
    if not isinstance(d, dict):
        return d
    out = {}
    for k, v in d.items():
        if k == "asm" or k in ("type", "addresses"):
            out[k] = "~"
        elif k == "value":
            out[k] = "~" + str(sats_from_btc(v))
        else:
            out[k] = mask_out(v)
    return out


def resolve_in(d):
    """a dict on its way into `from_dict`, with the questions other code answers answered by that code"""
    if isinstance(d, list):
        return [resolve_in(x) for x in d]
    if not isinstance(d, dict):
        return d
    out = {}
    for k, v in d.items():
        if k == "asm" and isinstance(v, str):
            try:
                same = v == script_to_dict(bytes.fromhex(d["hex"]))["asm"]
            except Exception:  # noqa: BLE001 - no hex to compare with: refused for that, whatever the asm
                same = False
            out[k] = "~" if same else "!"
        elif k == "value" and v is not None:
            try:
                out[k] = sats_from_btc(v)
            except Exception:  # noqa: BLE001
                out[k] = "!"
        else:
            out[k] = resolve_in(v)
    return out


def r_out(o):
    return f"{hx(o.tx_id)}:{o.vout}"


def r_wit(w):
    return ",".join(hx(x) for x in w.stack) if w.stack else "-"


def r_in(i):
    return f"{r_out(i.prev_out)}/{hx(i.script_sig)}/{i.sequence}/{r_wit(i.script_witness)}"


def r_txo(o):
    return f"{o.value}/{hx(o.script_pub_key.script)}/{o.script_pub_key.network}"


def r_tx(t):
    ins = ";".join(r_in(i) for i in t.vin) if t.vin else "-"
    outs = ";".join(r_txo(o) for o in t.vout) if t.vout else "-"
    return f"v={t.version} l={t.lock_time} in=[{ins}] out=[{outs}]"


RENDER = {"outpoint": r_out, "witness": r_wit, "txin": r_in, "txout": r_txo, "tx": r_tx}


def impl_from(cls, cv, d):
    try:
        x = CLASSES[cls].from_dict(d, check_validity=cv)
    except Exception as e:  # noqa: BLE001
        c = common.err_class(e)
        return "err refused" if c in ("value", "type") else "err " + c
    return "ok " + RENDER[cls](x)


def from_case(cls, cv, d):
    return f"json.from {cls} {1 if cv else 0} " + " ".join(enc(resolve_in(d))), impl_from(cls, cv, d)


def to_case(cls, x):
    d = x.to_dict(check_validity=False)
    b = x.serialize(check_validity=False) if cls != "tx" else x.serialize(include_witness=True, check_validity=False)
    line = f"json.to {cls} {hx(b)}"
    if cls == "txout":
        line += " " + hx(x.script_pub_key.network.encode())
    return line, "ok " + " ".join(enc(mask_out(d)))


# ------------------------------------------------------------------ mutations
def paths(d, at=()):
    out = [at] if at else []
    if isinstance(d, dict):
        for k, v in d.items():
            out += paths(v, at + (k,))
    elif isinstance(d, list):
        for i, v in enumerate(d):
            out += paths(v, at + (i,))
    return out


def get(d, p):
    for k in p:
        d = d[k]
    return d


def mutate(d, rng, cv):
    d = copy.deepcopy(d)
    ps = paths(d)
    if not ps:
        return d, "none"
    p = rng.choice(ps)
    parent, key, old = get(d, p[:-1]), p[-1], get(d, p)
    r = rng.random()
    is_int_leaf = key in INT_KEYS or (isinstance(old, int) and not isinstance(old, bool))
    if r < 0.15 and isinstance(parent, dict):
        del parent[key]
        return d, f"missing:{key}"
    if r < 0.22 and isinstance(parent, dict):
        parent["extra"] = rng.choice([1, "x", None])
        return d, "extra key"
    if isinstance(old, str) and key not in ("asm", "network", "type", "value") and r < 0.75:
        how = rng.choice(["upper", "odd", "nonhex", "spaces", "empty", "short", "long"])
        new = {"upper": old.upper(), "odd": old + "a", "nonhex": "zz" + old[2:], "spaces": " ".join(old[i:i + 2] for i in range(0, len(old), 2)) + " ",
               "empty": "", "short": old[2:], "long": old + "00"}[how]
        parent[key] = new
        return d, "hex:" + how
    if is_int_leaf:
        pool = [-1, 0, 1, 2**32 - 1, 2**32, 2**64]
        if cv:
            pool += [True, False, None, "5", [], {}]
        new = rng.choice(pool)
        parent[key] = new
        return d, "int:" + type(new).__name__ + (":" + ("neg" if new < 0 else "big" if new >= 2**32 else "in") if isinstance(new, int) and not isinstance(new, bool) else "")
    if key == "asm":
        parent[key] = rng.choice(["OP_WRONG", None, 5, old.lower() if isinstance(old, str) and old else "x"])
        return d, "asm"
    if key == "network":
        parent[key] = rng.choice(["testnet", "regtest", "nonet", 5, None, "MAINNET"])
        return d, "network"
    if key == "value":
        parent[key] = rng.choice([None, "0", "1", "21000000", "21000000.00000001", "-1", "abc", 1, True, "0.000000001", [], "1e-8"])
        return d, "value"
    if key in SCRIPT_KEYS and isinstance(old, dict) and r < 0.6:
        parent[key] = rng.choice([old.get("hex", ""), old.get("hex", "").upper(), {"hex": old.get("hex", "")}, {"asm": old.get("asm")}])
        return d, "script shape"
    parent[key] = rng.choice([None, 5, "00", [], {}, True])
    return d, "shape:" + type(parent[key]).__name__


def run(ctx, objects):
    rng = ctx.rng
    to_cases = {c: [] for c in CLASSES}
    from_cases = {c: [] for c in CLASSES}
    for _ in range(ctx.n(60, 1200)):
        objs = objects(rng)
        for cls in CLASSES:
            x = objs[cls + ".parse"]
            try:
                d = x.to_dict(check_validity=False)
                to_cases[cls].append(to_case(cls, x))
            except Exception as e:  # noqa: BLE001 - an amount no BTC text exists for (outside MoneyRange): no dict
                ctx.count("json.to.nodict", f"{cls}:{type(e).__name__}")
                continue
            for cv in (True, False):
                from_cases[cls].append(from_case(cls, cv, d))
                ctx.count("json.from.class", f"{cls}:as written")
            for _ in range(6):
                cv = rng.random() < 0.75
                m, how = mutate(d, rng, cv)
                try:
                    from_cases[cls].append(from_case(cls, cv, m))
                except (TypeError, UnicodeEncodeError):
                    continue
                ctx.count("json.from.mutation", how)
    for cls in CLASSES:
        ctx.correspond(f"json.{cls}.to", ctx.harness.EXE, to_cases[cls])
        for _ln, im in from_cases[cls]:
            ctx.count(f"json.{cls}.from.class", im[:11] if im.startswith("err") else "ok")
        ctx.correspond(f"json.{cls}.from", ctx.harness.EXE, from_cases[cls])
