"""C04 — observation layer: which bindings entry points were called, from which dispatch-consulting functions.

Two instruments, both installed for the whole of `run(ctx)` and removed afterwards:

* `BindingSpy` — EVERY public callable of `btclib._libsecp256k1` is enumerated by introspection (the functions it
  re-exports, every function DEFINED in a submodule it re-exports, every method of every class defined there) and wrapped
  in place: in the submodule / on the class, and under whatever alias a loaded `btclib.*` module bound it to at import.
  A call coming from inside `btclib_secp256k1` itself goes through unrecorded; a call coming from btclib is recorded with
  its entry-point name, whether it raised `ValueError`, and the btclib functions on the Python stack.
* `SiteMonitor` — `sys.monitoring` PY_START events on the code objects of the functions of the GENERATED inventory
  (`Gen.BackendSites.consulting`: every function of the package whose body consults the dispatch), so that "this op line
  entered this site" is observed, not assumed — also when the input is refused before any dispatch.

`Reach` accumulates, per inventory function: op lines that entered it, how many answered a value / each error class,
on how many it delegated (was on the stack of a bindings call), on how many the C call refused under it.
"""
from __future__ import annotations

import importlib
import inspect
import sys
import types

from . import common

_BINDINGS_PKG = "btclib_secp256k1"


def enumerate_entry_points():
    """[(name, owner object, attribute, original callable)] — by introspection of `btclib._libsecp256k1`"""
    import btclib._libsecp256k1 as L  # noqa: PLC0415
    out, seen = [], set()

    def add(name, owner, attr, fn):
        if (id(owner), attr) not in seen:
            seen.add((id(owner), attr))
            out.append((name, owner, attr, fn))

    def add_class(prefix, cls):
        for k, v in list(vars(cls).items()):
            if isinstance(v, types.FunctionType) and (not k.startswith("_") or k in ("__init__", "__call__")):
                add(f"{prefix}.{k}", cls, k, v)

    for name in sorted(n for n in dir(L) if not n.startswith("_")):
        v = getattr(L, name)
        if not (getattr(v, "__name__", "") if isinstance(v, types.ModuleType) else getattr(v, "__module__", "") or "").startswith(_BINDINGS_PKG):
            continue   # `os`, the flags, `ffi` (an object): nothing of the bindings to call
        if isinstance(v, types.ModuleType):
            for k, o in sorted(vars(v).items()):
                if k.startswith("_"):
                    continue
                if isinstance(o, types.FunctionType) and o.__module__ == v.__name__:
                    add(f"{name}.{k}", v, k, o)
                elif isinstance(o, type) and o.__module__ == v.__name__:
                    add_class(f"{name}.{k}", o)
        elif isinstance(v, type):
            add_class(name, v)
            home = sys.modules.get(v.__module__)
            if home is not None and getattr(home, v.__name__, None) is v:
                pass  # the class object itself stays: its methods are wrapped
        elif isinstance(v, types.FunctionType):
            home = sys.modules.get(v.__module__)
            if home is not None and getattr(home, v.__name__, None) is v:
                add(f"{v.__module__.split('.')[-1]}.{v.__name__}", home, v.__name__, v)
            else:
                add(name, L, name, v)
    return out


class BindingSpy:
    def __init__(self):
        self.entries = enumerate_entry_points()
        self.patched = []      # (owner, attr, original)
        self.hits = []         # current window: (entry, raised ValueError, (btclib functions on the stack))
        self.total = {}        # entry -> calls over the whole run
        self.installed = False

    def _wrap(self, name, fn):
        spy = self

        def wrapper(*a, **k):
            fr = sys._getframe(1)
            if fr.f_globals.get("__name__", "").startswith(_BINDINGS_PKG):
                return fn(*a, **k)
            stack = []
            while fr is not None:
                mod = fr.f_globals.get("__name__", "")
                if mod.startswith("btclib."):
                    stack.append(f"{mod}.{fr.f_code.co_qualname}")
                elif mod.startswith("harness"):
                    break
                fr = fr.f_back
            spy.total[name] = spy.total.get(name, 0) + 1
            rec = [name, False, tuple(stack)]
            spy.hits.append(rec)
            try:
                return fn(*a, **k)
            except ValueError:
                rec[1] = True
                raise
        wrapper.__wrapped__ = fn
        wrapper.__name__ = getattr(fn, "__name__", "wrapped")
        return wrapper

    def install(self):
        if self.installed:
            return
        by_id = {}
        for name, owner, attr, fn in self.entries:
            w = by_id.get(id(fn))
            if w is None:
                w = by_id[id(fn)] = self._wrap(name, fn)
            self.patched.append((owner, attr, fn))
            setattr(owner, attr, w)
        # aliases bound at import time in btclib's own modules (`from btclib._libsecp256k1 import pubkey_sum as …`)
        for mname, mod in list(sys.modules.items()):
            if mod is None or not (mname == "btclib" or mname.startswith("btclib.")):
                continue
            for k, v in list(vars(mod).items()):
                if isinstance(v, types.FunctionType) and id(v) in by_id:
                    self.patched.append((mod, k, v))
                    setattr(mod, k, by_id[id(v)])
        self.installed = True

    def uninstall(self):
        for owner, attr, fn in reversed(self.patched):
            setattr(owner, attr, fn)
        self.patched = []
        self.installed = False

    def window(self):
        h, self.hits = self.hits, []
        return h


class SiteMonitor:
    TOOL = 4

    def __init__(self, functions):
        """functions: `module.qualname` strings of the generated inventory"""
        self.codes = {}
        self.unresolved = []
        for f in functions:
            code = _resolve_code(f)
            if code is None:
                self.unresolved.append(f)
            else:
                self.codes[code] = f
        self.entered = set()
        self.on = False

    def install(self):
        mon = sys.monitoring
        try:
            mon.use_tool_id(self.TOOL, "c04-sites")
        except ValueError:
            mon.free_tool_id(self.TOOL)
            mon.use_tool_id(self.TOOL, "c04-sites")
        mon.register_callback(self.TOOL, mon.events.PY_START, self._cb)
        for code in self.codes:
            mon.set_local_events(self.TOOL, code, mon.events.PY_START)
        self.on = True

    def _cb(self, code, _offset):
        f = self.codes.get(code)
        if f is not None:
            self.entered.add(f)

    def uninstall(self):
        if not self.on:
            return
        mon = sys.monitoring
        for code in self.codes:
            mon.set_local_events(self.TOOL, code, 0)
        mon.register_callback(self.TOOL, mon.events.PY_START, None)
        mon.free_tool_id(self.TOOL)
        self.on = False

    def window(self):
        e, self.entered = self.entered, set()
        return e


def _resolve_code(qual):
    parts = qual.split(".")
    for i in range(len(parts) - 1, 0, -1):
        try:
            obj = importlib.import_module(".".join(parts[:i]))
        except ImportError:
            continue
        try:
            for p in parts[i:]:
                obj = obj.__dict__[p] if isinstance(obj, type) else getattr(obj, p)
        except (AttributeError, KeyError):
            return None
        if isinstance(obj, (staticmethod, classmethod)):
            obj = obj.__func__
        if isinstance(obj, property):
            obj = obj.fget
        obj = inspect.unwrap(obj)
        return getattr(obj, "__code__", None)
    return None


def _cls(ans: str) -> str:
    if ans.startswith("err "):
        return " ".join(ans.split(" ")[:2]).split(":")[0]
    return "ok"


class Reach:
    """per inventory function: what the both-arms op lines did there"""

    def __init__(self):
        self.spy = None
        self.mon = None
        self.inventory = {}     # function -> status
        self.rows = {}          # function -> counters
        self.off_arm = []       # (line, entries): the Python arm called into the bindings
        self.c_refused_lines = {}   # op line -> a C call raised ValueError on the bindings arm
        self.active = False

    def start(self, inventory):
        self.inventory = dict(inventory)
        self.spy = BindingSpy()
        self.mon = SiteMonitor([f for f, st in inventory.items() if st in ("site", "inside")])
        self.spy.install()
        self.mon.install()
        self.active = True

    def stop(self):
        if self.spy is not None:
            self.spy.uninstall()
        if self.mon is not None:
            self.mon.uninstall()
        self.active = False

    def begin(self):
        if self.active:
            self.spy.window()
            self.mon.window()

    def end(self):
        if not self.active:
            return set(), []
        return self.mon.window(), self.spy.window()

    def account(self, line, a, b, on, off):
        if not self.active:
            return
        ent_on, hits_on = on
        ent_off, hits_off = off
        if hits_off:
            self.off_arm.append((line, sorted({h[0] for h in hits_off})))
        delegating = {f for h in hits_on for f in h[2]}
        refused = {f for h in hits_on if h[1] for f in h[2]}
        api = line.split(" ")[0]
        self.c_refused_lines[line] = any(h[1] for h in hits_on)
        # "refused": an error class or the verdict False, on either arm
        refused_line = any(x.startswith("err") or x == "ok False" for x in (a, b))
        for f in ent_on | ent_off:
            r = self.rows.setdefault(f, {"lines": 0, "ok": 0, "err": 0, "delegated": 0, "c_refused": 0, "diverge": 0,
                                         "classes": {}, "apis": set()})
            r["lines"] += 1
            r["apis"].add(api)
            c = _cls(a) if a == b else "DIVERGE"
            r["classes"][c] = r["classes"].get(c, 0) + 1
            if a != b:
                r["diverge"] += 1
            if refused_line:
                r["err"] += 1
            else:
                r["ok"] += 1
            if f in delegating:
                r["delegated"] += 1
            if f in refused:
                r["c_refused"] += 1


REACH = Reach()

# inventory functions for which "no op line was REFUSED after entering it" is expected, with the reason
NO_HOSTILE_EXPECTED: dict[str, str] = {
    "btclib.curves.curve._TweakChain.point": "total on integers (a cancelling tweak answers INF); the refusals are __init__'s",
    "btclib.ecc.dsa._delegated_sign_": "its arguments are validated by Signer.__init__ / Signer.sign_ before it is entered",
    "btclib.ecc.dsa.Signer.wipe": "takes no input",
    "btclib.ecc.ssa.Signer.wipe": "takes no input",
    "btclib.silent_payments._delegated_output_keys": "output_keys refuses a zero key sum, a malformed address and more than K_MAX "
                                                     "recipients before the dispatch; what is left for create_outputs to "
                                                     "refuse needs a hash preimage",
    "btclib.script.taproot._tweaked_prvkey": "both callers refuse a private key outside 1..n-1 before it (verdict tap.prvroot)",
}
# inventory functions that never stand on the stack of a bindings call, with the reason
NO_DELEGATION_EXPECTED = {
    "btclib.ecc.dsa.Signer.wipe": "only overwrites the cffi buffer through `ffi` (an object, no callable entry point)",
    "btclib.curves.curve._x_octets": "only renders x as octets for its two callers (the `return` is the modelled delegation)",
}


def report(ctx):
    """evidence + the `site_reach` oracle: every function of the generated inventory (site / inside) was entered by the
    both-arms streams, answered a value on some line AND was refused on some (hostile) line, and was seen delegating"""
    r = REACH
    for f in r.mon.unresolved:
        ctx.oracle("site_reach", False, f"inventory function {f} cannot be resolved to a code object", key="site_reach.unresolved",
                   witness={"oracle": "site_reach", "witness": f})
    table = []
    for f, st in sorted(r.inventory.items()):
        if st not in ("site", "inside"):
            continue
        row = r.rows.get(f, {"lines": 0, "ok": 0, "err": 0, "delegated": 0, "c_refused": 0, "diverge": 0, "classes": {}, "apis": set()})
        short = f.replace("btclib.", "")
        for k in ("lines", "ok", "err", "delegated", "c_refused"):
            ctx.count("site.reach." + k, short, row[k])
        for c, n in row["classes"].items():
            ctx.count("site.reach.class", f"{short}|{c}", n)
        table.append(f"{short}: lines={row['lines']} ok={row['ok']} refused={row['err']} delegated={row['delegated']} "
                     f"C-refused={row['c_refused']} apis={len(row['apis'])}")
        missing = []
        if row["lines"] == 0:
            missing.append("never entered by a both-arms op line")
        else:
            if row["ok"] == 0:
                missing.append("never answered a value")
            if row["err"] == 0 and f not in NO_HOSTILE_EXPECTED:
                missing.append("never reached by a refused (hostile) input")
            if row["delegated"] == 0 and f not in NO_DELEGATION_EXPECTED:
                missing.append("never observed delegating")
        ctx.oracle("site_reach", not missing, f"{f}: {'; '.join(missing)}", key="site_reach." + short,
                   witness={"oracle": "site_reach", "witness": f})
    ctx.note("per-site reach of the both-arms streams (generated inventory): " + " || ".join(table))
    used = sorted(r.spy.total.items())
    ctx.note(f"bindings entry points wrapped: {len(r.spy.entries)} (by introspection of btclib._libsecp256k1); called from "
             f"btclib: {len(used)}: " + ", ".join(f"{k}={v}" for k, v in used))
    for k, v in used:
        ctx.count("bindings.entry", k, v)
    # the Python arm must not call into the bindings at all (every dual line builds its objects under its own arm)
    ctx.oracle("off_arm_silent", not r.off_arm,
               f"{len(r.off_arm)} op lines called the bindings with serving=False, first: {r.off_arm[:2]}",
               key="off_arm_silent", witness={"oracle": "off_arm_silent", "witness": [x[0] for x in r.off_arm[:3]]})


def inventory_from_driver(ctx, exe):
    out = ctx.model(exe, ["inventory"])
    if not out or not out[0].startswith("ok "):
        raise common.HarnessError(f"driver {exe} does not serve `inventory`: {out}")
    return dict(x.rsplit("=", 1) for x in out[0][3:].split(" "))
