"""C17 — property oracles on the real code alone that need no model: block validity over mined regtest blocks in
every witness configuration, and `next_bits` under several process time zones (harness/c17.py registers them)."""
from __future__ import annotations

import calendar
import contextlib
import copy
import os
import time
from datetime import datetime, timedelta, timezone
from zoneinfo import ZoneInfo

from btclib import var_bytes
from btclib.block import Block
from btclib.block import proof_of_work as pw
from btclib.block.block import merkle_root_and_mutated_from_transactions
from btclib.block.block_header import BlockHeader
from btclib.block.mining import VERSION, mine
from btclib.exceptions import BTClibValueError
from btclib.hashes import hash256, merkle_root_and_mutated_from_hashes
from btclib.script import ScriptPubKey, Witness
from btclib.tx import OutPoint, Tx, TxIn, TxOut
from btclib.utils import encode_num

_PREFIX = bytes.fromhex("6a24aa21a9ed")
_TIME = datetime(2024, 5, 1, 12, 0, 0, tzinfo=timezone.utc)
REG = pw.REGTEST_POW_LIMIT_BITS


# ------------------------------------------------------------------ block validity
def _legacy(n, salt):
    return Tx(1, 0, [TxIn(OutPoint(bytes([n, salt]) * 16, 0), b"\x01\x02", 0xFFFFFFFF)],
              [TxOut(10**9 + n, ScriptPubKey(b"\x51"))])


def _segwit(n, salt, item=b"\x01"):
    return Tx(2, 0, [TxIn(OutPoint(bytes([n, salt]) * 16, 1), b"", 0xFFFFFFFE, Witness([item, b"\x51"]))],
              [TxOut(10**9 + n, ScriptPubKey(b"\x00\x14" + bytes([n]) * 20))])


def _coinbase(out_scripts, stack, height):
    script_sig = var_bytes.serialize(encode_num(height)) + b"\x01\x00"
    return Tx(1, 0, [TxIn(OutPoint(), script_sig, 0xFFFFFFFF, Witness(stack))],
              [TxOut(50 * 10**8 if i == 0 else 0, ScriptPubKey(s)) for i, s in enumerate(out_scripts)])


def _wtxid(tx):
    return hash256(tx.serialize(include_witness=True, check_validity=False))


def _commitment(rest, nonce, leaf=_wtxid):
    """BIP141, computed here from the hash primitives only (not through Block)."""
    root = merkle_root_and_mutated_from_hashes([bytes(32)] + [leaf(t) for t in rest], hash256)[0]
    return hash256(root + nonce)


def _mined(root, prev):
    hdr = BlockHeader(version=VERSION, previous_block_hash=prev, merkle_root=root, time=_TIME, bits=REG, nonce=0)
    out = mine(hdr, 1 << 12)
    if out is None:
        raise RuntimeError("harness: regtest header not solved in 4096 tries")
    return out


@contextlib.contextmanager
def regtest_default():
    """Block.parse / Block(...) / serialize take no pow limit: they call assert_valid() with its default (mainnet).
    The DEFAULT ARGUMENT alone is swapped to regtest for the duration, so that the mined blocks reach the
    commitment checks through those entry points too; no code of btclib is replaced."""
    old = Block.assert_valid.__defaults__
    Block.assert_valid.__defaults__ = (REG,)
    try:
        yield
    finally:
        Block.assert_valid.__defaults__ = old


def _routes(hdr, txs):
    """every way the library is asked whether (header, transactions) is a block -> list of (route, None | error text)"""
    out = []
    blk = Block(hdr, txs, check_validity=False)

    def ask(name, fn):
        try:
            fn()
        except BTClibValueError as e:
            out.append((name, str(e)))
        else:
            out.append((name, None))

    ask("assert_valid(regtest)", lambda: blk.assert_valid(REG))
    raw = blk.serialize(check_validity=False)
    with regtest_default():
        ask("Block(header, txs)", lambda: Block(hdr, txs))
        ask("Block.parse", lambda: Block.parse(raw))
        ask("serialize(check_validity)", lambda: blk.serialize())
    # and under the real default the regtest work is no mainnet work
    try:
        Block.parse(raw)
        out.append(("Block.parse[mainnet default]", "accepted"))
    except BTClibValueError as e:
        if "above the limit" not in str(e):
            out.append(("Block.parse[mainnet default]", "refused for another reason: " + str(e)))
    return out, blk, raw


WITNESS_TAMPERS = ["wc.zero", "wc.flip", "wc.other_nonce", "wc.no_nonce_hash", "wc.notlast", "wc.missing", "wc.short",
                   "nonce.31", "nonce.33", "nonce.two", "nonce.empty_item"]
TX_TAMPERS = ["wc.txid_tree", "nonce.none", "wit.malleate", "wit.strip_one", "wit.reorder"]
ROOT_TAMPERS = ["root.flip", "root.swap", "root.drop", "root.dup", "root.extra"]
EXPECT = {"wc": "invalid witness commitment", "nonce": "invalid witness nonce", "wit": "invalid witness commitment",
          "root": "invalid merkle root"}


def block_validity(w):
    """a mined regtest block, honestly built, is accepted by Block.assert_valid, Block(...), Block.parse and
    serialize; the same block with ONE of: wrong / missing / superseded commitment, wrong-length / missing / doubled
    reserved value, a witness changed after the commitment, wrong header root, reordered / dropped / duplicated
    transactions -- re-mined where the header changes, so the work is valid -- is refused by every one of them and
    for that reason.  cfg: 'none' (no witness anywhere), 'coinbase' (only the coinbase's reserved value), 'tx'."""
    import random
    rng = random.Random(w["seed"])
    cfg, tamper = w["cfg"], w["tamper"]
    salt = rng.randrange(256)
    n_leg = w["legacy"]
    n_seg = max(1, w["segwit"]) if cfg == "tx" else 0
    rest = [_legacy(i + 1, salt) for i in range(n_leg)] + [_segwit(100 + i, salt, bytes([i + 1, salt])) for i in range(n_seg)]
    rng.shuffle(rest)
    nonce = bytes(rng.getrandbits(8) for _ in range(32)) if rng.random() < 0.8 else bytes(32)
    prev = bytes(rng.getrandbits(8) for _ in range(32))
    height = rng.choice([17, 500, 700_000])
    pay = rng.choice([b"\x51", b"\x00\x14" + bytes(20)])
    good = _commitment(rest, nonce)
    if cfg == "none":
        scripts, stack = ([pay], []) if rng.random() < 0.5 else ([pay, _PREFIX + good], [])
    else:
        scripts = [pay, _PREFIX + good] if rng.random() < 0.7 else [_PREFIX + bytes(32), pay, _PREFIX + good + b"\x01\x02"]
        stack = [nonce]
    cb = _coinbase(scripts, stack, height)
    txs = [cb] + rest
    root, mutated = merkle_root_and_mutated_from_transactions(txs)
    if mutated:
        return True, "harness: generated list is mutated"
    hdr = _mined(root, prev)
    routes, blk, raw = _routes(hdr, txs)
    bad = [(r, e) for r, e in routes if e is not None]
    if bad:
        return False, f"honest {cfg} block ({len(txs)} txs) refused: {bad[0][0]}: {bad[0][1]}"
    if blk.is_segwit != (cfg != "none"):
        return False, f"is_segwit {blk.is_segwit} on a {cfg} block"
    with regtest_default():
        back = Block.parse(raw)
    if back != blk or back.serialize(check_validity=False) != raw:
        return False, "parse . serialize is not the identity on the honest block"
    if tamper == "good":
        return True, f"{cfg}: honest block of {len(txs)} accepted on {len(routes)} routes"

    # ---- one tampering
    kind = tamper.split(".")[0]
    expect = EXPECT[kind]
    t_scripts, t_stack, t_rest, t_root, remine = list(scripts), list(stack), list(rest), None, True
    seg_idx = [i for i, t in enumerate(rest) if t.is_segwit]
    if tamper == "wc.zero":
        t_scripts[-1] = _PREFIX + bytes(32) + scripts[-1][38:]
    elif tamper == "wc.flip":
        k = rng.randrange(32)
        c = bytearray(good)
        c[k] ^= 1 << rng.randrange(8)
        t_scripts[-1] = _PREFIX + bytes(c) + scripts[-1][38:]
    elif tamper == "wc.other_nonce":
        t_scripts[-1] = _PREFIX + _commitment(rest, bytes([nonce[0] ^ 1]) + nonce[1:]) + scripts[-1][38:]
    elif tamper == "wc.no_nonce_hash":
        t_scripts[-1] = _PREFIX + merkle_root_and_mutated_from_hashes([bytes(32)] + [_wtxid(t) for t in rest], hash256)[0]
    elif tamper == "wc.txid_tree":
        t_scripts[-1] = _PREFIX + _commitment(rest, nonce, leaf=lambda t: t.id[::-1])
    elif tamper == "wc.notlast":
        t_scripts = t_scripts + [_PREFIX + hash256(good)]
    elif tamper == "wc.missing":
        t_scripts = [s for s in t_scripts if not s.startswith(_PREFIX)] or [pay]
        expect = "unexpected witness"
    elif tamper == "wc.short":
        t_scripts = [pay, (_PREFIX + good)[:37]]
        expect = "unexpected witness"
    elif tamper == "nonce.31":
        t_stack = [nonce[:31]]
    elif tamper == "nonce.33":
        t_stack = [nonce + b"\x00"]
    elif tamper == "nonce.two":
        t_stack = [nonce, nonce]
    elif tamper == "nonce.empty_item":
        t_stack = [b""]
    elif tamper == "nonce.none":
        t_stack = []
    elif tamper == "wit.malleate":
        i = rng.choice(seg_idx)
        t = copy.deepcopy(rest[i])
        st = list(rest[i].vin[0].script_witness.stack)
        st[0] = bytes([st[0][0] ^ 0x80]) + st[0][1:]      # another witness for the same txid
        t.vin[0].script_witness = Witness(st)
        t_rest[i] = t
        remine = False                                  # the txid, hence the header, does not move
    elif tamper == "wit.strip_one":
        i = rng.choice(seg_idx)
        t = copy.deepcopy(rest[i])
        t.vin[0].script_witness = Witness()
        t_rest[i] = t
        remine = False
        if len(seg_idx) < 2:
            return True, "needs two transactions with a witness"
    elif tamper == "wit.reorder":
        # the witnesses of two segwit transactions exchanged: txids and header untouched
        if len(seg_idx) < 2:
            return True, "needs two transactions with a witness"
        i, j = rng.sample(seg_idx, 2)
        a, b = copy.deepcopy(rest[i]), copy.deepcopy(rest[j])
        a.vin[0].script_witness, b.vin[0].script_witness = rest[j].vin[0].script_witness, rest[i].vin[0].script_witness
        t_rest[i], t_rest[j] = a, b
        remine = False
    elif tamper == "root.flip":
        r = bytearray(root)
        r[rng.randrange(32)] ^= 1 << rng.randrange(8)
        t_root = bytes(r)
    elif tamper == "root.swap":
        if len(rest) < 2:
            return True, "needs two transactions after the coinbase"
        i, j = rng.sample(range(len(rest)), 2)
        t_rest[i], t_rest[j] = rest[j], rest[i]
        remine = False
    elif tamper == "root.drop":
        if not rest:
            return True, "needs a transaction after the coinbase"
        t_rest = rest[:-1]
        remine = False
    elif tamper == "root.extra":
        t_rest = rest + [_legacy(250, salt)]
        remine = False
    elif tamper == "root.dup":
        if len(txs) % 2 == 0 or len(txs) < 3:
            return True, "needs an odd count of at least three"
        t_rest = rest + [rest[-1]]
        remine = False
        expect = "duplicate transaction"
    else:
        return False, f"harness: unknown tampering {tamper}"
    t_cb = _coinbase(t_scripts, t_stack, height) if (t_scripts, t_stack) != (scripts, stack) else cb
    t_txs = [t_cb] + t_rest
    if remine:
        t_hdr = _mined(t_root if t_root is not None else merkle_root_and_mutated_from_transactions(t_txs)[0], prev)
    else:
        t_hdr = hdr
    if kind in ("wc", "nonce", "wit") and not any(t.is_segwit for t in t_txs):
        return True, f"{tamper} leaves no witness in a {cfg} block: nothing to commit to (accepted by design)"
    t_routes, _, t_raw = _routes(t_hdr, t_txs)
    what = (f"{cfg} block, coinbase + {len(t_rest)} ({sum(t.is_segwit for t in t_rest)} with a witness), tampering "
            f"`{tamper}`; raw block {t_raw.hex() if len(t_raw) < 700 else t_raw[:350].hex() + '…'}")
    for r, e in t_routes:
        if r.endswith("[mainnet default]"):
            return False, f"{r}: {e}: {what}"
        if e is None:
            return False, f"ACCEPTED by {r} (expected `{expect}`): {what}"
        if expect not in e:
            return False, f"{r} refuses with `{e[:80]}` instead of `{expect}`: {what}"
    return True, f"{cfg}/{tamper}: refused on {len(t_routes)} routes"


_REAL = {}


def block_validity_real(w):
    """the same on mainnet block 481824 under the REAL default limit: everything the header does not cover (the
    coinbase's reserved value, any witness) is changed, the work stays valid, the block must be refused by
    Block.parse(check_validity=True) and assert_valid() for the commitment."""
    import random
    rng = random.Random(w["seed"])
    if "blk" not in _REAL:
        with open("/repo/tests/block/_data/block_481824_complete.bin", "rb") as f:
            _REAL["raw"] = f.read()
        _REAL["blk"] = Block.parse(_REAL["raw"])
    blk = _REAL["blk"]
    txs = list(blk.transactions)
    tamper = w["tamper"]
    expect = "invalid witness commitment"
    if tamper.startswith("nonce"):
        cb = copy.deepcopy(txs[0])
        old = cb.vin[0].script_witness.stack[0]
        new = {"nonce.flip": bytes([old[0] ^ 1]) + old[1:], "nonce.31": old[:31], "nonce.33": old + b"\x00"}[tamper]
        cb.vin[0].script_witness = Witness([new])
        txs[0] = cb
        if tamper != "nonce.flip":
            expect = "invalid witness nonce"
    else:
        seg = [i for i, t in enumerate(txs) if i and t.is_segwit]
        i = rng.choice(seg)
        t = copy.deepcopy(txs[i])
        st = list(t.vin[0].script_witness.stack)
        if tamper == "wit.malleate":
            k = rng.randrange(len(st))
            st[k] = st[k] + b"\x00" if not st[k] else bytes([st[k][0] ^ 1]) + st[k][1:]
        else:
            st = st + [b""]
        t.vin[0].script_witness = Witness(st)
        txs[i] = t
    bad = Block(blk.header, txs, check_validity=False)
    if bad.header.hash != blk.header.hash or bad.header.merkle_root != blk.header.merkle_root:
        return False, "harness: the tampering moved the header"
    raw = bad.serialize(check_validity=False)
    for name, fn in (("assert_valid()", bad.assert_valid), ("Block.parse", lambda: Block.parse(raw))):
        try:
            fn()
        except BTClibValueError as e:
            if expect not in str(e):
                return False, f"block 481824 + {tamper}: {name} refuses with `{str(e)[:80]}` instead of `{expect}`"
        else:
            return False, f"block 481824 + {tamper}: ACCEPTED by {name} (same header, same work, other witness data)"
    return True, f"481824/{tamper}"


# ------------------------------------------------------------------ next_bits under process time zones
ZONES = ["UTC", "Europe/Rome", "America/New_York", "Australia/Lord_Howe"]


@contextlib.contextmanager
def process_tz(name):
    old = os.environ.get("TZ")
    os.environ["TZ"] = name
    time.tzset()
    try:
        yield
    finally:
        if old is None:
            os.environ.pop("TZ", None)
        else:
            os.environ["TZ"] = old
        time.tzset()


def dst_changes(zone, years=(2019, 2020, 2021, 2022, 2023, 2024)):
    """naive local midnights (y, m, d) of the days on which `zone`'s UTC offset changes"""
    if zone == "UTC":
        return []
    z = ZoneInfo(zone)
    out = []
    for y in years:
        d = datetime(y, 1, 1, 12)
        prev = d.replace(tzinfo=z).utcoffset()
        for _ in range(366):
            d += timedelta(days=1)
            off = d.replace(tzinfo=z).utcoffset()
            if off != prev and d.year == y:
                out.append((d.year, d.month, d.day))
            prev = off
    return out


def _unix(dt):
    """integer unix time of an aware datetime, by integer calendar arithmetic on its UTC reading"""
    return calendar.timegm(dt.astimezone(timezone.utc).utctimetuple())


def _wall(dt):
    return calendar.timegm(dt.timetuple())


def make_times(w):
    """(first, last, reference seconds) for a witness.  naive: `seconds` of wall clock (the reading next_bits documents:
    zone-independent).  aware: the two instants are `seconds` of unix time apart."""
    first_naive = datetime(*w["first"])
    s = w["seconds"]
    kind = w["kind"]
    if kind == "naive":
        first, last = first_naive, first_naive + timedelta(seconds=s)
        return first, last, _wall(last) - _wall(first)
    if kind == "utc":
        first = first_naive.replace(tzinfo=timezone.utc)
        last = first + timedelta(seconds=s)
    elif kind == "offset":
        tz = timezone(timedelta(minutes=w.get("offset", 630)))
        first = first_naive.replace(tzinfo=tz)
        last = (first.astimezone(timezone.utc) + timedelta(seconds=s)).astimezone(timezone(timedelta(minutes=-w.get("offset", 630))))
    elif kind == "mixed":          # first in the zone, last in UTC (or the other way round)
        z = ZoneInfo(w["zone"])
        first = first_naive.replace(tzinfo=z)
        last = first.astimezone(timezone.utc) + timedelta(seconds=s)
        if w.get("flip"):
            first, last = first.astimezone(timezone.utc), last.astimezone(z)
    elif kind == "same_zone":      # both readings carry the same ZoneInfo object
        z = ZoneInfo(w["zone"])
        first = first_naive.replace(tzinfo=z)
        last = (first.astimezone(timezone.utc) + timedelta(seconds=s)).astimezone(z)
    else:
        raise ValueError(kind)
    return first, last, _unix(last) - _unix(first)


_T0 = datetime(2020, 1, 1, tzinfo=timezone.utc)


def datetimes_for(timespan):
    """two datetimes `timespan` elapsed seconds apart, the representation chosen by the number itself (aware UTC,
    aware in one DST zone with a shared tzinfo object, aware in two zones, fixed offsets, naive), the start moving
    over four years so that the windows lie across daylight-saving changes.  Used by the pow.next stream so that the
    glue datetime -> seconds is part of what the stream ties."""
    k = abs(timespan) % 7
    first = _T0 + timedelta(seconds=(abs(timespan) * 7919) % (4 * 365 * 86400))
    last = first + timedelta(seconds=timespan)
    zones = ZONES[1:]
    if k == 0:
        return first, last
    if k in (1, 2, 3):
        z = ZoneInfo(zones[k - 1])
        return first.astimezone(z), last.astimezone(z)
    if k == 4:
        return first.astimezone(ZoneInfo(zones[abs(timespan) % 3])), last.astimezone(ZoneInfo(zones[(abs(timespan) + 1) % 3]))
    if k == 5:
        return first.astimezone(timezone(timedelta(minutes=630))), last.astimezone(timezone(timedelta(minutes=-210)))
    return first.replace(tzinfo=None), last.replace(tzinfo=None)


def next_bits_tz(w, core_next):
    """next_bits under the process time zone w['tz'] against Core's integer arithmetic over the reference seconds"""
    bits = int(w["bits"])
    lim = int(w.get("limit", 0x1D00FFFF))
    with process_tz(w["tz"]):
        first, last, ref = make_times(w)
        got = pw.next_bits(bits.to_bytes(4, "big"), first, last, pow_limit_bits=lim.to_bytes(4, "big"))
        again = pw.next_bits(bits.to_bytes(4, "big"), first, last, pow_limit_bits=lim.to_bytes(4, "big"))
    with process_tz("UTC"):
        in_utc = pw.next_bits(bits.to_bytes(4, "big"), first, last, pow_limit_bits=lim.to_bytes(4, "big"))
    want = core_next(bits, ref, int.from_bytes(pw.target_from_bits(lim.to_bytes(4, "big")), "big"))
    desc = (f"TZ={w['tz']} next_bits({bits:08x}, {first!r}, {last!r}) [{w['kind']}, reference {ref} s]")
    if int.from_bytes(got, "big") != want:
        return False, f"{desc} = {got.hex()}, Core's arithmetic over {ref} s gives {want:08x}"
    if got != again or got != in_utc:
        return False, f"{desc} = {got.hex()} but {in_utc.hex()} with the process in UTC"
    return True, desc
