"""Per-property manifest entries (edited by hand; tools/mkmanifest.py renders MANIFEST.json)."""
NOTES = ("Technique: machine-checked proof in Lean 4 of a formal model, tied to /repo on every run by a translator "
         "(tools/extract.py -> lean/Generated) and a correspondence harness (harness/*.py vs compiled Lean drivers). "
         "See DESIGN.md.")

_TB = ("Lean kernel + Mathlib; axioms propext/Classical.choice/Quot.sound only (audited each run); translator and "
       "harness trusted, validated by gen.* streams; ")

CLAIMED = {
    "C05": {
        "text": "Lean theorems (for all integers / all byte strings): CompactSize parse∘serialize and serialize∘parse "
                "are inverse with exact consumption, size = length, domain exactly 0..2^64-1; stated about the "
                "serializer and size function TRANSLATED from the source each run and a parser model tied by "
                "correspondence. Partial: further wire classes are being added to the model; classes without a "
                "model are covered by the direct round-trip oracle on the real code only.",
        "note": _TB + "parser model hand-written (Model/C05), tied by differential streams; JSON/base64 layers not modelled.",
        "technique": "Lean 4 proof over translated source + model/implementation correspondence",
    },
}

_PENDING = "model, theorems and correspondence for this property are not built yet in this revision (planned: DESIGN.md §3); not claimed until they run"
NOT_APPLICABLE = {f"C{i:02d}": _PENDING for i in range(1, 21) if f"C{i:02d}" not in CLAIMED}
