"""Per-property manifest entries (edited by hand; tools/mkmanifest.py renders MANIFEST.json)."""
NOTES = ("Technique: machine-checked proof in Lean 4 of a formal model, tied to /repo on every run by a translator "
         "(tools/extract.py -> lean/Generated) and a correspondence harness (harness/*.py vs compiled Lean drivers). "
         "See DESIGN.md.")

_TB = ("Lean kernel + Mathlib; axioms propext/Classical.choice/Quot.sound only (audited each run); translator and "
       "harness trusted, validated by gen.* streams; ")

import glob, json, os
CLAIMED = {}
for _f in sorted(glob.glob(os.path.join(os.path.dirname(__file__), "manifest", "C??.json"))):
    CLAIMED[os.path.basename(_f)[:3]] = json.load(open(_f))   # keys: text, note, technique[, design_ref]

_PENDING = "model, theorems and correspondence for this property are not built yet in this revision (planned: DESIGN.md §3); not claimed until they run"
NOT_APPLICABLE = {f"C{i:02d}": _PENDING for i in range(1, 21) if f"C{i:02d}" not in CLAIMED}
