#!/usr/bin/env python3
"""Generate lean/Proofs/Common/CataloguePrime{A,}.lean (and lean/Proofs/E2E/CatalogueOk.lean, see `render_ok`): Pratt primality certificates for the field size `p` and the
group order `n` of every curve of btclib's catalogue (`btclib.curves.curve.CURVES`, read from the library itself).

Generalises tools/gen_pratt.py (secp256k1 only, left untouched).  For every prime q in the recursive factorisation
tree of p-1 and n-1 one lemma `prime_<q> : Nat.Prime q`, smallest first and SHARED between the trees: primes < 100 by
`norm_num`, the others by `Btc.Pratt.pratt` (lean/Proofs/Common/Pratt.lean) from a witness `a` (least primitive
root), the factorisation of q-1 and the lemmas of its prime factors; the Boolean certificate check is evaluated by
the kernel (`decide +kernel`).  Nothing here is trusted: a wrong factor / witness makes the Lean file fail to check.

Factoring is the only expensive step: each `q-1` is factored in a child process under a time limit (sympy.factorint
for --limit s, then GNU `factor` for --limit s when installed, then a small ECM helper -- C + GMP, source embedded
below, compiled under the temp dir when `cc` and gmp.h are there -- for --ecm-limit s); a root (a curve's p or n) whose tree contains a number that cannot be factored in
time is SKIPPED (no theorem emitted, listed in the header comment).  Factorisations already present in the output
file are re-used as hints (re-verified: product and sympy.isprime of every factor), so re-generation is fast and
reproduces the file byte for byte.

usage: PYTHONPATH=/repo python3-vt tools/gen_pratt_catalogue.py [--check] [--limit S] [--ecm-limit S] [--jobs N] [--no-hints] [--cache FILE.json]
       (--check: exit 1 if the committed file differs; needs sympy, hence python3-vt)
"""
import json
import multiprocessing as mp
import os
import re
import shutil
import subprocess
import sys
import tempfile
import time

from sympy import factorint, isprime, perfect_power

SMALL = 100
HERE = os.path.dirname(os.path.abspath(__file__))
OUT = os.path.join(HERE, "..", "lean", "Proofs", "Common", "CataloguePrime.lean")
OUT_A = os.path.join(HERE, "..", "lean", "Proofs", "Common", "CataloguePrimeA.lean")   # first half of the shared lemmas


def arg(name, default):
    if name in sys.argv:
        return type(default)(sys.argv[sys.argv.index(name) + 1])
    return default


LIMIT = arg("--limit", 120.0)
JOBS = max(1, min(4, arg("--jobs", 3)))
ECM_LIMIT = arg("--ecm-limit", 900.0)   # third stage: embedded ECM helper (C + GMP), when a C compiler is there
CACHE = arg("--cache", "")      # optional JSON side cache of factorisations {q: [[r, e], ...]} (re-verified when read)


def curves():
    from btclib.curves.curve import CURVES
    return {name: (int(CURVES[name].p), int(CURVES[name].n)) for name in sorted(CURVES)}


# ---- factoring with a time limit ------------------------------------------------------------------------------

def _child(m, stage, limit, conn):
    try:
        if stage == 0:
            conn.send(sorted((int(r), int(e)) for r, e in factorint(m).items()))
        elif stage == 1:
            conn.send(gnu_factor(m, limit))
        else:
            conn.send(ecm_factor(m, ECM_LIMIT))
    except BaseException as e:  # noqa
        conn.send(("error", repr(e)))


def gnu_factor(m, limit):
    exe = shutil.which("factor")
    if not exe:
        return None
    try:
        r = subprocess.run([exe, str(m)], capture_output=True, text=True, timeout=limit)
    except subprocess.TimeoutExpired:
        return None
    if r.returncode != 0 or ":" not in r.stdout:
        return None
    fs = {}
    for t in r.stdout.split(":")[1].split():
        fs[int(t)] = fs.get(int(t), 0) + 1
    return sorted(fs.items())


ECM_C = r'''
/* minimal GMP-ECM-like helper: Montgomery curves (Suyama), stage 1 + standard continuation stage 2.
   usage: ecm N B1 ncurves seed   -> prints a non-trivial factor of N (decimal) or "none" */
#include <gmp.h>
#include <stdio.h>
#include <stdlib.h>
#include <string.h>
typedef struct { mpz_t X, Z; } pt;
static mpz_t N, A24, t1, t2, t3, t4, t5, t6;
static void pinit(pt *p) { mpz_init(p->X); mpz_init(p->Z); }
static void pset(pt *r, const pt *p) { mpz_set(r->X, p->X); mpz_set(r->Z, p->Z); }
static void dbl(pt *R, const pt *P) {
  mpz_add(t1, P->X, P->Z); mpz_mul(t1, t1, t1); mpz_mod(t1, t1, N);
  mpz_sub(t2, P->X, P->Z); mpz_mul(t2, t2, t2); mpz_mod(t2, t2, N);
  mpz_sub(t3, t1, t2);
  mpz_mul(t4, A24, t3); mpz_add(t4, t4, t2);
  mpz_mul(R->X, t1, t2); mpz_mod(R->X, R->X, N);
  mpz_mul(R->Z, t3, t4); mpz_mod(R->Z, R->Z, N);
}
static void dadd(pt *R, const pt *P, const pt *Q, const pt *D) {
  mpz_sub(t1, P->X, P->Z); mpz_add(t2, Q->X, Q->Z); mpz_mul(t1, t1, t2); mpz_mod(t1, t1, N);
  mpz_add(t3, P->X, P->Z); mpz_sub(t4, Q->X, Q->Z); mpz_mul(t3, t3, t4); mpz_mod(t3, t3, N);
  mpz_add(t5, t1, t3); mpz_mul(t5, t5, t5); mpz_mod(t5, t5, N);
  mpz_sub(t6, t1, t3); mpz_mul(t6, t6, t6); mpz_mod(t6, t6, N);
  mpz_mul(t5, t5, D->Z); mpz_mod(t5, t5, N);
  mpz_mul(t6, t6, D->X); mpz_mod(t6, t6, N);
  mpz_set(R->X, t5); mpz_set(R->Z, t6);
}
static pt L0, L1, LP;
static void mul(pt *R, const pt *P, unsigned long k) { /* R = [k]P, k >= 1 */
  if (k == 1) { pset(R, P); return; }
  pset(&LP, P); pset(&L0, P); dbl(&L1, P);
  int top = 63; while (!((k >> top) & 1)) top--;
  for (int i = top - 1; i >= 0; i--) {
    if ((k >> i) & 1) { dadd(&L0, &L0, &L1, &LP); dbl(&L1, &L1); }
    else { dadd(&L1, &L0, &L1, &LP); dbl(&L0, &L0); }
  }
  pset(R, &L0);
}
static int found(mpz_t g) { return mpz_cmp_ui(g, 1) > 0 && mpz_cmp(g, N) < 0; }
#define D 2310
int main(int argc, char **argv) {
  if (argc < 5) return 2;
  mpz_init_set_str(N, argv[1], 10);
  unsigned long B1 = strtoul(argv[2], 0, 10), nc = strtoul(argv[3], 0, 10), seed = strtoul(argv[4], 0, 10);
  unsigned long B2 = 100 * B1;
  mpz_inits(A24, t1, t2, t3, t4, t5, t6, NULL);
  pinit(&L0); pinit(&L1); pinit(&LP);
  /* odd sieve up to B2 + 2D */
  unsigned long lim = B2 + 2 * D, half = lim / 2 + 1;
  unsigned char *comp = calloc(half, 1); /* comp[i] <-> 2i+1 */
  for (unsigned long i = 1; (2 * i + 1) * (2 * i + 1) <= lim; i++)
    if (!comp[i]) for (unsigned long j = 2 * i * (i + 1); j < half; j += 2 * i + 1) comp[j] = 1;
#define ISPRIME(n) ((n) == 2 || ((n) > 2 && ((n) & 1) && !comp[(n) / 2]))
  gmp_randstate_t rs; gmp_randinit_default(rs); gmp_randseed_ui(rs, seed);
  mpz_t sig, u, v, g, acc, inv; mpz_inits(sig, u, v, g, acc, inv, NULL);
  pt Q, S[D / 2 + 1], T0, T1, T2, DQ, Q2; pinit(&Q); pinit(&T0); pinit(&T1); pinit(&T2); pinit(&DQ); pinit(&Q2);
  for (int j = 0; j <= D / 2; j++) pinit(&S[j]);
  static int cop[D / 2 + 1];
  for (int j = 1; j <= D / 2; j++) cop[j] = (j % 2 && j % 3 && j % 5 && j % 7 && j % 11);
  for (unsigned long c = 0; c < nc; c++) {
    mpz_urandomm(sig, rs, N); if (mpz_cmp_ui(sig, 6) < 0) mpz_add_ui(sig, sig, 6);
    mpz_mul(u, sig, sig); mpz_sub_ui(u, u, 5); mpz_mod(u, u, N);
    mpz_mul_ui(v, sig, 4); mpz_mod(v, v, N);
    mpz_powm_ui(Q.X, u, 3, N); mpz_powm_ui(Q.Z, v, 3, N);
    /* A24 = (v-u)^3 (3u+v) / (16 u^3 v) */
    mpz_sub(t1, v, u); mpz_powm_ui(t1, t1, 3, N); mpz_mul_ui(t2, u, 3); mpz_add(t2, t2, v); mpz_mul(t1, t1, t2); mpz_mod(t1, t1, N);
    mpz_mul(t2, Q.X, v); mpz_mul_ui(t2, t2, 16); mpz_mod(t2, t2, N);
    if (!mpz_invert(inv, t2, N)) { mpz_gcd(g, t2, N); if (found(g)) { gmp_printf("%Zd\n", g); return 0; } continue; }
    mpz_mul(A24, t1, inv); mpz_mod(A24, A24, N);
    /* stage 1 */
    for (unsigned long q = 2; q <= B1; q++) if (ISPRIME(q)) {
      unsigned long qe = q; while (qe <= B1 / q) qe *= q;
      mul(&Q, &Q, qe);
    }
    mpz_gcd(g, Q.Z, N);
    if (found(g)) { gmp_printf("%Zd\n", g); return 0; }
    if (mpz_cmp(g, N) == 0) continue;
    /* stage 2: S[j] = [j]Q for odd j <= D/2 ; T_k = [kD]Q */
    pset(&S[1], &Q); dbl(&Q2, &Q); dadd(&S[3], &Q2, &Q, &Q);
    for (int j = 5; j <= D / 2; j += 2) dadd(&S[j], &S[j - 2], &Q2, &S[j - 4]);
    mul(&DQ, &Q, D);
    unsigned long k0 = B1 / D; if (k0 < 1) k0 = 1;
    mul(&T0, &Q, k0 * D); mul(&T1, &Q, (k0 + 1) * D);
    mpz_set_ui(acc, 1);
    for (unsigned long k = k0; k * D <= B2 + D; k++) {
      /* T0 = [kD]Q */
      for (int j = 1; j <= D / 2; j++) if (cop[j]) {
        unsigned long a = k * D + j, b = k * D - j;
        if (ISPRIME(a) || ISPRIME(b)) {
          mpz_mul(t1, T0.X, S[j].Z); mpz_mul(t2, S[j].X, T0.Z); mpz_sub(t1, t1, t2);
          mpz_mul(acc, acc, t1); mpz_mod(acc, acc, N);
        }
      }
      dadd(&T2, &T1, &DQ, &T0); pset(&T0, &T1); pset(&T1, &T2);
    }
    mpz_gcd(g, acc, N);
    if (found(g)) { gmp_printf("%Zd\n", g); return 0; }
  }
  printf("none\n");
  return 0;
}
'''


def ecm_exe():
    """compile the embedded ECM helper (needs cc and GMP's header); None when that is not possible"""
    d = os.path.join(tempfile.gettempdir(), "gen_pratt_catalogue_ecm")
    exe = os.path.join(d, "ecm")
    if os.path.exists(exe):
        return exe
    cc = shutil.which("cc") or shutil.which("gcc")
    if not cc:
        return None
    os.makedirs(d, exist_ok=True)
    src = os.path.join(d, f"ecm{os.getpid()}.c")
    with open(src, "w") as f:
        f.write(ECM_C)
    tmp = exe + str(os.getpid())
    r = subprocess.run([cc, "-O2", "-o", tmp, src, "-lgmp"], capture_output=True, text=True)
    if r.returncode != 0:
        return None
    os.replace(tmp, exe)
    return exe


def ecm_factor(m, limit):
    """full factorisation of m with the ECM helper within `limit` seconds, or None"""
    exe = ecm_exe()
    if not exe:
        return None
    t_end = time.time() + limit
    fs = {}
    work = []
    for r, e in factorint(m, limit=1 << 16, use_rho=False, use_pm1=False, use_ecm=False).items():
        if isprime(r):
            fs[int(r)] = fs.get(int(r), 0) + int(e)
        else:
            work.append((int(r), int(e)))
    seed = 1
    while work:
        c, e = work.pop()
        r = perfect_power(c)
        if r:
            work.append((int(r[0]), e * int(r[1])))
            continue
        g = None
        for b1, nc in ((2000, 30), (11000, 100), (50000, 300), (250000, 700), (1000000, 1800), (3000000, 5000)):
            done = 0
            while done < nc and g is None:
                left = t_end - time.time()
                if left <= 0:
                    return None
                step = min(nc - done, max(1, 4000000 // b1))
                seed += 1
                try:
                    out = subprocess.run([exe, str(c), str(b1), str(step), str(seed)], capture_output=True, text=True,
                                         timeout=left).stdout.strip()
                except subprocess.TimeoutExpired:
                    return None
                done += step
                if out.isdigit() and 1 < int(out) < c and c % int(out) == 0:
                    g = int(out)
            if g is not None:
                break
        if g is None:
            return None
        for x in (g, c // g):
            if isprime(x):
                fs[x] = fs.get(x, 0) + e
            else:
                work.append((x, e))
    return sorted(fs.items())


def valid(m, fs):
    prod = 1
    for r, e in fs:
        if not isprime(r):
            return False
        prod *= r ** e
    return prod == m


def load_hints():
    hints = {}
    if "--no-hints" in sys.argv:
        return hints
    if CACHE and os.path.exists(CACHE):
        for q, fs in json.load(open(CACHE)).items():
            fs = [(int(a), int(b)) for a, b in fs]
            if valid(int(q) - 1, fs):
                hints[int(q)] = sorted(fs)
    txt = "".join(open(pth).read() for pth in (OUT_A, OUT) if os.path.exists(pth))
    for mt in re.finditer(r"pratt (\d+) \d+ \[([^\]]*)\]", txt):
        q = int(mt.group(1))
        fs = [(int(a), int(b)) for a, b in re.findall(r"\((\d+), (\d+)\)", mt.group(2))]
        if valid(q - 1, fs):
            hints[q] = sorted(fs)
    return hints


def save_cache(q, fs):
    if not CACHE:
        return
    d = json.load(open(CACHE)) if os.path.exists(CACHE) else {}
    d[str(q)] = [list(x) for x in fs]
    with open(CACHE + ".tmp", "w") as f:
        json.dump(d, f, indent=0)
    os.replace(CACHE + ".tmp", CACHE)


STAGES = ("sympy.factorint", "GNU factor", "ECM helper")


def stage_limit(stage):
    return ECM_LIMIT if stage == 2 else LIMIT


def next_stage(stage):
    """the next factoring stage available on this machine, or None"""
    for s in range(stage + 1, 3):
        if s == 1 and shutil.which("factor"):
            return s
        if s == 2 and ECM_LIMIT > 0 and ecm_exe():
            return s
    return None


def tree(roots, log):
    """seen: {q: None (small) | factorisation of q-1 | 'fail'} for every prime of the trees of the roots.
    One work queue, at most JOBS children at a time: a prime is queued as soon as it appears in a factorisation;
    stage 0 = sympy.factorint, then (after a failure / time-out) 1 = GNU factor, then 2 = the ECM helper;
    cheaper stages and smaller numbers first."""
    hints = load_hints()
    seen, todo, running = {}, [], []

    def visit(q):
        if q in seen:
            return
        if q < SMALL:
            seen[q] = None
        elif q in hints:
            seen[q] = hints[q]
            for r, _ in hints[q]:
                visit(r)
        elif q < 1 << 64:             # instant: not worth a child process
            seen[q] = sorted((int(r), int(e)) for r, e in factorint(q - 1).items())
            for r, _ in seen[q]:
                visit(r)
        else:
            seen[q] = "pending"
            todo.append((0, q))

    def failed(q, stage):
        nx = next_stage(stage)
        if nx is None:
            log(f"  GIVING UP on {q.bit_length()}-bit {q}-1")
            seen[q] = "fail"
        else:
            log(f"  {STAGES[stage]} failed (limit {stage_limit(stage):.0f} s) on {q.bit_length()}-bit {q}-1; queueing {STAGES[nx]}")
            todo.append((nx, q))

    for q in sorted(set(roots)):
        visit(q)
    while todo or running:
        todo.sort()
        while todo and len(running) < JOBS:
            stage, q = todo.pop(0)
            a, b = mp.Pipe(duplex=False)
            pr = mp.Process(target=_child, args=(q - 1, stage, LIMIT, b))
            pr.start()
            running.append((q, stage, pr, a, time.time()))
        time.sleep(0.05)
        still = []
        for q, stage, pr, a, t0 in running:
            if a.poll():
                v = a.recv()
                pr.join()
                if isinstance(v, tuple):
                    log(f"  error on {q}-1: {v[1]}")
                    v = None
                if v is not None and not valid(q - 1, v):
                    v = None
                if v is None:
                    failed(q, stage)
                else:
                    seen[q] = v
                    save_cache(q, v)
                    if time.time() - t0 > 5:
                        log(f"  factored {q.bit_length()}-bit {q}-1 in {time.time() - t0:.0f} s ({STAGES[stage]})")
                    for r, _ in v:
                        visit(r)
            elif time.time() - t0 > stage_limit(stage) + (15 if stage else 0):
                pr.terminate()
                pr.join()
                failed(q, stage)
            else:
                still.append((q, stage, pr, a, t0))
        running = still
    return seen


def provable(seen):
    """the primes whose whole tree was factored"""
    ok = {}

    def go(q):
        if q in ok:
            return ok[q]
        v = seen[q]
        ok[q] = False if v == "fail" else (True if v is None else all(go(r) for r, _ in v))
        return ok[q]

    for q in seen:
        go(q)
    return ok


def witness(q, fs):
    a = 2
    while True:
        if pow(a, q - 1, q) != 1:
            raise ValueError(f"{q} is not prime")
        if all(pow(a, (q - 1) // r, q) != 1 for r, _ in fs):
            return a
        a += 1


def hexlit(v):
    return "0x%X" % v


def render(log=lambda s: None):
    cs = curves()
    roots = []
    for name, (p, n) in cs.items():
        for v in (p, n):
            if not isprime(v):
                raise ValueError(f"{name}: {v} is not prime")
            roots.append(v)
    seen = tree(roots, log)
    ok = provable(seen)
    need = set()

    def mark(q):
        if q in need:
            return
        need.add(q)
        if seen[q] is not None:
            for r, _ in seen[q]:
                mark(r)

    for v in roots:
        if ok[v]:
            mark(v)
    skipped = [(name, which, v) for name, (p, n) in cs.items() for which, v in (("p", p), ("n", n)) if not ok[v]]
    # two modules of about equal checking cost (a lemma only uses lemmas of smaller primes, so any prefix is closed);
    # measured: ~0.4 s per lemma whatever the size up to 521 bits (elaboration overhead dominates the arithmetic)
    order = sorted(need)
    cost = [1 if seen[q] is None else 4 + q.bit_length() // 128 for q in order]
    half, acc, cut = sum(cost) / 2, 0, len(order)
    for i, c in enumerate(cost):
        acc += c
        if acc >= half:
            cut = i + 1
            break
    outA, out = [], []
    for part, w in ((0, outA.append), (1, out.append)):
        w("import Proofs.Common.Pratt" if part == 0 else "import Proofs.Common.CataloguePrimeA")
        w("/-")
        w("GENERATED by tools/gen_pratt_catalogue.py -- do not edit.  Pratt certificates (Lucas test, Mathlib `lucas_primality`)")
        w("for the field size `p` and the group order `n` of the curves of btclib's catalogue (`btclib.curves.curve.CURVES`,")
        w(f"{len(cs)} curves): one lemma per prime of the recursive factorisation trees of `p - 1`, `n - 1`, shared between the trees")
        w(f"({len(need)} primes, {sum(1 for q in need if seen[q] is not None)} certificates); every check is a kernel evaluation.")
        w(f"Two modules of about equal cost: CataloguePrimeA (the {cut} smallest primes), CataloguePrime (the rest, the theorems).")
        if part == 1:
            if skipped:
                w("NOT covered (a `q - 1` of the tree was not factored within the generator's time limits):")
                for name, which, v in skipped:
                    w(f"  {name} {which} ({v.bit_length()} bits)")
            else:
                w("Every catalogued curve is covered.")
        w("-/")
        w("namespace Btc.Pratt.Cat")
        w("open Btc.Pratt")
        w("")
        for q in (order[:cut] if part == 0 else order[cut:]):
            fs = seen[q]
            if fs is None:
                w(f"theorem prime_{q} : Nat.Prime {q} := by norm_num")
                continue
            a = witness(q, fs)
            lst = ", ".join(f"({r}, {e})" for r, e in fs)
            prf = ", ".join(f"prime_{r}" for r, _ in fs)
            w(f"theorem prime_{q} : Nat.Prime {q} :=")
            w(f"  pratt {q} {a} [{lst}] (by decide +kernel) ⟨{prf}, trivial⟩")
    outA.append("")
    outA.append("end Btc.Pratt.Cat")
    w("")
    w("/-! ## the catalogue -/")
    for name, (p, n) in cs.items():
        for which, v, what in (("p", p, "field size"), ("n", n, "group order")):
            if not ok[v]:
                w("")
                w(f"-- {name}_{which}_prime: SKIPPED (factorisation tree of {which} - 1 not completed in time)")
                continue
            w("")
            w(f"/-- the {what} of {name} ({v.bit_length()} bits) is prime -/")
            w(f"theorem {name}_{which}_prime : Nat.Prime {hexlit(v)} :=")
            w(f"  prime_{v}")
    w("")
    w("end Btc.Pratt.Cat")
    return "\n".join(outA) + "\n", "\n".join(out) + "\n", skipped, cs, ok


def render_ok(cs, ok):
    """lean/Proofs/E2E/CatalogueOk.lean: `CurveOk` for every curve with both certificates, built the way
    `Btc.E2E.secpOk` (Proofs/E2E/Basic.lean) is"""
    done = [name for name, (p, n) in cs.items() if ok[p] and ok[n]]
    out = []
    w = out.append
    w("import Proofs.E2E.Basic")
    w("import Proofs.Common.CataloguePrime")
    w("/-")
    w("GENERATED by tools/gen_pratt_catalogue.py -- do not edit.  `CurveOk` (the hypothesis of the C01 capstone theorems:")
    w("`lawful_ec`, `lawfulGroup_ec`, `mul_closed`, ...) PROVED for the curves of btclib's catalogue, with no hypothesis left:")
    w("primality of `p` and `n` by kernel-checked Pratt certificates (Proofs/Common/CataloguePrime.lean), tied to the constants")
    w("regenerated from btclib's source (`Gen.Curves.<name>`, lean/Generated/Curves.lean) by `<name>_p_val` / `<name>_n_val`;")
    w("generator reduced and on the curve, `n` odd, `n•G = ∞` (the proved double-and-add `multJac` run on the constants,")
    w("reading `Z = 0`) by kernel evaluation.  Same construction as `Btc.E2E.secpOk`.")
    w(f"{len(done)} of {len(cs)} catalogued curves; see CATALOGUE.md beside this file.")
    w("`<name>_mod4` records `p % 4` (`lawful_ec` needs 3 for its two `lift_x` fields; `lawfulGroup_ec` does not).")
    w("secp112r2 and secp128r2 have cofactor 4: `CurveOk` is about the prime-order subgroup `⟨G⟩` and holds all the same.")
    w("-/")
    w("open WeierstrassCurve")
    w("")
    w("namespace Btc.E2E.Cat")
    w("open Btc Btc.C01")
    for name in done:
        p, n = cs[name]
        c = name
        w("")
        w(f"/-! ## {c} ({p.bit_length()} bits) -/")
        w("")
        w(f"/-- `{c}` as regenerated from btclib's catalogue -/")
        w(f"def {c} : EC.Curve := EC.Curve.ofData Gen.Curves.{c}")
        w(f"abbrev {c}_p : ℕ := {c}.p.toNat")
        w(f"abbrev {c}_n : ℕ := {c}.n.toNat")
        w(f"theorem {c}_p_val : {c}_p = {hexlit(p)} := by decide +kernel")
        w(f"theorem {c}_n_val : {c}_n = {hexlit(n)} := by decide +kernel")
        w(f"theorem {c}_mod4 : {c}_p % 4 = {p % 4} := by decide +kernel")
        w(f"/-- the field size of {c} is prime (Pratt certificate) -/")
        w(f"theorem {c}_p_prime : Nat.Prime {c}_p := {c}_p_val ▸ Btc.Pratt.Cat.{c}_p_prime")
        w(f"/-- the order of the generator of {c} is prime (Pratt certificate) -/")
        w(f"theorem {c}_n_prime : Nat.Prime {c}_n := {c}_n_val ▸ Btc.Pratt.Cat.{c}_n_prime")
        w(f"instance {c}_p_fact : Fact (Nat.Prime {c}_p) := ⟨{c}_p_prime⟩")
        if n.bit_length() > 500:      # the kernel's default recursion limit (512) is below the ladder's depth
            w("set_option maxRecDepth 4096 in")
        w(f"/-- `n•G = ∞` on {c}: the double-and-add on the generated constants ends with `Z = 0` (kernel) -/")
        w(f"theorem {c}_order_Z :")
        w(f"    (EC.multJac {c}.toCurveGroup {c}.n.toNat {c}.GJ).2.2 = 0 := by decide +kernel")
        w(f"/-- **{c} meets `CurveOk`**, unconditionally -/")
        w(f"theorem {c}Ok : @CurveOk {c}_p ⟨{c}_p_prime⟩ {c} :=")
        w(f"  @curveOk_of_checks {c}_p ⟨{c}_p_prime⟩ {c} (by decide +kernel) (by decide +kernel) (by decide +kernel)")
        w(f"    {c}_n_prime")
        w(f"    (by decide +kernel) (by decide +kernel) (by decide +kernel) (by decide +kernel) {c}_order_Z")
    w("")
    w("/-! ## summary -/")
    w("")
    w("/-- the catalogued curves for which `CurveOk` is proved above -/")
    w("def proved : List Gen.Curves.CurveData :=")
    w("  [" + ", ".join(f"Gen.Curves.{c}" for c in done) + "]")
    w("")
    w("/-- **every curve of `proved` has `p` prime, `n` prime and meets `CurveOk`** -/")
    w("theorem catalogue_ok : ∀ d ∈ proved,")
    w("    ∃ hp : Nat.Prime d.p.toNat, Nat.Prime d.n.toNat ∧ @CurveOk d.p.toNat ⟨hp⟩ (EC.Curve.ofData d) := by")
    w("  intro d hd")
    w("  simp only [proved, List.mem_cons, List.mem_nil_iff, or_false] at hd")
    w("  rcases hd with " + " | ".join("rfl" for _ in done))
    for c in done:
        w(f"  · exact ⟨{c}_p_prime, {c}_n_prime, {c}Ok⟩")
    if len(done) == len(cs):
        w("")
        w("/-- `proved` is the whole catalogue regenerated from btclib's source -/")
        w("theorem proved_eq_catalogue : proved = Gen.Curves.catalogue := rfl")
        w("")
        w("/-- **every catalogued curve has `p` prime, `n` prime and meets `CurveOk`** -/")
        w("theorem catalogue_ok_all : ∀ d ∈ Gen.Curves.catalogue,")
        w("    ∃ hp : Nat.Prime d.p.toNat, Nat.Prime d.n.toNat ∧ @CurveOk d.p.toNat ⟨hp⟩ (EC.Curve.ofData d) :=")
        w("  proved_eq_catalogue ▸ catalogue_ok")
    ex = [c for c in ("secp256r1", "bpp256r1", "bpp224r1", "bpp160r1", "secp224r1") if c in done]
    ex = ex[:1] + [c for c in ex[1:] if c.startswith("bpp")][:1] + [c for c in ex if c == "secp224r1"]
    if ex:
        w("")
        w("/-! ## the C01 capstone theorems instantiated (no hypothesis about the curve left)")
        w("`mul_closed`: `mult` through `Btc.EC.ops C` IS `m • P` in Mathlib's point group, on the reduced valid pairs of the")
        w("`n`-torsion; `lawful_ec` / `lawfulGroup_ec`: the hypothesis `L : Lawful o G` of every scheme-level theorem. -/")
    for c in ex:
        p, n = cs[c]
        w("")
        w(f"/-- {c}: `m·G` computed by btclib's `mult` denotes `m • G` -/")
        w(f"example (m : ℤ) :")
        w(f"    absA {c}_p {c}.toCurveGroup ((EC.ops {c}).mul m {c}.G) = m • absA {c}_p {c}.toCurveGroup {c}.G :=")
        w(f"  (mul_closed {c}Ok m {c}.G (inSub_G {c}Ok)).2")
        w(f"/-- {c}: … and for every point `P` of the carrier, with closure -/")
        w(f"example (m : ℤ) (P : EC.Point) (hP : InSub {c}_p {c} P) :")
        w(f"    InSub {c}_p {c} ((EC.ops {c}).mul m P) ∧")
        w(f"      absA {c}_p {c}.toCurveGroup ((EC.ops {c}).mul m P) = m • absA {c}_p {c}.toCurveGroup P :=")
        w(f"  mul_closed {c}Ok m P hP")
        w(f"/-- {c}: the group part of `Lawful` (all laws but the two about `lift_x`) -/")
        w(f"noncomputable example : LawfulGroup (opsSub {c}Ok) (Pt {c}_p {c}.toCurveGroup) := lawfulGroup_ec {c}Ok")
        if p % 4 == 3:
            w(f"/-- {c}: `Btc.EC.ops {c}` is `Lawful` -/")
            w(f"noncomputable example : Lawful (opsSub {c}Ok) (Pt {c}_p {c}.toCurveGroup) := lawful_ec {c}Ok {c}_mod4")
    w("")
    w("end Btc.E2E.Cat")
    return "\n".join(out) + "\n"


OUT_OK = os.path.join(HERE, "..", "lean", "Proofs", "E2E", "CatalogueOk.lean")


def main():
    def log(s):
        print(s, file=sys.stderr, flush=True)

    s_a, s, skipped, cs, ok = render(log)
    s_ok = render_ok(cs, ok)
    files = ((OUT_A, s_a), (OUT, s), (OUT_OK, s_ok))
    if "--check" in sys.argv:
        sys.exit(0 if all(os.path.exists(pth) and open(pth).read() == txt for pth, txt in files) else 1)
    for pth, txt in files:
        with open(pth, "w") as f:
            f.write(txt)
    print("wrote", os.path.normpath(OUT), len(s.splitlines()), "lines; skipped:",
          ", ".join(f"{a}.{b}" for a, b, _ in skipped) or "none")


if __name__ == "__main__":
    main()
