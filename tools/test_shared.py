#!/venv/bin/python
"""Quick self-test of the shared primitives: tools/test_shared.py [exe] [tier] [seed]  (exit 1 on any mismatch)."""
import os
import sys
import time

sys.path.insert(0, os.path.dirname(os.path.dirname(os.path.abspath(__file__))))
from harness import common, shared  # noqa: E402

exe = sys.argv[1] if len(sys.argv) > 1 else "drv_common"
tier = sys.argv[2] if len(sys.argv) > 2 else "quick"
seed = int(sys.argv[3]) if len(sys.argv) > 3 else int(os.environ.get("VERIF_SEED", "0"))
ctx = common.Ctx("SHARED", tier, seed)
t0 = time.time()
ok = shared.validate_hashes(ctx, exe)
for name, st in sorted(ctx.streams.items()):
    print(f"{name:18s} cases {st['cases']:5d}  mismatches {st['mismatches']}")
for f in ctx.findings:
    print("FINDING", f.to_json())
if not ctx.driver_ok:
    print("driver missing:", ctx.broken)
total = sum(st["mismatches"] for st in ctx.streams.values())
print(f"total mismatches {total}  ({time.time() - t0:.2f} s, tier {tier}, seed {seed})")
sys.exit(0 if ok and total == 0 and ctx.driver_ok else 1)
