"""pyfun2lean: a small Python-AST -> Lean 4 translator for straight-line functions.

Scope (DESIGN 2.2): function bodies built from integer / bytes / bool expressions,
assignments, if/elif/else, return, raise, and calls to other translated functions.
No loops, no objects.  Anything outside the subset raises `Untranslatable` naming the
construct: the caller treats that as "the tie to the source is broken" (never silently
skipped).

Semantics of the emitted code are those of `lean/Model/Common/Py.lean`:
Python int = Int, bytes = List UInt8, bool = Bool, exceptions = Except PyErr.
"""
from __future__ import annotations

import ast
import keyword

LEAN_KEYWORDS = {
    "at", "from", "have", "show", "end", "open", "local", "prefix", "then", "else", "if",
    "fun", "let", "in", "do", "match", "with", "where", "def", "theorem", "instance",
    "structure", "class", "namespace", "section", "variable", "universe", "import",
    "return", "for", "mut", "type", "Type", "Prop", "Sort", "by", "calc", "this", "deriving",
    "private", "protected", "partial", "unsafe", "macro", "syntax", "notation", "infix",
    "abbrev", "example", "axiom", "opaque", "using", "export", "extends", "set_option",
    "mutual", "inductive", "bits", "value",
}


class Untranslatable(Exception):
    pass


def lean_name(n: str) -> str:
    n = n.lstrip("_") or "x"
    if n in LEAN_KEYWORDS or keyword.iskeyword(n):
        n += "_"
    return n


def lean_int(v: int) -> str:
    return f"({v})" if v < 0 else str(v)


def lean_bytes(b: bytes) -> str:
    return "([" + ", ".join(str(x) for x in b) + "] : Btc.Bytes)"


EXC_CLASS = {
    "BTClibValueError": "value",
    "BTClibTypeError": "type",
    "BTClibRuntimeError": "runtime",
    "ScriptError": "script",
}

LEAN_TYPE = {"int": "Int", "bool": "Bool", "bytes": "Btc.Bytes"}


def lean_type(kind) -> str:
    if isinstance(kind, tuple):
        return "(" + " × ".join(lean_type(k) for k in kind) + ")"
    return LEAN_TYPE[kind]


class FuncSpec:
    """What to translate and how to call both sides.

    module      python module object
    pyname      function name in module (may be 'Class.method')
    params      list of (python_param_name, kind) actually passed to the Lean function
    subst       {python expression text: (lean parameter name, kind)}: expression replaced by a parameter
    drop_params python parameters not passed (substituted away)
    ret         return kind
    """

    def __init__(self, module, pyname, ret, params=None, subst=None, lean=None, ns=None,
                 call=None, gen=None, skip_stmts=()):
        self.module = module
        self.pyname = pyname
        self.ret = ret
        self.params = params
        self.subst = subst or {}
        self.lean = lean or lean_name(pyname.split(".")[-1])
        self.ns = ns
        self.call = call
        self.gen = gen
        self.skip_stmts = tuple(skip_stmts)
        self.fallible = None
        self.lean_params = None


class Translator:
    def __init__(self, registry):
        # registry: {(module.__name__, pyname): FuncSpec}
        self.registry = registry
        self.consts = {}  # ns -> {lean const name: (kind, lean literal)}

    # ---------------------------------------------------------------- helpers
    def find_def(self, spec):
        import inspect
        src = inspect.getsource(spec.module)
        tree = ast.parse(src)
        parts = spec.pyname.split(".")
        body = tree.body
        node = None
        for p in parts:
            node = None
            for n in body:
                if isinstance(n, (ast.FunctionDef, ast.ClassDef)) and n.name == p:
                    node = n
                    break
            if node is None:
                raise Untranslatable(f"{spec.module.__name__}.{spec.pyname}: definition not found")
            body = node.body
        if not isinstance(node, ast.FunctionDef):
            raise Untranslatable(f"{spec.pyname}: not a function")
        return node

    def translate(self, spec) -> str:
        self.spec = spec
        self.mod = spec.module
        self.fn = self.find_def(spec)
        self.tmp = 0
        self.fallible = False
        self.used_consts = {}
        env = {}
        lean_params = []
        annotated = {}
        for a in self.fn.args.args + self.fn.args.kwonlyargs:
            annotated[a.arg] = a.annotation
        if spec.params is None:
            params = []
            for a in self.fn.args.args + self.fn.args.kwonlyargs:
                if a.arg in ("self", "cls"):
                    continue
                params.append((a.arg, self.kind_from_annotation(a.annotation, a.arg)))
        else:
            params = spec.params
        for pname, kind in params:
            env[pname] = kind
            lean_params.append((lean_name(pname), kind))
        for _txt, (lname, kind) in spec.subst.items():
            if (lname, kind) not in lean_params:
                lean_params.append((lname, kind))
        spec.lean_params = lean_params
        # static default values of the Python parameters (used by user_call for omitted arguments)
        spec.defaults = {}
        pos_args = self.fn.args.args
        pairs = list(zip(pos_args[len(pos_args) - len(self.fn.args.defaults):], self.fn.args.defaults))
        pairs += [(a, d) for a, d in zip(self.fn.args.kwonlyargs, self.fn.args.kw_defaults) if d is not None]
        for a, d in pairs:
            sv = self.static_value(d, {})
            if sv is not None and (lean_name(a.arg), sv[0]) in lean_params:
                spec.defaults[lean_name(a.arg)] = sv[1]
        body = list(self.fn.body)
        if body and isinstance(body[0], ast.Expr) and isinstance(body[0].value, ast.Constant):
            body = body[1:]
        self.mode = "do"
        code = self.block(body, env, indent=1)
        if not self.fallible:
            self.mode = "pure"
            self.tmp = 0
            code = self.block(body, env, indent=1)
        spec.fallible = self.fallible
        sig = " ".join(f"({n} : {lean_type(k)})" for n, k in lean_params)
        rty = lean_type(spec.ret)
        if self.fallible:
            head = f"def {spec.lean} {sig} : Except Btc.Py.PyErr {rty} := do\n"
        else:
            head = f"def {spec.lean} {sig} : {rty} :=\n"
        return head + code

    def kind_from_annotation(self, ann, name):
        txt = ast.unparse(ann) if ann is not None else ""
        if txt == "int":
            return "int"
        if txt == "bool":
            return "bool"
        if txt in ("bytes", "Octets", "BinaryData"):
            return "bytes"
        raise Untranslatable(f"{self.spec.pyname}: parameter {name} has untranslatable type {txt!r}")

    def fresh(self):
        self.tmp += 1
        return f"t{self.tmp}_"

    def bad(self, node, why=""):
        raise Untranslatable(
            f"{self.mod.__name__}.{self.spec.pyname} line {getattr(node, 'lineno', '?')}: "
            f"unsupported {type(node).__name__} {why}: {ast.unparse(node)[:80]}")

    # ------------------------------------------------------------- statements
    def ind(self, n):
        return "  " * n

    def block(self, stmts, env, indent) -> str:
        """Compile statements (with everything after them in the same block) to a Lean term/do-seq."""
        if not stmts:
            # falling off the end: Python returns None
            raise Untranslatable(f"{self.spec.pyname}: control reaches end without return")
        s, rest = stmts[0], stmts[1:]
        I = self.ind(indent)
        txt = ast.unparse(s)
        for pat in self.spec.skip_stmts:
            if txt.startswith(pat):
                return self.block(rest, env, indent)
        if isinstance(s, ast.Expr) and isinstance(s.value, ast.Constant):
            return self.block(rest, env, indent)
        if isinstance(s, ast.Return):
            pre, term, kind = self.expr(s.value, env)
            self.check_kind(kind, self.spec.ret, s)
            return self.emit(pre, indent) + I + self.ret(term) + "\n"
        if isinstance(s, ast.Raise):
            self.fallible = True
            return I + f"throw Btc.Py.PyErr.{self.exc_class(s)}\n"
        if isinstance(s, (ast.Assign, ast.AnnAssign, ast.AugAssign)):
            env = dict(env)
            if isinstance(s, ast.AugAssign):
                value = ast.BinOp(left=ast.Name(id=s.target.id, ctx=ast.Load()), op=s.op, right=s.value)
                ast.copy_location(value, s)
                ast.fix_missing_locations(value)
                target = s.target
            elif isinstance(s, ast.AnnAssign):
                value, target = s.value, s.target
            else:
                if len(s.targets) != 1:
                    self.bad(s, "multiple targets")
                value, target = s.value, s.targets[0]
            pre, term, kind = self.expr(value, env)
            out = self.emit(pre, indent)
            if isinstance(target, ast.Name):
                env[target.id] = kind
                out += I + f"let {lean_name(target.id)} : {lean_type(kind)} := {term}\n"
            elif isinstance(target, ast.Tuple) and all(isinstance(e, ast.Name) for e in target.elts):
                if not isinstance(kind, tuple) or len(kind) != len(target.elts):
                    self.bad(s, "tuple arity")
                names = []
                for e, k in zip(target.elts, kind):
                    env[e.id] = k
                    names.append(lean_name(e.id))
                tv = self.fresh()
                out += I + f"let {tv} := {term}\n"
                for i, n in enumerate(names):
                    proj = self.proj(tv, i, len(names))
                    out += I + f"let {n} : {lean_type(kind[i])} := {proj}\n"
            else:
                self.bad(s, "assignment target")
            return out + self.block(rest, env, indent)
        if isinstance(s, ast.If):
            pre_c = []
            try:
                c = self.cond(s.test, env)
            except Untranslatable as ex:
                if "fallible" not in str(ex):
                    raise
                # a test that may raise is evaluated (once, unconditionally) before the branch
                pre_c, c = self.test_value(s.test, env)
            if pre_c:
                body_term = self.terminates(s.body)
                else_term = self.terminates(s.orelse) if s.orelse else False
                then_code = self.block(list(s.body) + ([] if body_term else rest), env, indent + 1)
                else_code = self.block(list(s.orelse) + ([] if else_term else rest), env, indent + 1)
                return (self.emit(pre_c, indent) + I + f"if {c} then do\n" + then_code + I + "else do\n" + else_code)
            if c == "True":
                return self.block(list(s.body) + rest, env, indent)
            if c == "False":
                return self.block(list(s.orelse) + rest, env, indent)
            body_term = self.terminates(s.body)
            else_term = self.terminates(s.orelse) if s.orelse else False
            then_code = self.block(list(s.body) + ([] if body_term else rest), env, indent + 1)
            else_stmts = list(s.orelse) + ([] if else_term else rest)
            else_code = self.block(else_stmts, env, indent + 1)
            d = " do\n" if self.mode == "do" else "\n"
            return (I + f"if {c} then{d}" + then_code + I + f"else{d}" + else_code)
        self.bad(s)

    def terminates(self, stmts):
        if not stmts:
            return False
        last = stmts[-1]
        if isinstance(last, (ast.Return, ast.Raise)):
            return True
        if isinstance(last, ast.If) and last.orelse:
            return self.terminates(last.body) and self.terminates(last.orelse)
        return False

    def ret(self, term):
        return f"return {term}" if self.mode == "do" else term

    def emit(self, pre, indent):
        return "".join(self.ind(indent) + p + "\n" for p in pre)

    def proj(self, v, i, n):
        # right-nested pairs
        s = v
        for _ in range(i):
            s = f"{s}.2"
        return f"{s}.1" if i < n - 1 else s

    def exc_class(self, s):
        exc = s.exc
        name = None
        if isinstance(exc, ast.Call) and isinstance(exc.func, ast.Name):
            name = exc.func.id
        elif isinstance(exc, ast.Name):
            name = exc.id
        if name in EXC_CLASS:
            return EXC_CLASS[name]
        # subclasses of the library's classes are resolved on the live module
        obj = getattr(self.mod, name, None) if name else None
        if isinstance(obj, type):
            from btclib import exceptions as E
            for cls, tag in ((E.BTClibValueError, "value"), (E.BTClibTypeError, "type"),
                             (E.BTClibRuntimeError, "runtime")):
                if issubclass(obj, cls):
                    return tag
        return "foreign"

    def check_kind(self, got, want, node):
        if got != want:
            self.bad(node, f"kind {got} where {want} expected")

    # ------------------------------------------------------------ expressions
    def static_value(self, node, env):
        """Evaluate an expression that mentions no local variable in the module namespace."""
        for n in ast.walk(node):
            if isinstance(n, ast.Name) and n.id in env:
                return None
            if isinstance(n, (ast.Call,)) and not (
                    isinstance(n.func, ast.Name) and n.func.id in ("len", "int", "bytes", "min", "max", "abs")):
                return None
            if isinstance(n, (ast.Lambda, ast.Await, ast.Yield, ast.NamedExpr)):
                return None
        try:
            v = eval(compile(ast.Expression(body=node), "<static>", "eval"), dict(vars(self.mod)))
        except Exception:
            return None
        if isinstance(v, bool):
            return ("bool", "true" if v else "false", v)
        if isinstance(v, int):
            return ("int", lean_int(v), v)
        if isinstance(v, (bytes, bytearray)):
            return ("bytes", lean_bytes(bytes(v)), bytes(v))
        return None

    def const_ref(self, node, kind, lit):
        """Module-level names become named constants in the generated file."""
        if isinstance(node, ast.Name):
            cname = lean_name(node.id)
            self.used_consts[cname] = (kind, lit)
            return cname
        return lit

    def expr(self, e, env):
        """-> (prelude statements, lean term, kind)"""
        txt = ast.unparse(e)
        if txt in self.spec.subst:
            lname, kind = self.spec.subst[txt]
            return [], lname, kind
        if not isinstance(e, ast.Constant):
            sv = self.static_value(e, env)
            if sv is not None:
                kind, lit, _ = sv
                return [], self.const_ref(e, kind, lit), kind
        if isinstance(e, ast.Constant):
            v = e.value
            if isinstance(v, bool):
                return [], ("true" if v else "false"), "bool"
            if isinstance(v, int):
                return [], lean_int(v), "int"
            if isinstance(v, bytes):
                return [], lean_bytes(v), "bytes"
            self.bad(e, "constant")
        if isinstance(e, ast.Name):
            if e.id in env:
                return [], lean_name(e.id), env[e.id]
            self.bad(e, "unknown name")
        if isinstance(e, ast.Tuple):
            pres, terms, kinds = [], [], []
            for x in e.elts:
                p, t, k = self.expr(x, env)
                pres += p
                terms.append(t)
                kinds.append(k)
            return pres, "(" + ", ".join(terms) + ")", tuple(kinds)
        if isinstance(e, ast.UnaryOp):
            if isinstance(e.op, ast.USub):
                p, t, k = self.expr(e.operand, env)
                self.check_kind(k, "int", e)
                return p, f"(-{t})", "int"
            if isinstance(e.op, ast.Not):
                return [], f"(decide ({self.cond(e, env)}))", "bool"
            self.bad(e)
        if isinstance(e, ast.BinOp):
            pl, a, ka = self.expr(e.left, env)
            pr, b, kb = self.expr(e.right, env)
            pre = pl + pr
            if ka == "bool":
                a, ka = f"(if {a} then 1 else 0 : Int)", "int"
            if kb == "bool":
                b, kb = f"(if {b} then 1 else 0 : Int)", "int"
            op = e.op
            if ka == "bytes" and kb == "bytes" and isinstance(op, ast.Add):
                return pre, f"({a} ++ {b})", "bytes"
            if ka != "int" or kb != "int":
                self.bad(e, f"operand kinds {ka},{kb}")
            rv = self.static_value(e.right, env)
            pos_lit = rv is not None and rv[0] == "int" and rv[2] > 0
            if isinstance(op, ast.Add):
                return pre, f"({a} + {b})", "int"
            if isinstance(op, ast.Sub):
                return pre, f"({a} - {b})", "int"
            if isinstance(op, ast.Mult):
                return pre, f"({a} * {b})", "int"
            if isinstance(op, ast.FloorDiv):
                return pre, (f"({a} / {b})" if pos_lit else f"(Btc.Py.div {a} {b})"), "int"
            if isinstance(op, ast.Mod):
                return pre, (f"({a} % {b})" if pos_lit else f"(Btc.Py.mod {a} {b})"), "int"
            if isinstance(op, ast.Pow):
                return pre, f"({a} ^ ({b}).toNat)", "int"
            if isinstance(op, ast.LShift):
                return pre, f"(Btc.Py.shl {a} {b})", "int"
            if isinstance(op, ast.RShift):
                return pre, f"(Btc.Py.shr {a} {b})", "int"
            if isinstance(op, ast.BitAnd):
                return pre, f"(Btc.Py.land {a} {b})", "int"
            if isinstance(op, ast.BitOr):
                return pre, f"(Btc.Py.lor {a} {b})", "int"
            if isinstance(op, ast.BitXor):
                return pre, f"(Btc.Py.lxor {a} {b})", "int"
            self.bad(e, "operator")
        if isinstance(e, (ast.Compare,)):
            return [], f"(decide ({self.cond(e, env)}))", "bool"
        if isinstance(e, ast.BoolOp):
            # value-level and/or only on booleans
            try:
                kinds = [self.expr(v, env)[2] for v in e.values]
            except Untranslatable as ex:
                if "fallible" not in str(ex):
                    raise
                # operands that may raise: keep Python's left-to-right short-circuit evaluation
                return self.boolop_short_circuit(e, env)
            if all(k == "bool" for k in kinds):
                return [], f"(decide ({self.cond(e, env)}))", "bool"
            self.bad(e, "and/or on non-bool values")
        if isinstance(e, ast.IfExp):
            c = self.cond(e.test, env)
            p1, t1, k1 = self.expr(e.body, env)
            p2, t2, k2 = self.expr(e.orelse, env)
            if k1 != k2:
                self.bad(e, "branches of different kind")
            if not p1 and not p2:
                return [], f"(if {c} then {t1} else {t2})", k1
            self.fallible = True
            tv = self.fresh()
            b1 = "; ".join(p1 + [f"pure {t1}"])
            b2 = "; ".join(p2 + [f"pure {t2}"])
            return [f"let {tv} : {lean_type(k1)} ← (if {c} then (do {b1}) else (do {b2}))"], tv, k1
        if isinstance(e, ast.Subscript):
            pv, v, kv = self.expr(e.value, env)
            if kv == "bytes":
                if isinstance(e.slice, ast.Slice):
                    if e.slice.step is not None:
                        self.bad(e, "slice step")
                    pre = list(pv)
                    lo = hi = "none"
                    if e.slice.lower is not None:
                        p, t, k = self.expr(e.slice.lower, env)
                        pre += p
                        lo = f"(some {t})"
                    if e.slice.upper is not None:
                        p, t, k = self.expr(e.slice.upper, env)
                        pre += p
                        hi = f"(some {t})"
                    return pre, f"(Btc.Py.slice {v} {lo} {hi})", "bytes"
                pi, i, ki = self.expr(e.slice, env)
                self.check_kind(ki, "int", e)
                self.fallible = True
                tv = self.fresh()
                return pv + pi + [f"let {tv} ← Btc.Py.index {v} {i}"], tv, "int"
            if isinstance(kv, tuple) and isinstance(e.slice, ast.Constant):
                i = e.slice.value
                return pv, f"({self.proj(v, i, len(kv))})", kv[i]
            self.bad(e, "subscript")
        if isinstance(e, ast.Call):
            return self.call(e, env)
        self.bad(e)

    def test_value(self, e, env):
        """-> (prelude, decidable Prop) of an `if` test whose evaluation may raise."""
        if isinstance(e, ast.UnaryOp) and isinstance(e.op, ast.Not):
            p, c = self.test_value(e.operand, env)
            return p, f"(¬ {c})"
        if isinstance(e, ast.Compare):
            p, t = self.bool_operand(e, env)
            return p, f"({t} = true)"
        p, t, k = self.expr(e, env)
        if k == "bool":
            return p, f"({t} = true)"
        if k == "int":
            return p, f"({t} ≠ 0)"
        if k == "bytes":
            return p, f"({t} ≠ [])"
        self.bad(e, "truthiness")

    def bool_operand(self, v, env):
        """-> (prelude, Bool term) of one operand of and/or whose evaluation may raise."""
        if isinstance(v, ast.Compare) and len(v.ops) == 1 and not isinstance(v.ops[0], (ast.In, ast.NotIn)):
            pl, a, ka = self.expr(v.left, env)
            pr, b, kb = self.expr(v.comparators[0], env)
            sym = {ast.Lt: "<", ast.LtE: "≤", ast.Gt: ">", ast.GtE: "≥", ast.Eq: "=", ast.NotEq: "≠"}.get(type(v.ops[0]))
            if sym is None or ka != kb:
                self.bad(v, "comparison in a short-circuit operand")
            return pl + pr, f"(decide ({a} {sym} {b}))"
        p, t, k = self.expr(v, env)
        if k != "bool":
            self.bad(v, "and/or on non-bool values")
        return p, t

    def boolop_short_circuit(self, e, env):
        """`a and b …` / `a or b …` with operands that may raise: operand i+1 is evaluated
        only when Python evaluates it (monadic if-chain)."""
        is_and = isinstance(e.op, ast.And)
        ops = [self.bool_operand(v, env) for v in e.values]
        pre, term = ops[-1]
        for p, t in reversed(ops[:-1]):
            inner = "(do " + "; ".join(list(pre) + [f"pure {term}"]) + ")"
            tv = self.fresh()
            if is_and:
                step = f"let {tv} : Bool ← (if {t} = true then {inner} else pure false)"
            else:
                step = f"let {tv} : Bool ← (if {t} = true then pure true else {inner})"
            pre, term = list(p) + [step], tv
        self.fallible = True
        return pre, term, "bool"

    def call(self, e, env):
        f = e.func
        args = e.args
        kws = {k.arg: k.value for k in e.keywords}
        if isinstance(f, ast.Name):
            name = f.id
            if name == "len" and len(args) == 1:
                p, t, k = self.expr(args[0], env)
                self.check_kind(k, "bytes", e)
                return p, f"(Btc.Py.len {t})", "int"
            if name in ("min", "max") and len(args) == 2:
                p1, a, k1 = self.expr(args[0], env)
                p2, b, k2 = self.expr(args[1], env)
                return p1 + p2, f"({name} {a} {b})", "int"
            if name == "abs" and len(args) == 1:
                p, t, k = self.expr(args[0], env)
                return p, f"((Int.natAbs {t} : Nat) : Int)", "int"
            if name == "ceil" and len(args) == 1 and isinstance(args[0], ast.BinOp) \
                    and isinstance(args[0].op, ast.Div):
                # math.ceil(i / 2**k): `/` is CPython's correctly rounded int/int true division (a
                # double), then ceil of that double -- modelled by Btc.PyFloat.ceilTrueDivPow2
                import math
                if getattr(self.mod, "ceil", None) is not math.ceil:
                    self.bad(e, "ceil is not math.ceil")
                p, t, k = self.expr(args[0].left, env)
                self.check_kind(k, "int", e)
                rv = self.static_value(args[0].right, env)
                if rv is None or rv[0] != "int" or rv[2] <= 0 or rv[2] & (rv[2] - 1):
                    self.bad(e, "true division by something that is not a positive power-of-two constant")
                self.fallible = True
                tv = self.fresh()
                return p + [f"let {tv} ← Btc.PyFloat.ceilTrueDivPow2 {t} {rv[2].bit_length() - 1}"], tv, "int"
            if name == "divmod" and len(args) == 2:
                p1, a, _ = self.expr(args[0], env)
                p2, b, _ = self.expr(args[1], env)
                rv = self.static_value(args[1], env)
                if rv is not None and rv[0] == "int" and rv[2] > 0:
                    return p1 + p2, f"(({a} / {b}), ({a} % {b}))", ("int", "int")
                return p1 + p2, f"((Btc.Py.div {a} {b}), (Btc.Py.mod {a} {b}))", ("int", "int")
            if name == "bool" and len(args) == 1:
                return [], f"(decide ({self.cond(args[0], env)}))", "bool"
            if name == "int" and len(args) == 1:
                p, t, k = self.expr(args[0], env)
                if k == "bool":
                    return p, f"(if {t} then 1 else 0 : Int)", "int"
                if k == "int":
                    return p, t, "int"
                self.bad(e, "int() of non-int")
            if name == "bytes" and len(args) == 1 and isinstance(args[0], ast.List) and len(args[0].elts) == 1:
                p, t, k = self.expr(args[0].elts[0], env)
                self.check_kind(k, "int", e)
                self.fallible = True
                tv = self.fresh()
                return p + [f"let {tv} ← Btc.Py.byteOf {t}"], tv, "bytes"
            if name == "bytes_from_octets":
                p, t, k = self.expr(args[0], env)
                self.check_kind(k, "bytes", e)
                if len(args) == 1:
                    return p, t, "bytes"
                p2, n, _ = self.expr(args[1], env)
                self.fallible = True
                tv = self.fresh()
                return p + p2 + [f"let {tv} ← Btc.Py.bytesFromOctets {t} (some {n})"], tv, "bytes"
            if name == "is_integer":
                return [], "true", "bool"
            return self.user_call(self.mod.__name__, name, e, env)
        if isinstance(f, ast.Attribute):
            # int.from_bytes(b, byteorder=.., signed=False)
            if isinstance(f.value, ast.Name) and f.value.id == "int" and f.attr == "from_bytes":
                p, t, k = self.expr(args[0], env)
                self.check_kind(k, "bytes", e)
                bo = args[1] if len(args) > 1 else kws.get("byteorder")
                if "signed" in kws and not (isinstance(kws["signed"], ast.Constant) and kws["signed"].value is False):
                    self.bad(e, "signed from_bytes")
                order = bo.value if isinstance(bo, ast.Constant) else "big"
                fn = "fromBytesBE" if order == "big" else "fromBytesLE"
                return p, f"(Btc.Py.{fn} {t})", "int"
            if f.attr == "to_bytes":
                p, t, k = self.expr(f.value, env)
                self.check_kind(k, "int", e)
                p2, n, _ = self.expr(args[0], env)
                bo = args[1] if len(args) > 1 else kws.get("byteorder")
                if "signed" in kws and not (isinstance(kws["signed"], ast.Constant) and kws["signed"].value is False):
                    self.bad(e, "signed to_bytes")
                order = bo.value if isinstance(bo, ast.Constant) else "big"
                fn = "toBytesBE" if order == "big" else "toBytesLE"
                self.fallible = True
                tv = self.fresh()
                return p + p2 + [f"let {tv} ← Btc.Py.{fn} {t} {n}"], tv, "bytes"
            if f.attr == "bit_length" and not args:
                p, t, k = self.expr(f.value, env)
                self.check_kind(k, "int", e)
                return p, f"(Btc.Py.bitLength {t})", "int"
            # module.function(...)
            if isinstance(f.value, ast.Name):
                modobj = getattr(self.mod, f.value.id, None)
                if modobj is not None and hasattr(modobj, "__name__"):
                    return self.user_call(modobj.__name__, f.attr, e, env)
        self.bad(e, "call")

    def user_call(self, modname, name, e, env):
        # resolve re-exported functions to their defining module
        key = (modname, name)
        if key not in self.registry:
            obj = getattr(self.mod, name, None)
            if obj is not None and hasattr(obj, "__module__"):
                key = (obj.__module__, name)
        if key not in self.registry:
            self.bad(e, f"call to untranslated function {modname}.{name}")
        callee = self.registry[key]
        if callee.fallible is None:
            raise Untranslatable(f"{self.spec.pyname}: callee {name} must be translated first")
        if e.keywords:
            self.bad(e, "keyword arguments to translated callee")
        pre, terms = [], []
        for a in e.args:
            p, t, k = self.expr(a, env)
            pre += p
            terms.append(t)
        if len(terms) < len(callee.lean_params):
            # trailing parameters left to their Python defaults (static ones, recorded by translate())
            dflt = getattr(callee, "defaults", None) or {}
            for n, _k in callee.lean_params[len(terms):]:
                if n not in dflt:
                    break
                terms.append(dflt[n])
        if len(terms) != len(callee.lean_params):
            self.bad(e, "arity differs from translated callee")
        qual = f"{callee.ns}.{callee.lean}" if callee.ns else callee.lean
        app = f"({qual} " + " ".join(terms) + ")" if terms else qual
        if callee.fallible:
            self.fallible = True
            tv = self.fresh()
            return pre + [f"let {tv} ← {app}"], tv, callee.ret
        return pre, app, callee.ret

    # ------------------------------------------------------------- conditions
    def cond(self, e, env) -> str:
        """Compile a test to a decidable Lean Prop (no fallible sub-expressions allowed)."""
        if ast.unparse(e) in self.spec.subst and self.spec.subst[ast.unparse(e)][1] == "bool":
            # a whole test substituted away by a Boolean parameter (FuncSpec.subst)
            return f"({self.spec.subst[ast.unparse(e)][0]} = true)"
        # a test that mentions a substituted expression is never folded to a constant
        has_subst = bool(self.spec.subst) and any(
            isinstance(n, ast.expr) and ast.unparse(n) in self.spec.subst for n in ast.walk(e))
        sv = self.static_value(e, env) if not isinstance(e, ast.Constant) and not has_subst else None
        if sv is not None:
            return "True" if sv[2] else "False"
        if isinstance(e, ast.Constant):
            return "True" if e.value else "False"
        if isinstance(e, ast.Call) and isinstance(e.func, ast.Name) and e.func.id == "is_integer":
            return "True"
        if isinstance(e, ast.BoolOp):
            parts = [self.cond(v, env) for v in e.values]
            if isinstance(e.op, ast.And):
                parts = [p for p in parts if p != "True"]
                if "False" in parts:
                    return "False"
                return "(" + " ∧ ".join(parts) + ")" if parts else "True"
            parts = [p for p in parts if p != "False"]
            if "True" in parts:
                return "True"
            return "(" + " ∨ ".join(parts) + ")" if parts else "False"
        if isinstance(e, ast.UnaryOp) and isinstance(e.op, ast.Not):
            c = self.cond(e.operand, env)
            if c == "True":
                return "False"
            if c == "False":
                return "True"
            return f"(¬ {c})"
        if isinstance(e, ast.Compare):
            parts = []
            left = e.left
            for op, right in zip(e.ops, e.comparators):
                pl, a, ka = self.expr(left, env)
                pr, b, kb = self.expr(right, env)
                if pl or pr:
                    self.bad(e, "fallible operand in a condition")
                if isinstance(op, (ast.In, ast.NotIn)):
                    if not isinstance(right, (ast.Tuple, ast.List, ast.Set)):
                        self.bad(e, "membership in a non-literal")
                    alts = []
                    for x in right.elts:
                        _, t, _ = self.expr(x, env)
                        alts.append(f"{a} = {t}")
                    d = "(" + " ∨ ".join(alts) + ")"
                    parts.append(d if isinstance(op, ast.In) else f"(¬ {d})")
                else:
                    sym = {ast.Lt: "<", ast.LtE: "≤", ast.Gt: ">", ast.GtE: "≥", ast.Eq: "=", ast.NotEq: "≠"}.get(type(op))
                    if sym is None:
                        self.bad(e, "comparison operator")
                    if ka != kb:
                        if {ka, kb} == {"int", "bool"}:
                            if ka == "bool":
                                a = f"(if {a} then 1 else 0 : Int)"
                            else:
                                b = f"(if {b} then 1 else 0 : Int)"
                        else:
                            self.bad(e, f"comparison of {ka} with {kb}")
                    parts.append(f"{a} {sym} {b}")
                left = right
            return "(" + " ∧ ".join(parts) + ")"
        p, t, k = self.expr(e, env)
        if p:
            self.bad(e, "fallible expression used as a condition")
        if k == "int":
            return f"({t} ≠ 0)"
        if k == "bytes":
            return f"({t} ≠ [])"
        if k == "bool":
            return f"({t} = true)"
        self.bad(e, "truthiness")
