#!/usr/bin/env python3
"""Run the repository's baseline test command and compare with /root/.vp/BASELINE.json stable_pass.
usage: baseline_compare.py [pytest paths…]   (no paths = whole suite)"""
import json, subprocess, sys, tempfile, xml.etree.ElementTree as ET
base = json.load(open("/root/.vp/BASELINE.json"))
stable = set(base["stable_pass"])
import os
args = sys.argv[1:]
REPO = "/repo"
if args and args[0] == "--repo":
    REPO = args[1]; args = args[2:]
paths = args
out = tempfile.mktemp(suffix=".xml")
cmd = ["/venv/bin/python", "-m", "pytest", "-ra", "-q", "-p", "no:cacheprovider", "--timeout=900",
       "--continue-on-collection-errors", f"--junitxml={out}"] + paths
subprocess.run(cmd, cwd=REPO, stdout=subprocess.DEVNULL, stderr=subprocess.DEVNULL,
               env=dict(os.environ, PYTHONPATH=REPO))
passed = set()
for tc in ET.parse(out).getroot().iter("testcase"):
    if not any(ch.tag in ("failure", "error", "skipped") for ch in tc):
        passed.add(f"{tc.get('classname')}::{tc.get('name')}")
want = stable
if paths:
    pref = tuple(p.rstrip("/").replace("/", ".").removesuffix(".py") for p in paths)
    want = {t for t in stable if any(t.startswith(q + ".") or t.startswith(q + "::") for q in pref)}
missing = sorted(want - passed)
print(f"stable_pass in scope: {len(want)}; passed now: {len(passed)}; stable tests no longer passing: {len(missing)}")
for m in missing[:40]:
    print("  LOST", m)
sys.exit(1 if missing else 0)
