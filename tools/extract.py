#!/venv/bin/python
"""The translator (DESIGN 2.2): regenerate lean/Generated/*.lean from /repo's working tree.

For every plugin tools/specs/<x>.py:
    NS            name of the generated module (Generated/<NS>.lean, namespace Gen.<NS>)
    IMPORTS       other Lean modules to import
    functions()   list of pyfun2lean.FuncSpec (translated in order)
    constants()   optional: raw Lean text (tables, values) placed before the functions

Outputs
    lean/Generated/<NS>.lean      (rewritten only when the content changes)
    lean/Generated/index.json     function index: params, kinds, fallible — used by the harness
Exit status 0 = all translated; 3 = some function/constant could not be translated (listed in
index.json under "broken"): the check treats that as a broken tie, not as a pass.
"""
from __future__ import annotations

import hashlib
import importlib
import importlib.util
import json
import os
import sys
import traceback

HERE = os.path.dirname(os.path.abspath(__file__))
ROOT = os.path.dirname(HERE)
GEN = os.path.join(ROOT, "lean", "Generated")
sys.path.insert(0, HERE)
sys.path.insert(0, ROOT)

import pyfun2lean as P  # noqa: E402


def write_if_changed(path, text):
    old = None
    if os.path.exists(path):
        with open(path, encoding="utf8") as f:
            old = f.read()
    if old != text:
        with open(path, "w", encoding="utf8") as f:
            f.write(text)
        return True
    return False


def arg_parser(kind, tok):
    if kind == "int":
        return f"Btc.parseInt? {tok}"
    if kind == "bytes":
        return f"Btc.fromHex? {tok}"
    if kind == "bool":
        return f"(if {tok} == \"True\" then some true else if {tok} == \"False\" then some false else none)"
    raise P.Untranslatable(f"no argument parser for kind {kind}")


def renderer(kind, fallible, term):
    t = term if fallible else f"(Except.ok ({term}) : Except Btc.Py.PyErr _)"
    return f"Gen.render ({t})"


def load_plugins(only=None):
    plugs = []
    d = os.path.join(HERE, "specs")
    for fn in sorted(os.listdir(d)):
        if not fn.endswith(".py") or fn.startswith("_"):
            continue
        spec = importlib.util.spec_from_file_location("specs_" + fn[:-3], os.path.join(d, fn))
        m = importlib.util.module_from_spec(spec)
        spec.loader.exec_module(m)
        plugs.append(m)
    # a plugin may name the generated modules it calls into (`AFTER = ["VarInt"]`): those are
    # translated first (so their functions are in the registry) and are kept by an `only` filter
    by_ns = {m.NS: m for m in plugs}
    if only:
        keep, todo = set(), list(only)
        while todo:
            ns = todo.pop()
            if ns in keep or ns not in by_ns:
                continue
            keep.add(ns)
            todo += list(getattr(by_ns[ns], "AFTER", []))
        plugs = [m for m in plugs if m.NS in keep]
    ordered, placed = [], set()

    def place(m, stack=()):
        if m.NS in placed or m.NS in stack:
            return
        for dep in getattr(m, "AFTER", []):
            if dep in by_ns and by_ns[dep] in plugs:
                place(by_ns[dep], stack + (m.NS,))
        placed.add(m.NS)
        ordered.append(m)
    for m in plugs:
        place(m)
    return ordered


def generate(only=None, quiet=False):
    os.makedirs(GEN, exist_ok=True)
    registry = {}
    index = {"modules": {}, "broken": [], "source_sha": {}}
    changed = []
    plugs = load_plugins(only)
    tr = P.Translator(registry)
    for m in plugs:
        ns = m.NS
        broken = []
        fun_texts = []
        consts = {}
        entries = []
        try:
            const_text = m.constants() if hasattr(m, "constants") else ""
        except Exception as e:  # a constant that no longer exists in the source
            const_text = ""
            broken.append({"what": f"{ns}.constants", "why": f"{type(e).__name__}: {e}"})
        try:
            specs = m.functions() if hasattr(m, "functions") else []
        except Exception as e:
            specs = []
            broken.append({"what": f"{ns}.functions", "why": f"{type(e).__name__}: {e}"})
        for s in specs:
            s.ns = f"Gen.{ns}"
            try:
                txt = tr.translate(s)
            except P.Untranslatable as e:
                broken.append({"what": f"{s.module.__name__}.{s.pyname}", "why": str(e)})
                continue
            except Exception as e:
                broken.append({"what": f"{s.module.__name__}.{s.pyname}",
                               "why": "translator crash: " + traceback.format_exc(limit=3)})
                continue
            registry[(s.module.__name__, s.pyname)] = s
            for cname, (kind, lit) in tr.used_consts.items():
                if cname in consts and consts[cname] != (kind, lit):
                    broken.append({"what": cname, "why": "constant name clash"})
                consts[cname] = (kind, lit)
            fun_texts.append(f"/-- translated from `{s.module.__name__}.{s.pyname}` -/\n" + txt)
            entries.append(s)
            f = sys.modules[s.module.__name__].__file__
            with open(f, "rb") as fh:
                index["source_sha"][os.path.relpath(f, "/repo")] = hashlib.sha256(fh.read()).hexdigest()[:16]
        imports = ["Model.Common.Py", "Model.Common.GenRender"] + list(getattr(m, "IMPORTS", []))
        out = "-- GENERATED by tools/extract.py from /repo's working tree. Do not edit.\n"
        out += "".join(f"import {i}\n" for i in imports)
        out += f"\nnamespace Gen.{ns}\n\n"
        for cname, (kind, lit) in consts.items():
            out += f"def {cname} : {P.lean_type(kind)} := {lit}\n"
        if consts:
            out += "\n"
        if const_text:
            out += const_text.rstrip() + "\n\n"
        out += "\n".join(fun_texts)
        # dispatch
        out += "\n/-- line-protocol entry: function name, then one token per parameter. -/\n"
        out += "def dispatch (fn : String) (args : List String) : Option String :=\n  match fn, args with\n"
        for s in entries:
            toks = [f"a{i}" for i in range(len(s.lean_params))]
            pat = "[" + ", ".join(toks) + "]"
            binds = "".join(
                f"      let {n} ← {arg_parser(k, t)}\n" for (n, k), t in zip(s.lean_params, toks))
            app = s.lean + "".join(f" {n}" for n, _ in s.lean_params)
            out += f"  | \"{s.lean}\", {pat} => do\n{binds}      pure ({renderer(s.ret, s.fallible, app)})\n"
        out += "  | _, _ => none\n"
        out += f"\nend Gen.{ns}\n"
        if write_if_changed(os.path.join(GEN, f"{ns}.lean"), out):
            changed.append(ns)
        index["modules"][ns] = {
            "functions": [
                {"lean": s.lean, "py": f"{s.module.__name__}.{s.pyname}",
                 "params": [[n, k if isinstance(k, str) else list(k)] for n, k in s.lean_params],
                 "ret": s.ret if isinstance(s.ret, str) else list(s.ret), "fallible": s.fallible}
                for s in entries],
            "broken": broken,
        }
        index["broken"] += [dict(b, module=ns) for b in broken]
    write_if_changed(os.path.join(GEN, "index.json"), json.dumps(index, indent=1, sort_keys=True))
    if not quiet:
        for b in index["broken"]:
            print(f"extract: BROKEN {b['module']}: {b['what']}: {b['why']}", file=sys.stderr)
        print(f"extract: {sum(len(v['functions']) for v in index['modules'].values())} functions, "
              f"{len(index['broken'])} broken, changed files: {changed}", file=sys.stderr)
    return index, changed, registry


if __name__ == "__main__":
    idx, _, _ = generate(only=set(sys.argv[1:]) or None)
    sys.exit(3 if idx["broken"] else 0)
