#!/usr/bin/env python3
"""recfix.py <property> <key> <what…> : append a 'fixed:' line for /repo HEAD to known_findings.json and commit it."""
import json, subprocess, sys
prop, key, what = sys.argv[1], sys.argv[2], " ".join(sys.argv[3:])
k = json.load(open("/verif/known_findings.json"))
h = subprocess.check_output(["git", "-C", "/repo", "rev-parse", "--short", "HEAD"]).decode().strip()
k["fixed"].append(f"fixed: property={prop} {h} {what} (key {key})")
json.dump(k, open("/verif/known_findings.json", "w"), indent=1)
subprocess.run(["git", "-C", "/verif", "commit", "-qm", f"known_findings: {prop} {key} fixed", "--", "known_findings.json"])
print("recorded", h)
