#!/bin/bash
# Run every registered check once (tier = $1, default quick; seed from VERIF_SEED) and print one summary block per property.
cd "$(dirname "$0")/.."
tier=${1:-quick}
for p in C01 C02 C03 C04 C05 C06 C07 C08 C09 C10 C11 C12 C13 C14 C15 C16 C17 C18 C19 C20; do
  s=$(date +%s)
  out=$(timeout 3600 ./check $p --tier $tier 2>&1 | grep -v WARNING)
  e=$(date +%s)
  echo "=== $p wall=$((e-s))s"
  echo "$out" | grep -E "^(VIOLATION|check |check:)" | cut -c1-300
  echo "$out" | grep -c "^KNOWN-FINDING" | sed 's/^/known-finding lines: /'
done
