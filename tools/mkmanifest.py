#!/usr/bin/env python3
"""Write MANIFEST.json from tools/manifest_table.py (one place to edit; always schema-valid)."""
import json, os, sys
ROOT = os.path.dirname(os.path.dirname(os.path.abspath(__file__)))
sys.path.insert(0, os.path.join(ROOT, "tools"))
from manifest_table import CLAIMED, NOT_APPLICABLE, NOTES  # noqa: E402

BASELINE = json.load(open("/root/.vp/BASELINE.json"))["cmd"] if os.path.exists("/root/.vp/BASELINE.json") else \
    "cd /repo && /venv/bin/python -m pytest -ra -q -p no:cacheprovider --timeout=900 --continue-on-collection-errors"
m = {
    "version": 1,
    "setup_cmd": "./check --setup",
    "hooks": {"guard": "BTCLIB_VERIF", "enable": "none needed: no source hooks; checks call the installed (editable) /repo in-process",
              "baseline_off_cmd": BASELINE.replace(" --junitxml=<file>", ""), "source_commits": [], "add_only": True},
    "engines": [{"name": "lean", "path": "lean", "serves_properties": sorted(CLAIMED),
                 "kind_free_text": "Lean 4.33 model + theorems (lake project), translator tools/extract.py, "
                                   "Python correspondence harness harness/*.py, CLI ./check"}],
    "checks": [],
    "not_applicable": [{"property_id": k, "reason": v} for k, v in sorted(NOT_APPLICABLE.items())],
    "notes": NOTES,
}
for pid in sorted(CLAIMED):
    c = CLAIMED[pid]
    m["checks"].append({
        "property_id": pid,
        "quick_cmd": f"./check {pid} --tier quick",
        "thorough_cmd": f"./check {pid} --tier thorough",
        "evidence_file": f"evidence/{pid}.json",
        "replay_cmd_template": f"./check {pid} --replay {{path}}",
        "engine": "lean",
        "level_claimed": {"category": "proof", "text": c["text"], "design_ref": c.get("design_ref", f"DESIGN.md §3 {pid}")},
        "level_note": c["note"],
        "technique": c["technique"],
    })
json.dump(m, open(os.path.join(ROOT, "MANIFEST.json"), "w"), indent=1)
print("MANIFEST.json:", len(m["checks"]), "checks,", len(m["not_applicable"]), "not applicable")
