#!/usr/bin/env python3
"""recknown.py <property[,property]> <key> <what…> : add an OPEN known finding and commit."""
import json, subprocess, sys
props, key, what = sys.argv[1].split(","), sys.argv[2], " ".join(sys.argv[3:])
k = json.load(open("/verif/known_findings.json"))
for p in props:
    k["findings"].append({"property": p, "key": key, "status": "open", "what": what})
json.dump(k, open("/verif/known_findings.json", "w"), indent=1)
subprocess.run(["git", "-C", "/verif", "commit", "-qm", f"known_findings: {','.join(props)} {key} recorded", "--", "known_findings.json"])
print("recorded")
