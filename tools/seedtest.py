#!/usr/bin/env python3
"""Run checks against a seeded defect in isolation (neither /repo nor /verif is touched).

usage: tools/seedtest.py <seed_dir> [--props C05,C19] [--tier quick] [--keep]

<seed_dir> holds patch.diff, demo.py, meta.json.  A scratch worktree of /repo gets the patch,
a copy of /verif (with its build output) runs the checks against it through PYTHONPATH, the
verdicts are written to <seed_dir>/result.json, and the scratch copies are removed.
"""
import argparse
import json
import os
import shutil
import subprocess
import sys
import time

ap = argparse.ArgumentParser()
ap.add_argument("seed_dir")
ap.add_argument("--props")
ap.add_argument("--tier", default="quick")
ap.add_argument("--keep", action="store_true")
ap.add_argument("--no-check", action="store_true", help="confirm demo (and --tests) only; keep the verdicts of the previous result.json")
ap.add_argument("--tests", help="space-separated pytest paths to run in the patched worktree against BASELINE stable_pass")
a = ap.parse_args()
sd = os.path.abspath(a.seed_dir)
meta = json.load(open(os.path.join(sd, "meta.json")))
props = a.props.split(",") if a.props else [meta["property"]]
name = os.path.basename(sd.rstrip("/"))
work = f"/tmp/mut/{name}"
shutil.rmtree(work, ignore_errors=True)
os.makedirs(work)
repo = os.path.join(work, "repo")


def sh(cmd, **kw):
    return subprocess.run(cmd, stdout=subprocess.PIPE, stderr=subprocess.STDOUT, text=True, **kw)


res = {"seed": name, "props": {}, "time": time.strftime("%F %T")}
try:
    r = sh(["git", "-C", "/repo", "worktree", "add", "--detach", repo, "HEAD"])
    assert r.returncode == 0, r.stdout
    env_clean = dict(os.environ, PYTHONPATH=repo)
    d0 = sh(["/venv/bin/python", os.path.join(sd, "demo.py")], env=env_clean, cwd=work, timeout=600)
    r = sh(["git", "-C", repo, "apply", os.path.join(sd, "patch.diff")])
    res["patch_applies"] = r.returncode == 0
    if r.returncode != 0:
        res["apply_error"] = r.stdout[-500:]
    d1 = sh(["/venv/bin/python", os.path.join(sd, "demo.py")], env=env_clean, cwd=work, timeout=600)
    res["demo_clean_exit"], res["demo_patched_exit"] = d0.returncode, d1.returncode
    res["demo_patched_out"] = d1.stdout[-400:]
    if a.tests:
        t = sh(["python3", "/verif/tools/baseline_compare.py", "--repo", repo] + a.tests.split(), timeout=7200)
        res["tests"] = {"paths": a.tests, "result": t.stdout.strip().split("\n")[-3:], "pass": t.returncode == 0}
    prev = {}
    try:
        prev = json.load(open(os.path.join(sd, "result.json")))
    except Exception:
        pass
    if "tests" not in res and prev.get("tests"):
        res["tests"] = prev["tests"]          # confirmed by an earlier run of this tool with --tests
    if a.no_check:
        res["props"] = prev.get("props", {})
        res["time"] = prev.get("time", res["time"])
        props = []
    verif = os.path.join(work, "verif")
    if props:
      sh(["rsync", "-a", "--exclude", ".git", "--exclude", "replay/*.json", "--exclude", "seeded", "/verif/", verif + "/"])
    for p in props:
        t = time.time()
        env = dict(os.environ, PYTHONPATH=repo, VERIF_SEED=os.environ.get("VERIF_SEED", "0"))
        c = sh([os.path.join(verif, "check"), p, "--tier", a.tier], env=env, cwd=verif, timeout=3600)
        lines = [ln for ln in c.stdout.split("\n") if ln.startswith(("VIOLATION", "KNOWN-FINDING", "check "))]
        replay = None
        for ln in lines:
            if ln.startswith("VIOLATION"):
                path = ln.split("replay=")[1].split()[0]
                try:
                    replay = json.load(open(os.path.join(verif, path)))
                except Exception:
                    pass
                break
        res["props"][p] = {"exit": c.returncode, "lines": [ln[:300] for ln in lines], "wall_s": round(time.time() - t, 1),
                           "caught": c.returncode == 1,
                           "replay_kind": (replay or {}).get("kind"), "replay_key": (replay or {}).get("key"),
                           "replay_detail": str((replay or {}).get("detail") or (replay or {}).get("broken_obligations"))[:400],
                           "replay": json.loads(json.dumps(replay, default=str)[:6000] + "") if replay and len(json.dumps(replay, default=str)) <= 6000 else
                                     {k: str(v)[:1500] for k, v in (replay or {}).items()},
                           "tail": c.stdout[-600:] if c.returncode not in (0, 1) else ""}
finally:
    if not a.keep:
        sh(["git", "-C", "/repo", "worktree", "remove", "--force", repo])
        shutil.rmtree(work, ignore_errors=True)
json.dump(res, open(os.path.join(sd, "result.json"), "w"), indent=1)
print(json.dumps(res, indent=1))
