"""C18: fee / amount / weight arithmetic regenerated from the source (Generated/Fee.lean).

Objects are substituted away (FuncSpec.subst): `fee_rate.sats_per_kvbyte` is the integer `rate`,
`self.weight` the integer `weight`, `is_segwit(script_pub_key)` the boolean `segwit` (hand-modelled
in Model/C18/Fee.lean and tied by the `fee.dust` stream).  The Python side of each `gen.*` stream
calls the real function / property with real objects (FeeRate) or a stub carrying the substituted
attribute.
"""
import types
from decimal import Decimal

import btclib.block.block as block_mod
import btclib.psbt.psbt as psbt_mod
import btclib.tx.tx as tx_mod
from btclib import amount, fee
from btclib.fee import FeeRate
from btclib.psbt import psbt_size
from btclib.script.script_pub_key import is_segwit
from pyfun2lean import FuncSpec

NS = "Fee"
IMPORTS = ["Model.Common.PyFloat", "Generated.VarInt"]
AFTER = ["VarInt"]          # dust_threshold calls var_int.serialize


def constants():
    q = amount._BITCOIN_PER_SATOSHI.as_tuple()
    if q.digits != (1,) or q.sign != 0:
        raise ValueError(f"_BITCOIN_PER_SATOSHI is not a power of ten: {amount._BITCOIN_PER_SATOSHI}")
    if amount._MAX_BITCOIN != int(amount._MAX_BITCOIN):
        raise ValueError("_MAX_BITCOIN is not integral")
    if fee._VBYTES_PER_KVBYTE != 1000:
        # FeeRate.sats_per_vbyte prints three decimals (`:03d`): the model's unit conversion is stated for 1000
        raise ValueError("_VBYTES_PER_KVBYTE != 1000")
    rows = [
        ("DUST_RELAY_FEE_RATE", fee.DUST_RELAY_FEE_RATE.sats_per_kvbyte, "fee.DUST_RELAY_FEE_RATE.sats_per_kvbyte"),
        ("SIG_SIZE", psbt_size.SIG_SIZE, "psbt_size.SIG_SIZE: DER signature + sighash byte, worst case"),
        ("COMPRESSED_PUB_KEY_SIZE", psbt_size.COMPRESSED_PUB_KEY_SIZE, "psbt_size.COMPRESSED_PUB_KEY_SIZE"),
        ("OP_INT_OFFSET", psbt_size._OP_INT_OFFSET, "psbt_size._OP_INT_OFFSET"),
        ("SATOSHI_PER_BITCOIN", amount._SATOSHI_PER_BITCOIN, "amount._SATOSHI_PER_BITCOIN"),
        ("BTC_DECIMALS", -q.exponent, "amount._BITCOIN_PER_SATOSHI = 10^-BTC_DECIMALS"),
        ("MAX_BITCOIN", int(amount._MAX_BITCOIN), "amount._MAX_BITCOIN"),
        ("MAX_SATOSHI_VALUE", amount._MAX_SATOSHI, "amount._MAX_SATOSHI as loaded"),
    ]
    txt_pks = _pub_key_size_lean()
    from btclib.script import sig_ops
    txt = "".join(f"/-- `{doc}` -/\ndef {n} : Int := {v}\n" for n, v, doc in rows)
    txt += "/-- `sig_ops._CHECKSIG`, `sig_ops._CHECKMULTISIG` (op code bytes), `limits.MAX_PUBKEYS_PER_MULTISIG` -/\n"
    txt += f"def SIGOPS_CHECKSIG : List Nat := {sorted(sig_ops._CHECKSIG)}\n"
    txt += f"def SIGOPS_CHECKMULTISIG : List Nat := {sorted(sig_ops._CHECKMULTISIG)}\n"
    txt += f"def SIGOPS_MULTISIG_COST : Nat := {sig_ops.MAX_PUBKEYS_PER_MULTISIG}\n"
    # what tx_builder offers: the funding theorems are about build_psbt, which spends every input it is given (the
    # module states coin selection is not here); a further public name -- a selection strategy, say -- changes this
    # list and breaks `funding_entry_points`, so it cannot arrive unmodelled
    import btclib.tx_builder as tx_builder
    import inspect
    public = sorted(n for n, o in vars(tx_builder).items()
                    if not n.startswith("_") and (inspect.isfunction(o) or inspect.isclass(o))
                    and getattr(o, "__module__", None) == tx_builder.__name__)
    if sorted(tx_builder.__all__) != public:
        raise ValueError(f"tx_builder.__all__ {sorted(tx_builder.__all__)} is not its public definitions {public}")
    txt += "/-- the public functions and classes `btclib.tx_builder` defines (= its `__all__`) -/\n"
    txt += "def TX_BUILDER_PUBLIC : List String := [" + ", ".join(f'"{n}"' for n in public) + "]\n"
    txt += "/-- the parameters of `build_psbt`, in order -/\n"
    txt += "def BUILD_PSBT_PARAMS : List String := [" + ", ".join(
        f'"{n}"' for n in inspect.signature(tx_builder.build_psbt).parameters) + "]\n"
    return txt + txt_pks + _solution_sizes_lean()


def _pub_key_size_lean():
    """`psbt_size._pub_key_size` has a loop, which pyfun2lean does not translate; this recognises the one shape it has
    -- find the first key of hd_key_paths whose hash160 is the payload -- by comparing the AST with that shape, and
    emits the corresponding `List.find?`.  Any other body is a broken tie (raised here), never a silent pass."""
    import ast
    import inspect
    import textwrap

    import btclib.hashes
    fn = ast.parse(textwrap.dedent(inspect.getsource(psbt_size._pub_key_size))).body[0]
    body = [n for n in fn.body if not (isinstance(n, ast.Expr) and isinstance(n.value, ast.Constant))]
    want = ast.parse(textwrap.dedent("""
        for pub_key in psbt_in.hd_key_paths:
            if hash160(pub_key) == payload:
                return len(pub_key)
        return COMPRESSED_PUB_KEY_SIZE
    """)).body
    if [ast.dump(n) for n in body] != [ast.dump(n) for n in want] or [a.arg for a in fn.args.args] != ["psbt_in", "payload"] \
            or psbt_size.hash160 is not btclib.hashes.hash160:
        raise ValueError("psbt_size._pub_key_size is no longer the find-first loop the translator recognises: "
                         + ast.unparse(fn.body[-3:] if len(fn.body) > 3 else fn.body)[:300])
    return ("/-- translated (recognised shape: the first key of hd_key_paths whose hash160 is the payload, else the\n"
            "    compressed size) from `btclib.psbt.psbt_size._pub_key_size` -/\n"
            "def pub_key_size (hash160 : Btc.Bytes → Btc.Bytes) (hd_key_paths : List Btc.Bytes) (payload : Btc.Bytes) : Int :=\n"
            "  match hd_key_paths.find? (fun pub_key => hash160 pub_key == payload) with\n"
            "  | some pub_key => Btc.Py.len pub_key\n"
            "  | none => COMPRESSED_PUB_KEY_SIZE\n")


def _solution_sizes_lean():
    """`psbt_size._solution_sizes` answers lists per script-type string, which pyfun2lean does not translate; its body is
    compared (AST, docstring and comments aside) with the shape the hand model `Btc.C18.solutionSizes` mirrors, and the
    one piece of arithmetic in it -- the threshold read off OP_m -- is emitted from the source expression itself.
    Any other body is a broken tie (raised here), never a silent pass."""
    import ast
    import inspect
    import textwrap
    fn = ast.parse(textwrap.dedent(inspect.getsource(psbt_size._solution_sizes))).body[0]
    body = [n for n in fn.body if not (isinstance(n, ast.Expr) and isinstance(n.value, ast.Constant))]
    m_expr = None
    for node in ast.walk(fn):
        if isinstance(node, ast.Assign) and [ast.unparse(t) for t in node.targets] == ["m"]:
            m_expr = node.value
    if m_expr is None:
        raise ValueError("psbt_size._solution_sizes: no `m = …` assignment")
    want = ast.parse(textwrap.dedent("""
        if script_type == "p2pkh":
            return [SIG_SIZE, _pub_key_size(psbt_in, payload)]
        if script_type == "p2pk":
            return [SIG_SIZE]
        if script_type == "p2wpkh":
            return [SIG_SIZE, COMPRESSED_PUB_KEY_SIZE]
        if script_type == "p2ms":
            m = M_EXPR
            return [0, *[SIG_SIZE] * m]
        return None
    """).replace("M_EXPR", ast.unparse(m_expr))).body
    if [ast.dump(n) for n in body] != [ast.dump(n) for n in want] or \
            [a.arg for a in fn.args.args] != ["script_type", "payload", "psbt_in"]:
        raise ValueError("psbt_size._solution_sizes is no longer the per-type table the model mirrors")
    # the threshold: an integer expression over payload[0] and module constants
    names = {n.id for n in ast.walk(m_expr) if isinstance(n, ast.Name)}
    if not names <= {"payload", "_OP_INT_OFFSET"}:
        raise ValueError(f"psbt_size._solution_sizes: threshold reads {sorted(names)}")
    ops = {ast.Sub: "-", ast.Add: "+", ast.BitAnd: "&&&", ast.Mod: "%", ast.Mult: "*"}

    def tr(e):
        if isinstance(e, ast.BinOp) and type(e.op) in ops:
            if isinstance(e.op, ast.BitAnd):
                return f"(Int.ofNat (({tr(e.left)}).toNat &&& ({tr(e.right)}).toNat))"
            if isinstance(e.op, ast.Mod):
                return f"(({tr(e.left)}) % ({tr(e.right)}))"
            return f"(({tr(e.left)}) {ops[type(e.op)]} ({tr(e.right)}))"
        if isinstance(e, ast.Subscript) and ast.unparse(e) == "payload[0]":
            return "payload0"
        if isinstance(e, ast.Name) and e.id == "_OP_INT_OFFSET":
            return "OP_INT_OFFSET"
        if isinstance(e, ast.Constant) and isinstance(e.value, int) and not isinstance(e.value, bool):
            return f"({e.value} : Int)"
        raise ValueError(f"psbt_size._solution_sizes: threshold expression not translated: {ast.unparse(e)}")
    return ("/-- translated from the `m = …` line of `btclib.psbt.psbt_size._solution_sizes` (`payload0` = `payload[0]`, a byte);\n"
            "    the rest of that function is compared with the per-type table the model mirrors -/\n"
            f"def p2ms_threshold (payload0 : Int) : Int := {tr(m_expr)}\n")


# ----------------------------------------------------------------- argument generators
def _nat(rng, hi_bits=40):
    r = rng.random()
    if r < 0.25:
        return rng.choice([0, 1, 2, 3, 4, 999, 1000, 1001, 1999, 2000, 2001, 3000, 252, 253, 65535, 65536])
    if r < 0.5:
        return rng.randrange(0, 5000)
    return rng.getrandbits(rng.choice([4, 8, 12, 16, 24, 32, hi_bits, 64, 80]))


def _maybe_neg(rng, v):
    r = rng.random()
    return -v - 1 if r < 0.08 else v


def _gen_fee(rng):
    return (_maybe_neg(rng, _nat(rng)), _nat(rng))


def _gen_package(rng):
    r = rng.random()
    af = _nat(rng, 50) if r < 0.8 else rng.choice([amount._MAX_SATOSHI, amount._MAX_SATOSHI + 1, amount._MAX_SATOSHI - 1, -1])
    return (_maybe_neg(rng, _nat(rng)), _maybe_neg(rng, _nat(rng)), af, _nat(rng))


def _gen_sats(rng):
    m = amount._MAX_SATOSHI
    s = rng.choice([0, 1, -1, m - 1, m, m + 1, 2 * m, rng.randrange(0, m), rng.randrange(-m, 3 * m), _nat(rng)])
    d = rng.choice([0, 0, 0, 1, 546, -1, m, m + 1, _nat(rng, 30), s, s + 1, s - 1])
    return (s, d)


def rand_script(rng):
    """script_pub_key shapes around every branch of dust_threshold / is_segwit."""
    r = rng.random()
    rb = lambda n: bytes(rng.getrandbits(8) for _ in range(n))  # noqa: E731
    if r < 0.25:   # witness programs, valid and nearly valid
        ver = rng.choice([0, 0x51, 0x60, 0x50, 0x61, 0x4f, 1, rng.getrandbits(8)])
        n = rng.choice([1, 2, 3, 20, 32, 39, 40, 41, 75])
        push = n if rng.random() < 0.8 else rng.choice([n - 1, n + 1, 0, 255])
        return bytes([ver, push & 0xFF]) + rb(n)
    if r < 0.35:
        return bytes([0x6A]) + rb(rng.choice([0, 1, 20, 80, 300]))
    if r < 0.45:
        return rb(rng.choice([0, 1, 2]))
    if r < 0.6:    # CompactSize boundaries and MAX_SCRIPT_SIZE
        n = rng.choice([251, 252, 253, 254, 9999, 10000, 10001, 10002, 65535, 65536, 65537])
        first = rng.choice([0x6A, 0x00, 0x51, 0x76])
        return bytes([first]) + bytes(n - 1)
    if r < 0.8:    # standard legacy templates
        return rng.choice([
            bytes.fromhex("76a914") + rb(20) + bytes.fromhex("88ac"),
            bytes.fromhex("a914") + rb(20) + bytes.fromhex("87"),
            bytes([33]) + rb(33) + bytes([0xAC]),
            bytes([65]) + rb(65) + bytes([0xAC]),
        ])
    return rb(rng.randrange(0, 60))


def _gen_dust(rng):
    spk = rand_script(rng)
    return (spk, _nat(rng), is_segwit(spk))


def _gen_weight(rng):
    r = rng.random()
    if r < 0.3:
        return (rng.randrange(0, 4_000_100),)
    if r < 0.6:
        e = rng.choice([52, 53, 54, 55, 56, 60, 64, 100, 1023, 1024, 1025, 1026, 1027])
        return (_maybe_neg(rng, max(0, 2 ** e + rng.randrange(-40, 40))),)
    if r < 0.8:   # around ties of the 53-bit rounding
        e = rng.choice([53, 54, 55, 56, 57, 70])
        q = rng.getrandbits(53) | (1 << 52)
        half = 1 << (e - 53 - 1) if e > 53 else 0
        return (_maybe_neg(rng, (q << (e - 53)) + half + rng.choice([-1, 0, 1])),)
    return (_maybe_neg(rng, rng.getrandbits(rng.choice([8, 30, 53, 54, 64, 200, 1030]))),)


def _gen_sizes(rng):
    a = _nat(rng, 50)
    return (a, a + _nat(rng, 50) if rng.random() < 0.8 else _nat(rng, 50))


class _Sized:
    def __init__(self, stripped, total):
        self.stripped, self.total = stripped, total
        self.stripped_size, self.size = stripped, total

    def _serialized_size(self, include_witness):
        return self.total if include_witness else self.stripped


class _Item:
    def __init__(self, size, wsize=0):
        self._s, self.script_witness = size, types.SimpleNamespace(_serialized_size=lambda: wsize)

    def _serialized_size(self, include_witness=None):
        return self._s


def _spread(total, n, wtotal=0):
    """n items whose sizes sum to total (the source sums over the items; the translation takes the sum)"""
    if n == 0:
        return []
    return [_Item(total, wtotal)] + [_Item(0) for _ in range(min(n, 4) - 1)]


class _FakeBlock:
    def __init__(self, header, n_tx, txs):
        self.header = types.SimpleNamespace(_serialized_size=lambda: header)
        self.transactions = _Counted(_spread(txs, n_tx), n_tx)


class _FakeTx:
    def __init__(self, is_segwit, n_in, n_out, ins, outs, wits):
        self.is_segwit = is_segwit
        self.vin = _Counted(_spread(ins, n_in, wits), n_in)
        self.vout = _Counted(_spread(outs, n_out), n_out)


class _Counted(list):
    """a list that reports a length of its own, so that counts beyond memory (CompactSize 2^16, 2^32) are reached"""
    def __init__(self, items, n):
        super().__init__(items[:4])
        self._n = n

    def __len__(self):
        return self._n


def _count(rng):
    return rng.choice([1, 2, 3, 252, 253, 254, 65535, 65536, 2**32 - 1, 2**32, rng.randrange(1, 5000)])


def _gen_block_sizes(rng):
    return (rng.choice([80, 80, 80, _nat(rng, 20)]), _count(rng), _nat(rng, 40))


def _gen_tx_sizes(rng):
    return (rng.random() < 0.6, rng.random() < 0.6, _count(rng), _count(rng), _nat(rng, 40), _nat(rng, 40), _nat(rng, 40))


def _prop(cls, name):
    return getattr(cls, name).fget


def functions():
    rate = {"fee_rate.sats_per_kvbyte": ("rate", "int")}
    as_rate = {"fee_rate": ("rate", "int")}
    w = {"self.weight": ("weight", "int")}
    return [
        FuncSpec(amount, "valid_sats_amount", "int", params=[("sats", "int"), ("dust", "int")],
                 skip_stmts=("if isinstance(amount, bool)", "try:", "if amount is not None and sats != amount"),
                 call=lambda sats, dust: amount.valid_sats_amount(sats, dust), gen=_gen_sats),
        FuncSpec(fee, "fee_from_vsize", "int", params=[("vsize", "int")], subst=rate,
                 call=lambda vsize, r: fee.fee_from_vsize(vsize, FeeRate(sats_per_kvbyte=r)), gen=_gen_fee),
        FuncSpec(fee, "package_fee", "int",
                 params=[("vsize", "int"), ("ancestor_vsize", "int"), ("ancestor_fee", "int")], subst=as_rate,
                 call=lambda v, av, af, r: fee.package_fee(v, FeeRate(sats_per_kvbyte=r), ancestor_vsize=av, ancestor_fee=af),
                 gen=_gen_package),
        FuncSpec(fee, "dust_threshold", "int", params=[("script_pub_key", "bytes")],
                 subst={**as_rate, "is_segwit(script_pub_key)": ("segwit", "bool")},
                 call=lambda spk, r, _sw: fee.dust_threshold(spk, FeeRate(sats_per_kvbyte=r)), gen=_gen_dust),
        FuncSpec(tx_mod, "Tx.weight", "int", params=[], lean="tx_weight",
                 subst={"self._serialized_size(include_witness=False)": ("stripped", "int"),
                        "self._serialized_size(include_witness=True)": ("total", "int")},
                 call=lambda s, t: _prop(tx_mod.Tx, "weight")(_Sized(s, t)), gen=_gen_sizes),
        FuncSpec(tx_mod, "Tx.vsize", "int", params=[], lean="tx_vsize", subst=w,
                 call=lambda x: _prop(tx_mod.Tx, "vsize")(types.SimpleNamespace(weight=x)), gen=_gen_weight),
        FuncSpec(block_mod, "Block.weight", "int", params=[], lean="block_weight",
                 subst={"self.stripped_size": ("stripped", "int"), "self.size": ("total", "int")},
                 call=lambda s, t: _prop(block_mod.Block, "weight")(_Sized(s, t)), gen=_gen_sizes),
        # the sums themselves: a size is the header / the fixed fields, the CompactSize of each count and the sizes
        # of the items (the items' own sizes are the integer parameters; var_int._size is Generated.VarInt.size)
        FuncSpec(block_mod, "Block._serialized_size", "int", params=[], lean="block_serialized_size",
                 subst={"self.header._serialized_size()": ("header", "int"),
                        "len(self.transactions)": ("n_tx", "int"),
                        "sum((t._serialized_size(include_witness) for t in self.transactions))": ("txs", "int")},
                 call=lambda h, n, t: block_mod.Block._serialized_size(_FakeBlock(h, n, t), True), gen=_gen_block_sizes),
        FuncSpec(tx_mod, "Tx._serialized_size", "int", params=[("include_witness", "bool")], lean="tx_serialized_size",
                 subst={"self.is_segwit": ("is_segwit", "bool"),
                        "len(self.vin)": ("n_in", "int"), "len(self.vout)": ("n_out", "int"),
                        "sum((tx_in._serialized_size() for tx_in in self.vin))": ("ins", "int"),
                        "sum((tx_out._serialized_size() for tx_out in self.vout))": ("outs", "int"),
                        "sum((tx_in.script_witness._serialized_size() for tx_in in self.vin))": ("wits", "int")},
                 call=lambda iw, sw, ni, no, i, o, w_: tx_mod.Tx._serialized_size(_FakeTx(sw, ni, no, i, o, w_), iw),
                 gen=_gen_tx_sizes),
        FuncSpec(block_mod, "Block.vsize", "int", params=[], lean="block_vsize", subst=w,
                 call=lambda x: _prop(block_mod.Block, "vsize")(types.SimpleNamespace(weight=x)), gen=_gen_weight),
        FuncSpec(psbt_size, "_taproot_sig_size", "int", params=[],
                 subst={"psbt_in.sig_hash_type": ("sig_hash_type", "int")},
                 call=lambda v: psbt_size._taproot_sig_size(types.SimpleNamespace(sig_hash_type=v)),
                 gen=lambda rng: (rng.choice([0, 0, 1, 2, 3, 0x81, 0x82, 0x83, 255, _nat(rng)]),)),
        FuncSpec(psbt_mod, "Psbt.vsize_estimate", "int", params=[], lean="psbt_vsize_estimate",
                 subst={"self.weight_estimate(sizer)": ("weight", "int")},
                 call=lambda x: psbt_mod.Psbt.vsize_estimate(
                     types.SimpleNamespace(weight_estimate=lambda sizer=None: x)),
                 gen=_gen_weight),
    ]
