"""C04 — the delegation guards of every function that calls into `btclib._libsecp256k1`, read off the source AST.

For every site (module, function) listed in SITES the plugin finds every call whose callee is a name imported from
`btclib._libsecp256k1` (or one of the site's private delegates), collects the PATH CONDITION under which the call is
reached (enclosing `if` tests, negated tests of earlier branches that always leave, conditional expressions, the left
operands of the `and`/`or` chain the call stands in), notes whether the call is wrapped by `try … except ValueError`
/ `contextlib.suppress(ValueError)` (the bindings' refusal is translated), and which validating statements precede it
(`x % ec.n`, `ec.require_on_curve(Q)`, `scalar_from_prv_key`, `bytes_from_octets(x, 32)` …: the ESTABLISHED facts).

Everything is emitted as Lean over one abstract input-class record `Gen.Backend.Atoms` (one Boolean per atomic test the
guards read).  `_libsecp256k1_serves` itself is straight-line and goes through pyfun2lean.  An atom, statement shape or
site that is not recognised is reported as BROKEN (never skipped): the check then treats the tie as broken.
"""
from __future__ import annotations

import ast
import inspect

from pyfun2lean import FuncSpec, Untranslatable

from btclib import silent_payments
from btclib.bip32 import bip32
from btclib.curves import curve, sec_point
from btclib.ecc import bms, commit_nonce, dh, dsa, ellswift, musig2, ssa
from btclib.script import taproot
from btclib.script.engine import script as eng_script
from btclib.script.engine import tapscript as eng_tapscript

NS = "Backend"

# ------------------------------------------------------------------ the abstract input-class record
# (atom, meaning).  Order is the field order of `structure Atoms`.
ATOM_DOC = [
    ("flag", "`curve._libsecp256k1_available`: the process-wide switch"),
    ("ec_is_secp256k1", "the curve argument equals secp256k1"),
    ("hf_none_or_sha256", "the hash argument is None or is sha256 (identity)"),
    ("s1_nonzero", "first scalar, as the guard reads it (already reduced mod n), is not 0"),
    ("s2_nonzero", "second scalar, reduced, is not 0"),
    ("p1_finite", "first point has y != 0 (is not the point at infinity)"),
    ("p2_finite", "second point has y != 0"),
    ("p1_is_generator", "the point argument is None or equals ec.G"),
    ("x_in_field", "0 <= x < p"),
    ("all_terms_nonzero_finite", "every (scalar, point) pair of the sum has a non-zero scalar and a finite point"),
    ("n_terms_gt_1", "the sum has more than one term"),
    ("n_finite_lt_2", "fewer than two finite terms are left in the sum"),
    ("nonce_is_none", "no caller-imposed nonce"),
    ("lower_s", "the lower-s form was asked for"),
    ("commit_is_none", "no sign-to-contract commitment"),
    ("key_id_0_3", "0 <= key_id <= 3"),
    ("q_len_32", "the output key is 32 bytes"),
    ("compressed_len", "the octets have the compressed length p_size + 1"),
    ("msg_len_32", "the message is 32 bytes"),
    ("no_adaptor", "the session carries no adaptor"),
    ("chain_held", "the tweak chain still holds a bindings object (built under its own guard, not yet dropped)"),
    ("outputs_nonempty", "outputs_to_check is not empty"),
    ("groups_nonempty", "at least one recipient group"),
    ("pub_key_given", "a pub_key argument was passed"),
    ("verify", "verify=True"),
    # facts established by statements that precede the delegation on every path to it
    ("s1_reduced", "first scalar is the result of `% ec.n` (0 <= s1 < n)"),
    ("s2_reduced", "second scalar is the result of `% ec.n`"),
    ("s1_in_1_n", "first scalar came through scalar_from_prv_key / int_from_prv_key (1 <= s1 < n)"),
    ("p1_on_curve", "first point passed ec.require_on_curve / point_from_pub_key / bytes_from_point"),
    ("p2_on_curve", "second point passed ec.require_on_curve"),
    ("all_on_curve", "every point of the sequence passed ec.require_on_curve"),
    ("all_scalars_reduced", "every scalar of the sequence is the result of `% ec.n`"),
    ("msg_sized", "the message went through bytes_from_octets(msg, hf_len | 32)"),
    ("sig_valid", "the signature passed Sig.assert_valid / Sig.parse (0 < r, s < n; r an x-coordinate)"),
    ("offset_lt_n", "the 32-byte tweak was compared against n"),
    ("session_validated", "the MuSig2 session went through session_values (keys are points, tweaks in range, aggregate finite)"),
    ("fields_sized", "every byte-string field went through bytes_from_octets with its fixed size"),
    ("signer_held", "the Signer object holds a bindings-side key (built under its own guard, while the bindings served)"),
    ("pub_key_proved", "the pub_key argument, when given, was proved a point of the curve before the call"),
]
ATOMS = [a for a, _ in ATOM_DOC]

SERVES = "_libsecp256k1_serves"


class Site:
    def __init__(self, key, module, qualname, atoms=None, facts=None, via=(), returns=None, expect=None):
        self.key = key
        self.module = module
        self.qualname = qualname
        self.atoms = atoms or {}       # unparsed test text -> atom | ("ref", <guard name>) | ("const", bool)
        self.facts = facts or []       # (statement text prefix, fact atom)
        self.via = tuple(via)          # private delegates that count as "the bindings" at this site
        self.returns = returns         # text prefix of a `return` that is the delegation (for _x_octets)
        self.expect = expect           # callee suffixes expected, in order (None: whatever is found, at least one)


SITES = [
    # ---- curves/curve.py
    Site("x_octets", curve, "_x_octets", atoms={"0 <= x < ec.p": "x_in_field"}, returns="return x.to_bytes("),
    Site("is_x_coordinate", curve, "_is_x_coordinate_var", atoms={"octets is not None": ("ref", "x_octets__return")}),
    Site("y_even", curve, "_y_even_var", atoms={"octets is not None": ("ref", "x_octets__return")}),
    Site("multi_mult_x_only", curve, "_multi_mult_x_only_var", via=("_libsecp256k1_multi_mult_",)),
    Site("mult_checked", curve, "_mult_checked",
         atoms={"m": "s1_nonzero", "Q is None or Q == ec.G": "p1_is_generator", "Q[1]": "p1_finite"},
         # "the arguments already validated and m already reduced": established by its two callers
         facts=[("m: int = int_from_integer(m_int) % ec.n", "s1_reduced", "mult"),
                ("if Q is not None and Q != ec.G:\n    ec.require_on_curve(Q)", "p1_on_curve", "mult"),
                ("m: int = int_from_integer(m_int) % self.ec.n", "s1_reduced", "PreparedPoint.mult"),
                ("ec.require_on_curve(point)", "p1_on_curve", "PreparedPoint.__init__")],
         via=("_libsecp256k1_multi_mult",)),
    Site("double_mult", curve, "double_mult_var",
         atoms={"u": "s1_nonzero", "v": "s2_nonzero", "H[1]": "p1_finite", "Q[1]": "p2_finite"},
         facts=[("u = int_from_integer(u) % ec.n", "s1_reduced"), ("v = int_from_integer(v) % ec.n", "s2_reduced"),
                ("ec.require_on_curve(H)", "p1_on_curve"), ("ec.require_on_curve(Q)", "p2_on_curve")],
         via=("_libsecp256k1_multi_mult",)),
    Site("sum", curve, "_sum_var", atoms={"len(secs) < 2": "n_finite_lt_2"},
         facts=[("for Q in points:\n    ec.require_on_curve(Q)", "all_on_curve")]),
    Site("tweak_add", curve, "_tweak_add_var", atoms={"P[1]": "p1_finite"},
         facts=[("ec.require_on_curve(P)", "p1_on_curve"), ("t %= ec.n", "s1_reduced")]),
    Site("tweak_chain_init", curve, "_TweakChain.__init__", atoms={"base[1]": "p1_finite"},
         facts=[("ec.require_on_curve(base)", "p1_on_curve")], via=("Libsecp256k1PubkeyTweakChain",)),
    Site("tweak_chain_point", curve, "_TweakChain.point", atoms={"self._chain is not None": "chain_held"},
         facts=[("t %= self.ec.n", "s1_reduced")], via=("self._chain.tweak_add",)),
    # Jacobian front of double_mult_var for the two verifications: asks the predicate itself, the "call" is double_mult_var
    Site("jac_double_mult", curve, "_jac_double_mult", via=("double_mult_var",)),
    Site("multi_mult", curve, "multi_mult_var",
         atoms={"len(points) > 1": "n_terms_gt_1",
                "all((m and Q[1] for m, Q in zip(ints, points, strict=True)))": "all_terms_nonzero_finite"},
         facts=[("ints = [int_from_integer(s) % ec.n for s in scalars]", "all_scalars_reduced"),
                ("for Q in points:\n    ec.require_on_curve(Q)", "all_on_curve")],
         via=("_libsecp256k1_multi_mult",)),
    # ---- curves/sec_point.py
    Site("bytes_from_prv_key_int", sec_point, "bytes_from_prv_key_int", atoms={"q": "s1_nonzero"},
         facts=[("q = int_from_integer(prv_key_int) % ec.n", "s1_reduced")]),
    Site("mult_sec", sec_point, "_mult_sec_var", atoms={"m": "s1_nonzero"}),
    Site("sec_from_octets", sec_point, "_sec_from_octets", atoms={"compressed": "compressed_len"}),
    # ---- ecc/dsa.py
    Site("dsa_sign", dsa, "sign_",
         atoms={"nonce is None": "nonce_is_none", "lower_s": "lower_s", "commit_hash is None": "commit_is_none"},
         facts=[("msg_hash = bytes_from_octets(msg_hash, hf_len)", "msg_sized"), ("q = scalar_from_prv_key(prv_key, ec)", "s1_in_1_n")],
         via=("_libsecp256k1_sign_",)),
    Site("dsa_sign_recoverable", dsa, "sign_recoverable_",
         atoms={"nonce is None": "nonce_is_none", "lower_s": "lower_s"},
         facts=[("msg_hash = bytes_from_octets(msg_hash, hf_len)", "msg_sized"), ("q = scalar_from_prv_key(prv_key, ec)", "s1_in_1_n")]),
    Site("dsa_assert_as_valid", dsa, "assert_as_valid_",
         atoms={"isinstance(sig, Sig)": ("const", True)},
         facts=[("if isinstance(sig, Sig):\n    sig.assert_valid()\nelse:\n    sig = Sig.parse(sig)", "sig_valid"),
                ("msg_hash_bytes = bytes_from_octets(msg_hash, 32)", "msg_sized")]),
    Site("dsa_recover_pub_keys", dsa, "recover_pub_keys_", atoms={"isinstance(sig, Sig)": ("const", True)},
         facts=[("if isinstance(sig, Sig):\n    sig.assert_valid()\nelse:\n    sig = Sig.parse(sig)", "sig_valid"),
                ("msg_hash = bytes_from_octets(msg_hash, hf_len)", "msg_sized")],
         via=("_libsecp256k1_recover_point_",)),
    Site("dsa_recover_pub_key", dsa, "recover_pub_key_",
         atoms={"0 <= key_id <= 3": "key_id_0_3", "isinstance(sig, Sig)": ("const", True)},
         facts=[("if isinstance(sig, Sig):\n    sig.assert_valid()\nelse:\n    sig = Sig.parse(sig)", "sig_valid"),
                ("msg_hash = bytes_from_octets(msg_hash, hf_len)", "msg_sized")],
         via=("_libsecp256k1_recover_point_",)),
    Site("dsa_signer_init", dsa, "Signer.__init__",
         atoms={"self._pub_key_sec is not None": ("ref", "dsa_signer_init__sec_from_pub_key")},
         facts=[("self._q = scalar_from_prv_key(prv_key, ec)", "s1_in_1_n"), ("Q = mult(self._q, ec=ec)", "p1_on_curve")],
         via=("_sec_from_pub_key",)),
    Site("dsa_signer_sign", dsa, "Signer.sign_", atoms={"self._pub_key_sec is not None": "signer_held", "self._wiped": ("const", False)},
         facts=[("msg_hash = bytes_from_octets(msg_hash, self._hf_len)", "msg_sized")], via=("_delegated_sign_",)),
    # ---- ecc/ssa.py
    Site("ssa_signer_init", ssa, "Signer.__init__", facts=[("self._q = scalar_from_prv_key(prv_key, ec)", "s1_in_1_n")]),
    Site("ssa_signer_sign", ssa, "Signer.sign_", atoms={"self._signer is None": ("not", "signer_held"), "self._wiped": ("const", False)},
         via=("self._signer.sign_custom", "self._signer.sign")),
    Site("ssa_sign", ssa, "sign_", atoms={"commit_hash is None": "commit_is_none", "commit_hash is not None": ("const", False)},
         facts=[("q = scalar_from_prv_key(prv_key, ec)", "s1_in_1_n")]),
    Site("ssa_assert_as_valid", ssa, "assert_as_valid_", atoms={"isinstance(sig, Sig)": ("const", True)},
         facts=[("if isinstance(sig, Sig):\n    sig.assert_valid()\nelse:\n    sig = Sig.parse(sig)", "sig_valid"),
                ("x_bytes = _x_only_bytes(x_Q, sig.ec)", "fields_sized")]),
    # ---- ecc/bms.py, dh.py, commit_nonce.py, ellswift.py, musig2.py
    Site("bms_assert_as_valid", bms, "assert_as_valid", atoms={"isinstance(sig, Sig)": ("const", True)},
         facts=[("if isinstance(sig, Sig):\n    sig.assert_valid()\nelse:\n    sig = Sig.b64decode(sig)", "sig_valid")],
         via=("_libsecp256k1_recover_sec_",)),
    Site("dh", dh, "diffie_hellman", atoms={"d": "s1_nonzero", "QV[1]": "p1_finite"},
         facts=[("d = dU % ec.n", "s1_reduced"), ("bytes_from_point(QV, ec, compressed=False)", "p1_on_curve")]),
    Site("commit_nonce", commit_nonce, "commit_nonce_",
         facts=[("nonce = scalar_from_prv_key(nonce, ec)", "s1_in_1_n")]),
    Site("ellswift_create", ellswift, "create_var", facts=[("q = scalar_from_prv_key(prv_key, ec)", "s1_in_1_n")]),
    Site("ellswift_encode", ellswift, "encode_var", facts=[("Q = point_from_pub_key(pub_key, ec)", "p1_on_curve")]),
    Site("ellswift_decode", ellswift, "decode_var"),
    Site("ellswift_xdh", ellswift, "xdh",
         facts=[("q = scalar_from_prv_key(prv_key, ec)", "s1_in_1_n")]),
    Site("musig_partial_sig_verify", musig2, "partial_sig_verify_",
         atoms={"len(session_ctx.msg) == _SCALAR_SIZE": "msg_len_32", "session_ctx.adaptor is None": "no_adaptor",
                # `if s >= n: return False` precedes the dispatch on both arms: the guard is read for an in-range psig
                "s >= secp256k1.n": ("const", False)},
         facts=[("values = session_values(session_ctx)", "session_validated"),
                ("psig_bytes = bytes_from_octets(psig, _SCALAR_SIZE)", "fields_sized"),
                ("pub_nonce = bytes_from_octets(pub_nonce, _NONCE_SIZE)", "fields_sized"),
                ("pub_key = bytes_from_octets(pub_key, _PK_SIZE)", "fields_sized")],
         via=("_bindings_session",)),
    # ---- bip32
    Site("bip32_prv_derivation", bip32, "__prv_key_derivation",
         facts=[("if offset >= _N_BYTES:", "offset_lt_n")]),
    Site("bip32_pub_chain", bip32, "_pub_key_tweak_chain"),
    # ---- script/taproot.py
    Site("taproot_tweaked_pubkey", taproot, "_tweaked_pubkey"),
    Site("taproot_tweaked_prvkey", taproot, "_tweaked_prvkey",
         facts=[("return _tweaked_prvkey(int_from_prv_key(prv_key), h)", "s1_in_1_n", "output_prvkey"),
                ("return _tweaked_prvkey(int_from_prv_key(prv_key), bytes_from_octets(merkle_root))", "s1_in_1_n",
                 "output_prvkey_from_merkle_root")]),
    Site("taproot_check_output_pubkey", taproot, "check_output_pubkey",
         atoms={"len(q) == 32": "q_len_32"},
         facts=[("if len(control) != 33 + 32 * m:", "fields_sized")]),
    # ---- script engine
    Site("engine_dsa_verify", eng_script, "dsa_verify"),
    Site("engine_ssa_verify", eng_tapscript, "ssa_verify"),
    # ---- silent payments
    Site("sp_output_keys", silent_payments, "output_keys",
         atoms={"not groups": ("not", "groups_nonempty")},
         via=("_delegated_output_keys",)),
    Site("sp_scan_transaction_outputs", silent_payments, "scan_transaction_outputs", via=("_delegated_scan_outputs",)),
    Site("sp_delegated_scan_outputs", silent_payments, "_delegated_scan_outputs",
         atoms={"outputs_bytes": "outputs_nonempty", "is_p2tr(bytes_from_octets(script_pub_key))": ("const", True)}),
]


# ------------------------------------------------------------------ AST helpers
def _find_def(module, qualname):
    tree = ast.parse(inspect.getsource(module))
    body = tree.body
    node = None
    for part in qualname.split("."):
        node = None
        for n in body:
            if isinstance(n, (ast.FunctionDef, ast.ClassDef)) and n.name == part:
                node = n
        if node is None:
            raise Untranslatable(f"{module.__name__}.{qualname}: definition not found")
        body = node.body
    if not isinstance(node, ast.FunctionDef):
        raise Untranslatable(f"{module.__name__}.{qualname}: not a function")
    return node, tree


def _binding_aliases(tree):
    """local names bound by `from btclib._libsecp256k1 import X [as Y]` (the two status flags excepted)"""
    out = set()
    for n in ast.walk(tree):
        if isinstance(n, ast.ImportFrom) and n.module == "btclib._libsecp256k1":
            for a in n.names:
                if a.name not in ("ENABLED", "INSTALLED", "NO_LIBSECP256K1"):
                    out.add(a.asname or a.name)
    return out


def _callee(call):
    f = call.func
    txt = ast.unparse(f)
    root = f
    while isinstance(root, ast.Attribute):
        root = root.value
    return txt, (root.id if isinstance(root, ast.Name) else None)


def _exits(stmts):
    """the block always leaves the function (return / raise as its last statement, or an if/else that does on both arms)"""
    if not stmts:
        return False
    last = stmts[-1]
    if isinstance(last, (ast.Return, ast.Raise)):
        return True
    if isinstance(last, ast.If) and last.orelse:
        return _exits(last.body) and _exits(last.orelse)
    return False


class _Not:
    def __init__(self, node):
        self.node = node


class Found:
    def __init__(self, callee, conds, catches, lineno):
        self.callee = callee
        self.conds = conds
        self.catches = bool(catches)
        # what each enclosing ValueError handler DOES with the bindings' refusal, innermost last (see `_handler_action`)
        self.handlers = tuple(catches) if catches else ()
        self.lineno = lineno


def _catches_value_error(handlers):
    for h in handlers:
        if h.type is None:
            return True
        names = [ast.unparse(e) for e in (h.type.elts if isinstance(h.type, ast.Tuple) else [h.type])]
        if any(nm in ("ValueError", "Exception", "BTClibValueError") for nm in names):
            return True
    return False


_EXC_CLASS = {"BTClibValueError": "raisesValue", "BTClibRuntimeError": "raisesRuntime", "BTClibTypeError": "raisesType"}


def _raised_class(module, exc):
    """`raise X(...)` / `raise helper(...)`: the btclib class raised, as a HandlerAction name"""
    if isinstance(exc, ast.Call):
        nm = ast.unparse(exc.func)
        if nm in _EXC_CLASS:
            return _EXC_CLASS[nm]
        if nm.isidentifier():  # a helper that builds the exception: read its `return X(...)` statements
            try:
                fn, _ = _find_def(module, nm)
            except Untranslatable:
                return None
            got = {_raised_class(module, r.value) for r in ast.walk(fn) if isinstance(r, ast.Return) and r.value is not None}
            if len(got) == 1:
                return got.pop()
    return None


def _handler_action(module, handler_body):
    """what an `except ValueError` body does with the bindings' refusal:
    raises<Class>      every path ends in `raise BTClib…Error(...)` of ONE class
    returnsFalse       `return False`
    pythonThenReraise  runs the Python arm's own validation (which raises first), then a bare `raise`
    fallThrough        neither raises nor returns: execution continues on the Python arm"""
    raises = [n for st in handler_body for n in ast.walk(st) if isinstance(n, ast.Raise)]
    returns = [n for st in handler_body for n in ast.walk(st) if isinstance(n, ast.Return)]
    if raises and not returns:
        if all(r.exc is None for r in raises):
            if len(handler_body) > 1:
                return "pythonThenReraise"
            raise Untranslatable("a handler that only re-raises the bindings' ValueError")
        classes = {_raised_class(module, r.exc) for r in raises}
        if len(classes) == 1 and None not in classes and _exits(handler_body):
            return classes.pop()
        raise Untranslatable(f"handler raises {sorted(map(str, classes))}: not one btclib class on every path")
    if returns and not raises:
        if all(isinstance(r.value, ast.Constant) and r.value.value is False for r in returns) and _exits(handler_body):
            return "returnsFalse"
        raise Untranslatable("handler returns something other than False")
    if not raises and not returns:
        return "fallThrough"
    raise Untranslatable("handler both raises and returns")


def _suppresses_value_error(with_node):
    for it in with_node.items:
        c = it.context_expr
        if isinstance(c, ast.Call) and ast.unparse(c.func) in ("contextlib.suppress", "suppress"):
            if any(ast.unparse(a) in ("ValueError", "Exception", "BTClibValueError") for a in c.args):
                return True
    return False


class Extractor:
    def __init__(self, site):
        self.site = site
        self.fn, tree = _find_def(site.module, site.qualname)
        self.aliases = _binding_aliases(tree)
        self.found = []
        self.seen_stmts = []   # unparsed statements in order, for the facts
        self.refusals = []     # tests of `if T: raise` statements met before a delegation

    def is_delegation(self, call):
        txt, root = _callee(call)
        if txt in self.site.via or root in self.aliases:
            return txt
        if isinstance(call.func, ast.Name) and call.func.id in self.aliases:
            return txt
        return None

    def scan(self, node, conds, catches):
        if isinstance(node, ast.IfExp):
            self.scan(node.test, conds, catches)
            self.scan(node.body, conds + [node.test], catches)
            self.scan(node.orelse, conds + [_Not(node.test)], catches)
            return
        if isinstance(node, ast.BoolOp):
            for i, v in enumerate(node.values):
                prev = node.values[:i]
                extra = list(prev) if isinstance(node.op, ast.And) else [_Not(p) for p in prev]
                self.scan(v, conds + extra, catches)
            return
        if isinstance(node, (ast.FunctionDef, ast.Lambda, ast.AsyncFunctionDef)):
            return  # a nested definition is not executed here
        if isinstance(node, ast.Call):
            d = self.is_delegation(node)
            if d is not None:
                self.found.append(Found(d, list(conds), catches, node.lineno))
        for ch in ast.iter_child_nodes(node):
            self.scan(ch, conds, catches)

    def walk(self, stmts, conds, catches):
        conds = list(conds)
        for st in stmts:
            self.seen_stmts.append(ast.unparse(st))
            if isinstance(st, ast.If):
                self.scan(st.test, conds, catches)
                self.walk(st.body, conds + [st.test], catches)
                self.walk(st.orelse, conds + [_Not(st.test)], catches)
                if _exits(st.body) and not (st.orelse and _exits(st.orelse)):
                    if isinstance(st.body[-1], ast.Raise) and not st.orelse:
                        # `if T: raise …` before the dispatch: a refusal both arms share, not part of the guard
                        self.refusals.append(ast.unparse(st.test))
                    else:
                        conds = conds + [_Not(st.test)]
                elif st.orelse and _exits(st.orelse):
                    conds = conds + [st.test]
            elif isinstance(st, ast.Try):
                c = catches
                if _catches_value_error(st.handlers):
                    hb = [h for h in st.handlers if _catches_value_error([h])][0].body
                    try:
                        act = _handler_action(self.site.module, hb)
                    except Untranslatable as e:
                        raise Untranslatable(f"{self.site.module.__name__}.{self.site.qualname} line {st.lineno}: {e}") from e
                    c = tuple(catches or ()) + (act,)
                self.walk(st.body, conds, c)
                for h in st.handlers:
                    self.walk(h.body, conds, catches)
                self.walk(st.orelse, conds, catches)
                self.walk(st.finalbody, conds, catches)
            elif isinstance(st, ast.With):
                c = (tuple(catches or ()) + ("fallThrough",)) if _suppresses_value_error(st) else catches
                for it in st.items:
                    self.scan(it.context_expr, conds, catches)
                self.walk(st.body, conds, c)
            elif isinstance(st, (ast.For, ast.While)):
                self.scan(st.iter if isinstance(st, ast.For) else st.test, conds, catches)
                self.walk(st.body, conds, catches)
                self.walk(st.orelse, conds, catches)
            elif isinstance(st, (ast.FunctionDef, ast.ClassDef, ast.AsyncFunctionDef)):
                continue
            elif isinstance(st, ast.Return) and self.site.returns and ast.unparse(st).startswith(self.site.returns):
                self.found.append(Found("return", list(conds), catches, st.lineno))
            else:
                self.scan(st, conds, catches)

    def run(self):
        body = list(self.fn.body)
        if body and isinstance(body[0], ast.Expr) and isinstance(body[0].value, ast.Constant):
            body = body[1:]
        self.walk(body, [], ())
        if not self.found:
            raise Untranslatable(f"{self.site.module.__name__}.{self.site.qualname}: no call into btclib._libsecp256k1 "
                                 f"found (aliases {sorted(self.aliases)}, delegates {self.site.via})")
        return self.found


# ------------------------------------------------------------------ conditions -> Lean
def _serves_term(site, call):
    if len(call.args) != 2 or call.keywords:
        raise Untranslatable(f"{site.key}: {SERVES} called with an unexpected shape: {ast.unparse(call)}")
    ec_t, hf_t = ast.unparse(call.args[0]), ast.unparse(call.args[1])
    if ec_t == "secp256k1":
        ec = "true"
    elif ec_t in ("ec", "sig.ec", "self.ec"):
        ec = "x.ec_is_secp256k1"
    else:
        raise Untranslatable(f"{site.key}: unrecognised curve argument `{ec_t}` of {SERVES}")
    if hf_t in ("None", "sha256"):
        hf = "true"
    elif hf_t == "hf":
        hf = "x.hf_none_or_sha256"
    else:
        raise Untranslatable(f"{site.key}: unrecognised hash argument `{hf_t}` of {SERVES}")
    return f"libsecp256k1_serves x.flag (!{ec}) {hf}"


def cond_to_lean(site, c, refs):  # noqa: PLR0911, PLR0912
    if isinstance(c, _Not):
        return f"!({cond_to_lean(site, c.node, refs)})"
    txt = ast.unparse(c)
    if txt in site.atoms:
        a = site.atoms[txt]
        if isinstance(a, tuple):
            if a[0] == "ref":
                refs.add(a[1])
                return f"{a[1]} x"
            if a[0] == "const":
                return "true" if a[1] else "false"
            if a[0] == "not":
                return f"!x.{a[1]}"
            raise Untranslatable(f"{site.key}: bad atom entry for `{txt}`")
        if a not in ATOMS:
            raise Untranslatable(f"{site.key}: atom `{a}` is not a field of Atoms")
        return f"x.{a}"
    if isinstance(c, ast.BoolOp):
        op = " && " if isinstance(c.op, ast.And) else " || "
        return "(" + op.join(cond_to_lean(site, v, refs) for v in c.values) + ")"
    if isinstance(c, ast.UnaryOp) and isinstance(c.op, ast.Not):
        return f"!({cond_to_lean(site, c.operand, refs)})"
    if isinstance(c, ast.Call) and ast.unparse(c.func) == SERVES:
        return _serves_term(site, c)
    raise Untranslatable(f"{site.module.__name__}.{site.qualname}: unrecognised guard atom `{txt}` "
                         f"(line {getattr(c, 'lineno', '?')})")


def _ident(s):
    out = "".join(ch if ch.isalnum() else "_" for ch in s)
    while "__" in out:
        out = out.replace("__", "_")
    return out.strip("_")


def _delegate_catches(module, name, depth=0):
    return bool(_delegate_handlers(module, name, depth))


def _delegate_handlers(module, name, depth=0):
    """the handler actions the private delegate `name` (a module-level function) wraps its own bindings calls in
    (a call of the delegate that stands in NO handler contributes nothing: the list is what exists, `catches` is
    'at least one')"""
    if depth > 3 or not name.isidentifier():
        return ()
    try:
        obj = getattr(module, name, None)
        module = inspect.getmodule(obj) if obj is not None else module
        sub = Site("_", module, name, via=())
        ex = Extractor(sub)
        # one more level of private delegates: names of module functions that start with `_libsecp256k1_`
        tree_fn = ex.fn
        inner = {ast.unparse(c.func) for c in ast.walk(tree_fn) if isinstance(c, ast.Call)
                 and isinstance(c.func, ast.Name) and c.func.id.startswith("_libsecp256k1_") and c.func.id != SERVES}
        ex.site.via = tuple(inner)
        found = ex.run()
    except Untranslatable:
        return ()
    acts = []
    for f in found:
        for a in f.handlers + (_delegate_handlers(module, f.callee, depth + 1) if f.callee in ex.site.via else ()):
            if a not in acts:
                acts.append(a)
    return tuple(acts)


HANDLERS: dict = {}   # guard name -> handler actions (filled by site_records)


def site_records(site):
    """[(guard name, lean guard term, catches, established term, callee text, lineno)]"""
    ex = Extractor(site)
    found = ex.run()
    recs = []
    names = {}
    stmts_text = "\n".join(ex.seen_stmts)
    est = []
    for ent in site.facts:
        pat, fact = ent[0], ent[1]
        where = stmts_text
        if len(ent) > 2:  # established by a caller (every listed caller must hold it)
            fn2, _ = _find_def(site.module, ent[2])
            where = "\n".join(ast.unparse(st) for st in fn2.body)
        if pat not in where:
            raise Untranslatable(f"{site.module.__name__}.{ent[2] if len(ent) > 2 else site.qualname}: validating statement "
                                 f"`{pat.splitlines()[0]}` (fact {fact}) no longer precedes the delegation")
        if fact not in ATOMS:
            raise Untranslatable(f"{site.key}: fact `{fact}` is not a field of Atoms")
        est.append(f"x.{fact}")
    for f in found:
        suffix = _ident(f.callee.split(".")[-1] if f.callee != "return" else "return")
        nm = f"{site.key}__{suffix}"
        names[nm] = names.get(nm, 0) + 1
        if names[nm] > 1:
            nm = f"{nm}_{names[nm]}"
        refs = set()
        terms = [cond_to_lean(site, c, refs) for c in f.conds]
        inner = _delegate_handlers(site.module, f.callee) if f.callee in site.via else ()
        catches = f.catches or bool(inner)
        HANDLERS[nm] = tuple(f.handlers) + tuple(a for a in inner if a not in f.handlers)
        recs.append((nm, " && ".join(terms) if terms else "true", catches, " && ".join(est) if est else "true",
                     f.callee, f.lineno))
    if site.expect is not None:
        got = [r[4].split(".")[-1] for r in recs]
        if got != list(site.expect):
            raise Untranslatable(f"{site.key}: delegations found {got}, expected {list(site.expect)}")
    return recs


def all_records():
    out, errs = [], []
    for s in SITES:
        try:
            out.append((s, site_records(s)))
        except Untranslatable as e:
            errs.append(str(e))
    return out, errs


# every function of the anchored modules that calls into the bindings must be a listed site (nothing silently skipped)
MODULES = [curve, sec_point, dsa, ssa, bms, dh, commit_nonce, ellswift, musig2, bip32, taproot, eng_script, eng_tapscript,
           silent_payments]
# functions that hold a bindings call but are not dispatch sites: they are the inside of a delegation (their caller is
# the site and has asked the predicate) or only build octets
INSIDE = {
    "btclib.curves.curve": {"_libsecp256k1_multi_mult_", "_libsecp256k1_multi_mult"},
    # `Signer.wipe` only overwrites the buffer the constructor allocated: no arithmetic crosses
    "btclib.ecc.dsa": {"_libsecp256k1_sign_", "_delegated_sign_", "_libsecp256k1_recover_sec_", "_libsecp256k1_recover_point_",
                       "Signer.wipe"},
    "btclib.ecc.ssa": {"Signer.wipe"},
    "btclib.ecc.musig2": {"_bindings_session"},
    "btclib.silent_payments": {"_delegated_output_keys"},
}


def unlisted_sites():
    listed = {(s.module.__name__, s.qualname) for s in SITES}
    missing = []
    for m in MODULES:
        tree = ast.parse(inspect.getsource(m))
        aliases = _binding_aliases(tree)

        def visit(body, prefix, m=m, aliases=aliases):
            for n in body:
                if isinstance(n, ast.ClassDef):
                    visit(n.body, prefix + n.name + ".")
                elif isinstance(n, ast.FunctionDef):
                    q = prefix + n.name
                    uses = False
                    for c in ast.walk(n):
                        if isinstance(c, ast.Call):
                            _t, root = _callee(c)
                            if root in aliases:
                                uses = True
                    if uses and (m.__name__, q) not in listed and q not in INSIDE.get(m.__name__, set()):
                        missing.append(f"{m.__name__}.{q}")
        visit(tree.body, "")
    return missing


# ------------------------------------------------------------------ the whole-package inventory
# every function of EVERY module of the installed btclib package whose body consults the dispatch: reads the predicate /
# the flag / the public getter, names something imported from `btclib._libsecp256k1`, calls one of the private delegates
# (the INSIDE functions, under whatever name a module imports them), or reads an attribute that a listed constructor
# fills with a bindings object (`self._chain`, `self._signer`, `self._prvkey_buffer`).  Each must be a listed site, a
# listed inside-of-a-delegation, or the dispatch core itself; anything else is a delegation nobody modelled: BROKEN.
DISPATCH_NAMES = ("_libsecp256k1_serves", "is_libsecp256k1_serving", "_libsecp256k1_available")
CORE = ["btclib.curves.curve._libsecp256k1_serves", "btclib.curves.curve.is_libsecp256k1_serving",
        "btclib.curves.curve.set_libsecp256k1_serving"]
# methods that read a held attribute without any arithmetic crossing (nothing to compare between the arms)
HELD_READERS_ONLY: dict = {}


def _package_files():
    import os  # noqa: PLC0415

    import btclib  # noqa: PLC0415
    root = os.path.dirname(btclib.__file__)
    for dp, _dn, fns in sorted(os.walk(root)):
        for f in sorted(fns):
            if f.endswith(".py"):
                path = os.path.join(dp, f)
                mod = "btclib" + path[len(root):-3].replace(os.sep, ".")
                yield (mod[:-9] if mod.endswith(".__init__") else mod), path


def consulting_functions():
    """{`module.qualname`: [reasons]} over the whole package"""
    delegates = {q for qs in INSIDE.values() for q in qs if "." not in q}
    out = {}
    for mod, path in _package_files():
        if mod == "btclib._libsecp256k1":
            continue
        with open(path, encoding="utf8") as fh:
            tree = ast.parse(fh.read())
        aliases = _binding_aliases(tree)
        for n in ast.walk(tree):  # the bindings reached some other way: not through the one import seam
            if isinstance(n, ast.ImportFrom) and n.module and n.module.split(".")[0] == "btclib_secp256k1":
                guarded = any(isinstance(i, ast.If) and ast.unparse(i.test) == "TYPE_CHECKING" and n in ast.walk(i) for i in tree.body)
                if not guarded:
                    out[f"{mod}.<import {n.module}>"] = ["imports btclib_secp256k1 directly"]
            if isinstance(n, ast.Import) and any(a.name.split(".")[0] == "btclib_secp256k1" for a in n.names):
                out[f"{mod}.<import>"] = ["imports btclib_secp256k1 directly"]
        local_delegates = set(delegates) if mod in INSIDE else set()
        for n in ast.walk(tree):
            if isinstance(n, ast.ImportFrom) and n.module and n.module.startswith("btclib"):
                for a in n.names:
                    if a.name in delegates:
                        local_delegates.add(a.asname or a.name)

        def visit(body, prefix, held, mod=mod, aliases=aliases, local_delegates=local_delegates):
            for n in body:
                if isinstance(n, ast.ClassDef):
                    h = set()
                    for m in n.body:  # attributes a method fills with something of the bindings
                        if isinstance(m, ast.FunctionDef):
                            for a in ast.walk(m):
                                if isinstance(a, (ast.Assign, ast.AnnAssign)) and a.value is not None:
                                    uses = {x.id for x in ast.walk(a.value) if isinstance(x, ast.Name)} & aliases
                                    tg = a.targets if isinstance(a, ast.Assign) else [a.target]
                                    if uses:
                                        h |= {t.attr for t in tg if isinstance(t, ast.Attribute) and ast.unparse(t.value) == "self"}
                    visit(n.body, prefix + n.name + ".", h)
                elif isinstance(n, (ast.FunctionDef, ast.AsyncFunctionDef)):
                    names = {x.id for x in ast.walk(n) if isinstance(x, ast.Name)}
                    attrs = {x.attr for x in ast.walk(n) if isinstance(x, ast.Attribute) and ast.unparse(x.value) == "self"}
                    why = sorted((names & set(DISPATCH_NAMES)) | (names & aliases) | (names & local_delegates)
                                 | {"self." + a for a in attrs & held})
                    if why:
                        out[f"{mod}.{prefix}{n.name}"] = why
        visit(tree.body, "", set())
    return out


def inventory():
    """(consulting, unmodelled): every consulting function with its status, and those that are none of
    site / inside / core / held-reader"""
    cons = consulting_functions()
    listed = {f"{s.module.__name__}.{s.qualname}" for s in SITES}
    inside = {f"{m}.{q}" for m, qs in INSIDE.items() for q in qs}
    readers = {f"{m}.{q}" for m, qs in HELD_READERS_ONLY.items() for q in qs}
    rows, bad = [], []
    for f in sorted(cons):
        st = "site" if f in listed else "inside" if f in inside else "core" if f in CORE else "reader" if f in readers else "UNMODELLED"
        rows.append((f, st, cons[f]))
        if st == "UNMODELLED":
            bad.append(f"{f} ({', '.join(cons[f])})")
    # the converse: a listed site / inside function that no longer consults anything is a stale entry
    for f in sorted((listed | inside) - set(cons)):
        bad.append(f"{f} is listed but no longer consults the dispatch")
    return rows, bad


# ------------------------------------------------------------------ set_libsecp256k1_serving (T3)
def switch_model():
    fn, _ = _find_def(curve, "set_libsecp256k1_serving")
    body = list(fn.body)
    if body and isinstance(body[0], ast.Expr) and isinstance(body[0].value, ast.Constant):
        body = body[1:]
    shapes = [ast.unparse(s) for s in body]
    want = ["assert_type(serving, bool, 'serving')",
            "if serving and (not _bindings_installed):\n    raise BTClibValueError('btclib_secp256k1 is not installed: the bindings cannot serve')",
            "global _libsecp256k1_available",
            "_libsecp256k1_available = serving"]
    if shapes != want:
        raise Untranslatable("curve.set_libsecp256k1_serving: body is no longer `assert_type; refuse True when not installed; "
                             f"global; assign` but {shapes}")
    globals_written = sorted({n for s in ast.walk(fn) if isinstance(s, ast.Global) for n in s.names})
    assigned = sorted({ast.unparse(t) for s in ast.walk(fn) if isinstance(s, ast.Assign) for t in s.targets})
    getter, _ = _find_def(curve, "is_libsecp256k1_serving")
    gb = [ast.unparse(s) for s in getter.body if not (isinstance(s, ast.Expr) and isinstance(s.value, ast.Constant))]
    if gb != ["return _libsecp256k1_available"]:
        raise Untranslatable(f"curve.is_libsecp256k1_serving: body is {gb}")
    return globals_written, assigned


def _strlist(xs):
    return "[" + ", ".join('"' + x + '"' for x in xs) + "]"


def constants():
    t = "/-- abstract input class: one Boolean per atomic test a delegation guard reads (tools/specs/backend.py) -/\n"
    t += "structure Atoms where\n"
    for a, doc in ATOM_DOC:
        t += f"  /-- {doc} -/\n  {a} : Bool\n"
    t += "  deriving DecidableEq, Repr\n\n"
    t += "/-- field names of `Atoms`, in order (line protocol of `guard` ops) -/\n"
    t += f"def atomNames : List String := {_strlist(ATOMS)}\n\n"
    t += "def Atoms.ofBits (b : List Bool) : Atoms :=\n  { " + ", ".join(f"{a} := b.getD {i} false" for i, a in enumerate(ATOMS)) + " }\n\n"
    return t


def guards_text():
    """emitted AFTER the translated `libsecp256k1_serves` (they call it)"""
    recs, errs = all_records()
    missing = unlisted_sites()
    if missing:
        errs.append("functions calling into btclib._libsecp256k1 that are not listed as delegation sites: " + ", ".join(missing))
    inv_rows, inv_bad = inventory()
    if inv_bad:
        errs.append("dispatch-consulting functions of the package that are not modelled (or stale entries): " + "; ".join(inv_bad))
    if errs:
        raise Untranslatable(" ;; ".join(errs))
    t = ""
    rows = []
    # referenced guards first
    flat = [(s, r) for s, rs in recs for r in rs]
    order = sorted(flat, key=lambda sr: 0 if sr[1][0] == "x_octets__return" else 1)
    for s, (nm, guard, catches, est, callee, lineno) in order:
        t += f"/-- `{s.module.__name__}.{s.qualname}`: path condition of the call `{callee}` -/\n"
        t += f"def {nm} (x : Atoms) : Bool :=\n  {guard}\n"
        t += f"/-- facts established by the validating statements that precede it -/\n"
        t += f"def {nm}.established (x : Atoms) : Bool :=\n  {est}\n"
        t += f"/-- the call stands inside `try … except ValueError` / `contextlib.suppress(ValueError)` -/\n"
        t += f"def {nm}.catches : Bool := {'true' if catches else 'false'}\n\n"
        rows.append((nm, s.module.__name__ + "." + s.qualname, callee))
    t += "/-- every delegation found in the source, as an enumeration (proofs go by cases on it) -/\n"
    t += "inductive SiteId where\n" + "".join(f"  | {nm}\n" for nm, _b, _c in rows) + "  deriving DecidableEq, Repr\n\n"
    t += "def SiteId.all : List SiteId := [" + ", ".join(f".{nm}" for nm, _b, _c in rows) + "]\n\n"
    t += "def SiteId.name : SiteId → String\n" + "".join(f'  | .{nm} => "{nm}"\n' for nm, _b, _c in rows) + "\n"
    t += "/-- (function, callee) the delegation was found at -/\n"
    t += "def SiteId.source : SiteId → String × String\n" + "".join(f'  | .{nm} => ("{b_}", "{c_}")\n' for nm, b_, c_ in rows) + "\n"
    t += "def SiteId.guard : SiteId → Atoms → Bool\n" + "".join(f"  | .{nm} => _root_.Gen.BackendSites.{nm}\n" for nm, _b, _c in rows) + "\n"
    t += "def SiteId.established : SiteId → Atoms → Bool\n" + "".join(f"  | .{nm} => _root_.Gen.BackendSites.{nm}.established\n" for nm, _b, _c in rows) + "\n"
    t += "def SiteId.catches : SiteId → Bool\n" + "".join(f"  | .{nm} => _root_.Gen.BackendSites.{nm}.catches\n" for nm, _b, _c in rows) + "\n"
    t += "/-- what an enclosing `ValueError` handler does with the bindings' refusal (tools/specs/backend.py `_handler_action`) -/\n"
    t += ("inductive HandlerAction where\n  | fallThrough | raisesValue | raisesRuntime | raisesType | returnsFalse | pythonThenReraise\n"
          "  deriving DecidableEq, Repr\n\n")
    t += "/-- the handlers between the call and the caller of the site, read off the AST (the site's own, then its delegate's) -/\n"
    t += "def SiteId.handlers : SiteId → List HandlerAction\n" + "".join(
        f"  | .{nm} => [" + ", ".join("." + a for a in HANDLERS.get(nm, ())) + "]\n" for nm, _b, _c in rows) + "\n"
    t += ("/-- every function of the installed package whose body consults the dispatch (predicate, flag, a name of\n"
          "`btclib._libsecp256k1`, a private delegate, an attribute holding a bindings object), with how it is modelled -/\n")
    t += "def consulting : List (String × String) := [\n" + ",\n".join(f'  ("{f}", "{st}")' for f, st, _w in inv_rows) + "]\n\n"
    # sites whose dispatch reads the caller's curve (the predicate is asked with `ec` / `sig.ec`, not the literal secp256k1)
    guards = {nm: g for _s, (nm, g, _c, _e, _cal, _l) in order}

    def takes_ec(nm, depth=0):
        g = guards[nm]
        if "x.ec_is_secp256k1" in g:
            return True
        return depth < 3 and any(other != nm and (other + " x") in g and takes_ec(other, depth + 1) for other in guards)
    t += "/-- the dispatch is asked about the CALLER's curve (`_libsecp256k1_serves(ec, …)`), not the literal secp256k1 -/\n"
    t += "def SiteId.takesEc : SiteId → Bool\n" + "".join(
        f"  | .{nm} => {'true' if takes_ec(nm) else 'false'}\n" for nm, _b, _c in rows) + "\n"
    t += "def SiteId.ofName (n : String) : Option SiteId := SiteId.all.find? (fun s => s.name == n)\n\n"
    names = ", ".join(f"{nm}, {nm}.established, {nm}.catches" for nm, _b, _c in rows)
    t += "/-- unfold every generated guard / established / catches definition in the goal -/\n"
    t += ("macro \"unfold_sites\" : tactic => `(tactic| simp only [SiteId.guard, SiteId.established, SiteId.catches, "
          "Gen.Backend.libsecp256k1_serves, " + names + "])\n\n")
    gw, assigned = switch_model()
    t += "/-- `set_libsecp256k1_serving`: names declared `global` / assignment targets of the whole body -/\n"
    t += f"def setServingGlobals : List String := {_strlist(gw)}\n"
    t += f"def setServingAssigned : List String := {_strlist(assigned)}\n"
    return t


def _serves_call(flag, ec_is_not_secp256k1, hf_none_or_sha256):
    from btclib.curves import CURVES  # noqa: PLC0415
    sha256 = curve.sha256
    import hashlib  # noqa: PLC0415
    old = curve._libsecp256k1_available
    curve._libsecp256k1_available = flag
    try:
        ec = CURVES["secp256r1"] if ec_is_not_secp256k1 else curve.secp256k1
        hf = (None if flag else sha256) if hf_none_or_sha256 else hashlib.sha512
        return curve._libsecp256k1_serves(ec, hf)
    finally:
        curve._libsecp256k1_available = old


def _serves_gen(rng):
    return (rng.random() < 0.5, rng.random() < 0.5, rng.random() < 0.5)


def functions():
    return [
        FuncSpec(curve, "_libsecp256k1_serves", "bool", params=[],
                 subst={"_libsecp256k1_available": ("flag", "bool"), "ec != secp256k1": ("ec_is_not_secp256k1", "bool"),
                        "hf is None or hf is sha256": ("hf_none_or_sha256", "bool")},
                 call=_serves_call, gen=_serves_gen),
    ]
