"""C03: BIP340 tags, fixed sizes and the straight-line pieces of btclib/ecc/ssa.py, regenerated each run."""
import ast
import inspect

from pyfun2lean import FuncSpec
from btclib import utils
from btclib.ecc import bip340_nonce, ssa

NS = "Schnorr"


def _bytes_literals(fn):
    """every bytes literal in the source of `fn`, in order of appearance"""
    tree = ast.parse(inspect.getsource(fn))
    out = []
    for n in ast.walk(tree):
        if isinstance(n, ast.Constant) and isinstance(n.value, bytes):
            out.append(n.value)
    return out


def _lean_bytes(b):
    return "[" + ", ".join(str(x) for x in b) + "]"


def _one(fn, prefix):
    lits = [b for b in _bytes_literals(fn) if b.startswith(prefix)]
    if len(lits) != 1:
        raise ValueError(f"{fn.__name__}: expected one {prefix!r} tag literal, found {lits}")
    return lits[0]


def constants():
    # the three BIP340 tags, read off the functions that use them
    nonce_lits = [b for b in _bytes_literals(bip340_nonce._bip340_nonce_) if b.startswith(b"BIP0340/")]
    if len(nonce_lits) != 2:
        raise ValueError(f"_bip340_nonce_: expected aux and nonce tags, found {nonce_lits}")
    aux = [b for b in nonce_lits if b.endswith(b"aux")]
    non = [b for b in nonce_lits if b.endswith(b"nonce")]
    if len(aux) != 1 or len(non) != 1:
        raise ValueError(f"_bip340_nonce_: tags are {nonce_lits}")
    chal = _one(ssa.challenge_, b"BIP0340/")
    for name in ("_S2C_POINT_TAG", "_S2C_DATA_TAG"):
        if not isinstance(getattr(ssa, name), bytes):
            raise ValueError(f"ssa.{name} is not bytes")
    if not isinstance(ssa._REQUIRED_LENGTH, int):
        raise ValueError("ssa._REQUIRED_LENGTH is not an int")
    txt = "/-- tag of the aux-randomness mask, literal in `bip340_nonce._bip340_nonce_` -/\n"
    txt += f"def TAG_AUX : Btc.Bytes := {_lean_bytes(aux[0])}\n"
    txt += "/-- tag of the nonce hash, literal in `bip340_nonce._bip340_nonce_` -/\n"
    txt += f"def TAG_NONCE : Btc.Bytes := {_lean_bytes(non[0])}\n"
    txt += "/-- tag of the challenge hash, literal in `ssa.challenge_` -/\n"
    txt += f"def TAG_CHALLENGE : Btc.Bytes := {_lean_bytes(chal)}\n"
    txt += f"def S2C_POINT_TAG : Btc.Bytes := {_lean_bytes(ssa._S2C_POINT_TAG)}\n"
    txt += f"def S2C_DATA_TAG : Btc.Bytes := {_lean_bytes(ssa._S2C_DATA_TAG)}\n"
    txt += "/-- `ssa._REQUIRED_LENGTH`: size of the serialized signature `Sig.parse` insists on -/\n"
    txt += f"def REQUIRED_LENGTH : Nat := {ssa._REQUIRED_LENGTH}\n"
    txt += "/-- sizes of the curve `Sig.parse` reads (`ec = secp256k1` in its body) -/\n"
    txt += f"def PARSE_P_SIZE : Nat := {ssa.secp256k1.p_size}\n"
    txt += f"def PARSE_N_SIZE : Nat := {ssa.secp256k1.n_size}\n"
    return txt


def _octets(rng):
    n = rng.choice([0, 1, 2, 20, 31, 32, 33, 64, rng.randrange(70)])
    return bytes(rng.getrandbits(8) for _ in range(n))


def functions():
    return [
        FuncSpec(utils, "int_from_bits", "int", params=[("octets", "bytes"), ("nlen", "int")],
                 gen=lambda rng: (_octets(rng), rng.choice([0, 1, 7, 8, 9, 160, 255, 256, 257, 512, rng.randrange(600)]))),
    ]
