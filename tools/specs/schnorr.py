"""C03: BIP340 tags, fixed sizes and the straight-line pieces of btclib/ecc/ssa.py, regenerated each run."""
import ast
import inspect

from pyfun2lean import FuncSpec
from btclib import utils
from btclib.ecc import bip340_nonce, ssa

NS = "Schnorr"


def _bytes_literals(fn):
    """every bytes literal in the source of `fn`, in order of appearance"""
    tree = ast.parse(inspect.getsource(fn))
    out = []
    for n in ast.walk(tree):
        if isinstance(n, ast.Constant) and isinstance(n.value, bytes):
            out.append(n.value)
    return out


def _lean_bytes(b):
    return "[" + ", ".join(str(x) for x in b) + "]"


def _one(fn, prefix):
    lits = [b for b in _bytes_literals(fn) if b.startswith(prefix)]
    if len(lits) != 1:
        raise ValueError(f"{fn.__name__}: expected one {prefix!r} tag literal, found {lits}")
    return lits[0]


def _batch_rand():
    """the statement `rand = …` of `ssa.assert_batch_as_valid_`, as Lean text over (`i`, `draw`), and the argument of the one
    `secrets.randbelow(…)` call in it as Lean text over `n` (= `ec.n`).  Any other shape is refused: the obligation
    `Props.C03.coefficient_derivation` is about exactly this expression."""
    tree = ast.parse(inspect.getsource(ssa.assert_batch_as_valid_))
    hits = [n for n in ast.walk(tree) if isinstance(n, ast.Assign) and len(n.targets) == 1
            and isinstance(n.targets[0], ast.Name) and n.targets[0].id == "rand"]
    if len(hits) != 1:
        raise ValueError(f"assert_batch_as_valid_: expected one assignment to `rand`, found {len(hits)}")
    bounds = []

    def bound(e):
        if isinstance(e, ast.Attribute) and isinstance(e.value, ast.Name) and (e.value.id, e.attr) == ("ec", "n"):
            return "n"
        if isinstance(e, ast.Constant) and isinstance(e.value, int) and not isinstance(e.value, bool):
            return str(e.value)
        if isinstance(e, ast.BinOp) and isinstance(e.op, (ast.Add, ast.Sub)):
            return f"({bound(e.left)} {'+' if isinstance(e.op, ast.Add) else '-'} {bound(e.right)})"
        raise ValueError(f"assert_batch_as_valid_: unsupported bound of randbelow: {ast.unparse(e)}")

    def expr(e):
        if isinstance(e, ast.Name) and e.id == "i":
            return "i"
        if isinstance(e, ast.Constant) and isinstance(e.value, int) and not isinstance(e.value, bool):
            return str(e.value)
        if isinstance(e, ast.BinOp) and isinstance(e.op, (ast.Add, ast.Sub, ast.Mult)):
            op = {ast.Add: "+", ast.Sub: "-", ast.Mult: "*"}[type(e.op)]
            return f"({expr(e.left)} {op} {expr(e.right)})"
        if isinstance(e, ast.IfExp):
            return f"(if {cond(e.test)} then {expr(e.body)} else {expr(e.orelse)})"
        if (isinstance(e, ast.Call) and ast.unparse(e.func) == "secrets.randbelow" and len(e.args) == 1 and not e.keywords):
            bounds.append(bound(e.args[0]))
            return "draw"
        raise ValueError(f"assert_batch_as_valid_: unsupported coefficient expression: {ast.unparse(e)}")

    def cond(t):
        if isinstance(t, ast.Compare) and len(t.ops) == 1 and len(t.comparators) == 1:
            ops = {ast.Eq: "=", ast.NotEq: "≠", ast.Lt: "<", ast.LtE: "≤", ast.Gt: ">", ast.GtE: "≥"}
            if type(t.ops[0]) in ops:
                return f"({expr(t.left)} {ops[type(t.ops[0])]} {expr(t.comparators[0])})"
        raise ValueError(f"assert_batch_as_valid_: unsupported condition: {ast.unparse(t)}")

    body = expr(hits[0].value)
    if len(bounds) != 1:
        raise ValueError(f"assert_batch_as_valid_: expected one secrets.randbelow call in `rand = …`, found {len(bounds)}")
    return ast.unparse(hits[0]), body, bounds[0]


def constants():
    # the three BIP340 tags, read off the functions that use them
    nonce_lits = [b for b in _bytes_literals(bip340_nonce._bip340_nonce_) if b.startswith(b"BIP0340/")]
    if len(nonce_lits) != 2:
        raise ValueError(f"_bip340_nonce_: expected aux and nonce tags, found {nonce_lits}")
    aux = [b for b in nonce_lits if b.endswith(b"aux")]
    non = [b for b in nonce_lits if b.endswith(b"nonce")]
    if len(aux) != 1 or len(non) != 1:
        raise ValueError(f"_bip340_nonce_: tags are {nonce_lits}")
    chal = _one(ssa.challenge_, b"BIP0340/")
    for name in ("_S2C_POINT_TAG", "_S2C_DATA_TAG"):
        if not isinstance(getattr(ssa, name), bytes):
            raise ValueError(f"ssa.{name} is not bytes")
    if not isinstance(ssa._REQUIRED_LENGTH, int):
        raise ValueError("ssa._REQUIRED_LENGTH is not an int")
    txt = "/-- tag of the aux-randomness mask, literal in `bip340_nonce._bip340_nonce_` -/\n"
    txt += f"def TAG_AUX : Btc.Bytes := {_lean_bytes(aux[0])}\n"
    txt += "/-- tag of the nonce hash, literal in `bip340_nonce._bip340_nonce_` -/\n"
    txt += f"def TAG_NONCE : Btc.Bytes := {_lean_bytes(non[0])}\n"
    txt += "/-- tag of the challenge hash, literal in `ssa.challenge_` -/\n"
    txt += f"def TAG_CHALLENGE : Btc.Bytes := {_lean_bytes(chal)}\n"
    txt += f"def S2C_POINT_TAG : Btc.Bytes := {_lean_bytes(ssa._S2C_POINT_TAG)}\n"
    txt += f"def S2C_DATA_TAG : Btc.Bytes := {_lean_bytes(ssa._S2C_DATA_TAG)}\n"
    txt += "/-- `ssa._REQUIRED_LENGTH`: size of the serialized signature `Sig.parse` insists on -/\n"
    txt += f"def REQUIRED_LENGTH : Nat := {ssa._REQUIRED_LENGTH}\n"
    txt += "/-- sizes of the curve `Sig.parse` reads (`ec = secp256k1` in its body) -/\n"
    txt += f"def PARSE_P_SIZE : Nat := {ssa.secp256k1.p_size}\n"
    txt += f"def PARSE_N_SIZE : Nat := {ssa.secp256k1.n_size}\n"
    src, body, bnd = _batch_rand()
    txt += f"/-- `{src}` in `ssa.assert_batch_as_valid_` (member index `i`), with the outcome of the one\n"
    txt += "    `secrets.randbelow(…)` call an explicit argument `draw` -/\n"
    txt += f"def batch_rand (i : Int) (draw : Int) : Int := {body}\n"
    txt += "/-- the argument of that `secrets.randbelow` call (`n` is `ec.n`): `draw` ranges over `0 .. bound-1` -/\n"
    txt += f"def batch_randbelow_bound (n : Int) : Int := {bnd}\n"
    return txt


def _octets(rng):
    n = rng.choice([0, 1, 2, 20, 31, 32, 33, 64, rng.randrange(70)])
    return bytes(rng.getrandbits(8) for _ in range(n))


def functions():
    return [
        FuncSpec(utils, "int_from_bits", "int", params=[("octets", "bytes"), ("nlen", "int")],
                 gen=lambda rng: (_octets(rng), rng.choice([0, 1, 7, 8, 9, 160, 255, 256, 257, 512, rng.randrange(600)]))),
    ]
