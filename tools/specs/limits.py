"""Translator plugin for C19 (bounded allocation): every limit that bounds what a parser may allocate,
read from the current source.

Two kinds of thing are generated:
  * the named limits (`var_int.MAX_SIZE`, tx/block/witness/p2p/script/taproot limits, minimum element
    sizes, the consensus weight they are derived from), by importing the modules;
  * `countCaps`: EVERY call `var_int.parse(stream, CAP)` in the package, found by walking the AST of every
    module under btclib/, as (module.qualname, CAP evaluated in that module's namespace), in source
    order; and `defaultCapSites`: how many calls `var_int.parse(stream)` rely on the default cap
    (`MAX_SIZE`).  A parser that starts reading a count with a new cap, or a cap that grows beyond what the
    theorems of Props/C19 allow (cap ≤ MAX_SIZE; cap · minimum element size fits a block / a message),
    changes the table and breaks the obligation.
"""
import ast
import importlib
import os
import pkgutil

NS = "Limits"


# CompactSize reads whose cap bounds a VALUE (a bit field), not a count or a length
VALUE_SITES = {("btclib.p2p.addrv2.NetworkAddressV2.parse", "_MAX_SERVICES")}


def _is_varint_call(n):
    return isinstance(n, ast.Call) and ast.unparse(n.func) in ("var_int.parse", "var_int_parse")


def _walk_caps():
    """-> (count caps, value caps, guarded default sites, unguarded default sites)

    count cap  : `var_int.parse(stream, CAP)`, or `n = var_int.parse(stream)` directly followed by
                 `if n > CAP: raise …` (the p2p payloads' way of bounding a count before the loop)
    unguarded  : `var_int.parse(stream)` with neither: bounded by the default cap `MAX_SIZE` only"""
    import btclib
    rows, values, unguarded = [], [], []
    for mi in sorted(pkgutil.walk_packages(btclib.__path__, "btclib."), key=lambda m: m.name):
        name = mi.name
        if name == "btclib.var_int":
            continue
        try:
            mod = importlib.import_module(name)
        except Exception:  # optional back ends
            continue
        f = getattr(mod, "__file__", None)
        if not f or not f.endswith(".py") or not os.path.exists(f):
            continue
        with open(f, encoding="utf8") as fh:
            tree = ast.parse(fh.read())

        def ev(expr, q):
            v = eval(compile(ast.Expression(expr), "<cap>", "eval"), vars(mod))
            if not isinstance(v, int) or isinstance(v, bool) or v < 0:
                raise ValueError(f"{name}.{'.'.join(q)}: cap {ast.unparse(expr)} = {v!r}")
            return v

        guarded_calls = set()

        def scan_body(body, q):
            # n = var_int.parse(stream) ; if n > CAP: raise
            for a, b in zip(body, body[1:]):
                if (isinstance(a, ast.Assign) and len(a.targets) == 1 and isinstance(a.targets[0], ast.Name)
                        and _is_varint_call(a.value) and len(a.value.args) < 2 and not a.value.keywords
                        and isinstance(b, ast.If) and isinstance(b.test, ast.Compare)
                        and len(b.test.ops) == 1 and isinstance(b.test.ops[0], (ast.Gt, ast.GtE))
                        and isinstance(b.test.left, ast.Name) and b.test.left.id == a.targets[0].id
                        and any(isinstance(x, ast.Raise) for x in b.body)):
                    cap = b.test.comparators[0]
                    try:
                        v = ev(cap, q)
                    except NameError:
                        continue  # bound by a local (e.g. the bytes that are left): not a constant cap
                    if isinstance(b.test.ops[0], ast.GtE):
                        v -= 1
                    guarded_calls.add(id(a.value))
                    rows.append((name + "." + ".".join(q), ast.unparse(cap), v))

        def visit(node, qual):
            for field in ("body", "orelse", "finalbody"):
                body = getattr(node, field, None)
                if isinstance(body, list):
                    scan_body(body, qual)
            for ch in ast.iter_child_nodes(node):
                q = qual
                if isinstance(ch, (ast.FunctionDef, ast.ClassDef, ast.AsyncFunctionDef)):
                    q = qual + [ch.name]
                if _is_varint_call(ch):
                    cap = ch.args[1] if len(ch.args) >= 2 else None
                    for kw in ch.keywords:
                        if kw.arg == "max_size":
                            cap = kw.value
                    site = name + "." + ".".join(q)
                    if cap is None:
                        if id(ch) not in guarded_calls:
                            unguarded.append(site)
                    elif (site, ast.unparse(cap)) in VALUE_SITES:
                        values.append((site, ast.unparse(cap), ev(cap, q)))
                    else:
                        rows.append((site, ast.unparse(cap), ev(cap, q)))
                visit(ch, q)
        visit(tree, [])
    return rows, values, unguarded


def constants():
    from btclib import consensus, var_int
    from btclib.block import limits as bl
    from btclib.p2p import limits as pl
    from btclib.script import limits as sl
    from btclib.script import taproot
    from btclib.tx import limits as tl

    named = [
        ("MAX_SIZE", var_int.MAX_SIZE, "`var_int.MAX_SIZE`: default cap of every CompactSize read"),
        ("MAX_BLOCK_WEIGHT", consensus.MAX_BLOCK_WEIGHT, "`consensus.MAX_BLOCK_WEIGHT`"),
        ("WITNESS_SCALE_FACTOR", consensus.WITNESS_SCALE_FACTOR, "`consensus.WITNESS_SCALE_FACTOR`"),
        ("MAX_WITNESS_STACK_ITEMS", consensus.MAX_WITNESS_STACK_ITEMS, "`consensus.MAX_WITNESS_STACK_ITEMS`"),
        ("MAX_TX_IN_COUNT", tl.MAX_TX_IN_COUNT, "`tx.limits.MAX_TX_IN_COUNT`"),
        ("MAX_TX_OUT_COUNT", tl.MAX_TX_OUT_COUNT, "`tx.limits.MAX_TX_OUT_COUNT`"),
        ("MIN_TX_IN_SIZE", tl.MIN_TX_IN_SIZE, "`tx.limits.MIN_TX_IN_SIZE`"),
        ("MIN_TX_OUT_SIZE", tl.MIN_TX_OUT_SIZE, "`tx.limits.MIN_TX_OUT_SIZE`"),
        ("MIN_SERIALIZABLE_TRANSACTION_WEIGHT", bl.MIN_SERIALIZABLE_TRANSACTION_WEIGHT,
         "`block.limits.MIN_SERIALIZABLE_TRANSACTION_WEIGHT`"),
        ("MAX_PROTOCOL_MESSAGE_LENGTH", pl.MAX_PROTOCOL_MESSAGE_LENGTH, "`p2p.limits`"),
        ("MAX_SUBVERSION_LENGTH", pl.MAX_SUBVERSION_LENGTH, "`p2p.limits`"),
        ("MAX_ADDR_TO_SEND", pl.MAX_ADDR_TO_SEND, "`p2p.limits`"),
        ("MAX_INV_SZ", pl.MAX_INV_SZ, "`p2p.limits`"),
        ("MAX_HEADERS_RESULTS", pl.MAX_HEADERS_RESULTS, "`p2p.limits`"),
        ("MAX_GETCFILTERS_SIZE", pl.MAX_GETCFILTERS_SIZE, "`p2p.limits`"),
        ("MAX_GETCFHEADERS_SIZE", pl.MAX_GETCFHEADERS_SIZE, "`p2p.limits`"),
        ("MAX_BLOCK_TX_INDEX", pl.MAX_BLOCK_TX_INDEX, "`p2p.limits`"),
        ("MAX_LOCATOR_SZ", pl.MAX_LOCATOR_SZ, "`p2p.limits`"),
        ("MAX_SCRIPT_ELEMENT_SIZE", sl.MAX_SCRIPT_ELEMENT_SIZE, "`script.limits`"),
        ("MAX_OPS_PER_SCRIPT", sl.MAX_OPS_PER_SCRIPT, "`script.limits`"),
        ("MAX_PUBKEYS_PER_MULTISIG", sl.MAX_PUBKEYS_PER_MULTISIG, "`script.limits`"),
        ("MAX_SCRIPT_SIZE", sl.MAX_SCRIPT_SIZE, "`script.limits`"),
        ("MAX_STACK_SIZE", sl.MAX_STACK_SIZE, "`script.limits`"),
        ("MAX_TREE_DEPTH", taproot.MAX_TREE_DEPTH, "`script.taproot.MAX_TREE_DEPTH`: bound of `descriptors._parse_tree`"),
    ]
    t = ""
    for n, v, doc in named:
        if not isinstance(v, int) or isinstance(v, bool) or v < 0:
            raise ValueError(f"{n}: not a natural number: {v!r}")
        t += f"/-- {doc} -/\ndef {n} : Nat := {v}\n"
    # the depth bound must be the one _parse_tree compares with
    import inspect
    from btclib.descriptors import descriptors as D
    src = inspect.getsource(D._parse_tree)
    if "depth > MAX_TREE_DEPTH" not in src:
        raise ValueError("descriptors._parse_tree: depth guard `depth > MAX_TREE_DEPTH` not found")
    if D.MAX_TREE_DEPTH != taproot.MAX_TREE_DEPTH:
        raise ValueError("descriptors.MAX_TREE_DEPTH is not script.taproot.MAX_TREE_DEPTH")
    # Psbt.parse: the two map counts are bounded before the maps are read
    from btclib.psbt import psbt as P
    psrc = inspect.getsource(P)
    for what in ("_assert_map_count(input_count, MAX_TX_IN_COUNT", "_assert_map_count(output_count, MAX_TX_OUT_COUNT"):
        if what not in psrc:
            raise ValueError(f"psbt.py: `{what}…)` not found")
    if P.MAX_TX_IN_COUNT != tl.MAX_TX_IN_COUNT or P.MAX_TX_OUT_COUNT != tl.MAX_TX_OUT_COUNT:
        raise ValueError("psbt.py map caps are not tx.limits'")
    rows, values, unguarded = _walk_caps()
    if not rows:
        raise ValueError("no capped var_int.parse call found")

    def table(rs):
        return "[\n  " + ",\n  ".join(f'("{a}", "{b}", {c})' for a, b, c in rs) + "]\n"
    t += ("/-- every CompactSize read that is a COUNT or LENGTH with a cap of its own: `var_int.parse(stream, CAP)`, or\n"
          "    `n = var_int.parse(stream)` directly followed by `if n > CAP: raise`: (site, CAP as written, value) -/\n"
          "def countCaps : List (String × String × Nat) := " + table(rows))
    t += ("/-- CompactSize reads whose cap bounds a value (a bit field), not an allocation -/\n"
          "def valueCaps : List (String × String × Nat) := " + (table(values) if values else "[]\n"))
    t += ("/-- sites of `var_int.parse(stream)` bounded by the default cap `MAX_SIZE` only (lengths handed to\n"
          "    `read_exactly`, which refuses a short read, and counts of items of at least one byte) -/\n"
          "def defaultCapSites : List String := [" + ", ".join(f'"{u}"' for u in unguarded) + "]\n")
    return t


def functions():
    return []
