"""Translator plugin for C19 (bounded allocation): every limit that bounds what a parser may allocate,
read from the current source.

Two kinds of thing are generated:
  * the named limits (`var_int.MAX_SIZE`, tx/block/witness/p2p/script/taproot limits, minimum element
    sizes, the consensus weight they are derived from), by importing the modules;
  * `countCaps`: EVERY call `var_int.parse(stream, CAP)` in the package, found by walking the AST of every
    module under btclib/, as (module.qualname, CAP evaluated in that module's namespace), in source
    order; and `defaultCapSites`: how many calls `var_int.parse(stream)` rely on the default cap
    (`MAX_SIZE`).  A parser that starts reading a count with a new cap, or a cap that grows beyond what the
    theorems of Props/C19 allow (cap ≤ MAX_SIZE; cap · minimum element size fits a block / a message),
    changes the table and breaks the obligation.
"""
import ast
import importlib
import os
import pkgutil

NS = "Limits"


# CompactSize reads whose cap bounds a VALUE (a bit field), not a count or a length
VALUE_SITES = {("btclib.p2p.addrv2.NetworkAddressV2.parse", "_MAX_SERVICES")}


def _is_varint_call(n):
    return isinstance(n, ast.Call) and ast.unparse(n.func) in ("var_int.parse", "var_int_parse")


def _walk_caps():
    """-> (count caps, value caps, guarded default sites, unguarded default sites)

    count cap  : `var_int.parse(stream, CAP)`, or `n = var_int.parse(stream)` directly followed by
                 `if n > CAP: raise …` (the p2p payloads' way of bounding a count before the loop)
    unguarded  : `var_int.parse(stream)` with neither: bounded by the default cap `MAX_SIZE` only"""
    import btclib
    rows, values, unguarded = [], [], []
    for mi in sorted(pkgutil.walk_packages(btclib.__path__, "btclib."), key=lambda m: m.name):
        name = mi.name
        if name == "btclib.var_int":
            continue
        try:
            mod = importlib.import_module(name)
        except Exception:  # optional back ends
            continue
        f = getattr(mod, "__file__", None)
        if not f or not f.endswith(".py") or not os.path.exists(f):
            continue
        with open(f, encoding="utf8") as fh:
            tree = ast.parse(fh.read())

        def ev(expr, q):
            v = eval(compile(ast.Expression(expr), "<cap>", "eval"), vars(mod))
            if not isinstance(v, int) or isinstance(v, bool) or v < 0:
                raise ValueError(f"{name}.{'.'.join(q)}: cap {ast.unparse(expr)} = {v!r}")
            return v

        guarded_calls = set()

        def scan_body(body, q):
            # n = var_int.parse(stream) ; if n > CAP: raise
            for a, b in zip(body, body[1:]):
                if (isinstance(a, ast.Assign) and len(a.targets) == 1 and isinstance(a.targets[0], ast.Name)
                        and _is_varint_call(a.value) and len(a.value.args) < 2 and not a.value.keywords
                        and isinstance(b, ast.If) and isinstance(b.test, ast.Compare)
                        and len(b.test.ops) == 1 and isinstance(b.test.ops[0], (ast.Gt, ast.GtE))
                        and isinstance(b.test.left, ast.Name) and b.test.left.id == a.targets[0].id
                        and any(isinstance(x, ast.Raise) for x in b.body)):
                    cap = b.test.comparators[0]
                    try:
                        v = ev(cap, q)
                    except NameError:
                        continue  # bound by a local (e.g. the bytes that are left): not a constant cap
                    if isinstance(b.test.ops[0], ast.GtE):
                        v -= 1
                    guarded_calls.add(id(a.value))
                    rows.append((name + "." + ".".join(q), ast.unparse(cap), v))

        def visit(node, qual):
            for field in ("body", "orelse", "finalbody"):
                body = getattr(node, field, None)
                if isinstance(body, list):
                    scan_body(body, qual)
            for ch in ast.iter_child_nodes(node):
                q = qual
                if isinstance(ch, (ast.FunctionDef, ast.ClassDef, ast.AsyncFunctionDef)):
                    q = qual + [ch.name]
                if _is_varint_call(ch):
                    cap = ch.args[1] if len(ch.args) >= 2 else None
                    for kw in ch.keywords:
                        if kw.arg == "max_size":
                            cap = kw.value
                    site = name + "." + ".".join(q)
                    if cap is None:
                        if id(ch) not in guarded_calls:
                            unguarded.append(site)
                    elif (site, ast.unparse(cap)) in VALUE_SITES:
                        values.append((site, ast.unparse(cap), ev(cap, q)))
                    else:
                        rows.append((site, ast.unparse(cap), ev(cap, q)))
                visit(ch, q)
        visit(tree, [])
    return rows, values, unguarded


READER_NAMES = ("parse", "from_dict", "from_json", "decode", "deserialize", "deserialize_map", "b58decode", "b64decode", "b32decode",
                "from_script", "from_bytes", "script_from_dict", "op_code_spans")


def _recursive_functions():
    """every function of the package that can call ITSELF, directly or through other functions of its own module:
    the strongly connected components (with a cycle) of each module's call graph, read off the AST - calls by bare
    name, by `self.` / `cls.` and by `Class.` to a function defined in the same module.
    -> [(module, [qualnames], reader-named?, depth guard constant or 0)]   in source order of modules.
    A reader whose Python stack depth grows with its input is in this table; a reader that is NOT in it is a loop."""
    import btclib
    out = []
    base = os.path.dirname(btclib.__file__)
    for dp, dn, fns in sorted(os.walk(base)):
        dn.sort()
        for f in sorted(fns):
            if not f.endswith(".py"):
                continue
            path = os.path.join(dp, f)
            mod = "btclib." + os.path.relpath(path, base)[:-3].replace(os.sep, ".")
            with open(path, encoding="utf8") as fh:
                tree = ast.parse(fh.read())
            funcs = {}

            def collect(body, prefix):
                for n in body:
                    if isinstance(n, (ast.FunctionDef, ast.AsyncFunctionDef)):
                        funcs[prefix + n.name] = n
                        collect(n.body, prefix + n.name + ".")      # nested defs
                    elif isinstance(n, ast.ClassDef):
                        collect(n.body, prefix + n.name + ".")
            collect(tree.body, "")
            g = {}
            for q, n in funcs.items():
                owner = q.rsplit(".", 1)[0] + "." if "." in q else ""
                tg = set()
                for c in ast.walk(n):
                    if not isinstance(c, ast.Call):
                        continue
                    fn = c.func
                    if isinstance(fn, ast.Name):
                        # a bare name: a def nested in this function, a def of an ENCLOSING FUNCTION (never a method of the
                        # enclosing class), a module function
                        cands, parts = [q + "." + fn.id], q.split(".")
                        for k in range(len(parts) - 1, 0, -1):
                            if ".".join(parts[:k]) in funcs:
                                cands.append(".".join(parts[:k]) + "." + fn.id)
                        for cand in cands + [fn.id]:
                            if cand in funcs:
                                tg.add(cand)
                                break
                    elif isinstance(fn, ast.Attribute) and isinstance(fn.value, ast.Name):
                        if fn.value.id in ("self", "cls") and owner + fn.attr in funcs:
                            tg.add(owner + fn.attr)
                        elif fn.value.id + "." + fn.attr in funcs:
                            tg.add(fn.value.id + "." + fn.attr)
                g[q] = tg
            # Tarjan, iterative
            index, low, on, stack, comps, counter = {}, {}, set(), [], [], [0]
            for root in g:
                if root in index:
                    continue
                work = [(root, iter(sorted(g[root])))]
                index[root] = low[root] = counter[0]
                counter[0] += 1
                stack.append(root)
                on.add(root)
                while work:
                    v, it = work[-1]
                    adv = False
                    for w in it:
                        if w not in index:
                            index[w] = low[w] = counter[0]
                            counter[0] += 1
                            stack.append(w)
                            on.add(w)
                            work.append((w, iter(sorted(g[w]))))
                            adv = True
                            break
                        if w in on:
                            low[v] = min(low[v], index[w])
                    if adv:
                        continue
                    work.pop()
                    if work:
                        low[work[-1][0]] = min(low[work[-1][0]], low[v])
                    if low[v] == index[v]:
                        comp = []
                        while True:
                            w = stack.pop()
                            on.discard(w)
                            comp.append(w)
                            if w == v:
                                break
                        if len(comp) > 1 or comp[0] in g[comp[0]]:
                            comps.append(sorted(comp))
            m = importlib.import_module(mod) if not any(p.startswith("_") and p != "__init__" for p in mod.split(".")[1:]) else None
            for comp in sorted(comps):
                reader = int(any(q.rsplit(".", 1)[-1] in READER_NAMES for q in comp))
                guard = 0
                for q in comp:          # `if depth > CONST: raise` inside a member: the constant, evaluated in the module
                    for c in ast.walk(funcs[q]):
                        if (isinstance(c, ast.If) and isinstance(c.test, ast.Compare) and len(c.test.ops) == 1
                                and isinstance(c.test.ops[0], (ast.Gt, ast.GtE)) and isinstance(c.test.left, ast.Name)
                                and "depth" in c.test.left.id and any(isinstance(x, ast.Raise) for x in c.body) and m is not None):
                            try:
                                v = eval(compile(ast.Expression(c.test.comparators[0]), "<guard>", "eval"), vars(m))
                            except Exception:  # noqa: BLE001 - not a constant
                                continue
                            if isinstance(v, int) and not isinstance(v, bool) and v > 0:
                                guard = v - (1 if isinstance(c.test.ops[0], ast.GtE) else 0)
                out.append((mod, comp, reader, guard))
    return out


def constants():
    from btclib import consensus, var_int
    from btclib.block import limits as bl
    from btclib.p2p import limits as pl
    from btclib.script import limits as sl
    from btclib.script import taproot
    from btclib.tx import limits as tl

    named = [
        ("MAX_SIZE", var_int.MAX_SIZE, "`var_int.MAX_SIZE`: default cap of every CompactSize read"),
        ("MAX_BLOCK_WEIGHT", consensus.MAX_BLOCK_WEIGHT, "`consensus.MAX_BLOCK_WEIGHT`"),
        ("WITNESS_SCALE_FACTOR", consensus.WITNESS_SCALE_FACTOR, "`consensus.WITNESS_SCALE_FACTOR`"),
        ("MAX_WITNESS_STACK_ITEMS", consensus.MAX_WITNESS_STACK_ITEMS, "`consensus.MAX_WITNESS_STACK_ITEMS`"),
        ("MAX_TX_IN_COUNT", tl.MAX_TX_IN_COUNT, "`tx.limits.MAX_TX_IN_COUNT`"),
        ("MAX_TX_OUT_COUNT", tl.MAX_TX_OUT_COUNT, "`tx.limits.MAX_TX_OUT_COUNT`"),
        ("MIN_TX_IN_SIZE", tl.MIN_TX_IN_SIZE, "`tx.limits.MIN_TX_IN_SIZE`"),
        ("MIN_TX_OUT_SIZE", tl.MIN_TX_OUT_SIZE, "`tx.limits.MIN_TX_OUT_SIZE`"),
        ("MIN_SERIALIZABLE_TRANSACTION_WEIGHT", bl.MIN_SERIALIZABLE_TRANSACTION_WEIGHT,
         "`block.limits.MIN_SERIALIZABLE_TRANSACTION_WEIGHT`"),
        ("MAX_PROTOCOL_MESSAGE_LENGTH", pl.MAX_PROTOCOL_MESSAGE_LENGTH, "`p2p.limits`"),
        ("MAX_SUBVERSION_LENGTH", pl.MAX_SUBVERSION_LENGTH, "`p2p.limits`"),
        ("MAX_ADDR_TO_SEND", pl.MAX_ADDR_TO_SEND, "`p2p.limits`"),
        ("MAX_INV_SZ", pl.MAX_INV_SZ, "`p2p.limits`"),
        ("MAX_HEADERS_RESULTS", pl.MAX_HEADERS_RESULTS, "`p2p.limits`"),
        ("MAX_GETCFILTERS_SIZE", pl.MAX_GETCFILTERS_SIZE, "`p2p.limits`"),
        ("MAX_GETCFHEADERS_SIZE", pl.MAX_GETCFHEADERS_SIZE, "`p2p.limits`"),
        ("MAX_BLOCK_TX_INDEX", pl.MAX_BLOCK_TX_INDEX, "`p2p.limits`"),
        ("MAX_LOCATOR_SZ", pl.MAX_LOCATOR_SZ, "`p2p.limits`"),
        ("MAX_SCRIPT_ELEMENT_SIZE", sl.MAX_SCRIPT_ELEMENT_SIZE, "`script.limits`"),
        ("MAX_OPS_PER_SCRIPT", sl.MAX_OPS_PER_SCRIPT, "`script.limits`"),
        ("MAX_PUBKEYS_PER_MULTISIG", sl.MAX_PUBKEYS_PER_MULTISIG, "`script.limits`"),
        ("MAX_SCRIPT_SIZE", sl.MAX_SCRIPT_SIZE, "`script.limits`"),
        ("MAX_STACK_SIZE", sl.MAX_STACK_SIZE, "`script.limits`"),
        ("MAX_TREE_DEPTH", taproot.MAX_TREE_DEPTH, "`script.taproot.MAX_TREE_DEPTH`: bound of `descriptors._parse_tree`"),
    ]
    t = ""
    for n, v, doc in named:
        if not isinstance(v, int) or isinstance(v, bool) or v < 0:
            raise ValueError(f"{n}: not a natural number: {v!r}")
        t += f"/-- {doc} -/\ndef {n} : Nat := {v}\n"
    # the depth bound must be the one _parse_tree compares with
    import inspect
    from btclib.descriptors import descriptors as D
    src = inspect.getsource(D._parse_tree)
    if "depth > MAX_TREE_DEPTH" not in src:
        raise ValueError("descriptors._parse_tree: depth guard `depth > MAX_TREE_DEPTH` not found")
    if D.MAX_TREE_DEPTH != taproot.MAX_TREE_DEPTH:
        raise ValueError("descriptors.MAX_TREE_DEPTH is not script.taproot.MAX_TREE_DEPTH")
    # Psbt.parse: the two map counts are bounded before the maps are read
    from btclib.psbt import psbt as P
    psrc = inspect.getsource(P)
    for what in ("_assert_map_count(input_count, MAX_TX_IN_COUNT", "_assert_map_count(output_count, MAX_TX_OUT_COUNT"):
        if what not in psrc:
            raise ValueError(f"psbt.py: `{what}…)` not found")
    if P.MAX_TX_IN_COUNT != tl.MAX_TX_IN_COUNT or P.MAX_TX_OUT_COUNT != tl.MAX_TX_OUT_COUNT:
        raise ValueError("psbt.py map caps are not tx.limits'")
    rows, values, unguarded = _walk_caps()
    if not rows:
        raise ValueError("no capped var_int.parse call found")

    def table(rs):
        return "[\n  " + ",\n  ".join(f'("{a}", "{b}", {c})' for a, b, c in rs) + "]\n"
    t += ("/-- every CompactSize read that is a COUNT or LENGTH with a cap of its own: `var_int.parse(stream, CAP)`, or\n"
          "    `n = var_int.parse(stream)` directly followed by `if n > CAP: raise`: (site, CAP as written, value) -/\n"
          "def countCaps : List (String × String × Nat) := " + table(rows))
    t += ("/-- CompactSize reads whose cap bounds a value (a bit field), not an allocation -/\n"
          "def valueCaps : List (String × String × Nat) := " + (table(values) if values else "[]\n"))
    t += ("/-- sites of `var_int.parse(stream)` bounded by the default cap `MAX_SIZE` only (lengths handed to\n"
          "    `read_exactly`, which refuses a short read, and counts of items of at least one byte) -/\n"
          "def defaultCapSites : List String := [" + ", ".join(f'"{u}"' for u in unguarded) + "]\n")
    rec = _recursive_functions()
    t += ("/-- every function of the package that can call itself, directly or through functions of its own module (the cyclic\n"
          "    strongly connected components of each module's AST call graph): (module: members, 1 if a member is named like a\n"
          "    reader - parse / from_dict / decode / deserialize / from_script … - else 0, the constant of a\n"
          "    `if depth > CONST: raise` guard inside a member, 0 if there is none).  A reader that is NOT here is a loop: its\n"
          "    Python stack depth does not grow with its input. -/\n"
          "def recursiveFunctions : List (String × Nat × Nat) := [\n  "
          + ",\n  ".join(f'("{mod}: {" ".join(comp)}", {reader}, {guard})' for mod, comp, reader, guard in rec) + "]\n")
    t += ("/-- how many of them are guarded by a depth constant, the guard constant of the recursion under `script.taproot.tree_helper`\n"
          "    (`tree_helper` itself or `_subtree_helper`; 0 = no guard) and of `descriptors._parse_tree` -/\n"
          f"def recursiveGuarded : Nat := {sum(1 for r in rec if r[3])}\n"
          f"def treeHelperGuard : Nat := {next((r[3] for r in rec if r[0] == 'btclib.script.taproot' and ('tree_helper' in r[1] or '_subtree_helper' in r[1])), 0)}\n"
          f"def treeHelperIsRecursive : Bool := {'true' if any(r[0] == 'btclib.script.taproot' and ('tree_helper' in r[1] or '_subtree_helper' in r[1]) for r in rec) else 'false'}\n"
          f"def parseTreeGuard : Nat := {next((r[3] for r in rec if r[0] == 'btclib.descriptors.descriptors' and '_parse_tree' in r[1]), 0)}\n")
    return t


def functions():
    return []
