"""Translator plugin (C02): the straight-line pieces of ECDSA in btclib.

* `utils.int_from_bits` (bits2int of SEC 1 / RFC 6979) -- the challenge and the RFC 6979 candidate,
* `dsa._is_low_r` (the grinding predicate; `ec.n_size` becomes a parameter),
* `dsa._serialize_scalar` (DER INTEGER writer: pad rule + CompactSize length, via the translated
  `var_bytes.serialize` -> `var_int.serialize`),
* the DER tags, the shape of the strict-mode guards of `_deserialize_scalar`, the key_id formula of
  `_sign_recoverable_`, the recovery-flag arithmetic / admissible flag ranges of `bms`, and the source shape of the lines
  the hand models of bms.sign / bms.assert_as_valid, challenge_, the RFC 6979 candidate rule, Signer.sign_'s dispatch and
  verify_'s refusal classes mirror.
"""
import ast
import inspect

from pyfun2lean import FuncSpec
from btclib import utils, var_bytes
from btclib.ecc import bms, dsa

NS = "Ecdsa"
AFTER = ["VarInt"]
IMPORTS = ["Generated.VarInt"]


def _src(obj):
    import textwrap
    return ast.unparse(ast.parse(textwrap.dedent(inspect.getsource(obj))))


def _need(src, frag, what):
    if frag not in src:
        raise ValueError(f"{what}: expected `{frag}` in the source")


def _is_low_r(r, n_size):
    class _E:
        pass
    e = _E()
    e.n_size = n_size
    return dsa._is_low_r(r, e)


def constants():
    for name in ("_DER_SCALAR_MARKER", "_DER_SIG_MARKER"):
        v = getattr(dsa, name)
        if not (isinstance(v, bytes) and len(v) == 1):
            raise ValueError(f"dsa.{name} is not one byte")
    t = f"def derScalarTag : UInt8 := {dsa._DER_SCALAR_MARKER[0]}\n"
    t += f"def derSigTag : UInt8 := {dsa._DER_SIG_MARKER[0]}\n"
    # shapes the hand models rely on (a rewrite of any of these lines is a broken tie, exit 3)
    s = _src(dsa._deserialize_scalar)
    _need(s, "if len(scalar_bytes) > 1 and scalar_bytes[0] == 0 and (scalar_bytes[1] < 128):", "_deserialize_scalar pad guard")
    _need(s, "if scalar_bytes[0] >= 128:", "_deserialize_scalar sign guard")
    _need(s, "int.from_bytes(scalar_bytes, byteorder='big', signed=False)", "_deserialize_scalar value")
    s = _src(dsa._parse_der_value)
    _need(s, "var_bytes.parse(stream, forbid_zero_size=True)", "_parse_der_value")
    s = _src(dsa.Sig.parse)
    _need(s, "if strict and stream.read(1) != b'':", "Sig.parse trailing-bytes guard")
    _need(s, "if sig_data_substream.read(1) != b'':", "Sig.parse sequence-length guard")
    s = _src(dsa.Sig.serialize)
    _need(s, "return _DER_SIG_MARKER + var_bytes.serialize(out)", "Sig.serialize")
    s = _src(dsa._sign_recoverable_)
    _need(s, "r = x_K % ec.n", "_sign_recoverable_ r")
    _need(s, "s = mod_inv(nonce, ec.n) * (c + r * q) % ec.n", "_sign_recoverable_ s")
    _need(s, "key_id = 2 * (x_K // ec.n) + (K[1] & 1)", "_sign_recoverable_ key_id")
    _need(s, "if lower_s and s > ec.n // 2:", "_sign_recoverable_ low-s")
    _need(s, "key_id ^= 1", "_sign_recoverable_ key_id flip")
    s = _src(dsa._assert_as_valid_)
    _need(s, "u = c * w % ec.n", "_assert_as_valid_ u")
    _need(s, "v = r * w % ec.n", "_assert_as_valid_ v")
    _need(s, "KJ = _jac_double_mult(v, QJ, u, ec.GJ, ec, fixed)", "_assert_as_valid_ K")
    _need(s, "if r != x_K % ec.n:", "_assert_as_valid_ equation")
    s = _src(dsa._recover_pub_key_)
    _need(s, "j = key_id >> 1", "_recover_pub_key_ j")
    _need(s, "x_K = r + j * ec.n", "_recover_pub_key_ x_K")
    _need(s, "i = key_id & 1", "_recover_pub_key_ parity")
    _need(s, "r1s = r_1 * s % ec.n", "_recover_pub_key_ r1s")
    _need(s, "r1e = -r_1 * c % ec.n", "_recover_pub_key_ r1e")
    s = _src(dsa._recover_pub_keys_)
    _need(s, "for key_id in range(2 * (ec.cofactor + 1)):", "_recover_pub_keys_ range")
    s = _src(dsa._grind_entropy)
    _need(s, "return None if counter == 0 else counter.to_bytes(32, byteorder='little')", "_grind_entropy")
    # bms: flag arithmetic as evaluated, address-type guards as written
    s = _src(bms.sign)
    _need(s, "rf = key_id + 27", "bms.sign p2pkh flag")
    _need(s, "rf += 4 if compressed else 0", "bms.sign compressed flag")
    _need(s, "rf = key_id + 35", "bms.sign p2wpkh-p2sh flag")
    _need(s, "rf = key_id + 39", "bms.sign p2wpkh flag")
    s = _src(bms.assert_as_valid)
    _need(s, "key_id = sig.rf - 27 & 3", "bms.assert_as_valid key_id")
    _need(s, "compressed = sig.rf > 30", "bms.assert_as_valid compressed")
    _need(_src(bms.Sig.assert_valid), "if self.rf < 27 or self.rf > 42:", "bms.Sig.assert_valid range")
    # the scheme model Model/C02/BmsSig.lean (sign / assertAsValid) and the entry model Model/C02/Api.lean
    s = _src(bms.sign)
    _need(s, "dsa_sig, key_id = dsa.sign_recoverable(magic_msg, q)", "bms.sign signs with dsa.sign_recoverable defaults")
    _need(s, "if addr is None or addr == p2pkh(pub_key, network, compressed):", "bms.sign p2pkh arm")
    _need(s, "elif compressed and addr == p2wpkh_p2sh(pub_key, network):", "bms.sign p2wpkh-p2sh arm")
    _need(s, "elif compressed and addr == p2wpkh(pub_key, network):", "bms.sign p2wpkh arm")
    s = _src(bms.assert_as_valid)
    _need(s, "pub_key = _libsecp256k1_recover_sec_(key_id, reduce_to_hlen(magic_msg), sig.dsa_sig, compressed, lower_s=False)",
          "bms.assert_as_valid bindings-arm recovery (any s)")
    _need(s, "Q = dsa.recover_pub_key(key_id, magic_msg, sig.dsa_sig, sha256)", "bms.assert_as_valid Python-arm recovery")
    _need(s, "pub_key = bytes_from_point(Q, compressed=compressed)", "bms.assert_as_valid serialization")
    from btclib.ecc import rfc6979_nonce
    _need(_src(rfc6979_nonce.challenge_), "return int_from_bits(msg_hash, ec.nlen) % ec.n", "challenge_ reduction")
    s = _src(rfc6979_nonce._rfc6979_nonce_)
    _need(s, "while len(t) < ec.n_size:", "_rfc6979_nonce_ fill loop")
    _need(s, "nonce = int_from_bits(t, ec.nlen)", "_rfc6979_nonce_ candidate")
    _need(s, "if 0 < nonce < ec.n:", "_rfc6979_nonce_ candidate rule")
    _need(_src(dsa.Signer.sign_), "if self._pub_key_sec is not None:", "Signer.sign_ reads the arm fixed at construction")
    _need(_src(dsa.recover_pub_key_), "QJ = _recover_pub_key_(key_id, c, sig.r, sig.s, sig.ec, lower_s=False)", "recover_pub_key_ core call")
    _need(_src(dsa.assert_as_valid_), "_assert_as_valid_(c, QJ, sig.r, sig.s, sig.ec, fixed, lower_s=False)", "assert_as_valid_ core call")
    _need(_src(dsa.verify_), "except (ValueError, BTClibRuntimeError):", "verify_ refusal classes")

    def accepts(fn, rf, *extra):
        # evaluate the guard alone: the hash comparison is made to succeed
        import btclib.ecc.bms as B
        saved = B.hash160, getattr(B, "witness_from_address")
        B.hash160 = lambda _b: b"\x00" * 20
        B.witness_from_address = lambda _a: (0, b"\x00" * 20, "mainnet")
        try:
            fn("addr", rf, b"", *extra)
            return True
        except Exception:
            return False
        finally:
            B.hash160, B.witness_from_address = saved
    rows = []
    for rf in range(20, 50):
        p2pkh = accepts(bms._assert_p2pkh, rf, b"\x00" * 20)
        p2sh = accepts(bms._assert_p2wpkh_p2sh, rf, b"\x00" * 20)
        wpkh = accepts(bms._assert_p2wpkh, rf)
        rows.append((rf, p2pkh, p2sh, wpkh))
    t += "/-- (flag, accepted for p2pkh, for p2wpkh-p2sh, for p2wpkh) by the guards of bms._assert_* (20..49),\n"
    t += "    before `Sig.assert_valid` restricts the flag to 27..42 -/\n"
    t += "def BMS_GUARDS : List (Nat × Bool × Bool × Bool) := [" + ", ".join(
        f"({rf}, {str(a).lower()}, {str(b).lower()}, {str(c).lower()})" for rf, a, b, c in rows) + "]\n"
    t += "def BMS_RF_MIN : Nat := 27\ndef BMS_RF_MAX : Nat := 42\n"
    return t


def _bits_args(rng):
    n = rng.choice([0, 1, 2, 20, 31, 32, 33, 64, 66])
    b = bytes(rng.getrandbits(8) for _ in range(n))
    nlen = rng.choice([0, 1, 4, 5, 7, 8, 9, 112, 160, 255, 256, 257, 384, 512, 521, 528, 8 * n, 8 * n + 1, max(0, 8 * n - 1)])
    return b, nlen


def _scalar(rng):
    bits = rng.choice([0, 1, 7, 8, 9, 15, 16, 127, 128, 248, 255, 256, 257, 520, 521, 1000, 2016, 2017, 2100])
    v = rng.getrandbits(bits) if bits else 0
    if rng.random() < 0.3 and bits:
        v |= 1 << (bits - 1)
    return v


def functions():
    return [
        FuncSpec(utils, "int_from_bits", "int", params=[("octets", "bytes"), ("nlen", "int")], gen=_bits_args),
        FuncSpec(var_bytes, "serialize", "bytes", params=[("octets", "bytes")], lean="varBytesSerialize",
                 gen=lambda rng: (bytes(rng.getrandbits(8) for _ in range(rng.choice([0, 1, 2, 33, 70, 127, 128, 252, 253, 254, 300]))),)),
        FuncSpec(dsa, "_serialize_scalar", "bytes", params=[("scalar", "int")],
                 gen=lambda rng: (_scalar(rng) * rng.choice([1, 1, 1, 1, -1]),)),
        FuncSpec(dsa, "_is_low_r", "bool", params=[("r", "int")], subst={"ec.n_size": ("n_size", "int")},
                 call=_is_low_r,
                 gen=lambda rng: (_scalar(rng), rng.choice([1, 2, 14, 20, 32, 33, 48, 66]))),
    ]
