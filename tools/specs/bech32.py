"""Translator plugin (C06): bech32 codec tables and constants, regenerated from btclib/bech32.py.

Values are dumped from the imported module; the shape of the `_polymod` loop body and of the
`_decode` guards is read off the AST (mask, shifts, HRP character range, checksum length), and a
body of any other shape is a translator error (the tie is then reported broken, not silently kept).
"""
import ast
import inspect
import re

from btclib import bech32

NS = "Bech32"


def _nat_list(xs):
    return "[" + ", ".join(str(int(x)) for x in xs) + "]"


def _fn(name):
    return ast.parse(inspect.getsource(getattr(bech32, name))).body[0]


def _polymod_shape():
    """chk = (chk & MASK) << SHIFT ^ value ^ _TAPS[chk >> TOP], chk starting at INIT."""
    f = _fn("_polymod")
    body = [s for s in f.body if not (isinstance(s, ast.Expr) and isinstance(s.value, ast.Constant))]
    if len(body) != 3 or not isinstance(body[0], ast.Assign) or not isinstance(body[1], ast.For) \
            or not isinstance(body[2], ast.Return):
        raise ValueError("bech32._polymod: unexpected statement structure")
    init = body[0].value.value
    loop = body[1]
    if len(loop.body) != 1:
        raise ValueError("bech32._polymod: loop body is not a single assignment")
    got = ast.unparse(loop.body[0])
    var = loop.target.id
    m = re.fullmatch(r"chk = \(chk & (\d+)\) << (\d+) \^ " + var + r" \^ _TAPS\[chk >> (\d+)\]", got)
    if not m or ast.unparse(body[2]) != "return chk" or ast.unparse(loop.iter) != f.args.args[0].arg:
        raise ValueError(f"bech32._polymod: loop body `{got}` is not `chk = (chk & MASK) << SHIFT ^ value ^ _TAPS[chk >> TOP]`")
    mask, shift, top = (int(g) for g in m.groups())
    return init, mask, shift, top


def _decode_shape():
    src = ast.unparse(_fn("_decode"))
    m = re.search(r"all\(\((\d+) < ord\(x\) < (\d+) for x in text\[:pos\]\)\)", src)
    if not m:
        raise ValueError("bech32._decode: HRP range guard not found")
    lo, hi = int(m.group(1)), int(m.group(2))
    m2 = re.search(r"if pos \+ (\d+) > len\(text\)", src)
    if not m2 or "text.rfind('1')" not in src:
        raise ValueError("bech32._decode: separator / checksum-length guard not found")
    if "data[:-6], data[-6:]" not in src or "indices[-6:]" not in src:
        raise ValueError("bech32._decode: checksum split is not the last six values")
    return lo, hi, int(m2.group(1))


def _checksum_shape():
    src = ast.unparse(_fn("_create_checksum"))
    if "_polymod([*values, 0, 0, 0, 0, 0, 0]) ^ m" not in src or \
            "[polymod >> 5 * (5 - i) & 31 for i in range(6)]" not in src:
        raise ValueError("bech32._create_checksum: unexpected shape")
    src = ast.unparse(_fn("_hrp_expand"))
    if "[ord(x) >> 5 for x in hrp] + [0] + [ord(x) & 31 for x in hrp]" not in src:
        raise ValueError("bech32._hrp_expand: unexpected shape")
    src = ast.unparse(_fn("_m_from_wit_ver"))
    if "return _BECH32_1_CONST if wit_ver == 0 else _BECH32_M_CONST" not in src or "wit_ver = data[0]" not in src:
        raise ValueError("bech32._m_from_wit_ver: unexpected shape")


def constants():
    init, mask, shift, top = _polymod_shape()
    lo, hi, seplen = _decode_shape()
    _checksum_shape()
    a = bech32._ALPHABET
    if not isinstance(a, str) or any(ord(c) > 126 or ord(c) < 33 for c in a):
        raise ValueError("bech32._ALPHABET is not printable ascii text")
    t = ""
    t += f"/-- `bech32._ALPHABET` = \"{a}\" as code points -/\n"
    t += f"def ALPHABET : List Nat := {_nat_list(ord(c) for c in a)}\n"
    t += f"/-- `bech32._GENERATOR` -/\ndef GENERATOR : List Nat := {_nat_list(bech32._GENERATOR)}\n"
    t += f"/-- `bech32._TAPS` as built at import -/\ndef TAPS : List Nat := {_nat_list(bech32._TAPS)}\n"
    t += f"def BECH32_1_CONST : Nat := {int(bech32._BECH32_1_CONST)}\n"
    t += f"def BECH32_M_CONST : Nat := {int(bech32._BECH32_M_CONST)}\n"
    t += "/-- `_polymod`: chk = (chk & POLY_MASK) << POLY_SHIFT ^ value ^ _TAPS[chk >> POLY_TOP], from POLY_INIT -/\n"
    t += f"def POLY_INIT : Nat := {init}\ndef POLY_MASK : Nat := {mask}\ndef POLY_SHIFT : Nat := {shift}\ndef POLY_TOP : Nat := {top}\n"
    t += f"/-- `_decode`: HRP_LO < ord(x) < HRP_HI on the human-readable part; `pos + SEP_CHK_LEN > len` is too short -/\n"
    t += f"def HRP_LO : Nat := {lo}\ndef HRP_HI : Nat := {hi}\ndef SEP_CHK_LEN : Nat := {seplen}\n"
    return t
