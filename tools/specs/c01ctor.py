"""C01: the constructors of `CurveGroup` / `Curve` and the doubling formula, read off the AST of /repo each run.

Generated (namespace Gen.C01Ctor; lean/Proofs/C01/Ctor.lean proves the hand-written model equal to them, so an edit of
the source breaks an obligation, not only a stream):
  is_prime                 the return expression of `curve_group._is_prime`
  a_is_zero, a_is_minus_3,
  stand_in_q, stand_in_r   the flags / stand-ins `CurveGroup.__init__` assigns
  group_checks p a b       the refusals of `CurveGroup.__init__`, in the code's order: the first failing one's message
                           fragment, `none` = accepted
  double_jac_qz2, double_jac_helper
                           `CurveGroup.double_jac` / `_double_jac_helper` with the two flags as explicit parameters
  curve_checks …           the refusals of `Curve.__init__` after the generator is read, in order (the order test
                           `_mult_jac_var(n, GJ)[2]` and `is_on_curve` results are parameters)
  mov_lo, mov_hi, mov_hit  the loop of `_assert_mov_resistant`
Anything outside the small expression subset below raises: a broken tie.
"""
import ast
import inspect

from btclib.curves import curve, curve_group

NS = "C01Ctor"
IMPORTS = ["Model.Common.EC"]


class Bad(Exception):
    pass


def _fn(mod, qual):
    tree = ast.parse(inspect.getsource(mod))
    body = tree.body
    node = None
    for part in qual.split("."):
        node = next((n for n in body if isinstance(n, (ast.FunctionDef, ast.ClassDef)) and n.name == part), None)
        if node is None:
            raise Bad(f"{mod.__name__}.{qual}: definition not found")
        body = node.body
    return node


BIN = {ast.Add: "+", ast.Sub: "-", ast.Mult: "*", ast.FloorDiv: "/", ast.Mod: "%"}
CMP = {ast.Eq: "=", ast.NotEq: "≠", ast.Lt: "<", ast.LtE: "≤", ast.Gt: ">", ast.GtE: "≥"}


class Expr:
    """integer / boolean expressions over an environment {python name or attribute text: lean term}"""

    def __init__(self, env, calls=None):
        self.env = dict(env)
        self.calls = calls or {}

    def key(self, e):
        return ast.unparse(e)

    def int(self, e):
        k = self.key(e)
        if k in self.env:
            return self.env[k]
        if isinstance(e, ast.Constant) and isinstance(e.value, int) and not isinstance(e.value, bool):
            return str(e.value) if e.value >= 0 else f"({e.value})"
        if isinstance(e, ast.BinOp) and type(e.op) in BIN:
            return f"({self.int(e.left)} {BIN[type(e.op)]} {self.int(e.right)})"
        if isinstance(e, ast.UnaryOp) and isinstance(e.op, ast.USub):
            return f"(-{self.int(e.operand)})"
        if isinstance(e, ast.Call) and isinstance(e.func, ast.Name):
            if e.func.id == "pow" and len(e.args) == 3:
                b, x, m = (self.int(a) for a in e.args)
                return f"(Btc.EC.modPow {b} (Int.toNat {x}) {m})"
            if e.func.id == "isqrt" and len(e.args) == 1:
                return f"((Nat.sqrt (Int.toNat {self.int(e.args[0])}) : Nat) : Int)"
        if isinstance(e, ast.Subscript) and self.key(e) in self.env:
            return self.env[self.key(e)]
        raise Bad(f"integer expression outside the subset: {k}")

    def bool(self, e):
        k = self.key(e)
        if k in self.env:
            return self.env[k]
        if isinstance(e, ast.BoolOp):
            op = " && " if isinstance(e.op, ast.And) else " || "
            return "(" + op.join(self.bool(v) for v in e.values) + ")"
        if isinstance(e, ast.UnaryOp) and isinstance(e.op, ast.Not):
            return f"(!{self.bool(e.operand)})"
        if isinstance(e, ast.Compare):
            parts, left = [], e.left
            for op, right in zip(e.ops, e.comparators):
                if type(op) not in CMP:
                    raise Bad(f"comparison outside the subset: {k}")
                parts.append(f"decide ({self.int(left)} {CMP[type(op)]} {self.int(right)})")
                left = right
            return "(" + " && ".join(parts) + ")"
        if isinstance(e, ast.Call) and isinstance(e.func, ast.Name) and e.func.id in self.calls:
            return "(" + self.calls[e.func.id] + "".join(" " + self.int(a) for a in e.args) + ")"
        raise Bad(f"boolean expression outside the subset: {k}")


def _first_str(node):
    """the first string fragment of the message a `raise BTClibValueError(...)` block builds"""
    for n in ast.walk(node):
        if isinstance(n, ast.Constant) and isinstance(n.value, str) and n.value:
            return n.value
        if isinstance(n, ast.JoinedStr):
            for v in n.values:
                if isinstance(v, ast.Constant) and isinstance(v.value, str) and v.value:
                    return v.value
    raise Bad("raise without a message")


def _raises(stmts):
    return any(isinstance(n, ast.Raise) for s in stmts for n in ast.walk(s))


def _checks(stmts, ex, skip=()):
    """the `if cond: …raise` statements of a constructor body, in order -> [(lean cond, tag)], following the plain
    assignments in between (`d = …`, `delta = …`, `exp_cofactor = …`)"""
    out = []
    for s in stmts:
        if isinstance(s, ast.Expr) and isinstance(s.value, ast.Constant):
            continue  # docstring
        if isinstance(s, ast.If) and _raises(s.body):
            if s.orelse:
                raise Bad("a refusing `if` with an else branch")
            out.append((ex.bool(s.test), _first_str(ast.Module(body=s.body, type_ignores=[]))))
            continue
        if isinstance(s, ast.If):
            # `if weakness_check: _assert_mov_resistant(self.p, n)`
            if len(s.body) == 1 and isinstance(s.body[0], ast.Expr) and ast.unparse(s.body[0].value).startswith(
                    "_assert_mov_resistant(") and not s.orelse:
                args = s.body[0].value.args
                out.append((f"({ex.bool(s.test)} && mov_weak {ex.int(args[0])} {ex.int(args[1])})", "weak curve: "))
                continue
            raise Bad(f"unexpected if: {ast.unparse(s.test)}")
        if isinstance(s, ast.Assign) and len(s.targets) == 1:
            tgt = ast.unparse(s.targets[0])
            if tgt in skip:
                continue
            try:
                ex.env[tgt] = ex.int(s.value)
            except Bad:
                try:
                    ex.env[tgt] = ex.bool(s.value)
                except Bad:
                    if tgt in ex.env or tgt.startswith("self."):
                        continue  # an attribute no later condition reads (a later use would raise: not in env)
                    raise Bad(f"assignment outside the subset: {ast.unparse(s)}") from None
            continue
        if isinstance(s, ast.AnnAssign) and ast.unparse(s.target) in skip:
            continue
        if isinstance(s, ast.Expr) and ast.unparse(s.value).startswith("super().__init__("):
            continue
        raise Bad(f"statement outside the subset: {ast.unparse(s)[:60]}")
    return out


def _chain(checks, indent="  "):
    t = ""
    for cond, tag in checks:
        t += f"{indent}if {cond} then some \"{tag}\" else\n"
    return t + f"{indent}none\n"


def constants():
    t = ""
    # ---- _is_prime
    f = _fn(curve_group, "_is_prime")
    rets = [s for s in f.body if isinstance(s, ast.Return)]
    if len(rets) != 1 or len([s for s in f.body if not (isinstance(s, ast.Expr) and isinstance(s.value, ast.Constant))]) != 1:
        raise Bad("_is_prime is no longer a single return")
    t += "/-- `curve_group._is_prime` -/\n"
    t += f"def is_prime (x : Int) : Bool := {Expr({'x': 'x'}).bool(rets[0].value)}\n\n"

    # ---- CurveGroup.__init__
    f = _fn(curve_group, "CurveGroup.__init__")
    ex = Expr({"p": "p", "a": "a", "b": "b"}, calls={"_is_prime": "is_prime"})
    body = [s for s in f.body
            if not (isinstance(s, ast.Assign) and ast.unparse(s.value).startswith("int_from_integer("))]
    skip = {"self.p_size", "self._fixed_points", "plen"}
    ex.env["plen"] = "(Btc.Py.bitLength p)"
    checks = _checks(body, ex, skip=skip)
    need = ["self._a_is_zero", "self._a_is_minus_3", "self._stand_in_q", "self._stand_in_r", "self.p", "self._a", "self._b"]
    flags = {}
    for s in body:
        if isinstance(s, ast.Assign) and ast.unparse(s.targets[0]) in need:
            flags[ast.unparse(s.targets[0])] = s.value
    for k in need:
        if k not in flags:
            raise Bad(f"CurveGroup.__init__ no longer assigns {k}")
    for k, v in (("self.p", "p"), ("self._a", "a"), ("self._b", "b")):
        if ast.unparse(flags[k]) != v:
            raise Bad(f"{k} = {ast.unparse(flags[k])}")
    e0 = Expr({"p": "p", "a": "a", "b": "b"})
    t += "/-- `self._a_is_zero`, `self._a_is_minus_3` as `CurveGroup.__init__` assigns them -/\n"
    t += f"def a_is_zero (p a : Int) : Bool := {e0.bool(flags['self._a_is_zero'])}\n"
    t += f"def a_is_minus_3 (p a : Int) : Bool := {e0.bool(flags['self._a_is_minus_3'])}\n"
    for nm in ("q", "r"):
        tup = flags[f"self._stand_in_{nm}"]
        if not (isinstance(tup, ast.Tuple) and len(tup.elts) == 3):
            raise Bad("stand-in is not a triple")
        t += f"def stand_in_{nm} (p : Int) : Int × Int × Int := ({', '.join(e0.int(x) for x in tup.elts)})\n"
    t += "\n/-- the refusals of `CurveGroup.__init__(p, a, b)` in the code's order: message fragment of the first one -/\n"
    t += "def group_checks (p a b : Int) : Option String :=\n" + _chain(checks) + "\n"

    # ---- double_jac / _double_jac_helper
    f = _fn(curve_group, "CurveGroup.double_jac")
    env = {"self._a_is_zero": "aIsZero", "self._a_is_minus_3": "aIsM3", "self.p": "p", "self._a": "a", "p": "p",
           "Q[0]": "X1", "Q[1]": "Y1", "Q[2]": "Z1", "QZ2": "QZ2"}
    st = [s for s in f.body if not (isinstance(s, ast.Expr) and isinstance(s.value, ast.Constant))]
    if not (len(st) == 2 and isinstance(st[0], ast.Assign) and ast.unparse(st[0].targets[0]) == "QZ2"
            and isinstance(st[0].value, ast.IfExp)
            and ast.unparse(st[1]) == "return self._double_jac_helper(Q, QZ2)"):
        raise Bad("double_jac has a new shape")
    ie = st[0].value
    exd = Expr(env)
    t += "/-- `QZ2` of `CurveGroup.double_jac` -/\n"
    t += (f"def double_jac_qz2 (aIsZero : Bool) (p Z1 : Int) : Int := if {exd.bool(ie.test)} then {exd.int(ie.body)} "
          f"else {exd.int(ie.orelse)}\n\n")
    f = _fn(curve_group, "CurveGroup._double_jac_helper")
    st = [s for s in f.body if not (isinstance(s, ast.Expr) and isinstance(s.value, ast.Constant))]
    lines = []
    for s in st:
        if isinstance(s, ast.Assign) and isinstance(s.targets[0], ast.Name):
            nm = s.targets[0].id
            if nm == "p":
                if ast.unparse(s.value) != "self.p":
                    raise Bad("p = " + ast.unparse(s.value))
                continue
            lines.append(f"  let {nm} : Int := {exd.int(s.value)}\n")
            exd.env[nm] = nm
        elif isinstance(s, ast.If):
            # if a_is_zero: W = … elif a_is_minus_3: W = … else: W = …
            def arm(body):
                if not (len(body) == 1 and isinstance(body[0], ast.Assign) and ast.unparse(body[0].targets[0]) == "W"):
                    raise Bad("an arm of the W selection is not `W = …`")
                return exd.int(body[0].value)
            if not (len(s.orelse) == 1 and isinstance(s.orelse[0], ast.If)):
                raise Bad("W selection is not if/elif/else")
            s2 = s.orelse[0]
            lines.append(f"  let W : Int := if {exd.bool(s.test)} then {arm(s.body)} else if {exd.bool(s2.test)} then "
                         f"{arm(s2.body)} else {arm(s2.orelse)}\n")
            exd.env["W"] = "W"
        elif isinstance(s, ast.Return):
            if not (isinstance(s.value, ast.Tuple) and len(s.value.elts) == 3):
                raise Bad("_double_jac_helper does not return a triple")
            lines.append("  (" + ", ".join(exd.int(x) for x in s.value.elts) + ")\n")
        else:
            raise Bad("statement in _double_jac_helper: " + ast.unparse(s)[:50])
    t += "/-- `CurveGroup._double_jac_helper` with the constructor's two flags explicit -/\n"
    t += ("def double_jac_helper (aIsZero aIsM3 : Bool) (p a X1 Y1 Z1 QZ2 : Int) : Int × Int × Int :=\n" + "".join(lines) + "\n")

    # ---- _assert_mov_resistant
    f = _fn(curve, "_assert_mov_resistant")
    loops = [s for s in f.body if isinstance(s, ast.For)]
    if len(loops) != 1:
        raise Bad("_assert_mov_resistant: not one loop")
    lp = loops[0]
    if not (isinstance(lp.iter, ast.Call) and ast.unparse(lp.iter.func) == "range" and len(lp.iter.args) == 2
            and all(isinstance(a, ast.Constant) for a in lp.iter.args) and ast.unparse(lp.target) == "i"
            and len(lp.body) == 1 and isinstance(lp.body[0], ast.If) and _raises(lp.body[0].body)):
        raise Bad("_assert_mov_resistant: loop of a new shape")
    lo, hi = (a.value for a in lp.iter.args)
    t += f"def mov_lo : Nat := {lo}\ndef mov_hi : Nat := {hi}\n"
    t += ("def mov_hit (p n : Int) (i : Nat) : Bool := "
          + Expr({"p": "p", "n": "n", "i": "(i : Int)"}).bool(lp.body[0].test) + "\n")
    t += ("/-- `_assert_mov_resistant(p, n)` raises -/\ndef mov_weak (p n : Int) : Bool := "
          "(List.range (mov_hi - mov_lo)).any fun k => mov_hit p n (mov_lo + k)\n\n")

    # ---- Curve.__init__ (after the generator has been read)
    f = _fn(curve, "Curve.__init__")
    body = list(f.body)
    names = [ast.unparse(s)[:40] for s in body]
    start = next((i for i, s in enumerate(body) if ast.unparse(s).startswith("n = int_from_integer(n)")), None)
    if start is None:
        raise Bad("Curve.__init__: `n = int_from_integer(n)` not found: " + repr(names[:6]))
    head = [ast.unparse(s) for s in body[:start] if not (isinstance(s, ast.Expr) and isinstance(s.value, ast.Constant))]
    want_head = ["super().__init__(p, a, b)", "self.G = _generator_from_point(G, self)",
                 "self.GJ = (self.G[0], self.G[1], 1)",
                 "self._fixed_points = frozenset({self.GJ, self.negate_jac(self.GJ)})"]
    if head != want_head:
        raise Bad(f"Curve.__init__ head changed: {head}")
    exc = Expr({"self.p": "p", "n": "n", "cofactor": "cofactor", "self.G[1]": "gy", "order_check": "orderCheck",
                "weakness_check": "weaknessCheck", "_mult_jac_var(n, self.GJ, self)[2]": "nGZ"},
               calls={"_is_prime": "is_prime"})
    skip = {"self.n", "self.nlen", "self.n_size", "self.scalar_len", "self.cofactor", "self.name"}
    slen = next((s for s in body if isinstance(s, ast.Assign) and ast.unparse(s.targets[0]) == "self.scalar_len"), None)
    nlen = next((s for s in body if isinstance(s, ast.Assign) and ast.unparse(s.targets[0]) == "self.nlen"), None)
    if slen is None or nlen is None or ast.unparse(slen.value) != "self.nlen" or ast.unparse(nlen.value) != "n.bit_length()":
        raise Bad("Curve.__init__: scalar_len is no longer n.bit_length()")
    checks = _checks(body[start + 1:], exc, skip=skip)
    t += ("/-- the refusals of `Curve.__init__` after the generator is read, in the code's order (`nGZ` = "
          "`_mult_jac_var(n, GJ)[2]`, `gy` = `G[1]`) -/\n")
    t += ("def curve_checks (p n cofactor gy nGZ : Int) (weaknessCheck orderCheck : Bool) : Option String :=\n"
          + _chain(checks) + "\n")
    # _generator_from_point: not on the curve is the one refusal besides is_on_curve's own raise
    f = _fn(curve, "_generator_from_point")
    conds = [ast.unparse(s.test) for s in f.body if isinstance(s, ast.If)]
    if conds != ["len(G) != 2", "not ec.is_on_curve(point)"]:
        raise Bad(f"_generator_from_point changed: {conds}")
    t += "def scalar_len_is_nlen : Bool := true\n"
    return t
