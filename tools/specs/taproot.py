"""Translator plugin (C12): the constants of btclib/script/taproot.py the theorems mention.

Read off the AST of the *current* source on every run:
  * the BIP341 tag of every `tagged_hash` call, per function (leaf / branch / tweak; branch = `_subtree_helper`, which `tree_helper` starts at depth 0
    and which refuses `depth > MAX_TREE_DEPTH` before anything else), and that the
    two branch-hash sites and the three tweak sites agree;
  * `MAX_TREE_DEPTH`, the control-block layout numbers (33 head, 32 per node) from the guards of
    `check_output_pubkey`, the leaf-version mask (0xFE at all three sites) and the parity mask (1);
  * the x-only NUMS point used when no internal key is given, and its 02 prefix.
A shape that is no longer recognised raises (=> "broken" in index.json: the tie is broken, never a pass).
"""
import ast
import inspect
import re

from btclib.script import taproot

NS = "Taproot"


def _src(fn):
    return ast.unparse(ast.parse(inspect.getsource(fn)))


def _tags(fn):
    out = []
    for n in ast.walk(ast.parse(inspect.getsource(fn))):
        if isinstance(n, ast.Call) and getattr(n.func, "id", "") == "tagged_hash":
            a = n.args[0]
            if not (isinstance(a, ast.Constant) and isinstance(a.value, bytes)):
                raise ValueError(f"{fn.__name__}: tagged_hash with a non-literal tag")
            out.append(a.value)
    return out


def _one(pattern, src, what):
    m = re.findall(pattern, src)
    if not m:
        raise ValueError(f"taproot: {what}: pattern not found")
    if len(set(m)) != 1:
        raise ValueError(f"taproot: {what}: sites disagree: {sorted(set(m))}")
    return m[0]


def _blit(b):
    return "[" + ", ".join(str(x) for x in b) + "]"


def constants():
    leaf = _tags(taproot.leaf_hash)
    branch = _tags(taproot._subtree_helper)
    tweak = _tags(taproot._tap_tweak)
    chk = _tags(taproot.check_output_pubkey)
    if len(leaf) != 1 or len(branch) != 1 or len(tweak) != 1:
        raise ValueError(f"taproot: expected one tag per function, got {leaf} {branch} {tweak}")
    if set(chk) != set(branch) or len(chk) != 2:
        raise ValueError(f"taproot: check_output_pubkey folds with {chk}, tree_helper hashes with {branch}")
    c = _src(taproot.check_output_pubkey)
    th = _src(taproot._tree_helper)
    isg = _src(taproot.input_script_sig)
    opk = _src(taproot._output_pubkey_and_internal_key)
    # control block layout, every site
    m = re.search(r"if len\(control\) > (\d+) \+ (\d+) \* MAX_TREE_DEPTH:", c)
    if not m:
        raise ValueError("taproot: control block length cap not found")
    head, node = int(m.group(1)), int(m.group(2))
    if f"m = (len(control) - {head}) // {node}" not in c or f"if len(control) != {head} + {node} * m:" not in c:
        raise ValueError("taproot: control block length residue guard of unexpected shape")
    if f"e = control[{head} + {node} * j:{head + node} + {node} * j]" not in c:
        raise ValueError("taproot: merkle path slice of unexpected shape")
    if f"p_bytes = control[1:{head}]" not in c or "for j in range(m):" not in c:
        raise ValueError("taproot: internal key slice / path loop of unexpected shape")
    if "if k < e:" not in c or "k = tagged_hash(b'TapBranch', k + e)" not in c.replace('"', "'") \
            or "k = tagged_hash(b'TapBranch', e + k)" not in c.replace('"', "'"):
        raise ValueError("taproot: merkle fold comparison of unexpected shape")
    # tree_helper is the walk started at depth 0; the walk itself (depth guard first, then the node shapes, then
    # the two recursive calls one level down) is _subtree_helper
    if "return _subtree_helper(script_tree, 0)" not in _src(taproot.tree_helper) or _tags(taproot.tree_helper):
        raise ValueError("taproot: tree_helper is no longer `_subtree_helper(script_tree, 0)`")
    t = _src(taproot._subtree_helper)
    if not re.search(r'"""\n    if depth > MAX_TREE_DEPTH:\n(?:        .*\n)*?        raise BTClibValueError', t) \
            or len(re.findall(r"_subtree_helper\(cast\('TaprootScriptTree', script_tree\[[01]\]\), depth \+ 1\)",
                              t.replace('"', "'").replace("\n", " "))) != 2:
        raise ValueError("taproot: _subtree_helper depth guard / recursive calls of unexpected shape")
    if "if right_h < left_h:" not in t or "left_h, right_h = (right_h, left_h)" not in t \
            or "left_h + right_h" not in t:
        raise ValueError("taproot: tree_helper sibling sort of unexpected shape")
    if "(leaf, c + right_h) for leaf, c in left" not in t or "(leaf, c + left_h) for leaf, c in right" not in t:
        raise ValueError("taproot: tree_helper path extension of unexpected shape")
    mask_c = int(_one(r"k = leaf_hash\(control\[0\] & (\d+), script\)", c, "leaf mask in check"))
    mask_t = int(_one(r"leaf_version &= (\d+)", th, "leaf mask in _tree_helper"))
    if mask_c != mask_t:
        raise ValueError(f"taproot: leaf-version masks disagree: {mask_c} vs {mask_t}")
    par = re.findall(r"control\[0\] & (\d+) == Q\[1\] % 2", c) + re.findall(r"tweak_add_check\(q, control\[0\] & (\d+),", c)
    if len(par) != 2 or len(set(par)) != 1:
        raise ValueError(f"taproot: parity mask sites: {par}")
    if "control = (parity_bit + leaf_version).to_bytes(1, 'big')" not in isg.replace('"', "'") \
            or "control += pub_key_bytes" not in isg or "control += path" not in isg:
        raise ValueError("taproot: input_script_sig control block assembly of unexpected shape")
    if f"key_data.sec[1:{head}]" not in opk:
        raise ValueError("taproot: internal key slice in _output_pubkey_and_internal_key")
    mm = re.search(r"h_str = '([0-9a-fA-F]{64})'", opk.replace('"', "'"))
    mp = re.search(r"PubKeyData\(b'\\x(\d\d)' \+ bytes\.fromhex\(h_str\)", opk.replace('"', "'"))
    if not mm or not mp:
        raise ValueError("taproot: NUMS point not found")
    tw = _src(taproot._tap_tweak)
    if "if t >= secp256k1.n:" not in tw or "int.from_bytes(tagged_hash(b'TapTweak', pub_key + h), 'big')" not in tw.replace('"', "'"):
        raise ValueError("taproot: _tap_tweak of unexpected shape")
    lh = _src(taproot.leaf_hash)
    mv = re.search(r"if not 0 <= leaf_version <= (\d+):\n\s+raise BTClibValueError", lh)
    if not mv or "leaf_version.to_bytes(1, 'big') + var_bytes.serialize(script)" not in lh.replace('"', "'"):
        raise ValueError("taproot: leaf_hash version range guard / preimage of unexpected shape")
    from btclib.script import script_pub_key as _spk
    ap = _src(_spk.assert_p2tr)
    m_len = re.search(r"bytes_from_octets\(script_pub_key, (\d+)\)", ap)
    m_v = re.search(r"if script_pub_key\[0\] != (\d+):", ap)
    m_p = re.search(r"if script_pub_key\[1\] != (\d+):", ap)
    import textwrap
    p2 = ast.unparse(ast.parse(textwrap.dedent(inspect.getsource(_spk.ScriptPubKey.p2tr.__func__))))
    if not (m_len and m_v and m_p) or "pub_key = output_pubkey(internal_key, script_path)[0]" not in p2 \
            or "serialize(['OP_1', pub_key])" not in p2.replace('"', "'"):
        raise ValueError("taproot: assert_p2tr / ScriptPubKey.p2tr of unexpected shape")
    from btclib.script.script import serialize as _ser
    probe = _ser(["OP_1", bytes(range(32))])
    if probe[:2] != bytes([int(m_v.group(1)), int(m_p.group(1))]) or probe[2:] != bytes(range(32)) or len(probe) != int(m_len.group(1)):
        raise ValueError("taproot: serialize(['OP_1', key]) is not version byte, push marker, key")
    out = "/-- BIP341 tags, as passed to `tagged_hash` by leaf_hash / tree_helper+check_output_pubkey / _tap_tweak -/\n"
    out += f"def TAG_LEAF : Btc.Bytes := {_blit(leaf[0])}\n"
    out += f"def TAG_BRANCH : Btc.Bytes := {_blit(branch[0])}\n"
    out += f"def TAG_TWEAK : Btc.Bytes := {_blit(tweak[0])}\n"
    out += f"def MAX_TREE_DEPTH : Nat := {taproot.MAX_TREE_DEPTH}\n"
    out += f"/-- control block = {head} bytes (first byte, x-only internal key) + {node} per merkle node -/\n"
    out += f"def CONTROL_HEAD : Nat := {head}\ndef NODE_SIZE : Nat := {node}\n"
    out += f"def LEAF_MASK : Nat := {mask_c}\ndef PARITY_MASK : Nat := {int(par[0])}\n"
    out += f"/-- `leaf_hash` refuses a version outside `0..LEAF_VERSION_MAX` -/\ndef LEAF_VERSION_MAX : Int := {int(mv.group(1))}\n"
    out += "/-- `assert_p2tr`: total length, witness-version opcode (OP_1), push marker (32) -/\n"
    out += f"def P2TR_LEN : Nat := {int(m_len.group(1))}\ndef P2TR_VERSION_OP : UInt8 := {int(m_v.group(1))}\n"
    out += f"def P2TR_PUSH : UInt8 := {int(m_p.group(1))}\n"
    out += f"def NUMS_PREFIX : UInt8 := {int(mp.group(1), 16)}\n"
    out += f"def NUMS_X : Btc.Bytes := {_blit(bytes.fromhex(mm.group(1)))}\n"
    out += _codec_constants()
    return out


def _body(fn):
    """the unparsed source of a function without its docstring"""
    t = ast.parse(inspect.getsource(fn))
    f = t.body[0]
    if isinstance(f.body[0], ast.Expr) and isinstance(f.body[0].value, ast.Constant):
        f.body = f.body[1:]
    return ast.unparse(t)


def _codec_constants():
    """`taproot.serialize` and what it calls (`_serialize_int_command`, op_codes_tapscript's `_serialize_str_command`,
    `_serialize_bytes_command`, `_pushdata`): the shapes Model/C12/Script.lean mirrors are pinned line by line, the
    thresholds / op-code table / OP_SUCCESS list / script-number range are read off the source."""
    from btclib import utils
    from btclib.script import op_codes_tapscript as oc
    from btclib.script import script as sc
    if taproot._serialize_str_command is not oc._serialize_str_command \
            or taproot._serialize_int_command is not sc._serialize_int_command \
            or taproot._serialize_bytes_command is not sc._serialize_bytes_command \
            or taproot.OP_SUCCESS is not oc.OP_SUCCESS or sc.encode_num is not utils.encode_num:
        raise ValueError("taproot.serialize: the helpers it calls are no longer the ones modelled")
    ser = _body(taproot.serialize)
    for line in ("assert_type(script, list, 'tapscript')", "script = script[::-1]", "while script:", "command = script.pop()",
                 "if isinstance(command, int):\n            r.append(_serialize_int_command(command))",
                 "elif isinstance(command, str):\n            r.append(_serialize_str_command(command))\n"
                 "            if 'OP_SUCCESS' in command:\n"
                 "                if len(script) != 1 or not isinstance(script[0], (bytes, bytearray, memoryview)):\n"
                 "                    raise BTClibValueError(",
                 "return b''.join(r) + script[0]\n        else:\n            r.append(_serialize_bytes_command(command))\n"
                 "    return b''.join(r)"):
        if line not in ser:
            raise ValueError(f"taproot.serialize of unexpected shape: {line!r} not found")
    ic = _body(sc._serialize_int_command)
    if not ic.rstrip().endswith("return _serialize_bytes_command(encode_num(command))") or ic.count("return") != 1:
        raise ValueError("script._serialize_int_command of unexpected shape")
    st = _body(oc._serialize_str_command)
    m10 = re.search(r"if command\.startswith\('OP_SUCCESS'\):\n        try:\n            x = int\(command\[(\d+):\]\)", st)
    for line in ("command = command.strip().upper()\n    if command in OP_CODES:\n        return OP_CODES[command]\n",
                 "except ValueError as e:\n            raise BTClibValueError(",
                 "if x not in OP_SUCCESS:\n            raise BTClibValueError(",
                 "return x.to_bytes(1, 'little')\n    try:\n        data = bytes.fromhex(command)\n    except ValueError as e:\n"
                 "        raise BTClibValueError(", "return _serialize_bytes_command(data)"):
        if line not in st:
            raise ValueError(f"op_codes_tapscript._serialize_str_command of unexpected shape: {line!r} not found")
    if not m10 or int(m10.group(1)) != len("OP_SUCCESS"):
        raise ValueError("op_codes_tapscript._serialize_str_command: OP_SUCCESS suffix slice of unexpected shape")
    by = _body(sc._serialize_bytes_command)
    mb = re.search(r"assert_type\(command, \(bytes, bytearray, memoryview\), 'script command'\)\n(?:.*\n)*?"
                   r"    length = len\(command\)\n    if length < (\d+):\n"
                   r"        out\.append\(length\.to_bytes\(1, byteorder='little', signed=False\)\)\n"
                   r"    elif length < (\d+):\n        _pushdata\(1, length, out\)\n"
                   r"    elif length < (\d+):\n        _pushdata\(2, length, out\)\n"
                   r"    elif length < (\d+):\n        _pushdata\(4, length, out\)\n"
                   r"    else:\n        raise BTClibValueError\(.*\)\n    out\.append\(command\)\n    return b''\.join\(out\)", by)
    if not mb:
        raise ValueError("script._serialize_bytes_command of unexpected shape")
    pd = _body(sc._pushdata)
    if "out.extend((BYTE_FROM_OP_CODE_NAME[f'OP_PUSHDATA{i}'], length.to_bytes(i, byteorder='little', signed=False)))" not in pd:
        raise ValueError("script._pushdata of unexpected shape")
    names = dict(oc.OP_CODES)
    if any("OP_SUCCESS" in k or k != k.strip().upper() or len(v) != 1 or not k.isascii() for k, v in names.items()):
        raise ValueError("op_codes_tapscript.OP_CODES: a name with OP_SUCCESS in it / not normalised / not one byte")
    out = "/-- `_serialize_bytes_command`: a push shorter than PUSH_DIRECT is its length byte; below PUSH_1 / PUSH_2 / PUSH_4 it is\n"
    out += "    OP_PUSHDATA1 / 2 / 4 and a 1 / 2 / 4-byte little-endian length; anything longer is refused -/\n"
    out += f"def PUSH_DIRECT : Nat := {int(mb.group(1))}\ndef PUSH_1 : Nat := {int(mb.group(2))}\n"
    out += f"def PUSH_2 : Nat := {int(mb.group(3))}\ndef PUSH_4 : Nat := {int(mb.group(4))}\n"
    for i in (1, 2, 4):
        out += f"def OP_PUSHDATA{i} : UInt8 := {sc.BYTE_FROM_OP_CODE_NAME[f'OP_PUSHDATA{i}'][0]}\n"
    out += "/-- `op_codes_tapscript.OP_CODES`: (name as ASCII octets, byte) — what `_serialize_str_command` looks a stripped, upper-cased str up in -/\n"
    out += "def TAP_OP_CODES : List (Btc.Bytes × UInt8) := [\n"
    out += ",\n".join(f"  ({_blit(k.encode())}, {v[0]}) /- {k} -/" for k, v in names.items()) + "]\n"
    out += "/-- `op_codes_tapscript.OP_SUCCESS` -/\n"
    out += "def OP_SUCCESS : List Int := [" + ", ".join(str(x) for x in oc.OP_SUCCESS) + "]\n"
    out += f"def OP_SUCCESS_PREFIX : Btc.Bytes := {_blit(b'OP_SUCCESS')}\n"
    return out


def functions():
    from pyfun2lean import FuncSpec
    from btclib import utils
    return [FuncSpec(utils, "encode_num", "bytes", skip_stmts=("err_msg",))]
