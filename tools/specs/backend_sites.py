"""C04 — the delegation guards themselves (Generated/BackendSites.lean): emitted by tools/specs/backend.py's
`guards_text()`, in a module of their own because they call the translated `Gen.Backend.libsecp256k1_serves`
(a plugin's raw text precedes its translated functions)."""
import importlib.util
import os

_spec = importlib.util.spec_from_file_location("specs_backend_core", os.path.join(os.path.dirname(__file__), "backend.py"))
_core = importlib.util.module_from_spec(_spec)
_spec.loader.exec_module(_core)

NS = "BackendSites"
IMPORTS = ["Generated.Backend"]
AFTER = ["Backend"]


def constants():
    return "open Gen.Backend\n\n" + _core.guards_text()
