"""Translator plugin (C07): BIP32 constants and the xprv/xpub version tables.

Everything here is read from /repo's working tree each run:
  * values as loaded (`der_path._HARDENED_OFFSET`, hardening symbols, `bip32._N_BYTES`,
    `network._XPUB_VERSION_FROM_XPRV_VERSION`, `XPRV_VERSIONS_ALL`, `XPUB_VERSIONS_ALL`, the per-network
    version tuples, `bip85._HMAC_KEY/_PURPOSE/_MIN_INDEXES`, `bip44._LEVELS/_ACCOUNT_LEVELS/coin types/purposes`);
  * thresholds read off the AST of the functions that apply them (depth cap of `_derive` and of
    `_assert_valid_depth_and_index`, seed bit bounds and the HMAC key of `_rootxprv_from_seed`,
    the path-length cap of `der_path._pairs_from_der_path_str`, the defaults of `derive_from_account_`).
A guard that is no longer of the expected shape is a translator error (the tie is broken), never a silent default.
"""
import ast
import inspect
import re

from btclib import bip44, bip85, network
from btclib.bip32 import bip32, der_path

NS = "Bip32"


def _bl(b):
    return "([" + ", ".join(str(x) for x in bytes(b)) + "] : Btc.Bytes)"


def _src(fn):
    return ast.unparse(ast.parse(inspect.getsource(fn)))


def _one(pattern, src, what):
    m = re.findall(pattern, src)
    if len(m) != 1:
        raise ValueError(f"{what}: expected exactly one match of /{pattern}/, found {m}")
    return m[0]


def constants():
    t = ""
    off = der_path._HARDENED_OFFSET
    if not isinstance(off, int) or bip32._HARDENED_OFFSET is not der_path._HARDENED_OFFSET:
        raise ValueError("_HARDENED_OFFSET is not the shared int")
    t += f"/-- `der_path._HARDENED_OFFSET` -/\ndef HARDENED_OFFSET : Nat := {off}\n"
    for name in ("_HARDENINGS", "_BIP380_HARDENINGS"):
        v = getattr(der_path, name)
        if not all(isinstance(s, str) and len(s) == 1 for s in v):
            raise ValueError(f"{name}: not single characters")
        t += f"def {name.lstrip('_')} : List Char := [" + ", ".join(f"Char.ofNat {ord(s)}" for s in v) + "]\n"
    if len(der_path._HARDENING) != 1:
        raise ValueError("_HARDENING: not one character")
    t += f"/-- the symbol written for a hardened step by default -/\ndef HARDENING : Char := Char.ofNat {ord(der_path._HARDENING)}\n"

    # depth caps
    d1 = int(_one(r"if final_depth > (\d+):", _src(bip32._derive), "_derive depth cap"))
    d2 = int(_one(r"if not 0 <= depth <= (\d+):", _src(bip32._assert_valid_depth_and_index), "assert_valid depth cap"))
    d3 = int(_one(r"if len\(pairs\) > (\d+):", _src(der_path._pairs_from_der_path_str), "path string cap"))
    i1 = int(_one(r"if not 0 <= index <= (\w+):", _src(bip32._assert_valid_depth_and_index), "assert_valid index cap"), 0)
    i2 = int(_one(r"if not 0 <= i <= (\w+):", _src(der_path._assert_valid_index), "der_path index cap"), 0)
    t += f"/-- `_derive`: `final_depth > MAX_DEPTH` is refused -/\ndef MAX_DEPTH : Nat := {d1}\n"
    t += f"def VALID_MAX_DEPTH : Nat := {d2}\ndef PATH_STR_MAX_LEN : Nat := {d3}\n"
    t += f"def VALID_MAX_INDEX : Nat := {i1}\ndef PATH_MAX_INDEX : Nat := {i2}\n"

    # root key from seed
    s = _src(bip32._rootxprv_from_seed)
    lo = int(_one(r"if bit_length < (\d+):", s, "seed lower bound"))
    hi = int(_one(r"if bit_length > (\d+):", s, "seed upper bound"))
    key = _one(r"hmac\.new\(b'([^']*)', seed, 'sha512'\)", s, "seed hmac key")
    if "k = b'\\x00' + hmac_[:32]" not in s or "chain_code=hmac_[32:]" not in s:
        raise ValueError("_rootxprv_from_seed: unexpected shape")
    t += f"def SEED_MIN_BITS : Nat := {lo}\ndef SEED_MAX_BITS : Nat := {hi}\n"
    t += f"/-- HMAC key of the master key derivation: \"{key}\" -/\ndef SEED_KEY : Btc.Bytes := {_bl(key.encode('ascii'))}\n"

    # the order as the derivation compares it
    n = int.from_bytes(bip32._N_BYTES, "big")
    if len(bip32._N_BYTES) != 32:
        raise ValueError("_N_BYTES is not 32 bytes")
    t += f"/-- `bip32._N_BYTES` as an integer (the bound the hmac left half is compared with) -/\ndef N : Nat := {n}\n"
    t += f"def KEY_SIZES : List Nat := [{', '.join(str(v) for _, v in bip32._KEY_SIZE)}]\n"
    t += f"def REQUIRED_LENGTH : Nat := {bip32._REQUIRED_LENGTH}\n"

    # account-level defaults
    sig = inspect.signature(bip32.derive_from_account_)
    t += f"def ACCOUNT_MAX_INDEX : Nat := {int(sig.parameters['max_index'].default)}\n"
    if sig.parameters["branches_0_1_only"].default is not True:
        raise ValueError("derive_from_account_: branches_0_1_only default changed")

    # version tables
    pairs = list(network._XPUB_VERSION_FROM_XPRV_VERSION.items())
    for a, b in pairs:
        if len(a) != 4 or len(b) != 4:
            raise ValueError("xkey version not 4 bytes")
    t += "/-- `network._XPUB_VERSION_FROM_XPRV_VERSION`, in insertion order: (xprv version, xpub version) -/\n"
    t += "def VERSION_PAIRS : List (Btc.Bytes × Btc.Bytes) := [\n  " + ",\n  ".join(
        f"({_bl(a)}, {_bl(b)})" for a, b in pairs) + "]\n"
    t += "/-- `network.XPRV_VERSIONS_ALL` (sorted) -/\ndef XPRV_VERSIONS_ALL : List Btc.Bytes := [" + ", ".join(
        _bl(v) for v in sorted(network.XPRV_VERSIONS_ALL)) + "]\n"
    t += "/-- `network.XPUB_VERSIONS_ALL` (sorted) -/\ndef XPUB_VERSIONS_ALL : List Btc.Bytes := [" + ", ".join(
        _bl(v) for v in sorted(network.XPUB_VERSIONS_ALL)) + "]\n"
    t += "structure NetVersions where\n  name : String\n  isMain : Bool\n  xprv : List Btc.Bytes\n  xpub : List Btc.Bytes\n\n"
    rows = []
    for name, net in network.NETWORKS.items():
        if net.network_type not in ("main", "test"):
            raise ValueError(f"network type {net.network_type!r}")
        prv = network.xprvversions_from_network(name)
        pub = network.xpubversions_from_network(name)
        rows.append(f"  {{ name := \"{name}\", isMain := {'true' if net.network_type == 'main' else 'false'},\n"
                    f"    xprv := [{', '.join(_bl(v) for v in prv)}],\n    xpub := [{', '.join(_bl(v) for v in pub)}] }}")
    t += "/-- per network: `xprvversions_from_network`, `xpubversions_from_network` (same kind at the same position) -/\n"
    t += "def NETWORK_VERSIONS : List NetVersions := [\n" + ",\n".join(rows) + "]\n"
    t += "/-- `network.xpubversion_from_xprvversion` as a table lookup -/\n"
    t += "def pubVersion (v : Btc.Bytes) : Option Btc.Bytes := (VERSION_PAIRS.find? (fun r => r.1 == v)).map (·.2)\n"

    # BIP85 / BIP44 thin layers
    if not isinstance(bip85._HMAC_KEY, bytes):
        raise ValueError("bip85._HMAC_KEY")
    s85 = _src(bip85._entropy_from_der_path)
    if "hmac.new(_HMAC_KEY, xkey.key[1:], 'sha512').digest()" not in s85 or "_derive(root_key, indexes, None)" not in s85:
        raise ValueError("bip85._entropy_from_der_path: unexpected shape")
    t += f"def BIP85_KEY : Btc.Bytes := {_bl(bip85._HMAC_KEY)}\ndef BIP85_PURPOSE : Nat := {bip85._PURPOSE}\n"
    t += f"def BIP85_MIN_INDEXES : Nat := {bip85._MIN_INDEXES}\n"
    t += f"def BIP44_LEVELS : Nat := {bip44._LEVELS}\ndef BIP44_ACCOUNT_LEVELS : Nat := {bip44._ACCOUNT_LEVELS}\n"
    t += "/-- (coin type, is mainnet) -/\ndef BIP44_COIN_TYPES : List (Nat × Bool) := [" + ", ".join(
        f"({c}, {'true' if ty == 'main' else 'false'})" for c, ty in bip44._NETWORK_TYPE_FROM_COIN_TYPE.items()) + "]\n"
    t += "def BIP44_PURPOSES : List (Nat × String) := [" + ", ".join(
        f"({p}, \"{st}\")" for p, st in sorted(bip44.SCRIPT_TYPE_FROM_PURPOSE.items())) + "]\n"

    t += _bip85_applications()
    return t


# ---- BIP85 applications (bip85.py): path templates, bounds, the dice reader, the per-version network bytes
_BIP85_APPS = ["mnemonic_from_root_key", "wif_from_root_key", "xprv_from_root_key", "bytes_entropy_from_root_key",
               "base64_password_from_root_key", "base85_password_from_root_key", "rolls_from_root_key",
               "rsa_drng_from_root_key"]


def _path_template(fn):
    """The levels of the f-string(s) a bip85 function builds its derivation path from, in order: each level is a decimal
    literal or the Python expression between the braces; every level must be written hardened (`...h`)."""
    tree = ast.parse(inspect.getsource(fn))
    parts = []
    for n in ast.walk(tree):
        if isinstance(n, ast.JoinedStr) and any(isinstance(v, ast.Constant) and "/" in str(v.value) for v in n.values):
            txt = ""
            for v in n.values:
                if isinstance(v, ast.Constant):
                    txt += v.value
                elif isinstance(v, ast.FormattedValue) and v.format_spec is None and v.conversion == -1:
                    txt += "{" + ast.unparse(v.value) + "}"
                else:
                    raise ValueError(f"bip85.{fn.__name__}: unexpected f-string piece")
            parts.append((n.lineno, n.col_offset, txt))
    parts = [x[2] for x in sorted(parts)]
    if not parts or not parts[0].startswith("m/"):
        raise ValueError(f"bip85.{fn.__name__}: no derivation path f-string of the expected shape: {parts}")
    levels, optional = [], []
    for k, txt in enumerate(parts):
        body = txt[2:] if k == 0 else txt
        if k > 0 and not txt.startswith("/"):
            raise ValueError(f"bip85.{fn.__name__}: path continuation {txt!r}")
        for lv in body.strip("/").split("/"):
            m = re.fullmatch(r"(\d+|\{[^{}]+\})h", lv)
            if not m:
                raise ValueError(f"bip85.{fn.__name__}: level {lv!r} is not a hardened literal or expression")
            (levels if k == 0 else optional).append(m.group(1).strip("{}"))
    return levels, optional


def _bip85_applications():
    t = ""
    rows = []
    for name in _BIP85_APPS:
        lv, opt = _path_template(getattr(bip85, name))
        cell = lambda x_: f'("", {x_})' if x_.isdigit() else f'("{x_}", 0)'   # noqa: E731
        rows.append(f'  ("{name}", [' + ", ".join(cell(x) for x in lv) + "], [" + ", ".join(cell(x) for x in opt) + "])")
    t += "/-- the derivation path each bip85 application writes (read off the AST of its f-string): (function, levels, "
    t += "levels appended when the optional argument is given); a level is a decimal literal or the source expression; "
    t += "every level is written hardened -/\n"
    t += "def BIP85_PATHS : List (String × List (String × Nat) × List (String × Nat)) := [\n" + ",\n".join(rows) + "]\n"
    for nm in ("_MIN_BYTES", "_MAX_BYTES", "_MIN_B64_LEN", "_MAX_B64_LEN", "_MIN_B85_LEN", "_MAX_B85_LEN", "_MIN_SIDES",
               "_MIN_ROLLS", "_DRNG_SEED_SIZE"):
        t += f"def BIP85{nm} : Nat := {int(getattr(bip85, nm))}\n"
    bounds = [("bytes_entropy_from_root_key", "num_bytes", "_MIN_BYTES", "_MAX_BYTES", "entropy[:num_bytes]"),
              ("base64_password_from_root_key", "pwd_len", "_MIN_B64_LEN", "_MAX_B64_LEN", "b64encode(entropy).decode('ascii')[:pwd_len]"),
              ("base85_password_from_root_key", "pwd_len", "_MIN_B85_LEN", "_MAX_B85_LEN", "b85encode(entropy).decode('ascii')[:pwd_len]")]
    for fn, var, lo, hi, cut in bounds:
        src = _src(getattr(bip85, fn))
        if f"if not {lo} <= {var} <= {hi}:" not in src or f"return {cut}" not in src:
            raise ValueError(f"bip85.{fn}: bounds check / truncation has an unexpected shape")
    t += "/-- `bip85._ENTROPY_BYTES`: words -> entropy bytes -/\ndef BIP85_ENTROPY_BYTES : List (Nat × Nat) := [" + ", ".join(
        f"({k}, {v})" for k, v in sorted(bip85._ENTROPY_BYTES.items())) + "]\n"
    t += "/-- `bip85._LANGUAGE_INDEXES` sorted by code -/\ndef BIP85_LANGUAGES : List (String × Nat) := [" + ", ".join(
        f'("{k}", {v})' for k, v in sorted(bip85._LANGUAGE_INDEXES.items(), key=lambda kv: kv[1])) + "]\n"
    sm = _src(bip85.mnemonic_from_root_key)
    if "mnemonic_from_entropy(entropy[:_ENTROPY_BYTES[words]], lang)" not in sm:
        raise ValueError("bip85.mnemonic_from_root_key: truncation has an unexpected shape")
    sw = _src(bip85.wif_from_root_key)
    if "wif_from_prv_key(entropy[:32], network, compressed=True)" not in sw:
        raise ValueError("bip85.wif_from_root_key: unexpected shape")
    sx = _src(bip85.xprv_from_root_key)
    for piece in ("depth=0", "parent_fingerprint=b'\\x00' * 4", "index=0", "chain_code=entropy[:32]", "key=b'\\x00' + entropy[32:]",
                  "version=network_from_name(network).bip32_prv"):
        if piece not in sx:
            raise ValueError(f"bip85.xprv_from_root_key: expected `{piece}`")
    # the dice reader: width arithmetic, byte order, shift, acceptance test -- the byte order is a generated constant
    sr = _src(bip85.rolls_from_root_key)
    for piece in ("bits_per_roll = (sides - 1).bit_length()", "bytes_per_roll = -(-bits_per_roll // 8)",
                  "excess_bits = 8 * bytes_per_roll - bits_per_roll", "while len(history) < rolls:", "trial >>= excess_bits",
                  "if trial < sides:", "history.append(trial)", "if rolls < _MIN_ROLLS:", "if sides < _MIN_SIDES:",
                  "drng = drng_from_der_path(root_key, der_path)"):
        if piece not in sr:
            raise ValueError(f"bip85.rolls_from_root_key: expected `{piece}`")
    order = _one(r"trial = int\.from_bytes\(drng\.read\(bytes_per_roll\), byteorder='(\w+)'\)", sr, "dice trial byte order")
    t += f"/-- the byte order `rolls_from_root_key` reads a trial in (BIP85: big) -/\ndef BIP85_ROLLS_BYTEORDER : String := \"{order}\"\n"
    sd = _src(bip85.BIP85DRNG)
    if "shake_256(self._entropy).digest(self._cursor)[start:]" not in sd or "bytes_from_octets(entropy, _DRNG_SEED_SIZE)" not in sd:
        raise ValueError("bip85.BIP85DRNG: unexpected shape")
    # what an extended-key version says about its network, as the applications read it
    rows = []
    for v in sorted(network.XPRV_VERSIONS_ALL | network.XPUB_VERSIONS_ALL):
        net = network.network_from_name(network.network_from_xkeyversion(v))
        rows.append(f"  ({_bl(v)}, {_bl(net.wif)}, {_bl(net.bip32_prv)})")
    t += "/-- per extended-key version: `network_from_name(network_from_xkeyversion(v))`'s `wif` and `bip32_prv` bytes -/\n"
    t += "def BIP85_NET_OF_VERSION : List (Btc.Bytes × Btc.Bytes × Btc.Bytes) := [\n" + ",\n".join(rows) + "]\n"
    return t
