"""C17: proof-of-work arithmetic regenerated from btclib/block/proof_of_work.py."""
from datetime import datetime, timedelta, timezone

from pyfun2lean import FuncSpec
from btclib.block import proof_of_work as pow_

NS = "Pow"

_T0 = datetime(2020, 1, 1, tzinfo=timezone.utc)
_ZONES = ("Europe/Rome", "America/New_York", "Australia/Lord_Howe")

# the statement that takes two aware datetimes to UTC before the subtraction: part of "the seconds that elapsed",
# i.e. of the integer parameter `timespan`; pinned verbatim so that another normalisation breaks the translation
_NORMALISE = ("if first_block_time.utcoffset() is not None and last_block_time.utcoffset() is not None:\n"
              "    first_block_time = first_block_time.astimezone(timezone.utc)\n"
              "    last_block_time = last_block_time.astimezone(timezone.utc)")


def datetimes_for(timespan):
    """two datetimes `timespan` elapsed seconds apart, in a representation chosen by the number itself: aware UTC,
    aware in one DST zone (same tzinfo object), aware in two zones, fixed offsets, naive (wall-clock seconds).  The
    start moves over four years so that the windows lie across daylight-saving changes."""
    from zoneinfo import ZoneInfo
    k = abs(timespan) % 7
    first = _T0 + timedelta(seconds=(abs(timespan) * 7919) % (4 * 365 * 86400))
    last = first + timedelta(seconds=timespan)
    if k == 0:
        return first, last
    if k in (1, 2, 3):
        z = ZoneInfo(_ZONES[k - 1])
        return first.astimezone(z), last.astimezone(z)
    if k == 4:
        return first.astimezone(ZoneInfo(_ZONES[abs(timespan) % 3])), last.astimezone(ZoneInfo(_ZONES[(abs(timespan) + 1) % 3]))
    if k == 5:
        return first.astimezone(timezone(timedelta(minutes=630))), last.astimezone(timezone(timedelta(minutes=-210)))
    return first.replace(tzinfo=None), last.replace(tzinfo=None)


def _next_bits(bits, pow_limit_bits, timespan):
    first, last = datetimes_for(timespan)
    return pow_.next_bits(bits, first, last, pow_limit_bits=pow_limit_bits)


def constants():
    txt = ""
    for name in ("TARGET_SIZE", "POW_TARGET_TIMESPAN", "POW_TARGET_SPACING", "DIFFICULTY_ADJUSTMENT_INTERVAL"):
        v = getattr(pow_, name)
        if not isinstance(v, int) or isinstance(v, bool):
            raise ValueError(f"{name} is not an int")
        txt += f"def c{name} : Int := {v}\n"
    for name in ("MAINNET_POW_LIMIT_BITS", "REGTEST_POW_LIMIT_BITS"):
        v = getattr(pow_, name)
        if not isinstance(v, bytes):
            raise ValueError(f"{name} is not bytes")
        txt += f"def c{name} : Btc.Bytes := [" + ", ".join(str(x) for x in v) + "]\n"
    return txt


def _bits4(rng):
    r = rng.random()
    if r < 0.7:
        e = rng.choice(list(range(0, 36)) + [0x7F, 0x80, 0xFF, rng.randrange(256)])
        s = rng.choice([0, 1, 0xFF, 0x100, 0x7FFF, 0x8000, 0xFFFF, 0x10000, 0x7FFFFF, 0x800000, 0x800001,
                        0x8000FF, 0x80FF00, 0xFFFFFF, rng.getrandbits(24)])
        return bytes([e]) + s.to_bytes(3, "big")
    if r < 0.9:
        return bytes(rng.getrandbits(8) for _ in range(4))
    return bytes(rng.getrandbits(8) for _ in range(rng.choice([0, 1, 2, 3, 5, 6])))


def _target(rng):
    r = rng.random()
    if r < 0.6:
        n = rng.randrange(0, 33)
        v = rng.choice([0, 1, 0x7F, 0x80, 0xFF, 0x7FFF, 0x8000, 0x7FFFFF, 0x800000, 0xFFFFFF, 0x1000000,
                        rng.getrandbits(24), rng.getrandbits(32)]) << (8 * rng.randrange(0, 30))
        v += rng.choice([0, 0, 1, rng.getrandbits(16)])
        v %= 256 ** max(n, 1) if n else 1
        return v.to_bytes(n, "big")
    if r < 0.9:
        return bytes(rng.getrandbits(8) for _ in range(rng.randrange(0, 33)))
    return bytes(rng.getrandbits(8) for _ in range(rng.choice([33, 34, 40])))


def _timespan(rng):
    T = pow_.POW_TARGET_TIMESPAN
    return rng.choice([T // 4 - 1, T // 4, T // 4 + 1, T - 1, T, T + 1, 4 * T - 1, 4 * T, 4 * T + 1, 0, -1, -T,
                       rng.randrange(-10 * T, 10 * T), rng.randrange(T // 4, 4 * T)])


def functions():
    skip = ("err_msg",)
    return [
        FuncSpec(pow_, "_value_from_bits", "int", gen=lambda rng: (_bits4(rng),)),
        FuncSpec(pow_, "target_from_bits", "bytes", skip_stmts=skip, gen=lambda rng: (_bits4(rng),)),
        FuncSpec(pow_, "is_negative_bits", "bool", gen=lambda rng: (_bits4(rng),)),
        FuncSpec(pow_, "bits_from_target", "bytes", skip_stmts=skip, gen=lambda rng: (_target(rng),)),
        FuncSpec(pow_, "next_bits", "bytes",
                 params=[("bits", "bytes"), ("pow_limit_bits", "bytes")],
                 subst={"int((last_block_time - first_block_time).total_seconds())": ("timespan", "int")},
                 skip_stmts=("for name, value in", _NORMALISE),
                 call=_next_bits,
                 gen=lambda rng: (_bits4(rng),
                                  rng.choice([pow_.MAINNET_POW_LIMIT_BITS, pow_.REGTEST_POW_LIMIT_BITS, _bits4(rng)]),
                                  _timespan(rng))),
        FuncSpec(pow_, "block_work", "int", gen=lambda rng: (_bits4(rng),)),
    ]
