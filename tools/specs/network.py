"""Translator plugin (C06): NETWORKS prefix tables from btclib/network.py (as loaded at import)."""
from btclib import network

NS = "Net"

_XKEYS = ["bip32_prv", "bip32_pub", "slip132_p2wpkh_prv", "slip132_p2wpkh_pub", "slip132_p2wpkh_p2sh_prv",
          "slip132_p2wpkh_p2sh_pub", "slip132_p2wsh_prv", "slip132_p2wsh_pub", "slip132_p2wsh_p2sh_prv",
          "slip132_p2wsh_p2sh_pub"]


_KINDS = ["p2pkh", "p2wpkh", "p2wpkh_p2sh", "p2wsh", "p2wsh_p2sh"]


def _bl(b):
    return "[" + ", ".join(str(x) for x in bytes(b)) + "]"


def constants():
    t = "structure Network where\n  name : String\n  isMain : Bool\n  wif : List Nat\n  p2pkh : List Nat\n" \
        "  p2sh : List Nat\n  hrp : List Nat\n  xprv : List (List Nat)\n  xpub : List (List Nat)\n  deriving DecidableEq, Repr\n\n"
    rows = []
    for name, n in network.NETWORKS.items():
        if n.network_type not in ("main", "test"):
            raise ValueError(f"network {name}: type {n.network_type!r}")
        if not n.hrp.isascii():
            raise ValueError("non-ascii hrp")
        prv = [getattr(n, k) for k in _XKEYS if k.endswith("prv")]
        pub = [getattr(n, k) for k in _XKEYS if k.endswith("pub")]
        rows.append(
            f"  {{ name := \"{name}\", isMain := {'true' if n.network_type == 'main' else 'false'}, wif := {_bl(n.wif)}, "
            f"p2pkh := {_bl(n.p2pkh)}, p2sh := {_bl(n.p2sh)},\n    hrp := {_bl(n.hrp.encode('ascii'))},  -- \"{n.hrp}\"\n"
            f"    xprv := [{', '.join(_bl(v) for v in prv)}],\n    xpub := [{', '.join(_bl(v) for v in pub)}] }}")
    t += "/-- `network.NETWORKS`, in iteration order (the order `network_from_key_value` scans) -/\n"
    t += "def NETWORKS : List Network := [\n" + ",\n".join(rows) + "]\n\n"
    # SLIP132: extended-key version -> (script type it commits to, private?, main?), one row per distinct version,
    # read off the Network field NAMES (bip32_* is p2pkh/p2sh "m/44h", slip132_<type>_{prv,pub} the others)
    seen, srows = {}, []
    for name, n in network.NETWORKS.items():
        for k in _XKEYS:
            kind = "p2pkh" if k.startswith("bip32_") else k[len("slip132_"):-4]
            v = bytes(getattr(n, k))
            row = (kind, k.endswith("prv"), n.network_type == "main")
            if v in seen:
                if seen[v] != row:
                    raise ValueError(f"xkey version {v.hex()} has two meanings: {seen[v]} and {row}")
                continue
            seen[v] = row
            srows.append((f"({_bl(v)}, {_KINDS.index(kind)}, {'true' if row[1] else 'false'}, "
                          f"{'true' if row[2] else 'false'})", kind))
    t += "/-- SLIP132 / BIP32 version bytes: (version, script type, private key?, main network?);\n"
    t += "    script types: " + ", ".join(f"{i} = {k}" for i, k in enumerate(_KINDS)) + " -/\n"
    t += "def SLIP132 : List (List Nat × Nat × Bool × Bool) := [\n"
    for i, (r, kind) in enumerate(srows):
        t += f"  {r}{',' if i < len(srows) - 1 else ''}  -- {kind}\n"
    t += "  ]\n"
    return t
