"""Translator plugin (C06): NETWORKS prefix tables from btclib/network.py (as loaded at import), and the
field choices of btclib/slip132.py (which Network field each builder / the address dispatch reads), off the AST."""
import ast
import inspect
import re

from btclib import network, slip132

NS = "Net"

_XKEYS = ["bip32_prv", "bip32_pub", "slip132_p2wpkh_prv", "slip132_p2wpkh_pub", "slip132_p2wpkh_p2sh_prv",
          "slip132_p2wpkh_p2sh_pub", "slip132_p2wsh_prv", "slip132_p2wsh_pub", "slip132_p2wsh_p2sh_prv",
          "slip132_p2wsh_p2sh_pub"]


_KINDS = ["p2pkh", "p2wpkh", "p2wpkh_p2sh", "p2wsh", "p2wsh_p2sh"]


def _bl(b):
    return "[" + ", ".join(str(x) for x in bytes(b)) + "]"


def constants():
    t = "structure Network where\n  name : String\n  isMain : Bool\n  wif : List Nat\n  p2pkh : List Nat\n" \
        "  p2sh : List Nat\n  hrp : List Nat\n  xprv : List (List Nat)\n  xpub : List (List Nat)\n  deriving DecidableEq, Repr\n\n"
    rows = []
    for name, n in network.NETWORKS.items():
        if n.network_type not in ("main", "test"):
            raise ValueError(f"network {name}: type {n.network_type!r}")
        if not n.hrp.isascii():
            raise ValueError("non-ascii hrp")
        prv = [getattr(n, k) for k in _XKEYS if k.endswith("prv")]
        pub = [getattr(n, k) for k in _XKEYS if k.endswith("pub")]
        rows.append(
            f"  {{ name := \"{name}\", isMain := {'true' if n.network_type == 'main' else 'false'}, wif := {_bl(n.wif)}, "
            f"p2pkh := {_bl(n.p2pkh)}, p2sh := {_bl(n.p2sh)},\n    hrp := {_bl(n.hrp.encode('ascii'))},  -- \"{n.hrp}\"\n"
            f"    xprv := [{', '.join(_bl(v) for v in prv)}],\n    xpub := [{', '.join(_bl(v) for v in pub)}] }}")
    t += "/-- `network.NETWORKS`, in iteration order (the order `network_from_key_value` scans) -/\n"
    t += "def NETWORKS : List Network := [\n" + ",\n".join(rows) + "]\n\n"
    # SLIP132: extended-key version -> (script type it commits to, private?, main?), one row per distinct version,
    # read off the Network field NAMES (bip32_* is p2pkh/p2sh "m/44h", slip132_<type>_{prv,pub} the others)
    seen, srows = {}, []
    for name, n in network.NETWORKS.items():
        for k in _XKEYS:
            kind = "p2pkh" if k.startswith("bip32_") else k[len("slip132_"):-4]
            v = bytes(getattr(n, k))
            row = (kind, k.endswith("prv"), n.network_type == "main")
            if v in seen:
                if seen[v] != row:
                    raise ValueError(f"xkey version {v.hex()} has two meanings: {seen[v]} and {row}")
                continue
            seen[v] = row
            srows.append((f"({_bl(v)}, {_KINDS.index(kind)}, {'true' if row[1] else 'false'}, "
                          f"{'true' if row[2] else 'false'})", kind))
    t += "/-- SLIP132 / BIP32 version bytes: (version, script type, private key?, main network?);\n"
    t += "    script types: " + ", ".join(f"{i} = {k}" for i, k in enumerate(_KINDS)) + " -/\n"
    t += "def SLIP132 : List (List Nat × Nat × Bool × Bool) := [\n"
    for i, (r, kind) in enumerate(srows):
        t += f"  {r}{',' if i < len(srows) - 1 else ''}  -- {kind}\n"
    t += "  ]\n\n"
    t += _slip132_rows()
    return t


def _field(name):
    """Network field name -> (private list?, index into the xprv / xpub list of a generated Network row)."""
    if name not in _XKEYS:
        raise ValueError(f"slip132.py reads Network.{name}, which is not an extended-key version field")
    kind = "p2pkh" if name.startswith("bip32_") else name[len("slip132_"):-4]
    return f"({'true' if name.endswith('prv') else 'false'}, {_KINDS.index(kind)})"


def _slip132_rows():
    t = "/-- order of the `xprv` / `xpub` lists of a Network row (script type of each position) -/\n"
    t += "def XKEY_KINDS : List String := [" + ", ".join(f'"{k}"' for k in _KINDS) + "]\n\n"
    rows = []
    for fn in ("p2pkh_xkey", "p2wpkh_xkey", "p2wpkh_p2sh_xkey"):
        src = ast.unparse(ast.parse(inspect.getsource(getattr(slip132, fn))))
        m = re.search(r"version = network\.(\w+) if xkey\.is_private else network\.(\w+)\n", src)
        if not m or "xkey, network = _helper_checks(xkey, check_root_xkey)" not in src \
                or "return derive(xkey, der_path, version)" not in src:
            raise ValueError(f"slip132.{fn}: not of the shape `version = network.A if xkey.is_private else network.B`")
        rows.append(f'("{fn}", {_field(m.group(1))}, {_field(m.group(2))})')
    hsrc = ast.unparse(ast.parse(inspect.getsource(slip132._helper_checks)))
    if "network = NETWORKS[network_from_xkeyversion(xkey.version)]" not in hsrc:
        raise ValueError("slip132._helper_checks: network not taken from network_from_xkeyversion(xkey.version)")
    t += "/-- `slip132.p2pkh_xkey / p2wpkh_xkey / p2wpkh_p2sh_xkey`: (function, field read for a PRIVATE parent, field\n"
    t += "    read for a PUBLIC parent); a field is (private list?, position in it); the network is\n"
    t += "    `NETWORKS[network_from_xkeyversion(xkey.version)]` -/\n"
    t += "def SLIP132_BUILDERS : List (String × (Bool × Nat) × (Bool × Nat)) := [\n  " + ",\n  ".join(rows) + "]\n\n"
    tree = ast.parse(inspect.getsource(slip132.address_from_xpub))
    lists = {}
    for node in ast.walk(tree):
        if isinstance(node, ast.AnnAssign) and isinstance(node.target, ast.Name) and isinstance(node.value, ast.List):
            lists[node.target.id] = [ast.unparse(e) for e in node.value.elts]
    src = ast.unparse(tree)
    if set(lists) != {"version_list", "function_list"} or len(lists["version_list"]) != len(lists["function_list"]) \
            or "for version, function in zip(version_list, function_list, strict=True):" not in src \
            or "if (network := network_from_key_value(version, xpub.version)):\n            return function(xpub, network)" not in src:
        raise ValueError("slip132.address_from_xpub: dispatch loop not of the expected shape")
    arows = [f'({_field(ast.literal_eval(v))}, "{f}")' for v, f in zip(lists["version_list"], lists["function_list"])]
    t += "/-- `slip132.address_from_xpub`: (field the version is looked up in, address function), in loop order -/\n"
    t += "def SLIP132_ADDRESS : List ((Bool × Nat) × String) := [" + ", ".join(arows) + "]\n"
    return t
