"""Translator plugin (C06): NETWORKS prefix tables from btclib/network.py (as loaded at import)."""
from btclib import network

NS = "Net"

_XKEYS = ["bip32_prv", "bip32_pub", "slip132_p2wpkh_prv", "slip132_p2wpkh_pub", "slip132_p2wpkh_p2sh_prv",
          "slip132_p2wpkh_p2sh_pub", "slip132_p2wsh_prv", "slip132_p2wsh_pub", "slip132_p2wsh_p2sh_prv",
          "slip132_p2wsh_p2sh_pub"]


def _bl(b):
    return "[" + ", ".join(str(x) for x in bytes(b)) + "]"


def constants():
    t = "structure Network where\n  name : String\n  isMain : Bool\n  wif : List Nat\n  p2pkh : List Nat\n" \
        "  p2sh : List Nat\n  hrp : List Nat\n  xprv : List (List Nat)\n  xpub : List (List Nat)\n  deriving DecidableEq, Repr\n\n"
    rows = []
    for name, n in network.NETWORKS.items():
        if n.network_type not in ("main", "test"):
            raise ValueError(f"network {name}: type {n.network_type!r}")
        if not n.hrp.isascii():
            raise ValueError("non-ascii hrp")
        prv = [getattr(n, k) for k in _XKEYS if k.endswith("prv")]
        pub = [getattr(n, k) for k in _XKEYS if k.endswith("pub")]
        rows.append(
            f"  {{ name := \"{name}\", isMain := {'true' if n.network_type == 'main' else 'false'}, wif := {_bl(n.wif)}, "
            f"p2pkh := {_bl(n.p2pkh)}, p2sh := {_bl(n.p2sh)},\n    hrp := {_bl(n.hrp.encode('ascii'))},  -- \"{n.hrp}\"\n"
            f"    xprv := [{', '.join(_bl(v) for v in prv)}],\n    xpub := [{', '.join(_bl(v) for v in pub)}] }}")
    t += "/-- `network.NETWORKS`, in iteration order (the order `network_from_key_value` scans) -/\n"
    t += "def NETWORKS : List Network := [\n" + ",\n".join(rows) + "]\n"
    return t
