"""Translator plugin (C13): SLIP-0039 tables and layout constants, regenerated from btclib/mnemonic/slip39.py.

Values (`_EXP`, `_LOG` as built at import, `_RS1024_GEN`, the bit layout, the reserved x coordinates, the
Feistel constants, the two customization strings) are dumped from the imported module; the shape of the
straight-line helpers the theorems talk about (`_mul`, `_div`, the `_rs1024_polymod` loop body,
`_rs1024_checksum`, `_rs1024_verify`) is read off the AST and a body of any other shape is a translator
error (the tie is then reported broken, never silently kept).
"""
import ast
import inspect
import re

from btclib.mnemonic import slip39

NS = "Slip39"


def _nat_list(xs):
    return "[" + ", ".join(str(int(x)) for x in xs) + "]"


def _fn(name):
    return ast.parse(inspect.getsource(getattr(slip39, name))).body[0]


def _body(f):
    return [s for s in f.body if not (isinstance(s, ast.Expr) and isinstance(s.value, ast.Constant))]


def _mul_div_shape():
    """`_mul`/`_div` are a table lookup on (LOG a ± LOG b) % MODULUS; returns MODULUS."""
    m = ast.unparse(_body(_fn("_mul"))[0])
    g = re.fullmatch(r"return 0 if a == 0 or b == 0 else _EXP\[\(_LOG\[a\] \+ _LOG\[b\]\) % (\d+)\]", m)
    if not g:
        raise ValueError(f"slip39._mul: unexpected body `{m}`")
    d = ast.unparse(_body(_fn("_div"))[0])
    g2 = re.fullmatch(r"return _EXP\[\(_LOG\[a\] - _LOG\[b\]\) % (\d+)\]", d)
    if not g2 or g2.group(1) != g.group(1):
        raise ValueError(f"slip39._div: unexpected body `{d}`")
    return int(g.group(1))


def _polymod_shape():
    """chk = 1; for v: b = chk >> TOP; chk = (chk & MASK) << SHIFT ^ v; for i in range(N): chk ^= GEN[i] if b>>i&1."""
    body = _body(_fn("_rs1024_polymod"))
    src = [ast.unparse(s) for s in body]
    if len(body) != 3 or not isinstance(body[1], ast.For) or src[2] != "return chk":
        raise ValueError("slip39._rs1024_polymod: unexpected statement structure")
    g0 = re.fullmatch(r"chk = (\d+)", src[0])
    loop = body[1]
    inner = [ast.unparse(s) for s in loop.body]
    if not g0 or len(inner) != 3 or ast.unparse(loop.iter) != "values" or ast.unparse(loop.target) != "v":
        raise ValueError("slip39._rs1024_polymod: unexpected loop")
    g1 = re.fullmatch(r"b = chk >> (\d+)", inner[0])
    g2 = re.fullmatch(r"chk = \(chk & (\d+)\) << (\d+) \^ v", inner[1])
    g3 = re.fullmatch(r"for i in range\((\d+)\):\n    chk \^= _RS1024_GEN\[i\] if b >> i & 1 else 0", inner[2])
    if not (g1 and g2 and g3):
        raise ValueError(f"slip39._rs1024_polymod: loop body {inner} has an unexpected shape")
    return int(g0.group(1)), int(g1.group(1)), int(g2.group(1)), int(g2.group(2)), int(g3.group(1))


def _checksum_shape():
    src = ast.unparse(_fn("_rs1024_checksum"))
    if "values = _customization_string(extendable) + list(indexes) + [0, 0, 0]" not in src \
            or "polymod = _rs1024_polymod(values) ^ 1" not in src \
            or "[polymod >> 10 * (2 - i) & 1023 for i in range(_CHECKSUM_WORDS)]" not in src:
        raise ValueError("slip39._rs1024_checksum: unexpected shape")
    src = ast.unparse(_fn("_rs1024_verify"))
    if "return _rs1024_polymod(_customization_string(extendable) + list(indexes)) == 1" not in src:
        raise ValueError("slip39._rs1024_verify: unexpected shape")
    src = ast.unparse(_fn("_customization_string"))
    if "cs = 'shamir_extendable' if extendable else 'shamir'" not in src or "[ord(char) for char in cs]" not in src:
        raise ValueError("slip39._customization_string: unexpected shape")


def constants():
    modulus = _mul_div_shape()
    init, top, mask, shift, ngen = _polymod_shape()
    _checksum_shape()
    s = slip39
    if len(s._EXP) != 255 or len(s._LOG) != 256:
        raise ValueError(f"slip39 tables: len(_EXP)={len(s._EXP)} len(_LOG)={len(s._LOG)}")
    t = ""
    t += f"/-- `slip39._EXP` as built at import by `_gf256_tables()` -/\ndef EXP : List Nat := {_nat_list(s._EXP)}\n"
    t += f"/-- `slip39._LOG` as built at import by `_gf256_tables()` (entry 0 is never read) -/\ndef LOG : List Nat := {_nat_list(s._LOG)}\n"
    t += "/-- the same two tables packed little-endian, one byte per entry (`Σ T[i]·256^i`): what the 65 536-case proof reads;\n"
    t += "    `Proofs/C13/Gf256.lean` re-derives both from the lists above -/\n"
    t += f"def EXP_PACKED : Nat := {sum(int(v) << (8 * i) for i, v in enumerate(s._EXP))}\n"
    t += f"def LOG_PACKED : Nat := {sum(int(v) << (8 * i) for i, v in enumerate(s._LOG))}\n"
    t += f"/-- the modulus of the exponent arithmetic in `_mul` / `_div` -/\ndef LOG_MOD : Nat := {modulus}\n"
    t += f"/-- `slip39._RS1024_GEN` -/\ndef RS1024_GEN : List Nat := {_nat_list(s._RS1024_GEN)}\n"
    t += "/-- `_rs1024_polymod`: chk = POLY_INIT; b = chk >> POLY_TOP; chk = (chk & POLY_MASK) << POLY_SHIFT ^ v; POLY_NGEN generator taps -/\n"
    t += f"def POLY_INIT : Nat := {init}\ndef POLY_TOP : Nat := {top}\ndef POLY_MASK : Nat := {mask}\ndef POLY_SHIFT : Nat := {shift}\ndef POLY_NGEN : Nat := {ngen}\n"
    t += f"/-- `_customization_string(False)` / `(True)` -/\ndef CS_PLAIN : List Nat := {_nat_list(s._customization_string(False))}\n"
    t += f"def CS_EXT : List Nat := {_nat_list(s._customization_string(True))}\n"
    for name in ("_RADIX_BITS", "_ID_BITS", "_EXT_BITS", "_E_BITS", "_FIELD_BITS", "_HEADER_BITS", "_CHECKSUM_WORDS",
                 "_CHECKSUM_BITS", "_MAX_SHARE_COUNT", "_MIN_SECRET_BYTES", "_MIN_VALUE_WORDS", "_MIN_WORDS",
                 "_SECRET_X", "_DIGEST_X", "_DIGEST_BYTES", "_ROUNDS", "_BASE_ITERATIONS"):
        v = getattr(s, name)
        if not isinstance(v, int) or isinstance(v, bool) or v < 0:
            raise ValueError(f"slip39.{name} is not a natural number: {v!r}")
        t += f"def {name.lstrip('_')} : Nat := {v}\n"
    return t
