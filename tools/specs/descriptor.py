"""Translator plugin (C14): the descriptor parser's tables, regenerated from
btclib/descriptors/descriptors.py and key_expression.py.

`_PARSERS` (function name -> allowed positions), `_TREE_FUNCTIONS`, `_MINISCRIPT_CONTEXTS`, the
`_parse_key(...)` flags each function passes (read off the AST as source text), the bounds
(`MAX_TREE_DEPTH`, `_MAX_MULTI_A_KEYS`, `_HARDENED_OFFSET`, path depth 255, default `last_index`),
the wildcard spellings and the hardening symbols.
"""
import ast
import inspect
import re

from btclib.bip32 import der_path
from btclib.descriptors import descriptors as D
from btclib.descriptors import key_expression as K
from btclib.wallet import wallet as W

NS = "Descriptor"

_CTX = {D._TOP: "top", D._P2SH: "sh", D._P2WSH: "wsh", D._P2TR: "tr"}
_KEY_PARSERS = ["_parse_pk", "_parse_pkh", "_parse_wpkh", "_parse_combo", "_parse_multi", "_parse_tr",
                "_parse_rawtr", "_parse_multi_a", "_parse_tree"]


def _s(x):
    return '"' + x.replace("\\", "\\\\").replace('"', '\\"') + '"'


def _key_flags(name):
    f = ast.parse(inspect.getsource(getattr(D, name)))
    calls = [c for c in ast.walk(f) if isinstance(c, ast.Call) and getattr(c.func, "id", "") == "_parse_key"]
    if len(calls) != 1:
        raise ValueError(f"descriptors.{name}: expected exactly one _parse_key call, found {len(calls)}")
    kw = {k.arg: ast.unparse(k.value) for k in calls[0].keywords}
    if sorted(kw) != ["compressed", "musig_allowed", "x_only"]:
        raise ValueError(f"descriptors.{name}: _parse_key keywords are {sorted(kw)}")
    return kw["x_only"], kw["compressed"], kw["musig_allowed"]


def _default(fn, arg):
    sig = inspect.signature(fn)
    return sig.parameters[arg].default


def constants():
    t = ""
    rows = []
    for name, (allowed, _) in D._PARSERS.items():
        rows.append(f"({_s(name)}, [" + ", ".join(_s(_CTX[a]) for a in allowed) + "])")
    t += "/-- `_PARSERS`: function name, positions it is allowed in (top, sh, wsh, tr) -/\n"
    t += "def PARSERS : List (String × List String) := [" + ", ".join(rows) + "]\n"
    t += "/-- `_TREE_FUNCTIONS` -/\n"
    t += "def TREE_FUNCTIONS : List String := [" + ", ".join(_s(x) for x in D._TREE_FUNCTIONS) + "]\n"
    t += "/-- `_MINISCRIPT_CONTEXTS` keys -/\n"
    t += "def MINISCRIPT_CONTEXTS : List String := [" + ", ".join(_s(_CTX[x]) for x in D._MINISCRIPT_CONTEXTS) + "]\n"
    src = inspect.getsource(D._no_uncompressed)
    if "return context in {_P2WSH, _P2TR}" not in src:
        raise ValueError("descriptors._no_uncompressed: unexpected body")
    t += "/-- the `_parse_key` flags of each reader, as source text: (function, x_only, compressed, musig_allowed) -/\n"
    t += "def KEY_FLAGS : List (String × String × String × String) := [" + ", ".join(
        "(" + ", ".join(_s(x) for x in (n,) + _key_flags(n)) + ")" for n in _KEY_PARSERS) + "]\n"
    m = re.fullmatch(r"\[0-9\]\{1,(\d+)\}", D._THRESHOLD.pattern)
    if not m:
        raise ValueError(f"descriptors._THRESHOLD: pattern {D._THRESHOLD.pattern!r} is not [0-9]{{1,N}}")
    t += "/-- `_THRESHOLD`: a threshold is 1 to THRESHOLD_MAX_DIGITS decimal digits -/\n"
    t += f"def THRESHOLD_MAX_DIGITS : Nat := {int(m.group(1))}\n"
    import sys
    lim = sys.get_int_max_str_digits()
    if lim <= 0:
        raise ValueError("the interpreter's int/str digit limit is disabled: the model assumes CPython's default")
    t += "/-- `sys.get_int_max_str_digits()`: `int(text)` raises ValueError on more decimal digits than this -/\n"
    t += f"def INT_MAX_STR_DIGITS : Nat := {int(lim)}\n"
    t += f"def MAX_TREE_DEPTH : Nat := {int(D.MAX_TREE_DEPTH)}\n"
    t += f"def MAX_MULTI_A_KEYS : Nat := {int(D._MAX_MULTI_A_KEYS)}\n"
    t += f"def HARDENED_OFFSET : Nat := {int(D._HARDENED_OFFSET)}\n"
    m = re.search(r"if len\(pairs\) > (\d+):", inspect.getsource(der_path._pairs_from_der_path_str))
    if not m:
        raise ValueError("der_path._pairs_from_der_path_str: depth bound not found")
    t += f"/-- `_pairs_from_der_path_str`: more steps than this is refused -/\ndef MAX_PATH_STEPS : Nat := {int(m.group(1))}\n"
    t += "/-- `_BIP380_HARDENINGS`, `_HARDENING` -/\n"
    t += "def BIP380_HARDENINGS : List Char := [" + ", ".join(f"Char.ofNat {ord(c)}" for c in der_path._BIP380_HARDENINGS) + "]\n"
    t += f"def HARDENING : Char := Char.ofNat {ord(der_path._HARDENING)}\n"
    src = inspect.getsource(K._split_wildcard)
    m = re.search(r"steps\[-1\] in \{([^}]*)\}", src)
    if not m:
        raise ValueError("key_expression._split_wildcard: wildcard spellings not found")
    spell = sorted(ast.literal_eval("{" + m.group(1) + "}"))
    t += "/-- `_split_wildcard`: the spellings of the final wildcard step (sorted) -/\n"
    t += "def WILDCARDS : List String := [" + ", ".join(_s(x) for x in spell) + "]\n"
    t += f"/-- default `last_index` of `Descriptor.index_of` and `RangedWallet.position_of` -/\n"
    t += f"def INDEX_OF_LAST : Nat := {int(_default(D.Descriptor.index_of, 'last_index'))}\n"
    t += f"def POSITION_OF_LAST : Nat := {int(_default(W.RangedWallet.position_of, 'last_index'))}\n"
    src = inspect.getsource(D.Descriptor._assert_index)
    m = re.search(r"if not 0 <= index < (0x[0-9A-Fa-f]+|\d+):", src)
    if not m:
        raise ValueError("Descriptor._assert_index: index bound not found")
    t += f"/-- `Descriptor._assert_index`: 0 <= index < INDEX_BOUND -/\ndef INDEX_BOUND : Nat := {int(m.group(1), 0)}\n"
    from btclib import core_import as CI
    src = inspect.getsource(CI._assert_key_range)
    m = re.search(r"if end >> (\d+):", src)
    if not m or "if not 0 <= start <= end:" not in src or "if end - start >= _MAX_RANGE_SPAN:" not in src:
        raise ValueError("core_import._assert_key_range: unexpected guards")
    t += "/-- `core_import`: DEFAULT_RANGE, _MAX_RANGE_SPAN, and the shift of `if end >> 31` in `_assert_key_range` -/\n"
    t += f"def CORE_DEFAULT_RANGE : Int × Int := ({int(CI.DEFAULT_RANGE[0])}, {int(CI.DEFAULT_RANGE[1])})\n"
    t += f"def CORE_MAX_RANGE_SPAN : Int := {int(CI._MAX_RANGE_SPAN)}\n"
    t += f"def CORE_END_SHIFT : Nat := {int(m.group(1))}\n"
    return t
