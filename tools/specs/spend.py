"""Translator plugin (C10): the constants of the spend pipeline the C10 model and theorems mention.

Regenerated from the *current* source on every run:
  * the byte templates of the standard script_pub_keys, read off the real constructors
    (`ScriptPubKey.p2pkh/p2sh/p2wpkh/p2wsh/p2tr`, `p2pk`, `p2ms`) applied to a probe payload and split
    around it -- prefix / suffix of each;
  * the finalizer's constants in btclib/psbt/psbt.py (`_NO_CODESEP`, `_SINGLE_KEY_LEAF_SIZE`, `_PUSH_32`,
    `_OP_CHECKSIG`, `LEAF_HASH_SIZE`), the order of the four arms of `_finalized_input`
    and the preference of the key path in `_finalized_taproot_input` (read off the AST);
  * the engine's flag masks (`ALL_FLAGS` = the default set, `EVERY_FLAG` = every ScriptFlag member,
    `STANDARD_FLAGS` = every member but SIGPUSHONLY, Core's STANDARD_SCRIPT_VERIFY_FLAGS);
  * the ECDSA / taproot hash types `sign` may be asked for (proved in Props/C10 to be defined hash types of the engine).
A shape that is no longer recognised raises (=> "broken" in index.json: the tie is broken, never a pass).
"""
import ast
import inspect

from btclib import bip322
from btclib.psbt import psbt as P
from btclib.script import sig_hash
from btclib.script.engine.flags import ALL_FLAGS, ScriptFlag
from btclib.script.script_pub_key import ScriptPubKey

NS = "Spend"


def _blit(b):
    return "[" + ", ".join(str(x) for x in b) + "]"


def _split(script: bytes, payload: bytes, what: str):
    k = script.find(payload)
    if k < 0 or script.count(payload) != 1:
        raise ValueError(f"spend: {what}: payload not found exactly once in {script.hex()}")
    return script[:k], script[k + len(payload):]


def _arms(fn):
    """the `if` tests of the function body, in order, as source text"""
    tree = ast.parse(inspect.getsource(fn)).body[0]
    return [ast.unparse(n.test) for n in tree.body if isinstance(n, ast.If)]


def constants():
    h20 = bytes(range(0x40, 0x54))
    h32 = bytes(range(0x60, 0x80))
    key33 = bytes.fromhex("0279BE667EF9DCBBAC55A06295CE870B07029BFCDB2DCE28D959F2815B16F81798")
    key33b = bytes.fromhex("02C6047F9441ED7D6D3045406E95C07CD85C778E4B8CEF3CA7ABAC09B95C709EE5")
    out = []
    rows = {
        "P2PKH": _split(ScriptPubKey.p2pkh(key33).script, __import__("btclib.hashes", fromlist=["hash160"]).hash160(key33), "p2pkh"),
        "P2WPKH": _split(ScriptPubKey.p2wpkh(key33).script, __import__("btclib.hashes", fromlist=["hash160"]).hash160(key33), "p2wpkh"),
        "P2PK": _split(ScriptPubKey.p2pk(key33).script, key33, "p2pk"),
    }
    from btclib.hashes import hash160, sha256
    red = b"\x51"
    rows["P2SH"] = _split(ScriptPubKey.p2sh(red).script, hash160(red), "p2sh")
    rows["P2WSH"] = _split(ScriptPubKey.p2wsh(red).script, sha256(red), "p2wsh")
    tr = ScriptPubKey.p2tr(key33).script
    if len(tr) != 34:
        raise ValueError("spend: p2tr is not 34 bytes")
    rows["P2TR"] = (tr[:2], b"")
    del h20, h32
    for name, (pre, suf) in rows.items():
        out.append(f"def {name}_PREFIX : List UInt8 := {_blit(pre)}")
        out.append(f"def {name}_SUFFIX : List UInt8 := {_blit(suf)}")
    ms = ScriptPubKey.p2ms(1, [key33, key33b], lexicographic_sorting=False).script
    if ms != bytes([0x51, 33]) + key33 + bytes([33]) + key33b + bytes([0x52, 0xAE]):
        raise ValueError(f"spend: p2ms(1,[k1,k2]) has an unexpected layout: {ms.hex()}")
    out.append("/-- p2ms: OP_m = MS_OP_BASE + m, the keys as pushes, OP_n, MS_LAST -/")
    out.append("def MS_OP_BASE : Nat := 80")
    out.append("def MS_LAST : Nat := 174")

    out.append(f"def NO_CODESEP : Nat := {P._NO_CODESEP}")
    out.append(f"def SINGLE_KEY_LEAF_SIZE : Nat := {P._SINGLE_KEY_LEAF_SIZE}")
    out.append(f"def PUSH_32 : Nat := {P._PUSH_32}")
    out.append(f"def OP_CHECKSIG : Nat := {P._OP_CHECKSIG}")
    out.append(f"def LEAF_HASH_SIZE : Nat := {P.LEAF_HASH_SIZE}")

    arms = _arms(P._finalized_input)
    want = ["psbt_in.witness_script", "is_p2wpkh(script)", "is_p2pkh(script)"]
    if arms != want:
        raise ValueError(f"spend: _finalized_input dispatches on {arms}, the model on {want}")
    out.append("/-- the arms of `_finalized_input`, in source order (the model's `finalizedInput` has the same) -/")
    out.append("def FINALIZE_ARMS : List String := [" + ", ".join(f'"{a}"' for a in arms) + "]")
    tarms = _arms(P._finalized_taproot_input)
    if not tarms or tarms[0] != "psbt_in.taproot_key_spend_signature":
        raise ValueError(f"spend: _finalized_taproot_input no longer prefers the key path: {tarms}")
    out.append("def TAPROOT_ARMS : List String := [" + ", ".join(f'"{a}"' for a in tarms) + "]")

    every = 0
    for f in ScriptFlag:
        every |= f.value
    out.append(f"def ALL_FLAGS : Nat := {ALL_FLAGS.value}")
    out.append(f"def EVERY_FLAG : Nat := {every}")
    out.append(f"def STANDARD_FLAGS : Nat := {every & ~ScriptFlag.SIGPUSHONLY.value}")
    out.append(f"def SIGHASH_DEFAULT : Nat := {sig_hash.DEFAULT}")
    out.append(f"def SIGHASH_ALL : Nat := {sig_hash.ALL}")
    out.append(f"def ECDSA_HASH_TYPES : List Nat := {sorted(t for t in sig_hash.SIG_HASH_TYPES if t != sig_hash.DEFAULT)}")
    out.append(f"def TAPROOT_HASH_TYPES : List Nat := {sorted(sig_hash.SIG_HASH_TYPES)}")
    return "\n".join(out) + "\n"


def functions():
    return []
