"""Translator plugin (C06): segwit address rules of btclib/b32.py.

The admissible (witness version, program size) pairs are obtained by evaluating
`bytes_from_witness_program` on every version -2..40 and size 0..80; the 90-character cap is read
off the AST of `witness_from_address`.
"""
import ast
import inspect
import re

from btclib import b32
from btclib.exceptions import BTClibValueError

NS = "Segwit"


def constants():
    rows = []
    for ver in range(-2, 41):
        sizes = []
        for n in range(0, 81):
            try:
                b32.bytes_from_witness_program(ver, bytes(n))
                sizes.append(n)
            except BTClibValueError:
                pass
        if sizes:
            if ver < 0:
                raise ValueError("negative witness version accepted")
            rows.append((ver, sizes))
    src = ast.unparse(ast.parse(inspect.getsource(b32.witness_from_address)))
    m = re.search(r"if len\(addr\) > (\d+):", src)
    if not m:
        raise ValueError("b32.witness_from_address: length cap guard not found")
    if "str_from_string(b32addr, 'address').strip()" not in src:
        raise ValueError("b32.witness_from_address: strip() of the input not found")
    if "power_of_2_base_conversion(data[1:], 5, 8, False)" not in src or "wit_ver = data[0]" not in src:
        raise ValueError("b32.witness_from_address: regrouping call not of the expected shape")
    src2 = ast.unparse(ast.parse(inspect.getsource(b32._address_from_witness)))
    if "[wit_ver, *power_of_2_base_conversion(wit_prg, 8, 5)]" not in src2:
        raise ValueError("b32._address_from_witness: unexpected shape")
    t = "/-- (witness version, admissible program sizes) as answered by `b32.bytes_from_witness_program` -/\n"
    t += "def PROGRAM_SIZES : List (Nat × List Nat) := [" + ", ".join(
        f"({v}, [" + ", ".join(map(str, s)) + "])" for v, s in rows) + "]\n"
    t += f"/-- `b32.witness_from_address`: longest accepted address -/\ndef MAX_ADDR_LEN : Nat := {int(m.group(1))}\n"
    return t
