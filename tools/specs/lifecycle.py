"""C20 translator plugin: statement-order facts of the stateful methods, read off the AST.

For each method the lifecycle property speaks of, every top-level statement of its body is
classified into a tag of `lean/Model/C20/Steps.lean`, in source order, and written to
`Generated/Lifecycle.lean`.  The Lean model is an interpreter of those lists, so the source
order *is* the definition of the model's step functions.  A statement the classifier does not
recognise is a translator error (the tie is broken, never silently skipped).
"""
import ast
import inspect
import textwrap

from btclib.curves import secp256k1
from btclib.curves import curve as curve_mod
from btclib.curves import curve_group as curve_group_mod
from btclib.ecc import dsa, musig2, ssa
from btclib import psbt_signer
from btclib.wallet import wallet as wallet_mod

NS = "Lifecycle"
IMPORTS = ["Model.C20.Steps"]


class Unrecognised(ValueError):
    pass


def _body(fn):
    src = textwrap.dedent(inspect.getsource(fn))
    f = ast.parse(src).body[0]
    body = list(f.body)
    if body and isinstance(body[0], ast.Expr) and isinstance(body[0].value, ast.Constant) \
            and isinstance(body[0].value.value, str):
        body = body[1:]  # docstring
    return body, fn.__globals__


def _u(n):
    return ast.unparse(n)


def _const(node, glb):
    """evaluate a constant integer expression (e.g. `2 * _SCALAR_SIZE`) in the module's globals."""
    if node is None:
        return None
    v = eval(compile(ast.Expression(node), "<c20>", "eval"), dict(glb))  # noqa: S307 - source of /repo
    if not isinstance(v, int):
        raise Unrecognised(f"not an integer constant: {_u(node)}")
    return v


def _raises_value(stmts):
    return any(isinstance(s, ast.Raise) and "BTClibValueError" in _u(s) for s in stmts)


# ---------------------------------------------------------------------------- musig2.sign
def musig_sign_steps():
    body, glb = _body(musig2.sign)
    out = []
    for s in body:
        t = _u(s)
        if isinstance(s, ast.Assign) and len(s.targets) == 1:
            tgt, val = s.targets[0], s.value
            tn = _u(tgt)
            if isinstance(val, ast.Call) and _u(val.func) == "session_values":
                out.append("session")
            elif tn in ("k_1_", "k_2_") and isinstance(val, ast.Call) and _u(val.func) == "int.from_bytes":
                sl = val.args[0]
                if not (isinstance(sl, ast.Subscript) and _u(sl.value) == "sec_nonce" and isinstance(sl.slice, ast.Slice)
                        and _u(val.args[1]) == "'big'"):
                    raise Unrecognised(t)
                lo, hi = _const(sl.slice.lower, glb) or 0, _const(sl.slice.upper, glb)
                want = (0, 32) if tn == "k_1_" else (32, 64)
                if (lo, hi) != want:
                    raise Unrecognised(f"{tn} read from sec_nonce[{lo}:{hi}], model expects {want}")
                out.append("readK1" if tn == "k_1_" else "readK2")
            elif isinstance(tgt, ast.Subscript) and _u(tgt.value) == "sec_nonce":
                if not (isinstance(tgt.slice, ast.Slice) and tgt.slice.lower is None and isinstance(val, ast.Call)
                        and _u(val.func) == "bytearray" and len(val.args) == 1):
                    raise Unrecognised(t)
                n1, n2 = _const(tgt.slice.upper, glb), _const(val.args[0], glb)
                if n1 != n2:
                    raise Unrecognised(f"slice of {n1} bytes overwritten with {n2} bytes: {t}")
                out.append(f"zero {n1}")
            elif tn == "d_" and isinstance(val, ast.Call) and _u(val.func) == "scalar_from_prv_key" \
                    and _u(val.args[0]) == "prv_key":
                out.append("key")
            elif tn == "pk" and t == "pk = individual_pub_key(d_)":
                out.append("pubKey")
            elif tn == "a" and isinstance(val, ast.Call) and _u(val.func) == "_session_key_agg_coeff" \
                    and _u(val.args[1]) == "pk":
                out.append("coeff")
            elif t == "g = 1 if values.Q[1] % 2 == 0 else secp256k1.n - 1":
                out.append("calc")
            elif t == "d = g * values.gacc * d_ % secp256k1.n":
                out.append("calc")
            elif t == "s = (k_1_ + values.b * k_2_ + values.e * a * d) % secp256k1.n":
                out.append("calc")
            else:
                raise Unrecognised(t)
        elif isinstance(s, ast.If):
            test = _u(s.test)
            if test == "not 0 < k_1_ < secp256k1.n" and _raises_value(s.body) and not s.orelse:
                out.append("checkK1")
            elif test == "not 0 < k_2_ < secp256k1.n" and _raises_value(s.body) and not s.orelse:
                out.append("checkK2")
            elif test == "values.R[1] % 2" and not s.orelse \
                    and _u(s.body[0]) == "k_1_, k_2_ = (secp256k1.n - k_1_, secp256k1.n - k_2_)":
                out.append("negate")
            elif test.startswith("pk != bytes(sec_nonce[") and _raises_value(s.body) and not s.orelse:
                sl = s.test.comparators[0].args[0].slice
                if not (isinstance(sl, ast.Slice) and sl.upper is None):
                    raise Unrecognised(t)
                out.append(f"pkCheck {_const(sl.lower, glb)}")
            else:
                raise Unrecognised(t)
        elif isinstance(s, ast.Return) and _u(s) == "return s.to_bytes(_SCALAR_SIZE, 'big')" \
                and glb["_SCALAR_SIZE"] == 32:
            out.append("ret")
        else:
            raise Unrecognised(t)
    return out


def partial_sign_passes_nonce():
    """`psbt.musig2.partial_sign` hands the caller's own `sec_nonce` object to `musig2.sign`: the one use of the
    name in the body is that argument (no copy, no rebinding, no conversion)."""
    from btclib.psbt import musig2 as pm  # noqa: PLC0415
    body, _ = _body(pm.partial_sign)
    uses = [n for s in body for n in ast.walk(s) if isinstance(n, ast.Name) and n.id == "sec_nonce"]
    calls = [s for s in body if isinstance(s, ast.Assign) and isinstance(s.value, ast.Call)
             and _u(s.value.func) == "musig2.sign" and s.value.args and _u(s.value.args[0]) == "sec_nonce"]
    return len(uses) == 1 and len(calls) == 1 and isinstance(uses[0].ctx, ast.Load)


def musig_sign_keeps_name():
    """`musig2.sign` never rebinds `sec_nonce` (every statement touching it is one the classifier recognised)."""
    body, _ = _body(musig2.sign)
    return not any(isinstance(n, ast.Name) and n.id == "sec_nonce" and isinstance(n.ctx, ast.Store)
                   for s in body for n in ast.walk(s))


# ---------------------------------------------------------------------------- Signer.sign_ / wipe
def signer_sign_steps(mod):
    body, _ = _body(mod.Signer.sign_)
    out = []
    for s in body:
        t = _u(s)
        if isinstance(s, ast.If) and _u(s.test) == "self._wiped" and _raises_value(s.body) and not s.orelse:
            out.append("wipedCheck")
        elif t.startswith("assert_type(") or (isinstance(s, ast.Assign) and "bytes_from_octets(" in t
                                               and "self._" not in t.replace("self._hf_len", "")):
            out.append("argCheck")
        elif isinstance(s, ast.FunctionDef):
            continue  # local helper definition: executes nothing
        else:
            # everything else reads the held key (self._q / self._signer / self._prvkey_buffer) or returns
            out.append("produce")
    # collapse runs of `produce`
    res = []
    for x in out:
        if not (res and res[-1] == "produce" and x == "produce"):
            res.append(x)
    return res


def signer_wipe_steps(mod):
    body, _ = _body(mod.Signer.wipe)
    out = []
    for s in body:
        t = _u(s)
        if isinstance(s, ast.If) and _u(s.test) in ("self._prvkey_buffer is not None", "self._signer is not None") \
                and not s.orelse and _u(s.body[-1]) in ("self._prvkey_buffer = None", "self._signer = None"):
            out.append("dropKey")
        elif t == "self._q = 0":
            out.append("zeroScalar")
        elif t == "self._wiped = True":
            out.append("setWiped")
        else:
            raise Unrecognised(t)
    return out


def signer_exit_wipes(mod):
    body, _ = _body(mod.Signer.__exit__)
    return [_u(s) for s in body] == ["self.wipe()"]


def signer_enter_returns_self(mod):
    body, _ = _body(mod.Signer.__enter__)
    return [_u(s) for s in body] == ["return self"]


def signer_init_live(mod):
    body, _ = _body(mod.Signer.__init__)
    return _u(body[-1]) == "self._wiped = False"


# ---------------------------------------------------------------------------- SoftwareSigner
# public names of SoftwareSigner that answer no question about a held key while open/closed matters:
# the constructor, the state itself, and the read-only descriptions of the signer.  Each is CHECKED below to be what it
# is listed as (a classmethod / `close` / a property) and to reach no signing primitive.
SS_EXEMPT = {"from_accounts": "classmethod", "close": "function", "xkey": "property", "is_watch_only": "property",
             "master_fingerprint": "property", "capabilities": "property"}
# fields of the object that are NOT key material; every other `self._x` is taken for key material (a new field is secret
# until listed here)
SS_NOT_SECRET = {"_closed", "_musig2", "_fingerprint"}


def _ss_members(cls=None):
    """name -> (kind, function) for every name defined along the MRO (object excluded), nearest definition first."""
    cls = cls or psbt_signer.SoftwareSigner
    out = {}
    for k in cls.__mro__[:-1]:
        for n, v in vars(k).items():
            if n in out:
                continue
            if inspect.isfunction(v):
                out[n] = ("function", v)
            elif isinstance(v, property):
                out[n] = ("property", v.fget)
            elif isinstance(v, classmethod):
                out[n] = ("classmethod", v.__func__)
            elif isinstance(v, staticmethod):
                out[n] = ("staticmethod", v.__func__)
            else:
                out[n] = ("other", None)
    return out


def _resolve(node, glb):
    """the object a callee expression names in the module's globals (`sign`, `dsa.sign_`, `ssa.Signer`), else None."""
    if isinstance(node, ast.Name):
        return glb.get(node.id)
    if isinstance(node, ast.Attribute):
        base = _resolve(node.value, glb)
        return getattr(base, node.attr, None) if base is not None else None
    return None


def _is_signing_primitive(obj):
    """a function or class of btclib's ecc / psbt layers that makes signatures (dsa.sign_, ssa.sign_, ssa.Signer, bms.sign,
    musig2.sign, psbt.sign, …)."""
    mod = getattr(obj, "__module__", "") or ""
    name = (getattr(obj, "__qualname__", "") or "").lower()
    return callable(obj) and (mod + ".").startswith(("btclib.ecc.", "btclib.psbt.")) and "sign" in name


def _ss_direct(fn, members):
    """what one body does by itself: reads key material / calls a signing primitive or hands `self` to a call / which
    other members of the class it goes through."""
    src = textwrap.dedent(inspect.getsource(fn))
    tree = ast.parse(src).body[0]
    selfname = tree.args.args[0].arg if tree.args.args else None
    keys = prim = False
    edges = set()
    for n in ast.walk(tree):
        if isinstance(n, ast.Attribute) and isinstance(n.value, ast.Name) and n.value.id == selfname:
            if n.attr in members:
                edges.add(n.attr)
            elif n.attr.startswith("_") and not n.attr.startswith("__") and n.attr not in SS_NOT_SECRET:
                keys = True
        if isinstance(n, ast.Call):
            if _is_signing_primitive(_resolve(n.func, fn.__globals__)):
                prim = True
            if any(isinstance(a, ast.Name) and a.id == selfname for a in list(n.args) + [k.value for k in n.keywords]):
                prim = True     # `sign(psbt, self)`: the object is handed out as a KeyManager
    return keys, prim, edges


def software_signer_reach(cls=None):
    """name -> (reads key material, reaches a signing primitive), both through every member of the class it goes through."""
    members = _ss_members(cls)
    direct = {n: _ss_direct(f, members) for n, (k, f) in members.items() if f is not None}
    out = {}
    for n in direct:
        seen, todo = set(), [n]
        keys = prim = False
        while todo:
            m = todo.pop()
            if m in seen or m not in direct:
                continue
            seen.add(m)
            k, p, e = direct[m]
            keys, prim = keys or k, prim or p
            todo += list(e)
        out[n] = (keys, prim)
    return out


def software_signer_methods(cls=None):
    """every public name of the class (inherited ones included), enumerated from the class itself: a new one must be a plain
    method (then it is classified by what its body reaches) or be listed exempt; the exempt ones are checked."""
    members = _ss_members(cls)
    reach = software_signer_reach(cls)
    methods = []
    for n, (kind, _) in members.items():
        if n.startswith("_"):
            continue
        if n in SS_EXEMPT:
            if kind != SS_EXEMPT[n]:
                raise Unrecognised(f"SoftwareSigner.{n}: listed exempt as a {SS_EXEMPT[n]}, is a {kind}")
            if kind != "classmethod" and reach[n][1]:
                raise Unrecognised(f"SoftwareSigner.{n}: listed exempt, but its body reaches a signing primitive")
            continue
        if kind != "function":
            raise Unrecognised(f"SoftwareSigner.{n}: a public name that is neither a plain method nor classified exempt")
        methods.append(n)
    return methods


def software_signer_guards(cls=None):
    rows = []
    members = _ss_members(cls)
    for name in software_signer_methods(cls):
        body, _ = _body(members[name][1])
        rows.append((name, bool(body) and _u(body[0]) == "self._assert_open()"))
    return rows


def software_signer_signing(cls=None):
    """the methods that can produce a signature or hand out a key: those whose body, through whatever members of the class
    it goes, reads the key material or reaches a signing primitive.  Decided by what the body REACHES, not by its name."""
    reach = software_signer_reach(cls)
    return [n for n in software_signer_methods(cls) if reach[n][0] or reach[n][1]]


def software_signer_facts():
    body, _ = _body(psbt_signer.SoftwareSigner.close)
    close_sets = [_u(s) for s in body] == ["self._closed = True"]
    body, _ = _body(psbt_signer.SoftwareSigner._assert_open)
    ok = len(body) == 1 and isinstance(body[0], ast.If) and _u(body[0].test) == "self._closed" \
        and _raises_value(body[0].body)
    body, _ = _body(psbt_signer.SoftwareSigner.__init__)
    init_open = _u(body[-1]) == "self._closed = False"
    return close_sets, ok, init_open


# ---------------------------------------------------------------------------- RangedWallet
def wallet_address_steps():
    body, _ = _body(wallet_mod.RangedWallet.address)
    out = []
    for s in body:
        t = _u(s)
        if t == "self._assert_position(branch, index)":
            out.append("assertPosition")
        elif t == "address = self._address(branch, index)":
            out.append("derive")
        elif isinstance(s, ast.If) and _u(s.test) == "not address" and _raises_value(s.body) and not s.orelse:
            out.append("refuseEmpty")
        elif isinstance(s, ast.Assign) and _u(s.targets[0]) == "self._next_index[branch]":
            v = _u(s.value)
            how = {"max(self._next_index.get(branch, 0), index + 1)": "maxOldIdxSucc",
                   "max(index + 1, self._next_index.get(branch, 0))": "maxOldIdxSucc",
                   "index + 1": "idxSucc",
                   "self._next_index.get(branch, 0) + 1": "oldSucc"}.get(v, "other")
            out.append(f"bump .{how}")
        elif isinstance(s, ast.Return) and t.startswith("return self._record(AddressInfo(address, self.script_type, "
                                                        "self._der_path(branch, index), branch, index))"):
            out.append("record")
        else:
            raise Unrecognised(t)
    return out


def wallet_pos_checks():
    body, _ = _body(wallet_mod.RangedWallet._assert_position)
    out = []
    for s in body:
        if isinstance(s, ast.If) and _u(s.test) == "branch not in self.branches" and _raises_value(s.body):
            out.append("branchKnown")
        elif isinstance(s, ast.If) and _u(s.test) == "index < 0" and _raises_value(s.body):
            out.append("indexNonNeg")
        else:
            raise Unrecognised(_u(s))
    return out


def wallet_next_default():
    body, _ = _body(wallet_mod.RangedWallet.next_address)
    if len(body) != 1 or _u(body[0]) != "return self.address(branch, self._next_index.get(branch, 0))":
        raise Unrecognised(_u(body[0]))
    return 0


def wallet_record_overwrites():
    body, _ = _body(wallet_mod.Wallet._record)
    if [_u(s) for s in body] != ["self._handed_out[info.address] = info", "return info.address"]:
        raise Unrecognised("Wallet._record: " + "; ".join(_u(s) for s in body))
    body, _ = _body(wallet_mod.Wallet.__init__)
    if "self._handed_out: dict[str, AddressInfo] = {}" not in [_u(s) for s in body]:
        raise Unrecognised("Wallet.__init__: the ledger is not a dict")
    return True


# ---------------------------------------------------------------------------- curve identity key
_FIELD = {"self.p": ["p"], "self._a": ["a"], "self._b": ["b"], "self.n": ["n"], "self.cofactor": ["h"],
          "self.G[0]": ["gx"], "self.G[1]": ["gy"], "*self.G": ["gx", "gy"]}


def curve_eq_key(cls, base=None):
    """the components `_eq_key` returns, in order (a `*super()._eq_key()` splices the base class's)."""
    body, _ = _body(cls._eq_key)
    if len(body) != 1 or not isinstance(body[0], ast.Return):
        raise Unrecognised(f"{cls.__name__}._eq_key: " + "; ".join(_u(s) for s in body))
    v = body[0].value
    elts = v.elts if isinstance(v, ast.Tuple) else [v]
    out = []
    for e in elts:
        t = _u(e)
        if t == "*super()._eq_key()" and base is not None:
            out += base
        elif t in _FIELD:
            out += _FIELD[t]
        else:
            raise Unrecognised(f"{cls.__name__}._eq_key returns `{t}`")
    return out


def curve_eq_hash_use_key():
    eq, _ = _body(curve_group_mod.CurveGroup.__eq__)
    hs, _ = _body(curve_group_mod.CurveGroup.__hash__)
    eq_ok = [_u(s) for s in eq] == [
        "if self is other:\n    return True",
        "if not isinstance(other, CurveGroup) or type(self) is not type(other):\n    return NotImplemented",
        "return self._eq_key() == other._eq_key()"]   # the whole body: no earlier shortcut can answer for the key
    hash_ok = [_u(s) for s in hs] == ["return hash(self._eq_key())"]
    own = all(n not in vars(curve_mod.Curve) for n in ("__eq__", "__hash__"))   # Curve inherits both
    return eq_ok and own, hash_ok and own


def serves_compares_curve():
    body, _ = _body(curve_mod._libsecp256k1_serves)
    return any(isinstance(s, ast.If) and _u(s.test) == "ec != secp256k1" and _u(s.body[0]) == "return False" for s in body)


# ---------------------------------------------------------------------------- lazy word-lists
def wordlist_load_facts():
    """(publication order inside the lock, whether anything outside the lock reads the loaded-flag, readers load first)"""
    from btclib.mnemonic import mnemonic as mn  # noqa: PLC0415
    body, _ = _body(mn.WordLists.load_lang)
    withs = [s for s in body if isinstance(s, ast.With) and _u(s.items[0].context_expr) == "self._lock"]
    if len(withs) != 1:
        raise Unrecognised("WordLists.load_lang: not exactly one `with self._lock:`")
    outside = [s for s in body if s is not withs[0]]
    fast_path = any("_language_length" in _u(s) or "_wordlist" in _u(s) or "_index" in _u(s) for s in outside)
    names = {"self._index[lang]": "index", "self._wordlist[lang]": "words", "self._language_length[lang]": "count"}
    order = []
    for n in ast.walk(withs[0]):
        if isinstance(n, ast.Assign) and _u(n.targets[0]) in names:
            order.append((n.lineno, names[_u(n.targets[0])]))
    order = [x for _, x in sorted(order)]
    if sorted(order) != ["count", "index", "words"]:
        raise Unrecognised(f"WordLists.load_lang publishes {order}")
    first = _u(withs[0].body[0]), _u(withs[0].body[1])
    checks_under_lock = first == ("known = lang in self.languages",
                                  "if known and self._language_length[lang] != 0:\n    return")
    readers = all(_u(_body(getattr(mn.WordLists, m))[0][0]) == "self.load_lang(lang)" for m in ("wordlist", "language_length", "index"))
    return order, fast_path, checks_under_lock and readers


# ---------------------------------------------------------------------------- every memo of the package, by introspection
_MUTATORS = {"append", "add", "update", "setdefault", "pop", "popitem", "clear", "extend", "insert", "remove", "discard",
             "move_to_end"}


_INIT_LIKE = {"__init__", "__post_init__", "__new__", "__setstate__", "__setattr__", "__delattr__", "__init_subclass__"}


def _stores_into_instance(fn):
    """does the body write an attribute of its own instance without an assignment statement on it: a Subscript store on
    `self.__dict__` / `vars(self)` (or on a local name bound to one of them), `self.__dict__.setdefault/update/__setitem__`,
    or `object.__setattr__(self, …)`?"""
    try:
        tree = ast.parse(textwrap.dedent(inspect.getsource(fn))).body[0]
    except (OSError, TypeError, SyntaxError, IndentationError):
        return False
    if not isinstance(tree, (ast.FunctionDef, ast.AsyncFunctionDef)) or not tree.args.args:
        return False
    me = tree.args.args[0].arg

    def is_dict(n, aliases):
        if isinstance(n, ast.Attribute) and n.attr == "__dict__" and isinstance(n.value, ast.Name) and n.value.id == me:
            return True
        if isinstance(n, ast.Call) and isinstance(n.func, ast.Name) and n.func.id == "vars" and len(n.args) == 1 \
                and isinstance(n.args[0], ast.Name) and n.args[0].id == me:
            return True
        return isinstance(n, ast.Name) and n.id in aliases

    aliases = set()
    for _ in range(2):   # aliases of aliases
        for n in ast.walk(tree):
            if isinstance(n, ast.Assign) and is_dict(n.value, aliases):
                aliases |= {t.id for t in n.targets if isinstance(t, ast.Name)}
            if isinstance(n, ast.NamedExpr) and is_dict(n.value, aliases):
                aliases.add(n.target.id)
    for n in ast.walk(tree):
        if isinstance(n, ast.Subscript) and isinstance(n.ctx, ast.Store) and is_dict(n.value, aliases):
            return True
        if isinstance(n, ast.Call) and isinstance(n.func, ast.Attribute):
            if n.func.attr in ("setdefault", "update", "__setitem__") and is_dict(n.func.value, aliases):
                return True
            if n.func.attr == "__setattr__" and _u(n.func.value) == "object" and n.args \
                    and isinstance(n.args[0], ast.Name) and n.args[0].id == me:
                return True
    return False


def cache_inventory():
    """every memo of btclib, found on the IMPORTED package (all modules walked and imported): functools.lru_cache / cache
    wrappers at module level or on a class, functools.cached_property, properties / methods (constructors excluded) whose
    body stores into `self.__dict__` / `vars(self)` / through `object.__setattr__(self, …)` (hand-rolled instance memos,
    AST), and module-level containers that a function of the module fills (AST).  -> sorted [(qualified name, hold, maxsize or None, curve in the key, live object, owner)]"""
    import functools  # noqa: PLC0415
    import importlib  # noqa: PLC0415
    import pkgutil  # noqa: PLC0415
    import btclib  # noqa: PLC0415
    wrapper = type(functools.lru_cache(lambda: 0))
    rows = {}

    def curve_keyed(fn):
        try:
            return any(p_ in ("ec", "curve") for p_ in inspect.signature(fn).parameters)
        except (TypeError, ValueError):
            return False

    for mi in pkgutil.walk_packages(btclib.__path__, "btclib."):
        m = importlib.import_module(mi.name)
        for n, v in vars(m).items():
            if isinstance(v, wrapper) and getattr(v, "__module__", None) == m.__name__:
                ms = v.cache_parameters()["maxsize"]
                rows[f"{m.__name__}.{v.__qualname__}"] = ("lru" if ms is not None else "unbounded", ms, curve_keyed(v.__wrapped__), v, m)
            if isinstance(v, type) and v.__module__ == m.__name__:
                for cn, cv in vars(v).items():
                    f = cv.__func__ if isinstance(cv, (staticmethod, classmethod)) else cv
                    if isinstance(f, wrapper):
                        ms = f.cache_parameters()["maxsize"]
                        rows[f"{m.__name__}.{v.__qualname__}.{cn}"] = ("lru" if ms is not None else "unbounded", ms,
                                                                       curve_keyed(f.__wrapped__), f, v)
                    if isinstance(cv, functools.cached_property):
                        rows[f"{m.__name__}.{v.__qualname__}.{cn}"] = ("perInstance", None, False, cv, v)
                    # a hand-rolled instance memo: a property / method (not a constructor) whose body stores into the
                    # instance behind the class's back
                    g = cv.fget if isinstance(cv, property) else f
                    if inspect.isfunction(g) and cn not in _INIT_LIKE and not isinstance(cv, (staticmethod, classmethod)) \
                            and _stores_into_instance(g):
                        rows[f"{m.__name__}.{v.__qualname__}.{cn}"] = ("perInstance", None, False, cv, v)
        f = getattr(m, "__file__", None)
        if not f or not f.endswith(".py"):
            continue
        tree = ast.parse(open(f).read())
        modnames = set()
        for st in tree.body:
            if isinstance(st, (ast.Assign, ast.AnnAssign)):
                for t in (st.targets if isinstance(st, ast.Assign) else [st.target]):
                    if isinstance(t, ast.Name):
                        modnames.add(t.id)
        for fn in ast.walk(tree):
            if not isinstance(fn, (ast.FunctionDef, ast.AsyncFunctionDef)):
                continue
            stored = {x.id for x in ast.walk(fn) if isinstance(x, ast.Name) and isinstance(x.ctx, ast.Store)}
            params = {a.arg for a in fn.args.args + fn.args.kwonlyargs + fn.args.posonlyargs}
            for n in ast.walk(fn):
                tgt = None
                if isinstance(n, (ast.Assign, ast.AugAssign, ast.Delete)):
                    for t in (n.targets if not isinstance(n, ast.AugAssign) else [n.target]):
                        if isinstance(t, ast.Subscript) and isinstance(t.value, ast.Name):
                            tgt = t.value.id
                if isinstance(n, ast.Call) and isinstance(n.func, ast.Attribute) and n.func.attr in _MUTATORS \
                        and isinstance(n.func.value, ast.Name):
                    tgt = n.func.value.id
                if tgt and tgt in modnames and tgt not in params and tgt not in stored and hasattr(m, tgt):
                    keyed = "Curve" in (ast.get_source_segment(open(f).read(), next(
                        (st for st in tree.body if isinstance(st, ast.AnnAssign) and _u(st.target) == tgt), fn)) or "")
                    rows[f"{m.__name__}.{tgt}"] = ("moduleTable", None, keyed, getattr(m, tgt), m)
    return [(k, *rows[k]) for k in sorted(rows)]


def _cache_decl(row):
    name, hold, ms = row[0], row[1], row[2]
    h = f".lru {ms}" if hold == "lru" else "." + hold
    return f'⟨"{name}", {h}, {"true" if row[3] else "false"}⟩'


def _lst(ty, items):
    return "[" + ", ".join("." + i for i in items) + f"]"


def constants():
    b = lambda v: "true" if v else "false"  # noqa: E731
    txt = "open Btc.C20\n\n"
    txt += f"/-- the order of secp256k1 (`musig2.sign` reduces modulo it) -/\ndef N : Nat := {secp256k1.n}\n\n"
    txt += "/-- top-level statements of `btclib.ecc.musig2.sign`, in source order -/\n"
    txt += f"def musigSign : List SignStep := {_lst('SignStep', ['(' + s + ')' if ' ' in s else s for s in musig_sign_steps()]).replace('.(', '(.')}\n\n"
    txt += "/-- `psbt.musig2.partial_sign` passes the caller's own nonce object to `musig2.sign`; `sign` never rebinds it -/\n"
    txt += f"def partialSignPassesNonce : Bool := {b(partial_sign_passes_nonce() and musig_sign_keeps_name())}\n\n"
    for name, mod in (("dsa", dsa), ("ssa", ssa)):
        txt += f"/-- `{name}.Signer.sign_`, `wipe`, `__exit__`, `__enter__`, `__init__` -/\n"
        txt += f"def {name}SignerSign : List SignerStep := {_lst('SignerStep', signer_sign_steps(mod))}\n"
        txt += f"def {name}SignerWipe : List WipeStep := {_lst('WipeStep', signer_wipe_steps(mod))}\n"
        txt += f"def {name}SignerExitWipes : Bool := {b(signer_exit_wipes(mod))}\n"
        txt += f"def {name}SignerEnterReturnsSelf : Bool := {b(signer_enter_returns_self(mod))}\n"
        txt += f"def {name}SignerInitLive : Bool := {b(signer_init_live(mod))}\n\n"
    rows = software_signer_guards()
    txt += "/-- `SoftwareSigner`: (public method, whether its first statement is `self._assert_open()`) -/\n"
    txt += "def softwareSignerGuards : List (String × Bool) := [" + ", ".join(f'("{n}", {b(g)})' for n, g in rows) + "]\n"
    txt += "/-- the public methods of `SoftwareSigner` whose body reaches the key material or a signing primitive (through any\n"
    txt += "    member of the class it goes through), enumerated from the class and classified by AST reachability -/\n"
    txt += "def softwareSignerSigning : List String := [" + ", ".join(f'"{n}"' for n in software_signer_signing()) + "]\n"
    cs, ao, io = software_signer_facts()
    txt += f"def softwareSignerCloseSets : Bool := {b(cs)}\n"
    txt += f"def softwareSignerAssertOpenRaises : Bool := {b(ao)}\n"
    txt += f"def softwareSignerInitOpen : Bool := {b(io)}\n\n"
    txt += "/-- every memo of the imported btclib package (lru_cache / cache wrappers, cached_property, module-level containers a\n"
    txt += "    function fills), found by introspection each run: name, how it holds entries, whether a curve is in its key -/\n"
    txt += "def cacheInventory : List CacheDecl := [\n  " + ",\n  ".join(_cache_decl(r) for r in cache_inventory()) + "]\n\n"
    order, fast, readers = wordlist_load_facts()
    txt += "/-- `WordLists.load_lang`: the order it publishes its three fields in (inside the lock), whether a statement outside\n"
    txt += "    the lock reads them (a lock-free fast path), and whether every reader calls `load_lang` first -/\n"
    txt += f"def wordlistPublishOrder : List Pub := {_lst('Pub', order)}\n"
    txt += f"def wordlistFastPath : Bool := {b(fast)}\n"
    txt += f"def wordlistReadersLoadFirst : Bool := {b(readers)}\n\n"
    grp = curve_eq_key(curve_group_mod.CurveGroup)
    crv = curve_eq_key(curve_mod.Curve, grp)
    eq_ok, hash_ok = curve_eq_hash_use_key()
    txt += "/-- what `CurveGroup._eq_key` / `Curve._eq_key` return: `__eq__`, `__hash__`, hence every `lru_cache` keyed\n"
    txt += "    on a curve and the `ec != secp256k1` test of `_libsecp256k1_serves`, see a curve through this tuple -/\n"
    txt += f"def curveGroupEqKey : List CurveField := {_lst('CurveField', grp)}\n"
    txt += f"def curveEqKey : List CurveField := {_lst('CurveField', crv)}\n"
    txt += f"def curveEqIsKeyEq : Bool := {b(eq_ok)}\n"
    txt += f"def curveHashIsKeyHash : Bool := {b(hash_ok)}\n"
    txt += f"def servesComparesCurve : Bool := {b(serves_compares_curve())}\n\n"
    txt += "/-- top-level statements of `RangedWallet.address`, in source order -/\n"
    ws = ["(" + s + ")" if " " in s else s for s in wallet_address_steps()]
    txt += "def walletAddress : List WalletStep := " + _lst("WalletStep", ws).replace(".(", "(.") + "\n"
    txt += f"def walletPosChecks : List PosCheck := {_lst('PosCheck', wallet_pos_checks())}\n"
    txt += f"/-- `next_address(b) = address(b, _next_index.get(b, <this>))` -/\ndef walletNextDefault : Nat := {wallet_next_default()}\n"
    txt += f"/-- `_record` is `self._handed_out[info.address] = info` on a dict -/\ndef walletRecordOverwrites : Bool := {b(wallet_record_overwrites())}\n"
    return txt
