"""C20 translator plugin: statement-order facts of the stateful methods, read off the AST.

For each method the lifecycle property speaks of, every top-level statement of its body is
classified into a tag of `lean/Model/C20/Steps.lean`, in source order, and written to
`Generated/Lifecycle.lean`.  The Lean model is an interpreter of those lists, so the source
order *is* the definition of the model's step functions.  A statement the classifier does not
recognise is a translator error (the tie is broken, never silently skipped).
"""
import ast
import inspect
import textwrap

from btclib.curves import secp256k1
from btclib.curves import curve as curve_mod
from btclib.curves import curve_group as curve_group_mod
from btclib.ecc import dsa, musig2, ssa
from btclib import psbt_signer
from btclib.wallet import wallet as wallet_mod

NS = "Lifecycle"
IMPORTS = ["Model.C20.Steps"]


class Unrecognised(ValueError):
    pass


def _body(fn):
    src = textwrap.dedent(inspect.getsource(fn))
    f = ast.parse(src).body[0]
    body = list(f.body)
    if body and isinstance(body[0], ast.Expr) and isinstance(body[0].value, ast.Constant) \
            and isinstance(body[0].value.value, str):
        body = body[1:]  # docstring
    return body, fn.__globals__


def _u(n):
    return ast.unparse(n)


def _const(node, glb):
    """evaluate a constant integer expression (e.g. `2 * _SCALAR_SIZE`) in the module's globals."""
    if node is None:
        return None
    v = eval(compile(ast.Expression(node), "<c20>", "eval"), dict(glb))  # noqa: S307 - source of /repo
    if not isinstance(v, int):
        raise Unrecognised(f"not an integer constant: {_u(node)}")
    return v


def _raises_value(stmts):
    return any(isinstance(s, ast.Raise) and "BTClibValueError" in _u(s) for s in stmts)


# ---------------------------------------------------------------------------- musig2.sign
def musig_sign_steps():
    body, glb = _body(musig2.sign)
    out = []
    for s in body:
        t = _u(s)
        if isinstance(s, ast.Assign) and len(s.targets) == 1:
            tgt, val = s.targets[0], s.value
            tn = _u(tgt)
            if isinstance(val, ast.Call) and _u(val.func) == "session_values":
                out.append("session")
            elif tn in ("k_1_", "k_2_") and isinstance(val, ast.Call) and _u(val.func) == "int.from_bytes":
                sl = val.args[0]
                if not (isinstance(sl, ast.Subscript) and _u(sl.value) == "sec_nonce" and isinstance(sl.slice, ast.Slice)
                        and _u(val.args[1]) == "'big'"):
                    raise Unrecognised(t)
                lo, hi = _const(sl.slice.lower, glb) or 0, _const(sl.slice.upper, glb)
                want = (0, 32) if tn == "k_1_" else (32, 64)
                if (lo, hi) != want:
                    raise Unrecognised(f"{tn} read from sec_nonce[{lo}:{hi}], model expects {want}")
                out.append("readK1" if tn == "k_1_" else "readK2")
            elif isinstance(tgt, ast.Subscript) and _u(tgt.value) == "sec_nonce":
                if not (isinstance(tgt.slice, ast.Slice) and tgt.slice.lower is None and isinstance(val, ast.Call)
                        and _u(val.func) == "bytearray" and len(val.args) == 1):
                    raise Unrecognised(t)
                n1, n2 = _const(tgt.slice.upper, glb), _const(val.args[0], glb)
                if n1 != n2:
                    raise Unrecognised(f"slice of {n1} bytes overwritten with {n2} bytes: {t}")
                out.append(f"zero {n1}")
            elif tn == "d_" and isinstance(val, ast.Call) and _u(val.func) == "scalar_from_prv_key" \
                    and _u(val.args[0]) == "prv_key":
                out.append("key")
            elif tn == "pk" and t == "pk = individual_pub_key(d_)":
                out.append("pubKey")
            elif tn == "a" and isinstance(val, ast.Call) and _u(val.func) == "_session_key_agg_coeff" \
                    and _u(val.args[1]) == "pk":
                out.append("coeff")
            elif t == "g = 1 if values.Q[1] % 2 == 0 else secp256k1.n - 1":
                out.append("calc")
            elif t == "d = g * values.gacc * d_ % secp256k1.n":
                out.append("calc")
            elif t == "s = (k_1_ + values.b * k_2_ + values.e * a * d) % secp256k1.n":
                out.append("calc")
            else:
                raise Unrecognised(t)
        elif isinstance(s, ast.If):
            test = _u(s.test)
            if test == "not 0 < k_1_ < secp256k1.n" and _raises_value(s.body) and not s.orelse:
                out.append("checkK1")
            elif test == "not 0 < k_2_ < secp256k1.n" and _raises_value(s.body) and not s.orelse:
                out.append("checkK2")
            elif test == "values.R[1] % 2" and not s.orelse \
                    and _u(s.body[0]) == "k_1_, k_2_ = (secp256k1.n - k_1_, secp256k1.n - k_2_)":
                out.append("negate")
            elif test.startswith("pk != bytes(sec_nonce[") and _raises_value(s.body) and not s.orelse:
                sl = s.test.comparators[0].args[0].slice
                if not (isinstance(sl, ast.Slice) and sl.upper is None):
                    raise Unrecognised(t)
                out.append(f"pkCheck {_const(sl.lower, glb)}")
            else:
                raise Unrecognised(t)
        elif isinstance(s, ast.Return) and _u(s) == "return s.to_bytes(_SCALAR_SIZE, 'big')" \
                and glb["_SCALAR_SIZE"] == 32:
            out.append("ret")
        else:
            raise Unrecognised(t)
    return out


def partial_sign_passes_nonce():
    """`psbt.musig2.partial_sign` hands the caller's own `sec_nonce` object to `musig2.sign`: the one use of the
    name in the body is that argument (no copy, no rebinding, no conversion)."""
    from btclib.psbt import musig2 as pm  # noqa: PLC0415
    body, _ = _body(pm.partial_sign)
    uses = [n for s in body for n in ast.walk(s) if isinstance(n, ast.Name) and n.id == "sec_nonce"]
    calls = [s for s in body if isinstance(s, ast.Assign) and isinstance(s.value, ast.Call)
             and _u(s.value.func) == "musig2.sign" and s.value.args and _u(s.value.args[0]) == "sec_nonce"]
    return len(uses) == 1 and len(calls) == 1 and isinstance(uses[0].ctx, ast.Load)


def musig_sign_keeps_name():
    """`musig2.sign` never rebinds `sec_nonce` (every statement touching it is one the classifier recognised)."""
    body, _ = _body(musig2.sign)
    return not any(isinstance(n, ast.Name) and n.id == "sec_nonce" and isinstance(n.ctx, ast.Store)
                   for s in body for n in ast.walk(s))


# ---------------------------------------------------------------------------- Signer.sign_ / wipe
def signer_sign_steps(mod):
    body, _ = _body(mod.Signer.sign_)
    out = []
    for s in body:
        t = _u(s)
        if isinstance(s, ast.If) and _u(s.test) == "self._wiped" and _raises_value(s.body) and not s.orelse:
            out.append("wipedCheck")
        elif t.startswith("assert_type(") or (isinstance(s, ast.Assign) and "bytes_from_octets(" in t
                                               and "self._" not in t.replace("self._hf_len", "")):
            out.append("argCheck")
        elif isinstance(s, ast.FunctionDef):
            continue  # local helper definition: executes nothing
        else:
            # everything else reads the held key (self._q / self._signer / self._prvkey_buffer) or returns
            out.append("produce")
    # collapse runs of `produce`
    res = []
    for x in out:
        if not (res and res[-1] == "produce" and x == "produce"):
            res.append(x)
    return res


def signer_wipe_steps(mod):
    body, _ = _body(mod.Signer.wipe)
    out = []
    for s in body:
        t = _u(s)
        if isinstance(s, ast.If) and _u(s.test) in ("self._prvkey_buffer is not None", "self._signer is not None") \
                and not s.orelse and _u(s.body[-1]) in ("self._prvkey_buffer = None", "self._signer = None"):
            out.append("dropKey")
        elif t == "self._q = 0":
            out.append("zeroScalar")
        elif t == "self._wiped = True":
            out.append("setWiped")
        else:
            raise Unrecognised(t)
    return out


def signer_exit_wipes(mod):
    body, _ = _body(mod.Signer.__exit__)
    return [_u(s) for s in body] == ["self.wipe()"]


def signer_enter_returns_self(mod):
    body, _ = _body(mod.Signer.__enter__)
    return [_u(s) for s in body] == ["return self"]


def signer_init_live(mod):
    body, _ = _body(mod.Signer.__init__)
    return _u(body[-1]) == "self._wiped = False"


# ---------------------------------------------------------------------------- SoftwareSigner
# public names of SoftwareSigner that answer no question about a held key while open/closed matters:
# the constructor, the state itself, and the three read-only descriptions of the signer
SS_EXEMPT = {"from_accounts", "close", "xkey", "is_watch_only", "master_fingerprint", "capabilities"}


def software_signer_methods():
    """every public name of the class, enumerated from the class itself: a new one must be classified."""
    names = [n for n in vars(psbt_signer.SoftwareSigner) if not n.startswith("_")]
    methods = [n for n in names if n not in SS_EXEMPT]
    for n in methods:
        if not inspect.isfunction(vars(psbt_signer.SoftwareSigner)[n]):
            raise Unrecognised(f"SoftwareSigner.{n}: a public name that is neither a plain method nor classified exempt")
    return methods


def software_signer_guards():
    rows = []
    for name in software_signer_methods():
        body, _ = _body(getattr(psbt_signer.SoftwareSigner, name))
        rows.append((name, bool(body) and _u(body[0]) == "self._assert_open()"))
    return rows


def software_signer_signing():
    """the methods that produce a signature: every public method named sign*."""
    return [n for n in software_signer_methods() if n.startswith("sign")]


def software_signer_facts():
    body, _ = _body(psbt_signer.SoftwareSigner.close)
    close_sets = [_u(s) for s in body] == ["self._closed = True"]
    body, _ = _body(psbt_signer.SoftwareSigner._assert_open)
    ok = len(body) == 1 and isinstance(body[0], ast.If) and _u(body[0].test) == "self._closed" \
        and _raises_value(body[0].body)
    body, _ = _body(psbt_signer.SoftwareSigner.__init__)
    init_open = _u(body[-1]) == "self._closed = False"
    return close_sets, ok, init_open


# ---------------------------------------------------------------------------- RangedWallet
def wallet_address_steps():
    body, _ = _body(wallet_mod.RangedWallet.address)
    out = []
    for s in body:
        t = _u(s)
        if t == "self._assert_position(branch, index)":
            out.append("assertPosition")
        elif t == "address = self._address(branch, index)":
            out.append("derive")
        elif isinstance(s, ast.If) and _u(s.test) == "not address" and _raises_value(s.body) and not s.orelse:
            out.append("refuseEmpty")
        elif isinstance(s, ast.Assign) and _u(s.targets[0]) == "self._next_index[branch]":
            v = _u(s.value)
            how = {"max(self._next_index.get(branch, 0), index + 1)": "maxOldIdxSucc",
                   "max(index + 1, self._next_index.get(branch, 0))": "maxOldIdxSucc",
                   "index + 1": "idxSucc",
                   "self._next_index.get(branch, 0) + 1": "oldSucc"}.get(v, "other")
            out.append(f"bump .{how}")
        elif isinstance(s, ast.Return) and t.startswith("return self._record(AddressInfo(address, self.script_type, "
                                                        "self._der_path(branch, index), branch, index))"):
            out.append("record")
        else:
            raise Unrecognised(t)
    return out


def wallet_pos_checks():
    body, _ = _body(wallet_mod.RangedWallet._assert_position)
    out = []
    for s in body:
        if isinstance(s, ast.If) and _u(s.test) == "branch not in self.branches" and _raises_value(s.body):
            out.append("branchKnown")
        elif isinstance(s, ast.If) and _u(s.test) == "index < 0" and _raises_value(s.body):
            out.append("indexNonNeg")
        else:
            raise Unrecognised(_u(s))
    return out


def wallet_next_default():
    body, _ = _body(wallet_mod.RangedWallet.next_address)
    if len(body) != 1 or _u(body[0]) != "return self.address(branch, self._next_index.get(branch, 0))":
        raise Unrecognised(_u(body[0]))
    return 0


def wallet_record_overwrites():
    body, _ = _body(wallet_mod.Wallet._record)
    if [_u(s) for s in body] != ["self._handed_out[info.address] = info", "return info.address"]:
        raise Unrecognised("Wallet._record: " + "; ".join(_u(s) for s in body))
    body, _ = _body(wallet_mod.Wallet.__init__)
    if "self._handed_out: dict[str, AddressInfo] = {}" not in [_u(s) for s in body]:
        raise Unrecognised("Wallet.__init__: the ledger is not a dict")
    return True


# ---------------------------------------------------------------------------- curve identity key
_FIELD = {"self.p": ["p"], "self._a": ["a"], "self._b": ["b"], "self.n": ["n"], "self.cofactor": ["h"],
          "self.G[0]": ["gx"], "self.G[1]": ["gy"], "*self.G": ["gx", "gy"]}


def curve_eq_key(cls, base=None):
    """the components `_eq_key` returns, in order (a `*super()._eq_key()` splices the base class's)."""
    body, _ = _body(cls._eq_key)
    if len(body) != 1 or not isinstance(body[0], ast.Return):
        raise Unrecognised(f"{cls.__name__}._eq_key: " + "; ".join(_u(s) for s in body))
    v = body[0].value
    elts = v.elts if isinstance(v, ast.Tuple) else [v]
    out = []
    for e in elts:
        t = _u(e)
        if t == "*super()._eq_key()" and base is not None:
            out += base
        elif t in _FIELD:
            out += _FIELD[t]
        else:
            raise Unrecognised(f"{cls.__name__}._eq_key returns `{t}`")
    return out


def curve_eq_hash_use_key():
    eq, _ = _body(curve_group_mod.CurveGroup.__eq__)
    hs, _ = _body(curve_group_mod.CurveGroup.__hash__)
    eq_ok = [_u(s) for s in eq] == [
        "if self is other:\n    return True",
        "if not isinstance(other, CurveGroup) or type(self) is not type(other):\n    return NotImplemented",
        "return self._eq_key() == other._eq_key()"]   # the whole body: no earlier shortcut can answer for the key
    hash_ok = [_u(s) for s in hs] == ["return hash(self._eq_key())"]
    own = all(n not in vars(curve_mod.Curve) for n in ("__eq__", "__hash__"))   # Curve inherits both
    return eq_ok and own, hash_ok and own


def serves_compares_curve():
    body, _ = _body(curve_mod._libsecp256k1_serves)
    return any(isinstance(s, ast.If) and _u(s.test) == "ec != secp256k1" and _u(s.body[0]) == "return False" for s in body)


# ---------------------------------------------------------------------------- lazy word-lists
def wordlist_load_facts():
    """(publication order inside the lock, whether anything outside the lock reads the loaded-flag, readers load first)"""
    from btclib.mnemonic import mnemonic as mn  # noqa: PLC0415
    body, _ = _body(mn.WordLists.load_lang)
    withs = [s for s in body if isinstance(s, ast.With) and _u(s.items[0].context_expr) == "self._lock"]
    if len(withs) != 1:
        raise Unrecognised("WordLists.load_lang: not exactly one `with self._lock:`")
    outside = [s for s in body if s is not withs[0]]
    fast_path = any("_language_length" in _u(s) or "_wordlist" in _u(s) or "_index" in _u(s) for s in outside)
    names = {"self._index[lang]": "index", "self._wordlist[lang]": "words", "self._language_length[lang]": "count"}
    order = []
    for n in ast.walk(withs[0]):
        if isinstance(n, ast.Assign) and _u(n.targets[0]) in names:
            order.append((n.lineno, names[_u(n.targets[0])]))
    order = [x for _, x in sorted(order)]
    if sorted(order) != ["count", "index", "words"]:
        raise Unrecognised(f"WordLists.load_lang publishes {order}")
    first = _u(withs[0].body[0]), _u(withs[0].body[1])
    checks_under_lock = first == ("known = lang in self.languages",
                                  "if known and self._language_length[lang] != 0:\n    return")
    readers = all(_u(_body(getattr(mn.WordLists, m))[0][0]) == "self.load_lang(lang)" for m in ("wordlist", "language_length", "index"))
    return order, fast_path, checks_under_lock and readers


def _lst(ty, items):
    return "[" + ", ".join("." + i for i in items) + f"]"


def constants():
    b = lambda v: "true" if v else "false"  # noqa: E731
    txt = "open Btc.C20\n\n"
    txt += f"/-- the order of secp256k1 (`musig2.sign` reduces modulo it) -/\ndef N : Nat := {secp256k1.n}\n\n"
    txt += "/-- top-level statements of `btclib.ecc.musig2.sign`, in source order -/\n"
    txt += f"def musigSign : List SignStep := {_lst('SignStep', ['(' + s + ')' if ' ' in s else s for s in musig_sign_steps()]).replace('.(', '(.')}\n\n"
    txt += "/-- `psbt.musig2.partial_sign` passes the caller's own nonce object to `musig2.sign`; `sign` never rebinds it -/\n"
    txt += f"def partialSignPassesNonce : Bool := {b(partial_sign_passes_nonce() and musig_sign_keeps_name())}\n\n"
    for name, mod in (("dsa", dsa), ("ssa", ssa)):
        txt += f"/-- `{name}.Signer.sign_`, `wipe`, `__exit__`, `__enter__`, `__init__` -/\n"
        txt += f"def {name}SignerSign : List SignerStep := {_lst('SignerStep', signer_sign_steps(mod))}\n"
        txt += f"def {name}SignerWipe : List WipeStep := {_lst('WipeStep', signer_wipe_steps(mod))}\n"
        txt += f"def {name}SignerExitWipes : Bool := {b(signer_exit_wipes(mod))}\n"
        txt += f"def {name}SignerEnterReturnsSelf : Bool := {b(signer_enter_returns_self(mod))}\n"
        txt += f"def {name}SignerInitLive : Bool := {b(signer_init_live(mod))}\n\n"
    rows = software_signer_guards()
    txt += "/-- `SoftwareSigner`: (public method, whether its first statement is `self._assert_open()`) -/\n"
    txt += "def softwareSignerGuards : List (String × Bool) := [" + ", ".join(f'("{n}", {b(g)})' for n, g in rows) + "]\n"
    txt += "/-- the public methods of `SoftwareSigner` that produce a signature (every public `sign*`), enumerated from the class -/\n"
    txt += "def softwareSignerSigning : List String := [" + ", ".join(f'"{n}"' for n in software_signer_signing()) + "]\n"
    cs, ao, io = software_signer_facts()
    txt += f"def softwareSignerCloseSets : Bool := {b(cs)}\n"
    txt += f"def softwareSignerAssertOpenRaises : Bool := {b(ao)}\n"
    txt += f"def softwareSignerInitOpen : Bool := {b(io)}\n\n"
    order, fast, readers = wordlist_load_facts()
    txt += "/-- `WordLists.load_lang`: the order it publishes its three fields in (inside the lock), whether a statement outside\n"
    txt += "    the lock reads them (a lock-free fast path), and whether every reader calls `load_lang` first -/\n"
    txt += f"def wordlistPublishOrder : List Pub := {_lst('Pub', order)}\n"
    txt += f"def wordlistFastPath : Bool := {b(fast)}\n"
    txt += f"def wordlistReadersLoadFirst : Bool := {b(readers)}\n\n"
    grp = curve_eq_key(curve_group_mod.CurveGroup)
    crv = curve_eq_key(curve_mod.Curve, grp)
    eq_ok, hash_ok = curve_eq_hash_use_key()
    txt += "/-- what `CurveGroup._eq_key` / `Curve._eq_key` return: `__eq__`, `__hash__`, hence every `lru_cache` keyed\n"
    txt += "    on a curve and the `ec != secp256k1` test of `_libsecp256k1_serves`, see a curve through this tuple -/\n"
    txt += f"def curveGroupEqKey : List CurveField := {_lst('CurveField', grp)}\n"
    txt += f"def curveEqKey : List CurveField := {_lst('CurveField', crv)}\n"
    txt += f"def curveEqIsKeyEq : Bool := {b(eq_ok)}\n"
    txt += f"def curveHashIsKeyHash : Bool := {b(hash_ok)}\n"
    txt += f"def servesComparesCurve : Bool := {b(serves_compares_curve())}\n\n"
    txt += "/-- top-level statements of `RangedWallet.address`, in source order -/\n"
    ws = ["(" + s + ")" if " " in s else s for s in wallet_address_steps()]
    txt += "def walletAddress : List WalletStep := " + _lst("WalletStep", ws).replace(".(", "(.") + "\n"
    txt += f"def walletPosChecks : List PosCheck := {_lst('PosCheck', wallet_pos_checks())}\n"
    txt += f"/-- `next_address(b) = address(b, _next_index.get(b, <this>))` -/\ndef walletNextDefault : Nat := {wallet_next_default()}\n"
    txt += f"/-- `_record` is `self._handed_out[info.address] = info` on a dict -/\ndef walletRecordOverwrites : Bool := {b(wallet_record_overwrites())}\n"
    return txt
