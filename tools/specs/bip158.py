"""C17: constants of BIP158 filters and BIP152 short ids (no straight-line functions: loops are hand-modelled)."""
from btclib.block import block_filter
from btclib.p2p import compact_blocks
from btclib.block import block as block_mod

NS = "Filter"


def constants():
    vals = {
        "BASIC_FILTER_P": block_filter.BASIC_FILTER_P,
        "BASIC_FILTER_M": block_filter.BASIC_FILTER_M,
        "OP_RETURN": block_filter._OP_RETURN,
        "HF_LEN": block_filter._HF_LEN,
        "MAX_SHORT_ID": compact_blocks._MAX_SHORT_ID,
        "SHORT_ID_SIZE": compact_blocks._SHORT_ID_SIZE,
    }
    txt = ""
    for k, v in vals.items():
        if not isinstance(v, int) or isinstance(v, bool) or v < 0:
            raise ValueError(f"{k} is not a natural number: {v!r}")
        txt += f"def {k} : Nat := {v}\n"
    pre = block_mod._COMMITMENT_PREFIX
    if not isinstance(pre, bytes) or block_mod._COMMITMENT_LENGTH != len(pre) + 32:
        raise ValueError("BIP141 commitment prefix / length changed shape")
    txt += "def COMMITMENT_PREFIX : Btc.Bytes := [" + ", ".join(str(x) for x in pre) + "]\n"
    txt += f"def COMMITMENT_LENGTH : Nat := {block_mod._COMMITMENT_LENGTH}\n"
    return txt


def functions():
    return []
