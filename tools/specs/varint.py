from pyfun2lean import FuncSpec
from btclib import var_int

NS = "VarInt"


def constants():
    # thresholds of var_int.parse, read off the AST: (prefix byte, width, minimum)
    import ast, inspect
    tree = ast.parse(inspect.getsource(var_int.parse))
    rows = []
    for n in ast.walk(tree):
        if isinstance(n, ast.If) and isinstance(n.test, ast.Compare) and isinstance(n.test.ops[0], ast.Eq) \
                and isinstance(n.test.comparators[0], ast.Constant):
            call = n.body[-1].value
            if isinstance(call, ast.Call) and getattr(call.func, "id", "") == "_parse_number":
                rows.append((n.test.comparators[0].value, call.args[1].value, call.args[2].value))
    if len(rows) != 3:
        raise ValueError(f"var_int.parse: expected three prefix branches, found {rows}")
    txt = "/-- `var_int.parse`: (prefix byte, bytes read, minimum canonical value) per branch -/\n"
    txt += "def parseTable : List (Nat × Nat × Nat) := [" + ", ".join(f"({a}, {b}, {c})" for a, b, c in rows) + "]\n"
    txt += f"def MAX_SIZE : Nat := {var_int.MAX_SIZE}\n"
    return txt


def functions():
    return [
        FuncSpec(var_int, "_size", "int"),
        FuncSpec(var_int, "serialize", "bytes"),
    ]
