"""Translator plugin for C08: script limits, flag bits, opcode tables, number codecs, key-encoding check.

Everything the C08 theorems and the Core-shaped evaluator take from btclib's source is regenerated
here on every run (Generated/Script.lean, namespace Gen.Script)."""
from pyfun2lean import FuncSpec

from btclib import utils
from btclib.script import limits, op_codes_tapscript, sig_hash
from btclib.script import script as script_mod
from btclib.script.engine import flags as flags_mod
from btclib.script.engine import script as engine_script
from btclib.script.engine import script_op_codes

NS = "Script"


def _nat_list(name, values, doc):
    return f"/-- {doc} -/\ndef {name} : List Nat := [" + ", ".join(str(v) for v in values) + "]\n"


def constants():
    t = ""
    for n in ("MAX_SCRIPT_ELEMENT_SIZE", "MAX_OPS_PER_SCRIPT", "MAX_PUBKEYS_PER_MULTISIG",
              "MAX_SCRIPT_SIZE", "MAX_STACK_SIZE"):
        t += f"def N_{n} : Nat := {getattr(limits, n)}\n"
    t += f"def MAX_NUM_SIZE : Nat := {script_op_codes._MAX_NUM_SIZE}\n"
    t += f"def MAX_LOCK_TIME_NUM_SIZE : Nat := {script_op_codes._MAX_LOCK_TIME_NUM_SIZE}\n"
    t += _nat_list("DISABLED_OP_CODES", sorted(engine_script.DISABLED_OP_CODES),
                   "`engine.script.DISABLED_OP_CODES`")
    r = engine_script.EVALUATED_WHEN_UNEXECUTED
    if not isinstance(r, range) or r.step != 1:
        raise ValueError("EVALUATED_WHEN_UNEXECUTED is no longer a unit-step range")
    t += f"def EVALUATED_WHEN_UNEXECUTED_LO : Nat := {r.start}\n"
    t += f"def EVALUATED_WHEN_UNEXECUTED_HI : Nat := {r.stop}\n"
    t += _nat_list("OP_SUCCESS", sorted(op_codes_tapscript.OP_SUCCESS), "`op_codes_tapscript.OP_SUCCESS`")
    t += _nat_list("TAPSCRIPT_NAMED", sorted(op_codes_tapscript.OP_CODE_NAMES),
                   "bytes `op_codes_tapscript.OP_CODE_NAMES` names")
    t += _nat_list("LEGACY_NAMED", sorted(script_mod.OP_CODE_NAME_FROM_INT),
                   "bytes `script.OP_CODE_NAME_FROM_INT` names")
    t += _nat_list("SIG_HASH_TYPES", sorted(sig_hash.SIG_HASH_TYPES), "`sig_hash.SIG_HASH_TYPES`")
    t += "/-- `script.OP_CODE_NAME_FROM_INT` -/\ndef OP_NAMES : List (Nat × String) := [\n"
    t += ",\n".join(f"  ({k}, \"{v}\")" for k, v in sorted(script_mod.OP_CODE_NAME_FROM_INT.items()))
    t += "]\n"
    t += "/-- `op_codes_tapscript.OP_CODE_NAMES` -/\ndef TAPSCRIPT_OP_NAMES : List (Nat × String) := [\n"
    t += ",\n".join(f"  ({k}, \"{v}\")" for k, v in sorted(op_codes_tapscript.OP_CODE_NAMES.items()))
    t += "]\n"
    t += "/-- `engine.script.OPERATIONS` keys -/\ndef LEGACY_OPERATIONS : List String := [" + \
        ", ".join(f"\"{k}\"" for k in sorted(engine_script.OPERATIONS)) + "]\n"
    from btclib.script.engine import tapscript
    t += "/-- `engine.tapscript.OPERATIONS` keys -/\ndef TAPSCRIPT_OPERATIONS : List String := [" + \
        ", ".join(f"\"{k}\"" for k in sorted(tapscript.OPERATIONS)) + "]\n"
    t += "/-- `ScriptFlag` members: (name, bit value) -/\ndef FLAGS : List (String × Nat) := [\n"
    t += ",\n".join(f"  (\"{m.name}\", {m.value})" for m in flags_mod.ScriptFlag)
    t += "]\n"
    for m in flags_mod.ScriptFlag:
        t += f"def FLAG_{m.name} : Nat := {m.value}\n"
    t += f"def ALL_FLAGS : Nat := {flags_mod.ALL_FLAGS.value}\n"
    t += f"def STRICT_DER_FLAGS : Nat := {engine_script.STRICT_DER_FLAGS.value}\n"
    return t


def functions():
    # decode_num / _to_num / check_pub_key use constructs outside pyfun2lean's subset (fallible operand in a
    # condition, set literals): hand-modelled in Model/C08 and tied by correspondence streams instead.
    return [
        FuncSpec(utils, "encode_num", "bytes", skip_stmts=("err_msg",)),
        FuncSpec(engine_script, "script_op_count", "int"),
    ]
