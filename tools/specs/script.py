"""Translator plugin for C08: script limits, flag bits, opcode tables, number codecs, key-encoding check.

Everything the C08 theorems and the Core-shaped evaluator take from btclib's source is regenerated
here on every run (Generated/Script.lean, namespace Gen.Script)."""
from pyfun2lean import FuncSpec

from btclib import utils
from btclib.script import limits, op_codes_tapscript, sig_hash
from btclib.script import script as script_mod
from btclib.script.engine import flags as flags_mod
from btclib.script.engine import script as engine_script
from btclib.script.engine import script_op_codes

NS = "Script"


def _nat_list(name, values, doc):
    return f"/-- {doc} -/\ndef {name} : List Nat := [" + ", ".join(str(v) for v in values) + "]\n"


def _dispatch_chain(fn):
    """the if/elif chain over the op code's NAME (`op`) in the `while True:` loop of an engine's `_run_ops`, read off the
    AST in source order: [(test, literal)] with test one of
      eq <name>         `op == "<name>"`
      digits <k>        `op[<k>:].isdigit()`
      contains <text>   `"<text>" in op`
      in <table>        `op in <table>`
      else <callee>     the final `else:` (a call of <callee>)
    Anything else in the chain is an error: the plugin then reports the module broken rather than guess."""
    import ast
    import inspect
    import textwrap

    tree = ast.parse(textwrap.dedent(inspect.getsource(fn)))
    loops = [n for n in ast.walk(tree) if isinstance(n, ast.While)]
    if len(loops) != 1:
        raise ValueError(f"{fn.__module__}._run_ops: expected one while loop, found {len(loops)}")

    def is_op(n):
        return isinstance(n, ast.Name) and n.id == "op"

    def on_op(test):
        return isinstance(test, ast.Compare) and is_op(test.left) and isinstance(test.ops[0], ast.Eq)

    heads = [st for st in loops[0].body if isinstance(st, ast.If) and on_op(st.test)]
    if len(heads) != 1:
        raise ValueError(f"{fn.__module__}._run_ops: expected one if-chain on `op`, found {len(heads)}")
    node, out = heads[0], []
    while True:
        t = node.test
        if isinstance(t, ast.Compare) and len(t.ops) == 1 and len(t.comparators) == 1:
            c = t.comparators[0]
            if isinstance(t.ops[0], ast.Eq) and is_op(t.left) and isinstance(c, ast.Constant) and isinstance(c.value, str):
                out.append(("eq", c.value))
            elif isinstance(t.ops[0], ast.In) and isinstance(t.left, ast.Constant) and isinstance(t.left.value, str) and is_op(c):
                out.append(("contains", t.left.value))
            elif isinstance(t.ops[0], ast.In) and is_op(t.left) and isinstance(c, ast.Name):
                out.append(("in", c.id))
            else:
                raise ValueError(f"{fn.__module__}._run_ops: unrecognised test `{ast.unparse(t)}` in the if-chain")
        elif (isinstance(t, ast.Call) and isinstance(t.func, ast.Attribute) and t.func.attr == "isdigit" and not t.args
              and isinstance(t.func.value, ast.Subscript) and is_op(t.func.value.value)
              and isinstance(t.func.value.slice, ast.Slice) and isinstance(t.func.value.slice.lower, ast.Constant)
              and t.func.value.slice.upper is None):
            out.append(("digits", str(t.func.value.slice.lower.value)))
        else:
            raise ValueError(f"{fn.__module__}._run_ops: unrecognised test `{ast.unparse(t)}` in the if-chain")
        if len(node.orelse) == 1 and isinstance(node.orelse[0], ast.If):
            node = node.orelse[0]
            continue
        if (len(node.orelse) == 1 and isinstance(node.orelse[0], ast.Expr) and isinstance(node.orelse[0].value, ast.Call)):
            f = node.orelse[0].value.func
            out.append(("else", f.attr if isinstance(f, ast.Attribute) else getattr(f, "id", "?")))
            return out
        raise ValueError(f"{fn.__module__}._run_ops: the if-chain does not end in a single call")


def _chain_arm(chain, name, tables):
    """index of the arm of the chain a name takes (the Python semantics of the tests), or None for the `else`"""
    for k, (test, lit) in enumerate(chain):
        if test == "eq" and name == lit:
            return k
        if test == "digits" and name[int(lit):].isdigit():
            return k
        if test == "contains" and lit in name:
            return k
        if test == "in" and name in tables[lit]:
            return k
    return None


def _chain_lean(name, chain, doc):
    return f"/-- {doc} -/\ndef {name} : List (String × String) := [" + \
        ", ".join(f'("{a}", "{b}")' for a, b in chain) + "]\n"


def constants():
    t = ""
    for n in ("MAX_SCRIPT_ELEMENT_SIZE", "MAX_OPS_PER_SCRIPT", "MAX_PUBKEYS_PER_MULTISIG",
              "MAX_SCRIPT_SIZE", "MAX_STACK_SIZE"):
        t += f"def N_{n} : Nat := {getattr(limits, n)}\n"
    t += f"def MAX_NUM_SIZE : Nat := {script_op_codes._MAX_NUM_SIZE}\n"
    t += f"def MAX_LOCK_TIME_NUM_SIZE : Nat := {script_op_codes._MAX_LOCK_TIME_NUM_SIZE}\n"
    t += _nat_list("DISABLED_OP_CODES", sorted(engine_script.DISABLED_OP_CODES),
                   "`engine.script.DISABLED_OP_CODES`")
    r = engine_script.EVALUATED_WHEN_UNEXECUTED
    if not isinstance(r, range) or r.step != 1:
        raise ValueError("EVALUATED_WHEN_UNEXECUTED is no longer a unit-step range")
    t += f"def EVALUATED_WHEN_UNEXECUTED_LO : Nat := {r.start}\n"
    t += f"def EVALUATED_WHEN_UNEXECUTED_HI : Nat := {r.stop}\n"
    t += _nat_list("OP_SUCCESS", sorted(op_codes_tapscript.OP_SUCCESS), "`op_codes_tapscript.OP_SUCCESS`")
    t += _nat_list("TAPSCRIPT_NAMED", sorted(op_codes_tapscript.OP_CODE_NAMES),
                   "bytes `op_codes_tapscript.OP_CODE_NAMES` names")
    t += _nat_list("LEGACY_NAMED", sorted(script_mod.OP_CODE_NAME_FROM_INT),
                   "bytes `script.OP_CODE_NAME_FROM_INT` names")
    t += _nat_list("SIG_HASH_TYPES", sorted(sig_hash.SIG_HASH_TYPES), "`sig_hash.SIG_HASH_TYPES`")
    t += "/-- `script.OP_CODE_NAME_FROM_INT` -/\ndef OP_NAMES : List (Nat × String) := [\n"
    t += ",\n".join(f"  ({k}, \"{v}\")" for k, v in sorted(script_mod.OP_CODE_NAME_FROM_INT.items()))
    t += "]\n"
    t += "/-- `op_codes_tapscript.OP_CODE_NAMES` -/\ndef TAPSCRIPT_OP_NAMES : List (Nat × String) := [\n"
    t += ",\n".join(f"  ({k}, \"{v}\")" for k, v in sorted(op_codes_tapscript.OP_CODE_NAMES.items()))
    t += "]\n"
    t += "/-- `engine.script.OPERATIONS` keys -/\ndef LEGACY_OPERATIONS : List String := [" + \
        ", ".join(f"\"{k}\"" for k in sorted(engine_script.OPERATIONS)) + "]\n"
    from btclib.script.engine import tapscript
    t += "/-- `engine.tapscript.OPERATIONS` keys -/\ndef TAPSCRIPT_OPERATIONS : List String := [" + \
        ", ".join(f"\"{k}\"" for k in sorted(tapscript.OPERATIONS)) + "]\n"
    # the dispatch of the two interpreter loops, from the AST of `_run_ops`
    lc = _dispatch_chain(engine_script._run_ops)
    tc = _dispatch_chain(tapscript._run_ops)
    t += _chain_lean("LEGACY_DISPATCH", lc, "the if-chain over the op code's name in `engine.script._run_ops` (AST, source order)")
    t += _chain_lean("TAPSCRIPT_DISPATCH", tc, "the if-chain over the op code's name in `engine.tapscript._run_ops` (AST, source order)")
    ltab = {"OPERATIONS": engine_script.OPERATIONS}
    ttab = {"OPERATIONS": tapscript.OPERATIONS}
    t += _nat_list("LEGACY_DISPATCHED",
                   [b for b, n in sorted(script_mod.OP_CODE_NAME_FROM_INT.items())
                    if not 0 < b <= 78 and _chain_arm(lc, n, ltab) is not None],
                   "non-push bytes `engine.script._run_ops` has an arm for (the chain evaluated on `OP_CODE_NAME_FROM_INT`)")
    t += _nat_list("TAPSCRIPT_DISPATCHED",
                   [b for b, n in sorted(op_codes_tapscript.OP_CODE_NAMES.items())
                    if not 0 < b <= 78 and _chain_arm(tc, n, ttab) is not None],
                   "non-push bytes `engine.tapscript._run_ops` has an arm for (the chain evaluated on `op_codes_tapscript.OP_CODE_NAMES`)")
    t += "/-- `ScriptFlag` members: (name, bit value) -/\ndef FLAGS : List (String × Nat) := [\n"
    t += ",\n".join(f"  (\"{m.name}\", {m.value})" for m in flags_mod.ScriptFlag)
    t += "]\n"
    for m in flags_mod.ScriptFlag:
        t += f"def FLAG_{m.name} : Nat := {m.value}\n"
    t += f"def ALL_FLAGS : Nat := {flags_mod.ALL_FLAGS.value}\n"
    t += f"def STRICT_DER_FLAGS : Nat := {engine_script.STRICT_DER_FLAGS.value}\n"
    return t


def functions():
    # decode_num / _to_num / check_pub_key use constructs outside pyfun2lean's subset (fallible operand in a
    # condition, set literals): hand-modelled in Model/C08 and tied by correspondence streams instead.
    return [
        FuncSpec(utils, "encode_num", "bytes", skip_stmts=("err_msg",)),
        FuncSpec(engine_script, "script_op_count", "int"),
    ]
