"""Translator plugin for C09: the constants, masks, tags and straight-line helpers of
btclib/script/sig_hash.py (and the op-code walker thresholds of btclib/script/script.py) that the
sig_hash model and theorems mention.  Generated/SigHash.lean, namespace Gen.SigHash.

Masks and thresholds are literals inside function bodies, so they are read off the AST and the
shape of the expression they sit in is asserted: a rewrite that moves them is a broken tie
(reported as such), never a silently stale constant.
"""
import ast
import inspect
import re

from pyfun2lean import FuncSpec

from btclib.script import script as script_mod
from btclib.script import sig_hash
from btclib.tx import tx as tx_mod

NS = "SigHash"


def _src(obj):
    return ast.unparse(ast.parse(inspect.getsource(obj)))


def _one(pattern, text, what):
    found = sorted(set(re.findall(pattern, text)))
    if len(found) != 1:
        raise ValueError(f"{what}: expected exactly one literal, found {found}")
    return int(found[0], 0)


def _bytes_lit(name, b, doc):
    return f"/-- {doc} -/\ndef {name} : Btc.Bytes := [" + ", ".join(str(x) for x in b) + "]\n"


def constants():
    t = ""
    for n in ("DEFAULT", "ALL", "NONE", "SINGLE", "ANYONECANPAY"):
        t += f"def {n} : Nat := {getattr(sig_hash, n)}\n"
    t += "/-- `sig_hash.SIG_HASH_TYPES` -/\ndef SIG_HASH_TYPES : List Nat := [" + \
        ", ".join(str(v) for v in sorted(sig_hash.SIG_HASH_TYPES)) + "]\n"
    t += f"def OP_CODESEPARATOR : Nat := {sig_hash.OP_CODESEPARATOR}\n"

    legacy = _src(sig_hash.legacy)
    segwit = _src(sig_hash.segwit_v0)
    taproot = _src(sig_hash.taproot)
    # legacy / segwit_v0: `hash_type & 0x1F` selects NONE/SINGLE, `hash_type & 0x80` ANYONECANPAY
    m1 = _one(r"hash_type & (\d+) == (?:NONE|SINGLE)", legacy, "legacy base-type mask")
    masks = set(int(x) for x in re.findall(r"hash_type & (\d+)", segwit))
    if masks != {m1}:
        raise ValueError(f"segwit_v0: numeric masks {sorted(masks)} differ from legacy's base mask {m1}")
    if "hash_type & ANYONECANPAY" not in segwit:
        raise ValueError("segwit_v0: ANYONECANPAY test not of the expected shape")
    acp = _one(r"if hash_type & (\d+):\n\s+new_tx\.vin = \[new_tx\.vin\[vin_i\]\]", legacy, "legacy ANYONECANPAY mask")
    t += f"/-- `hash_type & BASE_MASK` selects NONE / SINGLE in legacy and segwit_v0 -/\ndef BASE_MASK : Nat := {m1}\n"
    t += f"/-- legacy: `hash_type & ACP_MASK` -/\ndef ACP_MASK : Nat := {acp}\n"
    tb = set(int(x) for x in re.findall(r"hashtype & (\d+) (?:==|not in)", taproot))
    ta = set(int(x) for x in re.findall(r"hashtype & (\d+) == ANYONECANPAY", taproot))
    tb -= ta
    if len(tb) != 1 or len(ta) != 1:
        raise ValueError(f"taproot: masks not of the expected shape: {sorted(tb)} / {sorted(ta)}")
    t += f"/-- taproot: `hashtype & TAP_BASE_MASK` -/\ndef TAP_BASE_MASK : Nat := {tb.pop()}\n"
    t += f"/-- taproot: `hashtype & TAP_ACP_MASK == ANYONECANPAY` -/\ndef TAP_ACP_MASK : Nat := {ta.pop()}\n"

    # the SIGHASH_SINGLE bug constant: evaluate the expression `legacy` returns
    tree = ast.parse(inspect.getsource(sig_hash.legacy))
    one = None
    for n in ast.walk(tree):
        if isinstance(n, ast.If) and ast.unparse(n.test) == "vin_i >= len(new_tx.vout)" \
                and isinstance(n.body[0], ast.Return):
            one = eval(compile(ast.Expression(n.body[0].value), "<legacy>", "eval"), {})  # noqa: S307
    if not isinstance(one, bytes):
        raise ValueError("legacy: SIGHASH_SINGLE out-of-range return not found")
    t += _bytes_lit("SINGLE_BUG_DIGEST", one, "what `legacy` answers for SIGHASH_SINGLE with no matching output")

    # tags and fixed bytes of the BIP341 message
    tags = re.findall(r"tagged_hash\(b'([A-Za-z]+)'", taproot)
    if tags != ["TapSighash"]:
        raise ValueError(f"taproot: tag {tags}")
    t += _bytes_lit("TAG_SIGHASH", tags[0].encode(), "`taproot`: the tag of the final hash")
    ann = _src(sig_hash.taproot_annex_and_ext)
    tags = re.findall(r"tagged_hash\(b'([A-Za-z]+)'", ann)
    if tags != ["TapLeaf"]:
        raise ValueError(f"taproot_annex_and_ext: tag {tags}")
    t += _bytes_lit("TAG_LEAF", tags[0].encode(), "`taproot_annex_and_ext`: the tapleaf tag")
    m = re.search(r"parts = \[(b'[^']*'), hashtype\.to_bytes\(1, 'little'\)", taproot)
    if not m:
        raise ValueError("taproot: epoch byte not found")
    t += _bytes_lit("EPOCH", eval(m.group(1)), "`taproot`: BIP341's sighash epoch")  # noqa: S307
    m = re.search(r"ext = tapleaf_hash \+ (b'[^']*')", ann)
    if not m:
        raise ValueError("taproot_annex_and_ext: extension suffix not found")
    t += _bytes_lit("EXT_SUFFIX", eval(m.group(1)), "key version 0 and codesep position 0xffffffff")  # noqa: S307
    m = re.search(r"stack\[-1\]\[:1\] == (b'[^']*')", ann)
    if not m:
        raise ValueError("taproot_annex_and_ext: annex tag not found")
    t += f"def ANNEX_TAG : Nat := {eval(m.group(1))[0]}\n"  # noqa: S307
    m = re.search(r"leaf_version = stack\[-1\]\[0\] & (\d+)", ann)
    if not m:
        raise ValueError("taproot_annex_and_ext: leaf version mask not found")
    t += f"def LEAF_VERSION_MASK : Nat := {int(m.group(1))}\n"

    # field widths
    # `_assert_valid_camount`: `if not <lo> <= amount < <hi>:` (a comparison since the repair of the
    # float hang; the bounds are evaluated from the source expression)
    ca = _src(sig_hash._assert_valid_camount)
    m = re.search(r"if not (.+?) <= amount < (.+?):", ca)
    if not m:
        raise ValueError("_assert_valid_camount: bound not of the expected shape")
    lo, hi = eval(m.group(1)), eval(m.group(2))  # noqa: S307
    t += f"def CAMOUNT_LO : Int := {lo}\ndef CAMOUNT_HI : Int := {hi}\n"
    f4 = _src(tx_mod._assert_valid_4_byte_field)
    m = re.search(r"if not 0 <= value <= (\d+):", f4)
    if not m:
        raise ValueError("_assert_valid_4_byte_field: bound not of the expected shape")
    t += f"def FIELD4_MAX : Int := {int(m.group(1))}\n"

    # the op-code walker (`read_op_code`, Core's GetOp): push thresholds
    roc = _src(script_mod.read_op_code)
    m = re.search(r"if 0 < op_code <= (\d+):", roc)
    m2 = re.search(r"if op_code > (\d+):\n\s+size = 2 \*\* \(op_code - (\d+)\)", roc)
    if not m or not m2:
        raise ValueError("read_op_code: thresholds not of the expected shape")
    t += f"def PUSH_MAX : Nat := {int(m.group(1))}\n"
    t += f"def PUSH_DIRECT_MAX : Nat := {int(m2.group(1))}\n"
    t += f"def PUSHDATA1 : Nat := {int(m2.group(2))}\n"
    return t


def functions():
    return [
        FuncSpec(sig_hash, "_serialized_hash_type", "bytes"),
        FuncSpec(sig_hash, "_serialized_spend_type", "bytes",
                 params=[("ext_flag", "int"), ("annex_present", "int")]),
    ]
