"""Translator plugin for C15 (miniscript): regenerates from /repo's working tree
   * every numeric limit/threshold the model mentions,
   * the op code bytes the fragment scripts are built from (`BYTE_FROM_OP_CODE_NAME`),
   * `_OVERHEAD`, `_SCRIPT_TEMPLATES`, `_DATA_SIZE`, `_HASH_OP_CODES`, `_LEAF_PROPERTIES`, `_LEAF_OPS`,
   * the TYPE TABLES themselves: `_mixed`, `_leaf_properties` (older/after rows), `_wrapper_properties`,
     `_and_properties`, `_or_properties`, `_andor_properties` are straight-line frozenset algebra
     (`| & _if _has _t`), translated expression by expression into operations on the Boolean record
     `Btc.Miniscript.Props` (Model/C15/Ast.lean).
Anything outside the small grammar below raises: the tie is then reported broken, never skipped.
(`_thresh_properties` is a loop and is hand-modelled in Model/C15/Types.lean.)
"""
import ast
import inspect

from pyfun2lean import FuncSpec, Untranslatable  # noqa: F401
from btclib.descriptors import miniscript as M
from btclib.script import script as S
from btclib.script import limits as L

NS = "Miniscript"
IMPORTS = ["Model.C15.Ast"]

LETTERS = "BVKWzonduefsmxkghij"

WRAP = {"a:": "Wrap.a", "s:": "Wrap.s", "c:": "Wrap.c", "d:": "Wrap.d", "v:": "Wrap.v", "j:": "Wrap.j",
        "n:": "Wrap.n"}
BIN = {"and_v": "Bin.and_v", "and_b": "Bin.and_b", "or_b": "Bin.or_b", "or_c": "Bin.or_c",
       "or_d": "Bin.or_d", "or_i": "Bin.or_i"}
FRAG = {"a:": "wa", "s:": "ws", "c:": "wc", "d:": "wd", "v:": "wv", "j:": "wj", "n:": "wn",
        "and_v": "and_v", "and_b": "and_b", "or_b": "or_b", "or_c": "or_c", "or_d": "or_d",
        "or_i": "or_i", "andor": "andor"}
HASHK = {"sha256": "HashKind.sha256", "hash256": "HashKind.hash256", "ripemd160": "HashKind.ripemd160",
         "hash160": "HashKind.hash160"}


def props_lit(s: str) -> str:
    for c in s:
        if c not in LETTERS:
            raise Untranslatable(f"unknown property letter {c!r} in {s!r}")
    if not s:
        return "Props.none"
    seen = []
    for c in s:
        if c not in seen:
            seen.append(c)
    return "({ " + ", ".join(f"{c} := true" for c in seen) + " } : Props)"


class SetTr:
    """frozenset-algebra function -> Lean term. kinds: 'set' | 'int' | 'bool' | 'enum'."""

    def __init__(self, fn_name, params, enum_lits, int_consts):
        self.name = fn_name
        self.env = dict(params)           # python name -> kind
        self.enum = enum_lits             # {"a:": "Wrap.a"}
        self.consts = int_consts          # module int constants referenced -> emitted
        self.used_consts = {}

    def bad(self, node, why=""):
        raise Untranslatable(f"miniscript.{self.name} line {getattr(node, 'lineno', '?')}: unsupported "
                             f"{type(node).__name__} {why}: {ast.unparse(node)[:90]}")

    # --- expressions
    def expr(self, e):
        if isinstance(e, ast.Name):
            if e.id in self.env:
                return e.id, self.env[e.id]
            if e.id == "TAPSCRIPT":
                return "Ctx.tapscript", "enum"
            if e.id == "P2WSH":
                return "Ctx.p2wsh", "enum"
            if e.id == "_NONE":
                return "Props.none", "set"
            v = getattr(M, e.id, None)
            if isinstance(v, int) and not isinstance(v, bool):
                self.used_consts[e.id.lstrip("_")] = v
                return e.id.lstrip("_"), "int"
            self.bad(e, "unknown name")
        if isinstance(e, ast.Constant):
            if isinstance(e.value, bool):
                return ("true" if e.value else "false"), "bool"
            if isinstance(e.value, int):
                return str(e.value), "int"
            if isinstance(e.value, str) and e.value in self.enum:
                return self.enum[e.value], "enum"
            self.bad(e, "constant")
        if isinstance(e, ast.Call) and isinstance(e.func, ast.Name):
            f = e.func.id
            if f == "_t" and len(e.args) == 1 and isinstance(e.args[0], ast.Constant):
                return props_lit(e.args[0].value), "set"
            if f == "_if" and len(e.args) == 2:
                c = self.as_bool(e.args[0])
                p, k = self.expr(e.args[1])
                self.want(k, "set", e)
                return f"(Props.when {c} {p})", "set"
            if f == "_has" and len(e.args) == 2 and isinstance(e.args[1], ast.Constant):
                p, k = self.expr(e.args[0])
                self.want(k, "set", e)
                return f"(Props.has {p} {props_lit(e.args[1].value)})", "bool"
            if f == "_mixed" and len(e.args) == 2:
                a, ka = self.expr(e.args[0])
                b, kb = self.expr(e.args[1])
                self.want(ka, "set", e)
                self.want(kb, "set", e)
                return f"(mixed {a} {b})", "bool"
            if f == "bool" and len(e.args) == 1:
                return self.as_bool(e.args[0]), "bool"
            self.bad(e, "call")
        if isinstance(e, ast.BinOp) and isinstance(e.op, (ast.BitOr, ast.BitAnd)):
            a, ka = self.expr(e.left)
            b, kb = self.expr(e.right)
            if ka == "set" and kb == "set":
                return (f"({a} ||| {b})" if isinstance(e.op, ast.BitOr) else f"({a} &&& {b})"), "set"
            if ka == "int" and kb == "int":
                return (f"(Nat.lor {a} {b})" if isinstance(e.op, ast.BitOr) else f"(Nat.land {a} {b})"), "int"
            self.bad(e, f"operand kinds {ka},{kb}")
        if isinstance(e, ast.BoolOp):
            parts = [self.as_bool(v) for v in e.values]
            op = " && " if isinstance(e.op, ast.And) else " || "
            return "(" + op.join(parts) + ")", "bool"
        if isinstance(e, ast.UnaryOp) and isinstance(e.op, ast.Not):
            t, k = self.expr(e.operand)
            if k == "int":
                return f"({t} == 0)", "bool"
            if k == "bool":
                return f"(!{t})", "bool"
            self.bad(e, f"not over {k}")
        if isinstance(e, ast.Compare) and len(e.ops) == 1:
            a, ka = self.expr(e.left)
            b, kb = self.expr(e.comparators[0])
            op = e.ops[0]
            if ka == "enum" and kb == "enum" and isinstance(op, (ast.Eq, ast.NotEq)):
                return (f"({a} == {b})" if isinstance(op, ast.Eq) else f"({a} != {b})"), "bool"
            if ka == "int" and kb == "int":
                sym = {ast.Lt: "<", ast.LtE: "≤", ast.Gt: ">", ast.GtE: "≥", ast.Eq: "=", ast.NotEq: "≠"}.get(type(op))
                if sym:
                    return f"(decide ({a} {sym} {b}))", "bool"
            self.bad(e, f"compare {ka},{kb}")
        self.bad(e)

    def want(self, got, want, node):
        if got != want:
            self.bad(node, f"kind {got} where {want} expected")

    def as_bool(self, e):
        t, k = self.expr(e)
        if k == "bool":
            return t
        if k == "int":
            return f"({t} != 0)"
        self.bad(e, f"truth value of {k}")

    # --- statements: -> Lean term of kind set
    def block(self, stmts, ind):
        I = "  " * ind
        if not stmts:
            raise Untranslatable(f"miniscript.{self.name}: control reaches the end without return")
        s, rest = stmts[0], stmts[1:]
        if isinstance(s, ast.Expr) and isinstance(s.value, ast.Constant):
            return self.block(rest, ind)
        if isinstance(s, ast.Return):
            t, k = self.expr(s.value)
            self.want(k, "set", s)
            return I + t + "\n"
        if isinstance(s, ast.Assign) and len(s.targets) == 1 and isinstance(s.targets[0], ast.Name):
            t, k = self.expr(s.value)
            self.env[s.targets[0].id] = k
            ty = {"set": "Props", "bool": "Bool", "int": "Nat"}[k]
            return I + f"let {s.targets[0].id} : {ty} := {t}\n" + self.block(rest, ind)
        if isinstance(s, ast.If):
            c = self.as_bool(s.test)
            if self.returns(s.body):
                orelse = list(s.orelse) if s.orelse else []
                else_code = self.block(orelse + ([] if self.returns(orelse) else rest), ind + 1)
                return I + f"if {c} then\n" + self.block(list(s.body), ind + 1) + I + "else\n" + else_code
            # every branch assigns the same single name
            name = self.assigned(s)
            if name is None:
                self.bad(s, "if that neither returns nor assigns one name")
            self.env[name] = "set"
            return I + f"let {name} : Props :=\n" + self.assign_chain(s, ind + 1) + self.block(rest, ind)
        self.bad(s)

    def returns(self, stmts):
        return bool(stmts) and isinstance(stmts[-1], ast.Return) or (
            bool(stmts) and isinstance(stmts[-1], ast.If) and bool(stmts[-1].orelse)
            and self.returns(stmts[-1].body) and self.returns(stmts[-1].orelse))

    def assigned(self, s):
        names = set()

        def walk(node):
            if len(node.body) != 1 or not isinstance(node.body[0], ast.Assign):
                return False
            tg = node.body[0].targets
            if len(tg) != 1 or not isinstance(tg[0], ast.Name):
                return False
            names.add(tg[0].id)
            if len(node.orelse) == 1 and isinstance(node.orelse[0], ast.If):
                return walk(node.orelse[0])
            if len(node.orelse) == 1 and isinstance(node.orelse[0], ast.Assign):
                tg2 = node.orelse[0].targets
                if len(tg2) == 1 and isinstance(tg2[0], ast.Name):
                    names.add(tg2[0].id)
                    return True
            return False
        return names.pop() if walk(s) and len(names) == 1 else None

    def assign_chain(self, s, ind):
        I = "  " * ind
        c = self.as_bool(s.test)
        t, k = self.expr(s.body[0].value)
        self.want(k, "set", s)
        out = I + f"if {c} then {t}\n"
        if isinstance(s.orelse[0], ast.If):
            return out + I + "else\n" + self.assign_chain(s.orelse[0], ind + 1)
        t2, k2 = self.expr(s.orelse[0].value)
        self.want(k2, "set", s)
        return out + I + f"else {t2}\n"


def fn_def(name):
    tree = ast.parse(inspect.getsource(getattr(M, name)))
    return tree.body[0]


def body_of(fd):
    body = list(fd.body)
    if body and isinstance(body[0], ast.Expr) and isinstance(body[0].value, ast.Constant):
        body = body[1:]
    return body


def translate_fn(pyname, lean, params, enum_lits, consts):
    """params: [(python name, kind, lean type)]"""
    fd = fn_def(pyname)
    got = [a.arg for a in fd.args.args]
    if got != [p[0] for p in params]:
        raise Untranslatable(f"miniscript.{pyname}: parameters are {got}, expected {[p[0] for p in params]}")
    tr = SetTr(pyname, [(p[0], p[1]) for p in params], enum_lits, consts)
    code = tr.block(body_of(fd), 1)
    consts.update(tr.used_consts)
    sig = " ".join(f"({p[0]} : {p[2]})" for p in params)
    return f"/-- translated from `miniscript.{pyname}` -/\ndef {lean} {sig} : Props :=\n{code}"


def leaf_rows(consts):
    """the `older` and `after` rows of `_leaf_properties`, and its table row for the rest."""
    fd = fn_def("_leaf_properties")
    rows = {}
    tail = None
    for s in body_of(fd):
        if isinstance(s, ast.If) and isinstance(s.test, ast.Compare) and isinstance(s.test.left, ast.Name) \
                and s.test.left.id == "fragment" and isinstance(s.test.comparators[0], ast.Constant) \
                and len(s.body) == 1 and isinstance(s.body[0], ast.Return) and not s.orelse:
            rows[s.test.comparators[0].value] = s.body[0].value
        elif isinstance(s, ast.Return):
            tail = ast.unparse(s.value)
        else:
            raise Untranslatable(f"miniscript._leaf_properties: unexpected statement {ast.unparse(s)[:60]}")
    if set(rows) != {"older", "after"} or tail != "_t(_LEAF_PROPERTIES[fragment])":
        raise Untranslatable(f"miniscript._leaf_properties: rows {sorted(rows)}, tail {tail}")
    out = ""
    for name in ("older", "after"):
        tr = SetTr("_leaf_properties", [("threshold", "int")], {}, consts)
        t, k = tr.expr(rows[name])
        tr.want(k, "set", rows[name])
        consts.update(tr.used_consts)
        out += f"/-- `_leaf_properties(\"{name}\", threshold)` -/\ndef {name}Properties (threshold : Nat) : Props :=\n  {t}\n\n"
    return out


def constants():
    src = inspect.getsource(M)
    consts = {}
    out = "open Btc.Miniscript\n\n"
    # ---- numeric limits
    nums = {
        "MAX_STANDARD_P2WSH_SCRIPT_SIZE": M._MAX_STANDARD_P2WSH_SCRIPT_SIZE,
        "MAX_TAPSCRIPT_SIZE": M._MAX_TAPSCRIPT_SIZE,
        "MAX_STANDARD_P2WSH_STACK_ITEMS": M._MAX_STANDARD_P2WSH_STACK_ITEMS,
        "MAX_OPS_PER_SCRIPT": L.MAX_OPS_PER_SCRIPT,
        "MAX_PUBKEYS_PER_MULTISIG": L.MAX_PUBKEYS_PER_MULTISIG,
        "MAX_PUBKEYS_PER_MULTI_A": M._MAX_PUBKEYS_PER_MULTI_A,
        "MAX_STACK_SIZE": L.MAX_STACK_SIZE,
        "MAX_TIMELOCK": M._MAX_TIMELOCK,
        "LOCKTIME_THRESHOLD": M._LOCKTIME_THRESHOLD,
        "SEQUENCE_LOCKTIME_TYPE_FLAG": M._SEQUENCE_LOCKTIME_TYPE_FLAG,
        "SIGNATURE_SIZE_P2WSH": M._signature_size(M.P2WSH),
        "SIGNATURE_SIZE_TAPSCRIPT": M._signature_size(M.TAPSCRIPT),
        "PUB_KEY_SIZE_P2WSH": M._pub_key_size(M.P2WSH),
        "PUB_KEY_SIZE_TAPSCRIPT": M._pub_key_size(M.TAPSCRIPT),
    }
    for k, v in nums.items():
        if not isinstance(v, int) or isinstance(v, bool) or v < 0:
            raise ValueError(f"{k} is not a natural number: {v!r}")
        consts[k] = v
    # ---- op codes named in the module
    import re
    names = sorted(set(re.findall(r'"(OP_[A-Z0-9]+)"', src)))
    ops = ""
    for n in names:
        b = S.BYTE_FROM_OP_CODE_NAME[n]
        if len(b) != 1:
            raise ValueError(f"{n} is not one byte")
        ops += f"def {n} : UInt8 := {b[0]}\n"
    # ---- tables
    if set(M._OVERHEAD) | {"v:"} != set(FRAG) or "v:" in M._OVERHEAD:
        raise ValueError(f"_OVERHEAD keys changed: {sorted(M._OVERHEAD)}")
    ov = "/-- `_OVERHEAD` (``v:`` is not in the table: its byte depends on the argument's \"x\") -/\ndef overhead : Frag → Nat\n"
    for k, c in FRAG.items():
        ov += f"  | .{c} => {M._OVERHEAD.get(k, 0)}\n"
    if set(M._SCRIPT_TEMPLATES) | {"c:", "v:"} != set(FRAG) or {"c:", "v:"} & set(M._SCRIPT_TEMPLATES):
        raise ValueError(f"_SCRIPT_TEMPLATES keys changed: {sorted(M._SCRIPT_TEMPLATES)}")
    tp = "/-- `_SCRIPT_TEMPLATES` (``c:`` and ``v:`` are written by `_fragment_script` itself) -/\ndef template : Frag → List Part\n"
    for k, c in FRAG.items():
        parts = []
        for p in M._SCRIPT_TEMPLATES.get(k, ()):
            if isinstance(p, int):
                parts.append(f".sub {p}")
            else:
                parts.append(f".op {S.BYTE_FROM_OP_CODE_NAME[p][0]}")
        tp += f"  | .{c} => [{', '.join(parts)}]\n"
    ar = "/-- `_ARITY` -/\ndef arity : Frag → Nat\n"
    for k, c in FRAG.items():
        ar += f"  | .{c} => {M._ARITY[k]}\n"
    if set(M._DATA_SIZE) != set(HASHK) or set(M._HASH_OP_CODES) != set(HASHK):
        raise ValueError("hash fragments changed")
    ds = "/-- `_DATA_SIZE` -/\ndef dataSize : HashKind → Nat\n"
    ho = "/-- `_HASH_OP_CODES`, as bytes -/\ndef hashOp : HashKind → UInt8\n"
    hn = "def hashName : HashKind → String\n"
    for k, c in HASHK.items():
        ds += f"  | .{c.split('.')[1]} => {M._DATA_SIZE[k]}\n"
        ho += f"  | .{c.split('.')[1]} => {S.BYTE_FROM_OP_CODE_NAME[M._HASH_OP_CODES[k]][0]}\n"
        hn += f"  | .{c.split('.')[1]} => \"{k}\"\n"
    lp = M._LEAF_PROPERTIES
    if set(lp) != {"0", "1", "pk_k", "pk_h", "multi", "multi_a"} | set(HASHK):
        raise ValueError(f"_LEAF_PROPERTIES keys changed: {sorted(lp)}")
    if len({lp[h] for h in HASHK}) != 1:
        raise ValueError("the four hash fragments no longer share one type")
    leaf = "/-- `_LEAF_PROPERTIES` -/\n"
    for k, nm in (("0", "leaf0"), ("1", "leaf1"), ("pk_k", "leafPkK"), ("pk_h", "leafPkH"), ("multi", "leafMulti"),
                  ("multi_a", "leafMultiA"), ("sha256", "leafHash")):
        leaf += f"def {nm} : Props := {props_lit(lp[k])}\n"
    # _LEAF_OPS rows: (count, sat, dsat), None -> none
    lo = M._LEAF_OPS
    if set(lo) != {"0", "1", "pk_k", "pk_h", "older", "after"} | set(HASHK) or len({lo[h] for h in HASHK}) != 1 \
            or lo["older"] != lo["after"]:
        raise ValueError(f"_LEAF_OPS changed: {lo}")

    def opt(v):
        return "none" if v is None else f"some {v}"
    lops = "/-- `_LEAF_OPS`: (static op codes, satisfaction keys, dissatisfaction keys) -/\n"
    for k, nm in (("0", "leafOps0"), ("1", "leafOps1"), ("pk_k", "leafOpsPkK"), ("pk_h", "leafOpsPkH"),
                  ("older", "leafOpsLock"), ("sha256", "leafOpsHash")):
        c, s_, d_ = lo[k]
        lops += f"def {nm} : Nat × Option Nat × Option Nat := ({c}, {opt(s_)}, {opt(d_)})\n"
    # ---- the type tables
    P = "Props"
    # _mixed returns a bool: translated on its own
    fd = fn_def("_mixed")
    tr = SetTr("_mixed", [("x", "set"), ("y", "set")], {}, consts)
    body = body_of(fd)
    if len(body) != 1 or not isinstance(body[0], ast.Return):
        raise Untranslatable("miniscript._mixed: not a single return")
    mixed = "/-- translated from `miniscript._mixed` -/\ndef mixed (x : Props) (y : Props) : Bool :=\n  " + \
        tr.as_bool(body[0].value) + "\n"
    fns = [mixed, leaf_rows(consts).rstrip() + "\n"]
    fns.append(translate_fn("_wrapper_properties", "wrapperProperties",
                            [("fragment", "enum", "Wrap"), ("x", "set", P), ("context", "enum", "Ctx")], WRAP, consts))
    fns.append(translate_fn("_and_properties", "andProperties",
                            [("fragment", "enum", "Bin"), ("x", "set", P), ("y", "set", P)], BIN, consts))
    fns.append(translate_fn("_or_properties", "orProperties",
                            [("fragment", "enum", "Bin"), ("x", "set", P), ("y", "set", P)], BIN, consts))
    fns.append(translate_fn("_andor_properties", "andorProperties",
                            [("x", "set", P), ("y", "set", P), ("z", "set", P)], {}, consts))
    for k, v in sorted(consts.items()):
        out += f"def {k} : Nat := {v}\n"
    out += "\n" + ops + "\n" + ov + "\n" + tp + "\n" + ar + "\n" + ds + "\n" + ho + "\n" + hn + "\n" + leaf + "\n" + lops + "\n"
    out += "\n".join(fns)
    return out


def functions():
    return []
