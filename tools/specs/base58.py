"""Translator plugin (C06): base58 alphabet, chunk size and length cap from btclib/base58.py."""
import ast
import inspect

from btclib import base58

NS = "Base58"


def constants():
    a = bytes(base58._ALPHABET)
    base = getattr(base58, "_base58__BASE", None)
    if base is None:
        base = base58.__dict__.get("__BASE")
    if base is None:
        raise ValueError("base58.__BASE not found")
    if base58._CHUNK_BASE != base ** base58._CHUNK:
        raise ValueError("base58._CHUNK_BASE is not __BASE ** _CHUNK")
    if bytes(base58._DIGIT_OF[c] for c in a) != bytes(range(len(a))) or \
            bytes(base58._CHAR_OF[i] for i in range(len(a))) != a:
        raise ValueError("base58 translation tables are not the alphabet's index maps")
    src = ast.unparse(ast.parse(inspect.getsource(base58.decode)))
    if "if len(result) < 4:" not in src or "result[:-4], result[-4:]" not in src or "h256[:4]" not in src \
            or "if len(v) > MAX_LENGTH:" not in src:
        raise ValueError("base58.decode: checksum split / length cap guard not of the expected shape")
    src = ast.unparse(ast.parse(inspect.getsource(base58.encode)))
    if "_b58encode(v + h256[:4])" not in src:
        raise ValueError("base58.encode: unexpected shape")
    t = f"/-- `base58._ALPHABET` = {a.decode('ascii')!r} as byte values -/\n"
    t += "def ALPHABET : List Nat := [" + ", ".join(str(c) for c in a) + "]\n"
    t += f"def BASE : Nat := {int(base)}\n"
    t += f"def CHUNK : Nat := {int(base58._CHUNK)}\n"
    t += f"def MAX_LENGTH : Nat := {int(base58.MAX_LENGTH)}\n"
    t += "def CHECKSUM_LEN : Nat := 4\n"
    return t
