"""Translator plugin (C16): tags, sizes and placeholders of the interactive protocols.

Every constant the C16 models/theorems mention is read from the imported modules (values as loaded)
or off the AST where the source spells it as a literal (the BIP340 challenge tag).
"""
import ast
import inspect

from btclib import silent_payments as sp
from btclib.ecc import dleq, ecies, musig2, ssa

NS = "Interactive"


def _b(name, v, doc):
    if not isinstance(v, bytes):
        raise ValueError(f"{name}: expected bytes, found {type(v).__name__}")
    return f"/-- {doc} -/\ndef {name} : Btc.Bytes := [" + ", ".join(str(x) for x in v) + "]\n"


def _n(name, v, doc):
    if not isinstance(v, int) or isinstance(v, bool) or v < 0:
        raise ValueError(f"{name}: expected a natural number, found {v!r}")
    return f"/-- {doc} -/\ndef {name} : Nat := {v}\n"


def _challenge_tag():
    tree = ast.parse(inspect.getsource(ssa.challenge_))
    tags = [n.args[0].value for n in ast.walk(tree)
            if isinstance(n, ast.Call) and getattr(n.func, "id", "") == "tagged_hash"
            and isinstance(n.args[0], ast.Constant) and isinstance(n.args[0].value, bytes)]
    if len(tags) != 1:
        raise ValueError(f"ssa.challenge_: expected one literal tagged_hash tag, found {tags}")
    return tags[0]


def constants():
    t = ""
    t += _b("MUSIG_KEY_AGG_LIST_TAG", musig2._KEY_AGG_LIST_TAG, "`musig2._KEY_AGG_LIST_TAG`")
    t += _b("MUSIG_KEY_AGG_COEFF_TAG", musig2._KEY_AGG_COEFF_TAG, "`musig2._KEY_AGG_COEFF_TAG`")
    t += _b("MUSIG_AUX_TAG", musig2._AUX_TAG, "`musig2._AUX_TAG`")
    t += _b("MUSIG_NONCE_TAG", musig2._NONCE_TAG, "`musig2._NONCE_TAG`")
    t += _b("MUSIG_NONCE_COEFF_TAG", musig2._NONCE_COEFF_TAG, "`musig2._NONCE_COEFF_TAG`")
    t += _b("MUSIG_DET_NONCE_TAG", musig2._DET_NONCE_TAG, "`musig2._DET_NONCE_TAG`")
    t += _n("MUSIG_PK_SIZE", musig2._PK_SIZE, "`musig2._PK_SIZE`")
    t += _n("MUSIG_SCALAR_SIZE", musig2._SCALAR_SIZE, "`musig2._SCALAR_SIZE`")
    t += _n("MUSIG_NONCE_SIZE", musig2._NONCE_SIZE, "`musig2._NONCE_SIZE`")
    t += _b("MUSIG_INF_BYTES", musig2._INF_BYTES, "`musig2._INF_BYTES`")
    t += _b("BIP340_CHALLENGE_TAG", _challenge_tag(), "literal tag of `ssa.challenge_`")
    t += _b("DLEQ_AUX_TAG", dleq._AUX_TAG, "`dleq._AUX_TAG`")
    t += _b("DLEQ_NONCE_TAG", dleq._NONCE_TAG, "`dleq._NONCE_TAG`")
    t += _b("DLEQ_CHALLENGE_TAG", dleq._CHALLENGE_TAG, "`dleq._CHALLENGE_TAG`")
    t += _n("DLEQ_SCALAR_SIZE", dleq._SCALAR_SIZE, "`dleq._SCALAR_SIZE`")
    t += _n("DLEQ_PROOF_SIZE", dleq._PROOF_SIZE, "`dleq._PROOF_SIZE`")
    t += _b("SP_INPUTS_TAG", sp._INPUTS_TAG, "`silent_payments._INPUTS_TAG`")
    t += _b("SP_LABEL_TAG", sp._LABEL_TAG, "`silent_payments._LABEL_TAG`")
    t += _b("SP_SHARED_SECRET_TAG", sp._SHARED_SECRET_TAG, "`silent_payments._SHARED_SECRET_TAG`")
    t += _n("SP_LABEL_SIZE", sp._LABEL_SIZE, "`silent_payments._LABEL_SIZE`")
    t += _n("SP_MAX_LABEL", sp._MAX_LABEL, "`silent_payments._MAX_LABEL`")
    t += _n("SP_K_MAX", sp.K_MAX, "`silent_payments.K_MAX`")
    t += _n("SP_PK_SIZE", sp._PK_SIZE, "`silent_payments._PK_SIZE`")
    t += _b("ECIES_MAGIC", ecies.MAGIC, "`ecies.MAGIC`")
    t += _n("ECIES_MAGIC_SIZE", ecies._MAGIC_SIZE, "`ecies._MAGIC_SIZE`")
    t += _n("ECIES_EPH_PUB_KEY_SIZE", ecies._EPH_PUB_KEY_SIZE, "`ecies._EPH_PUB_KEY_SIZE`")
    t += _n("ECIES_MAC_SIZE", ecies._MAC_SIZE, "`ecies._MAC_SIZE`")
    t += _n("ECIES_BLOCK_SIZE", ecies._BLOCK_SIZE, "`ecies._BLOCK_SIZE`")
    return t
