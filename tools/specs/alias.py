"""INF / INFJ spellings, the catalogued curves and the window/dispatch constants of btclib.curves."""
from btclib import alias
from btclib.curves import curve, curve_group, curve_group_2

NS = "Curves"


def _lname(name):
    return name.replace("-", "_").replace(".", "_")


def constants():
    t = f"def INF : Int × Int := ({alias.INF[0]}, {alias.INF[1]})\n"
    t += f"def INFJ : Int × Int × Int := ({alias.INFJ[0]}, {alias.INFJ[1]}, {alias.INFJ[2]})\n\n"
    t += "/-- a catalogued curve as loaded: name, p, a, b, Gx, Gy, n, cofactor -/\n"
    t += "structure CurveData where\n  name : String\n  p : Int\n  a : Int\n  b : Int\n  gx : Int\n  gy : Int\n  n : Int\n  h : Int\n\n"
    names = []
    for name in sorted(curve.CURVES):
        ec = curve.CURVES[name]
        ln = _lname(name)
        names.append(ln)
        t += (f"def {ln} : CurveData := {{ name := \"{name}\", p := {ec.p}, a := {ec._a}, b := {ec._b}, "
              f"gx := {ec.G[0]}, gy := {ec.G[1]}, n := {ec.n}, h := {ec.cofactor} }}\n")
    t += "\ndef catalogue : List CurveData := [" + ", ".join(names) + "]\n\n"
    for mod, cs in ((curve_group, ["MAX_W", "_MULT_W", "_MULTI_MULT_W", "_FIXED_POINT_W", "BOS_COSTER_THRESHOLD"]),
                    (curve, ["_ENDOMORPHISM_W", "_DOUBLE_MULT_W", "_FIXED_BASE_W"])):
        for c in cs:
            t += f"def {c.lstrip('_')} : Nat := {getattr(mod, c)}\n"
    t += "\n-- secp256k1 endomorphism (GLV) constants, curve_group_2.py\n"
    for c in ["_N", "_LAM", "_BETA", "_A1", "_B1", "_A2", "_B2", "_HALF_LEN"]:
        if hasattr(curve_group_2, c):
            t += f"def glv{c} : Int := {getattr(curve_group_2, c)}\n"
    return t
