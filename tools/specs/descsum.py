"""Translator plugin (C14): BIP380 descriptor checksum tables and loop constants, regenerated from
btclib/descriptors/descriptors.py.

Values (`INPUT_CHARSET`, `CHECKSUM_CHARSET`, `GENERATOR`, `_INPUT_INDEX`) are dumped from the imported
module; the numerals of `__descsum_polymod`, `__descsum_expand`, `checksum` and the statement shape of
`strip_checksum` / `add_checksum` are read off the AST.  A body of any other shape is a translator
error (the tie is then reported broken, never silently kept).
"""
import ast
import inspect
import re

from btclib.descriptors import descriptors as D

NS = "Descsum"


def _body(name):
    f = ast.parse(inspect.getsource(getattr(D, name))).body[0]
    return [ast.unparse(s) for s in f.body
            if not (isinstance(s, ast.Expr) and isinstance(s.value, ast.Constant))]


def _match(what, pattern, text):
    m = re.fullmatch(pattern, text, re.S)
    if not m:
        raise ValueError(f"descriptors.{what}: statement `{text}` is not of the expected shape")
    return [int(g) for g in m.groups()]


def _polymod_shape():
    b = _body("__descsum_polymod")
    if len(b) != 3 or b[2] != "return chk":
        raise ValueError("descriptors.__descsum_polymod: unexpected statement structure")
    (init,) = _match("__descsum_polymod", r"chk = (\d+)", b[0])
    top, mask, shift, ngen = _match(
        "__descsum_polymod",
        r"for value in symbols:\n    top = chk >> (\d+)\n    chk = \(chk & (\d+)\) << (\d+) \^ value\n"
        r"    for i in range\((\d+)\):\n        chk \^= GENERATOR\[i\] if top >> i & 1 else 0", b[1])
    return init, top, mask, shift, ngen


def _expand_shape():
    b = _body("__descsum_expand")
    if len(b) != 5 or b[0] != "groups: list[int] = []" or b[1] != "symbols: list[int] = []" \
            or b[4] != "return symbols":
        raise ValueError("descriptors.__descsum_expand: unexpected statement structure")
    loop = re.sub(r"raise BTClibValueError\(.*?\)\n", "raise BTClibValueError()\n", b[2])
    miss, miss2, lo, sh, glen, w0, w1 = _match(
        "__descsum_expand",
        r"for char in descriptor_string:\n    index = _INPUT_INDEX.get\(char, (-?\d+)\)\n"
        r"    if index == (-?\d+):\n        raise BTClibValueError\(\)\n"
        r"    symbols.append\(index & (\d+)\)\n    groups.append\(index >> (\d+)\)\n"
        r"    if len\(groups\) == (\d+):\n"
        r"        symbols.append\(groups\[0\] \* (\d+) \+ groups\[1\] \* (\d+) \+ groups\[2\]\)\n"
        r"        groups = \[\]", loop)
    if miss != miss2 or miss >= 0:
        raise ValueError("descriptors.__descsum_expand: the missing-character sentinel is not a negative constant")
    t1, t2, w = _match(
        "__descsum_expand",
        r"if len\(groups\) == (\d+):\n    symbols.append\(groups\[0\]\)\n"
        r"elif len\(groups\) == (\d+):\n    symbols.append\(groups\[0\] \* (\d+) \+ groups\[1\]\)", b[3])
    if (glen, t1, t2) != (3, 1, 2):
        raise ValueError("descriptors.__descsum_expand: group length / tail cases are not 3 / 1 / 2")
    src = inspect.getsource(D)
    if "_INPUT_INDEX = {c: i for i, c in enumerate(INPUT_CHARSET)}" not in src:
        raise ValueError("descriptors._INPUT_INDEX is not built as {c: i for i, c in enumerate(INPUT_CHARSET)}")
    return lo, sh, w0, w1, w


def _checksum_shape():
    b = _body("checksum")
    if len(b) != 3:
        raise ValueError("descriptors.checksum: unexpected statement structure")
    m = re.fullmatch(r"symbols = \[\*__descsum_expand\(descriptor\)((?:, 0)+)\]", b[0])
    if not m:
        raise ValueError(f"descriptors.checksum: `{b[0]}` does not append zeros to the expansion")
    zeros = m.group(1).count("0")
    (final,) = _match("checksum", r"polymod = __descsum_polymod\(symbols\) \^ (\d+)", b[1])
    bits, last, mask, n = _match(
        "checksum",
        r"return ''.join\(\(CHECKSUM_CHARSET\[polymod >> (\d+) \* \((\d+) - i\) & (\d+)\] for i in range\((\d+)\)\)\)",
        b[2])
    if zeros != n or last != n - 1:
        raise ValueError("descriptors.checksum: zero padding, digit count and shift base disagree")
    return zeros, final, bits, mask
    # strip_checksum / add_checksum are matched literally below


_STRIP = [
    "body, separator, given_checksum = descriptor.partition('#')",
    "if '#' in given_checksum:\n    raise BTClibValueError()",
    "expected = checksum(body)",
    "if separator and given_checksum != expected:\n    err_msg = ''\n    raise BTClibValueError(err_msg)",
    "return body",
]
_ADD = ["body = strip_checksum(descriptor)", "return f'{body}#{checksum(body)}'"]


def _glue_shape():
    b = _body("strip_checksum")
    b = [re.sub(r"raise BTClibValueError\(f?(['\"]).*?\1\)", "raise BTClibValueError()", s, flags=re.S) for s in b]
    b = [re.sub(r"err_msg = f?(['\"]).*?\1\n", "err_msg = ''\n", s, flags=re.S) for s in b]
    if b != _STRIP:
        raise ValueError(f"descriptors.strip_checksum: unexpected body {b}")
    if _body("add_checksum") != _ADD:
        raise ValueError("descriptors.add_checksum: unexpected body")


def _chars(s):
    return "[" + ", ".join(f"Char.ofNat {ord(c)}" for c in s) + "]"


def constants():
    init, top, mask, shift, ngen = _polymod_shape()
    lo, sh, w0, w1, w = _expand_shape()
    zeros, final, bits, cmask = _checksum_shape()
    _glue_shape()
    for name in ("INPUT_CHARSET", "CHECKSUM_CHARSET"):
        s = getattr(D, name)
        if not isinstance(s, str) or any(not 32 <= ord(c) <= 126 for c in s):
            raise ValueError(f"descriptors.{name} is not printable ascii text")
    if len(D.GENERATOR) != ngen:
        raise ValueError("descriptors.GENERATOR length differs from the range of the feedback loop")
    idx = D._INPUT_INDEX
    if sorted(idx) != sorted(set(D.INPUT_CHARSET)):
        raise ValueError("descriptors._INPUT_INDEX keys are not the characters of INPUT_CHARSET")
    t = ""
    t += f"/-- `descriptors.INPUT_CHARSET` ({len(D.INPUT_CHARSET)} characters) -/\n"
    t += f"def INPUT_CHARSET : List Char := {_chars(D.INPUT_CHARSET)}\n"
    t += f"/-- `descriptors.CHECKSUM_CHARSET` = \"{D.CHECKSUM_CHARSET}\" -/\n"
    t += f"def CHECKSUM_CHARSET : List Char := {_chars(D.CHECKSUM_CHARSET)}\n"
    t += "/-- `descriptors.GENERATOR` -/\n"
    t += "def GENERATOR : List Nat := [" + ", ".join(str(int(g)) for g in D.GENERATOR) + "]\n"
    t += "/-- `descriptors._INPUT_INDEX` as built at import: (character, digit), in dict order -/\n"
    t += "def INPUT_INDEX : List (Char × Nat) := [" + \
        ", ".join(f"(Char.ofNat {ord(c)}, {int(i)})" for c, i in idx.items()) + "]\n"
    t += "/-- `__descsum_polymod`: chk starts at POLY_INIT; top = chk >> POLY_TOP; chk = (chk & POLY_MASK) << POLY_SHIFT ^ value -/\n"
    t += f"def POLY_INIT : Nat := {init}\ndef POLY_TOP : Nat := {top}\ndef POLY_MASK : Nat := {mask}\ndef POLY_SHIFT : Nat := {shift}\n"
    t += "/-- `__descsum_expand`: symbol = index & SYM_MASK, group digit = index >> GROUP_SHIFT;\n"
    t += "    three digits weigh GROUP_W0, GROUP_W1, 1; a tail of two weighs TAIL_W, 1 -/\n"
    t += f"def SYM_MASK : Nat := {lo}\ndef GROUP_SHIFT : Nat := {sh}\ndef GROUP_W0 : Nat := {w0}\ndef GROUP_W1 : Nat := {w1}\ndef TAIL_W : Nat := {w}\n"
    t += "/-- `checksum`: CHK_LEN zero symbols appended, polymod ^ CHK_FINAL, digit i = polymod >> CHK_BITS*(CHK_LEN-1-i) & CHK_MASK -/\n"
    t += f"def CHK_LEN : Nat := {zeros}\ndef CHK_FINAL : Nat := {final}\ndef CHK_BITS : Nat := {bits}\ndef CHK_MASK : Nat := {cmask}\n"
    return t
