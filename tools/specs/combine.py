"""C11 translator plugin: what the PSBT Combiner merges, read off the SOURCE AST.

Generated/Combine.lean (namespace Gen.Combine) holds
  * inCalls / outCalls / globCalls   the sequence of `_combine_field` / `_combine_optional_field` /
                                     `_combine_musig2_participants` calls inside `psbt.combine`, each with the
                                     merge rule the helper's own body implements (checked structurally),
                                     plus `tx_modifiable` (rule `modifiable`, `_combined_tx_modifiable`);
  * inFields / outFields / globFields  the universe: every dataclass field of PsbtIn / PsbtOut / Psbt with its
                                     shape (scalar | dict) and the presence test its `serialize` applies
                                     (truthy | notNone | always | never), v2-only flag;
  * inIdReads / outIdReads / globIdReads  the fields the unsigned transaction / identifier is computed from
                                     (`_unsigned_tx`, `_tx_in`, `_tx_out`, `_identifying_script`, `_sequence`,
                                     `_required_lock_times`, `Psbt.lock_time`, `PsbtIn.prev_out`);
  * signatureFields (`_SIGNATURE_FIELDS`), signWrites (attributes the Signer helpers store to),
    finalizeWrites (what `finalize`/`_clear_finalized` may overwrite), toV0Writes / toV2Writes,
    droppedOnceFinalized, and the three tx_modifiable bit constants.
A construct the walkers do not recognise raises (-> "broken" in index.json, a broken tie).
"""
import ast
import dataclasses
import inspect
import textwrap

from btclib.psbt import psbt as M
from btclib.psbt import psbt_in as MI
from btclib.psbt import psbt_out as MO

NS = "Combine"
IMPORTS = ["Model.C11.Spec"]

STRUCTURAL = {"inputs", "outputs", "version"}


def _fdef(obj):
    src = textwrap.dedent(inspect.getsource(obj))
    node = ast.parse(src).body[0]
    if not isinstance(node, (ast.FunctionDef,)):
        raise ValueError(f"not a function: {obj}")
    return node


def _prop(cls, name):
    p = inspect.getattr_static(cls, name)
    return _fdef(p.fget)


# ---------------------------------------------------------------- helper rules, from the helpers' bodies
def _is_not_name(t, name):
    return isinstance(t, ast.UnaryOp) and isinstance(t.op, ast.Not) and isinstance(t.operand, ast.Name) \
        and t.operand.id == name


def _is_none_test(t):
    return isinstance(t, ast.Compare) and len(t.ops) == 1 and isinstance(t.ops[0], ast.Is) \
        and isinstance(t.comparators[0], ast.Constant) and t.comparators[0].value is None


def helper_rule(fn):
    """Classify a merge helper by the tests its body makes: 'truthy' or 'notNone'."""
    f = _fdef(fn)
    ifs = [n for n in f.body if isinstance(n, ast.If)]
    if len(ifs) != 2:
        raise ValueError(f"{fn.__name__}: expected two top-level ifs, found {len(ifs)}")
    skip, take = ifs
    if not (len(skip.body) == 1 and isinstance(skip.body[0], ast.Return)):
        raise ValueError(f"{fn.__name__}: first if is not a bare return")
    sets = [n for n in ast.walk(take) if isinstance(n, ast.Call) and getattr(n.func, "id", "") == "setattr"]
    if len(sets) != 1:
        raise ValueError(f"{fn.__name__}: expected exactly one setattr")
    if _is_not_name(skip.test, "item") and _is_not_name(take.test, "attr"):
        # elif isinstance(item, dict): attr.update(item)
        el = take.orelse
        ok = (len(el) == 1 and isinstance(el[0], ast.If) and not el[0].orelse
              and isinstance(el[0].test, ast.Call) and getattr(el[0].test.func, "id", "") == "isinstance"
              and ast.unparse(el[0].test) == "isinstance(item, dict)"
              and ast.unparse(el[0].body[0]) == "attr.update(item)" and len(el[0].body) == 1)
        if not ok:
            raise ValueError(f"{fn.__name__}: the dict branch is not `elif isinstance(item, dict): attr.update(item)`")
        return "truthy"
    if _is_none_test(skip.test) and ast.unparse(skip.test.left) == "item" and _is_none_test(take.test) \
            and ast.unparse(take.test.left) == "getattr(out, key)" and not take.orelse:
        return "notNone"
    raise ValueError(f"{fn.__name__}: unrecognised merge rule: `{ast.unparse(skip.test)}` / `{ast.unparse(take.test)}`")


def musig_field():
    f = _fdef(M._combine_musig2_participants)
    names = {n.attr for n in ast.walk(f) if isinstance(n, ast.Attribute)
             and isinstance(n.value, ast.Name) and n.value.id in ("psbt_map", "out")}
    names -= {"items", "get"}
    if len(names) != 1:
        raise ValueError(f"_combine_musig2_participants touches {sorted(names)}")
    src = ast.unparse(f)
    if "other is not None and other != participants" not in src or "raise BTClibValueError" not in src:
        raise ValueError("_combine_musig2_participants: conflict test not recognised")
    return names.pop()


def _section_of(arg):
    s = ast.unparse(arg)
    if s == "psbt.inputs[i]":
        return "in"
    if s == "psbt.outputs[i]":
        return "out"
    if s == "psbt":
        return "glob"
    raise ValueError(f"combine: unrecognised operand expression `{s}`")


def combine_calls():
    f = _fdef(M.combine)
    rules = {"_combine_field": helper_rule(M._combine_field),
             "_combine_optional_field": helper_rule(M._combine_optional_field)}
    mf = musig_field()
    calls = {"in": [], "out": [], "glob": []}
    seen_fold = 0
    for n in ast.walk(f):
        if isinstance(n, ast.For) and ast.unparse(n.iter) == "psbts[1:]":
            seen_fold += 1
    # statements in source order
    class V(ast.NodeVisitor):
        def visit_Call(self, c):
            name = getattr(c.func, "id", "")
            if name in rules:
                sec = _section_of(c.args[0])
                tgt = ast.unparse(c.args[1])
                if {"in": "inp", "out": "out", "glob": "final_psbt"}[sec] != tgt:
                    raise ValueError(f"combine: `{ast.unparse(c)}` merges into `{tgt}`")
                if not (isinstance(c.args[2], ast.Constant) and isinstance(c.args[2].value, str)):
                    raise ValueError("combine: field name is not a literal")
                calls[sec].append((c.args[2].value, rules[name]))
            elif name == "_combine_musig2_participants":
                sec = _section_of(c.args[0])
                calls[sec].append((mf, "musig"))
            self.generic_visit(c)
    V().visit(f)
    # tx_modifiable is assigned, not folded
    assigns = [n for n in ast.walk(f) if isinstance(n, ast.Assign)
               and ast.unparse(n.targets[0]) == "final_psbt.tx_modifiable"]
    if len(assigns) != 1 or ast.unparse(assigns[0].value) != "_combined_tx_modifiable(psbts)":
        raise ValueError("combine: tx_modifiable is not `_combined_tx_modifiable(psbts)`")
    calls["glob"].append(("tx_modifiable", "modifiable"))
    if "deepcopy(list(psbts))" not in ast.unparse(f):
        raise ValueError("combine: operands are no longer deep-copied")
    return calls


def rechecks_identity():
    """does `combine` compare the identifier of what it built with the operands' before returning it?"""
    f = _fdef(M.combine)
    last = [n for n in f.body if isinstance(n, ast.If)]
    src = ast.unparse(f)
    has = "new_id = final_psbt.unique_id if version == PSBT_V2 else final_psbt.tx.id" in src and any(
        ast.unparse(n.test) == "new_id != tx_id" and any(isinstance(x, ast.Raise) for x in n.body) for n in last)
    return has


# ---------------------------------------------------------------- universe & presence
def _self_attr(node, selfnames):
    return node.attr if isinstance(node, ast.Attribute) and isinstance(node.value, ast.Name) \
        and node.value.id in selfnames else None


def presence_from_ast(fdef, module, selfnames, v2=False, acc=None, depth=0):
    """{field: (presence, v2only)} from `if self.x:` / `if self.x is not None:` guards, following
    calls to module-level `_serialized_*` helpers."""
    acc = {} if acc is None else acc

    def is_v2_test(t):
        s = ast.unparse(t)
        return s in ("psbt_version == 2", "self.version == PSBT_V2")

    def walk(stmts, v2):
        for st in stmts:
            if isinstance(st, ast.If):
                a = _self_attr(st.test, selfnames)
                if a is not None:
                    acc.setdefault(a, ("truthy", v2))
                    walk(st.body, v2)
                elif (isinstance(st.test, ast.Compare) and len(st.test.ops) == 1
                      and isinstance(st.test.ops[0], ast.IsNot)
                      and _self_attr(st.test.left, selfnames) is not None
                      and isinstance(st.test.comparators[0], ast.Constant)
                      and st.test.comparators[0].value is None):
                    acc.setdefault(_self_attr(st.test.left, selfnames), ("notNone", v2))
                    walk(st.body, v2)
                elif is_v2_test(st.test):
                    walk(st.body, True)
                    walk(st.orelse, v2)
                else:
                    walk(st.body, v2)
                    walk(st.orelse, v2)
                continue
            for c in ast.walk(st):
                if isinstance(c, ast.Call) and getattr(c.func, "id", "").startswith("_serialized_") and depth < 3:
                    h = getattr(module, c.func.id)
                    hd = _fdef(h)
                    presence_from_ast(hd, module, {hd.args.args[0].arg}, v2, acc, depth + 1)
                a = _self_attr(c, selfnames)
                if a is not None and a not in acc and isinstance(c.ctx, ast.Load):
                    unconditional.setdefault(a, v2)
    unconditional = {}
    walk(fdef.body, v2)
    for a, v in unconditional.items():
        acc.setdefault(a, ("always", v))
    return acc


def universe():
    out = {}
    # PsbtIn: the emission table
    e = MI.PsbtIn(check_validity=False)
    ser = {name for _, name, _ in MI._SERIALIZED_FIELDS}
    src = inspect.getsource(MI.PsbtIn.serialize)
    if "value is None or (not value and field not in _PRESENT_IF_NOT_NONE)" not in " ".join(src.split()):
        raise ValueError("PsbtIn.serialize: emission test not recognised")
    rows = []
    for f in dataclasses.fields(MI.PsbtIn):
        kind = "dict" if isinstance(getattr(e, f.name), dict) else "scalar"
        pres = "never" if f.name not in ser else ("notNone" if f.name in MI._PRESENT_IF_NOT_NONE else "truthy")
        rows.append((f.name, kind, pres, f.name in MI._V2_ONLY))
    out["in"] = rows
    # PsbtOut: guards in serialize and its helpers
    e = MO.PsbtOut(check_validity=False)
    pres = presence_from_ast(_fdef(MO.PsbtOut.serialize), MO, {"self"})
    rows = []
    for f in dataclasses.fields(MO.PsbtOut):
        kind = "dict" if isinstance(getattr(e, f.name), dict) else "scalar"
        p, v2 = pres.get(f.name, ("never", False))
        rows.append((f.name, kind, p, v2))
    out["out"] = rows
    e = M.Psbt(2, [], [], 2, {}, check_validity=False)
    pres = presence_from_ast(_fdef(M.Psbt.serialize), M, {"self"})
    rows = []
    for f in dataclasses.fields(M.Psbt):
        if f.name in STRUCTURAL:
            continue
        kind = "dict" if isinstance(getattr(e, f.name), dict) else "scalar"
        p, v2 = pres.get(f.name, ("never", False))
        rows.append((f.name, kind, p, v2))
    out["glob"] = rows
    return out


# ---------------------------------------------------------------- identity reads
def id_reads():
    secs = {"in": set(), "out": set(), "glob": set()}
    param_sec = {"psbt_in": "in", "psbt_out": "out", "psbt": "glob"}
    todo = [(_fdef(M._unsigned_tx), param_sec), (_fdef(M._tx_in), param_sec), (_fdef(M._tx_out), param_sec),
            (_fdef(M._identifying_script), param_sec), (_fdef(M._sequence), param_sec),
            (_fdef(M._required_lock_times), param_sec),
            (_prop(M.Psbt, "lock_time"), {"self": "glob", "psbt_in": "in"}),
            (_prop(MI.PsbtIn, "prev_out"), {"self": "in"})]
    called = set()
    for f, ps in todo:
        for n in ast.walk(f):
            if isinstance(n, ast.Attribute) and isinstance(n.value, ast.Name) and n.value.id in ps:
                secs[ps[n.value.id]].add(n.attr)
            if isinstance(n, ast.Call) and isinstance(n.func, ast.Name):
                called.add(n.func.id)
    expected = {"_tx_in", "_tx_out", "_identifying_script", "_sequence", "_required_lock_times", "_lock_time",
                "TxIn", "TxOut", "Tx", "OutPoint"}
    extra = called - expected
    if extra:
        raise ValueError(f"identifier computation calls unrecognised functions {sorted(extra)}")
    names = {"in": {f.name for f in dataclasses.fields(MI.PsbtIn)},
             "out": {f.name for f in dataclasses.fields(MO.PsbtOut)},
             "glob": {f.name for f in dataclasses.fields(M.Psbt)} - STRUCTURAL}
    return {s: sorted(secs[s] & names[s]) for s in secs}


# ---------------------------------------------------------------- role writes
MUTATORS = {"update", "pop", "clear", "setdefault", "append", "extend", "remove", "insert", "popitem", "sort",
            "reverse", "add", "discard", "__setitem__", "__delitem__"}
# methods / properties of a psbt or of one of its maps that only read
READ_MEMBERS = {"assert_valid", "assert_signable", "serialize", "to_dict", "b64encode", "tx", "lock_time", "unique_id",
                "prev_out", "sig_hash", "inputs_modifiable", "outputs_modifiable", "has_sig_hash_single",
                "inputs", "outputs", "version"}
READ_VALUE_METHODS = {"items", "keys", "values", "get", "hex", "copy", "serialize", "assert_valid", "to_bytes", "count",
                      "index", "startswith", "endswith"}
# callables that only read what they are given (builtins, and btclib readers outside psbt.py)
PURE = {"deepcopy", "copy", "len", "sorted", "list", "dict", "tuple", "set", "frozenset", "bool", "bytes", "int", "isinstance", "enumerate",
        "zip", "any", "all", "min", "max", "sum", "iter", "next", "repr", "str", "range", "cast", "fields", "getattr",
        "is_p2tr", "is_p2wpkh", "is_p2wsh", "is_p2sh", "is_p2pkh", "type_and_payload", "sha256", "hash160", "hash256",
        "ripemd160", "tagged_hash", "PsbtIn", "PsbtOut", "Witness", "BTClibValueError", "BTClibTypeError",
        "ScriptPubKey", "parse", "serialize", "estimated_input_sizes", "check_output_pubkey", "output_pubkey",
        "sign_ecdsa", "sign_schnorr", "sign_schnorr_script_path", "solver", "verify_", "assert_valid_hash_type",
        "point_from_octets", "bytes_from_octets", "op_int", "op_pushdata", "Sig"}
SECTION_OF_LIST = {"inputs": "in", "outputs": "out"}


def _immutable_type(tp):
    import types
    import typing
    if tp in (type(None), bytes, int, str, bool, float):
        return True
    origin = typing.get_origin(tp)
    if origin is typing.Literal:
        return True
    if origin in (typing.Union, types.UnionType):
        return all(_immutable_type(a) for a in typing.get_args(tp))
    if origin is tuple:
        return all(_immutable_type(a) for a in typing.get_args(tp) if a is not Ellipsis)
    if dataclasses.is_dataclass(tp) and isinstance(tp, type):
        return bool(tp.__dataclass_params__.frozen) and all(
            _immutable_type(t) for t in _hints(tp).values())
    return False


_HINTS = {}


def _hints(cls):
    import typing
    if cls not in _HINTS:
        _HINTS[cls] = {}            # cycles
        try:
            _HINTS[cls] = typing.get_type_hints(cls)
        except Exception:  # noqa: BLE001 - unresolved forward references: treated as unknown (mutable)
            _HINTS[cls] = {}
    return _HINTS[cls]


def _strip_optional(tp):
    import types
    import typing
    if typing.get_origin(tp) in (typing.Union, types.UnionType):
        args = [a for a in typing.get_args(tp) if a is not type(None)]
        if len(args) == 1:
            return args[0]
    return tp


class _Stores:
    """attributes of a psbt (section `glob`) / of its input maps (`in`) / output maps (`out`) that a role may store
    to, following local aliases (`x = psbt.inputs[i]`, `for x in psbt.inputs`, `p = deepcopy(psbt)`) and calls to
    other functions of psbt.py.  Anything that could write and is not understood RAISES (a broken tie)."""

    def __init__(self):
        self.w = {"glob": set(), "in": set(), "out": set()}
        self.done = set()
        self.depth = 0
        self.valenv = {}
        self.valtype = {}
        self.ret = {}
        self.cls = {"in": MI.PsbtIn, "out": MO.PsbtOut, "glob": M.Psbt}
        e = MI.PsbtIn(check_validity=False)
        o = MO.PsbtOut(check_validity=False)
        g = M.Psbt(2, [], [], 2, {}, check_validity=False)
        self.immutable = {sec: {n for n, t in _hints(c).items() if _immutable_type(t)}
                          for sec, c in (("in", MI.PsbtIn), ("out", MO.PsbtOut), ("glob", M.Psbt))}

    def type_of(self, e, env):
        """static type of an expression rooted at a tracked object, from the dataclasses' own annotations"""
        import typing
        sec = self.classify(e, env)
        if sec:
            return self.cls[sec]
        if isinstance(e, ast.Name):
            return self.valtype.get(e.id)
        if isinstance(e, ast.Attribute):
            bt = self.type_of(e.value, env)
            bt = _strip_optional(bt) if bt is not None else None
            if isinstance(bt, type) and dataclasses.is_dataclass(bt):
                return _hints(bt).get(e.attr)
            return None
        if isinstance(e, ast.Subscript):
            bt = self.type_of(e.value, env)
            bt = _strip_optional(bt) if bt is not None else None
            origin, args = typing.get_origin(bt), typing.get_args(bt)
            if origin in (list, tuple) and args:
                return args[0] if origin is list or (len(args) == 2 and args[1] is Ellipsis) else None
            if origin is dict and len(args) == 2:
                return args[1]
            return None
        return None

    def root_attr(self, e, env):
        """(section, attr) of the tracked field an Attribute/Subscript chain starts at"""
        while isinstance(e, (ast.Attribute, ast.Subscript)):
            if isinstance(e, ast.Attribute) and self.classify(e.value, env):
                return self.classify(e.value, env), e.attr
            e = e.value
        return None

    def classify(self, e, env):
        if isinstance(e, ast.Name):
            return env.get(e.id)
        if isinstance(e, ast.Call) and getattr(e.func, "id", "") in ("deepcopy", "copy") and e.args:
            return self.classify(e.args[0], env)
        if isinstance(e, ast.Subscript) and isinstance(e.value, ast.Attribute) and e.value.attr in SECTION_OF_LIST \
                and self.classify(e.value.value, env) == "glob":
            return SECTION_OF_LIST[e.value.attr]
        return None

    def bind_loop(self, target, it, env):
        def elem(x):   # section of the elements of an iterable expression
            if isinstance(x, ast.Attribute) and x.attr in SECTION_OF_LIST and self.classify(x.value, env) == "glob":
                return SECTION_OF_LIST[x.attr]
            return None
        if isinstance(it, ast.Call) and getattr(it.func, "id", "") == "enumerate" and isinstance(target, ast.Tuple):
            self.bind_loop(target.elts[1], it.args[0], env)
        elif isinstance(it, ast.Call) and getattr(it.func, "id", "") == "zip" and isinstance(target, ast.Tuple):
            for t, a in zip(target.elts, it.args):
                self.bind_loop(t, a, env)
        elif isinstance(target, ast.Name):
            sec = elem(it)
            if sec:
                env[target.id] = sec
            else:
                env.pop(target.id, None)

    def store_target(self, t, env, where):
        stripped = isinstance(t, ast.Subscript)
        while isinstance(t, ast.Subscript):
            t = t.value
        if isinstance(t, (ast.Tuple, ast.List)):
            for x in t.elts:
                self.store_target(x, env, where)
            return
        if isinstance(t, ast.Starred):
            return self.store_target(t.value, env, where)
        if isinstance(t, ast.Name):
            if stripped and t.id in self.valenv:          # d[k] = v  /  del d[k]   with d = psbt_in.unknown
                for sec, attr in self.valenv[t.id]:
                    self.w[sec].add(attr)
            return
        if isinstance(t, ast.Attribute):
            if isinstance(t.value, ast.Name) and t.value.id in self.valenv:     # utxo.lock_time = …
                for sec, attr in self.valenv[t.value.id]:
                    self.w[sec].add(attr)
                return
            sec = self.classify(t.value, env)
            if sec:
                self.w[sec].add(t.attr)
                return
            # x.y.z = … / x.y[k].z = …: a store THROUGH an attribute of a tracked object
            b = t.value
            while isinstance(b, (ast.Subscript, ast.Attribute)):
                if isinstance(b, ast.Attribute) and self.classify(b.value, env):
                    self.w[self.classify(b.value, env)].add(b.attr)
                    return
                b = b.value
            if isinstance(b, ast.Name) and b.id in self.valenv:
                for sec, attr in self.valenv[b.id]:
                    self.w[sec].add(attr)
                return
            if isinstance(b, ast.Name) and b.id in self.untracked_ok:
                return
            raise ValueError(f"{where}: store to `{ast.unparse(t)}` on an object the walker does not track")
        raise ValueError(f"{where}: unrecognised store target `{ast.unparse(t)}`")

    def tracked_arg(self, a, env):
        """(section, attr or None) when the argument hands a tracked object, or a mutable part of one, to the callee"""
        sec = self.classify(a, env)
        if sec:
            return sec, None
        if isinstance(a, ast.Name) and a.id in getattr(self, "valenv", {}):
            sec, attr = sorted(self.valenv[a.id])[0]
            return sec, attr
        if isinstance(a, ast.Attribute) and self.classify(a.value, env):
            s2 = self.classify(a.value, env)
            if a.attr in self.immutable[s2] or a.attr in READ_MEMBERS:
                return None
            return s2, a.attr
        return None

    # ---- aliases of mutable field VALUES:  d = psbt_in.unknown;  for d in (x.a, x.b);  d = x.a or x.b
    def value_of(self, e, env):
        """set of (section, attr) when the expression IS (one of) the mutable value(s) of tracked fields, else None"""
        if isinstance(e, ast.Name) and e.id in self.valenv:
            return set(self.valenv[e.id])

        if isinstance(e, (ast.Attribute, ast.Subscript)):
            root = self.root_attr(e, env)
            if root:
                sec, attr = root
                if attr in READ_MEMBERS:
                    return None
                t = self.type_of(e, env)
                if t is not None and _immutable_type(t):
                    return None                       # bytes, an int, a frozen TxOut …: nothing to write through
                return {(sec, attr)}
            if isinstance(e, ast.Subscript) or isinstance(e, ast.Attribute):
                inner = e.value
                while isinstance(inner, (ast.Attribute, ast.Subscript)):
                    inner = inner.value
                if isinstance(inner, ast.Name) and inner.id in self.valenv:
                    return set(self.valenv[inner.id])     # a part of an aliased value
            return None
        if isinstance(e, ast.Call) and isinstance(e.func, ast.Name) and inspect.isfunction(getattr(M, e.func.id, None)) \
                and getattr(M, e.func.id).__module__ == M.__name__ and e.func.id != "_clear_finalized":
            target = getattr(M, e.func.id)
            names = [a.arg for a in _fdef(target).args.args]
            secs = {}
            for pos, a in enumerate(e.args):
                if self.classify(a, env) and pos < len(names):
                    secs[names[pos]] = self.classify(a, env)
            for k in e.keywords:
                if self.classify(k.value, env):
                    secs[k.arg] = self.classify(k.value, env)
            if not secs:
                return None
            key = (target.__qualname__, tuple(sorted(secs.items())))
            if key not in self.ret:
                saved = (self.valenv, self.valtype, self.depth)
                self.depth += 1
                try:
                    self.run(target, secs)
                finally:
                    self.valenv, self.valtype, self.depth = saved
            return set(self.ret.get(key, set())) or None
        if isinstance(e, ast.Call) and getattr(e.func, "id", "") == "cast" and len(e.args) == 2:
            return self.value_of(e.args[1], env)
        if isinstance(e, ast.Call) and getattr(e.func, "id", "") == "getattr" and e.args \
                and self.classify(e.args[0], env):
            sec = self.classify(e.args[0], env)
            if len(e.args) >= 2 and isinstance(e.args[1], ast.Constant):
                return None if e.args[1].value in self.immutable[sec] else {(sec, e.args[1].value)}
            return {(sec, "*")}
        if isinstance(e, (ast.BoolOp, ast.IfExp)):
            parts = e.values if isinstance(e, ast.BoolOp) else [e.body, e.orelse]
            vs = [self.value_of(x, env) for x in parts]
            vs = [v for v in vs if v]
            return set().union(*vs) if vs else None
        if isinstance(e, ast.NamedExpr):
            return self.value_of(e.value, env)
        return None

    def bind_pattern(self, target, tp, attrs):
        """bind the names of a (nested) target to the parts of a value of static type `tp` that can be written through"""
        import typing
        if isinstance(target, ast.Name):
            if not _immutable_type(tp):
                self.valenv.setdefault(target.id, set()).update(attrs)
                self.valtype[target.id] = tp
            return
        if isinstance(target, (ast.Tuple, ast.List)):
            args = typing.get_args(tp) if typing.get_origin(tp) is tuple else ()
            if len(args) == len(target.elts) and Ellipsis not in args:
                for t, a in zip(target.elts, args):
                    self.bind_pattern(t, a, attrs)
                return
            for n in ast.walk(target):
                if isinstance(n, ast.Name):
                    self.valenv.setdefault(n.id, set()).update(attrs)

    def bind_value(self, target, value, env, where, elementwise=False):
        """record `target` as an alias when `value` is (or iterates over) mutable values of tracked fields"""
        if elementwise and isinstance(value, (ast.Tuple, ast.List)):
            vs = [self.value_of(x, env) for x in value.elts]
            vs = [v for v in vs if v]
            got = set().union(*vs) if vs else None
        elif elementwise:
            import typing
            got = None
            cont, how = value, "iter"
            if isinstance(value, ast.Call) and isinstance(value.func, ast.Attribute) \
                    and value.func.attr in ("values", "items", "keys"):
                cont, how = value.func.value, value.func.attr
            v = self.value_of(cont, env)
            if v:   # the elements of a mutable field may be mutable parts of it (the lists in a dict's values …)
                ct = self.type_of(cont, env)
                ct = _strip_optional(ct) if ct is not None else None
                origin, args = typing.get_origin(ct), typing.get_args(ct)
                et = None
                if origin is dict and len(args) == 2:
                    et = {"iter": args[0], "keys": args[0], "values": args[1]}.get(how)
                    if how == "items":
                        et = tuple[args[0], args[1]]
                elif origin in (list, tuple, set, frozenset) and args and how == "iter":
                    et = args[0]
                if et is not None:
                    self.bind_pattern(target, et, v)
                    return
                got = v
        else:
            got = self.value_of(value, env)
        if not got:
            return
        if any(a == "*" for _, a in got):
            raise ValueError(f"{where}: `{ast.unparse(value)}` binds a field chosen at run time to a name")
        names = [target] if isinstance(target, ast.Name) else \
            [x for x in ast.walk(target) if isinstance(x, ast.Name)] if isinstance(target, (ast.Tuple, ast.List)) else None
        if names is None:
            return                      # a store into a subscript/attribute: handled by store_target
        for n in names:
            self.valenv.setdefault(n.id, set()).update(got)

    def run(self, fn, param_secs, untracked_ok=()):
        key = (fn.__qualname__, tuple(sorted(param_secs.items())))
        if key in self.done:
            return
        self.done.add(key)
        f = _fdef(fn)
        where = fn.__qualname__
        self.untracked_ok = set(untracked_ok) | getattr(self, "untracked_ok", set())
        env = {a.arg: param_secs[a.arg] for a in f.args.args + f.args.kwonlyargs if a.arg in param_secs}
        saved_valenv = getattr(self, "valenv", {})
        saved_valtype = getattr(self, "valtype", {})
        self.valenv = {}
        self.valtype = {}
        for _ in range(2):              # twice: an alias of an alias, whatever the order ast.walk meets them in
            for st in ast.walk(f):
                if isinstance(st, ast.Assign):
                    if len(st.targets) == 1 and isinstance(st.targets[0], ast.Name):
                        sec = self.classify(st.value, env)
                        if sec:
                            env[st.targets[0].id] = sec
                    for t in st.targets:
                        if isinstance(t, (ast.Tuple, ast.List)) and isinstance(st.value, (ast.Tuple, ast.List)) \
                                and len(t.elts) == len(st.value.elts):
                            for a, b in zip(t.elts, st.value.elts):
                                self.bind_value(a, b, env, where)
                        else:
                            self.bind_value(t, st.value, env, where)
                elif isinstance(st, ast.AnnAssign) and st.value is not None:
                    self.bind_value(st.target, st.value, env, where)
                elif isinstance(st, ast.NamedExpr):
                    self.bind_value(st.target, st.value, env, where)
                elif isinstance(st, (ast.For, ast.comprehension)):
                    self.bind_loop(st.target, st.iter, env)
                    self.bind_value(st.target, st.iter, env, where, elementwise=True)
                elif isinstance(st, ast.withitem) and st.optional_vars is not None:
                    self.bind_value(st.optional_vars, st.context_expr, env, where)
        for n in ast.walk(f):
            if isinstance(n, ast.Assign):
                for t in n.targets:
                    self.store_target(t, env, where)
            elif isinstance(n, (ast.AugAssign, ast.AnnAssign)):
                self.store_target(n.target, env, where)
            elif isinstance(n, ast.Delete):
                for t in n.targets:
                    self.store_target(t, env, where)
            elif isinstance(n, ast.Call):
                self.call(n, env, where)
            elif isinstance(n, (ast.Return, ast.Yield)) and n.value is not None:
                parts = n.value.elts if isinstance(n.value, ast.Tuple) else [n.value]
                for x in parts:
                    v = self.value_of(x, env)
                    if v:
                        self.ret.setdefault(key, set()).update(v)
        self.ret.setdefault(key, set())
        self.valenv = saved_valenv
        self.valtype = saved_valtype

    def call(self, c, env, where):
        fname = c.func.id if isinstance(c.func, ast.Name) else c.func.attr if isinstance(c.func, ast.Attribute) else None
        args = list(c.args) + [k.value for k in c.keywords]
        if fname == "setattr" and c.args and self.classify(c.args[0], env):
            if isinstance(c.args[1], ast.Constant):
                self.w[self.classify(c.args[0], env)].add(c.args[1].value)
                return
            raise ValueError(f"{where}: setattr on a computed name")
        if isinstance(c.func, ast.Attribute) and isinstance(c.func.value, ast.Name) and c.func.value.id in self.valenv:
            if c.func.attr in MUTATORS:               # d.update(...) with d = psbt_in.unknown
                for sec, attr in self.valenv[c.func.value.id]:
                    self.w[sec].add(attr)
            elif c.func.attr not in READ_VALUE_METHODS:
                raise ValueError(f"{where}: `{ast.unparse(c.func)}` may write through the alias `{c.func.value.id}`")
        if isinstance(c.func, ast.Attribute):
            recv = c.func.value
            sec = self.classify(recv, env)
            if sec:                                   # psbt.method(...)
                if c.func.attr not in READ_MEMBERS:
                    raise ValueError(f"{where}: `{ast.unparse(c.func)}` is not a known read-only member")
            elif isinstance(recv, ast.Attribute) and self.classify(recv.value, env):   # psbt_in.attr.method(...)
                s2 = self.classify(recv.value, env)
                if c.func.attr in MUTATORS:
                    self.w[s2].add(recv.attr)
                elif c.func.attr not in READ_VALUE_METHODS:
                    raise ValueError(f"{where}: `{ast.unparse(c.func)}` may write to {recv.attr}")
        handed = [(a, self.tracked_arg(a, env)) for a in args]
        handed = [(a, t) for a, t in handed if t]
        if not handed:
            return
        target = getattr(M, fname, None) if isinstance(c.func, ast.Name) else None
        if target is not None and inspect.isfunction(target) and target.__module__ == M.__name__:
            if target is M._clear_finalized:
                return                                   # accounted for by role_writes (fields minus _FINALIZED_KEEPS)
            td = _fdef(target)
            names = [a.arg for a in td.args.args]
            secs = {}
            for pos, a in enumerate(c.args):
                t = self.tracked_arg(a, env)
                if t and pos < len(names):
                    if t[1] is not None:
                        raise ValueError(f"{where}: hands `{ast.unparse(a)}` (mutable) to {fname}")
                    secs[names[pos]] = t[0]
            for k in c.keywords:
                t = self.tracked_arg(k.value, env)
                if t:
                    if t[1] is not None:
                        raise ValueError(f"{where}: hands `{ast.unparse(k.value)}` (mutable) to {fname}")
                    secs[k.arg] = t[0]
            self.depth += 1
            try:
                self.run(target, secs)
            finally:
                self.depth -= 1
            return
        if fname in PURE:
            return
        raise ValueError(f"{where}: hands `{ast.unparse(handed[0][0])}` to `{fname}`, which the walker cannot see into")


def stores(fns, roots, untracked_ok=()):
    s = _Stores()
    for fn in fns:
        s.run(fn, roots, untracked_ok)
    return s.w



_SELFTEST_SRC = """
from copy import deepcopy
from typing import cast
def a1(psbt_in):
    d = psbt_in.unknown
    d[b"k"] = b"v"
def a2(psbt_in):
    d = psbt_in.unknown
    d.update({})
def a3(psbt_in):
    for d in (psbt_in.partial_sigs, psbt_in.hd_key_paths):
        d.clear()
def a4(psbt_in):
    d = psbt_in.unknown
    e = d
    del e[b"k"]
def a5(psbt_in):
    d = cast(dict, psbt_in.unknown)
    d.pop(b"k")
def a6(psbt_in):
    d = psbt_in.unknown or psbt_in.partial_sigs
    d[b"k"] = b"v"
def a7(psbt_in):
    utxo = psbt_in.non_witness_utxo
    utxo.lock_time = 1
def a8(psbt_in):
    a, b = psbt_in.unknown, psbt_in.sequence
    a[b"k"] = b
def a9(psbt_in, name):
    d = getattr(psbt_in, name)
    d.clear()
def a10(psbt_in):
    d = psbt_in.unknown
    mystery(d)
def a11(psbt_in):
    for ps in psbt_in.musig2_participant_pub_keys.values():
        ps.append(b"x")
def a12(psbt_in):
    d = psbt_in.unknown
    d.frobnicate()
def b1(psbt):
    psbt.inputs[0].sequence = 0
def b2(psbt):
    x = psbt.inputs[1]
    x.sequence = 0
def b3(psbt_in):
    del psbt_in.partial_sigs[b"k"]
def b4(psbt):
    q = deepcopy(psbt)
    mystery(q)
def b5(psbt):
    y = mystery()
    y.sequence = 1
def r1(psbt_in):
    s = psbt_in.redeem_script
    n = len(psbt_in.unknown)
    for k, v in psbt_in.partial_sigs.items():
        pass
    return sorted(psbt_in.unknown.items())
"""

_SELFTEST_EXPECT = {
    "a1": {"unknown"}, "a2": {"unknown"}, "a3": {"partial_sigs", "hd_key_paths"}, "a4": {"unknown"},
    "a5": {"unknown"}, "a6": {"unknown", "partial_sigs"}, "a7": {"non_witness_utxo"}, "a8": {"unknown"},
    "a9": ValueError, "a10": ValueError, "a11": {"musig2_participant_pub_keys"}, "a12": ValueError,
    "b1": {"sequence"}, "b2": {"sequence"}, "b3": {"partial_sigs"}, "b4": ValueError, "b5": ValueError,
    "r1": set(),
}


def walker_selftest():
    """the store walker on synthetic snippets: every write is FOLLOWED or REFUSED, never silently missed."""
    import importlib.util
    import os
    import tempfile
    d = tempfile.mkdtemp(prefix="c11walker")
    path = os.path.join(d, "c11_walker_snippets.py")
    with open(path, "w") as fh:
        fh.write(_SELFTEST_SRC)
    spec = importlib.util.spec_from_file_location("c11_walker_snippets", path)
    mod = importlib.util.module_from_spec(spec)
    spec.loader.exec_module(mod)
    roots = {"psbt": "glob", "psbt_in": "in", "psbt_out": "out"}
    bad = []
    try:
        for name, want in _SELFTEST_EXPECT.items():
            try:
                w = stores([getattr(mod, name)], roots)
                got = w["in"] | w["glob"] | w["out"]
            except ValueError:
                got = ValueError
            if got != want:
                bad.append(f"{name}: expected {want}, got {got}")
    finally:
        os.remove(path)
        os.rmdir(d)
    if bad:
        raise ValueError("store walker self-test failed: " + "; ".join(bad))


def role_writes():
    walker_selftest()
    roots = {"psbt": "glob", "self": "glob", "psbt_in": "in", "psbt_out": "out"}
    sg = stores([M.sign], roots)
    # finalize: _clear_finalized resets every dataclass field not in _FINALIZED_KEEPS
    cf = ast.unparse(_fdef(M._clear_finalized))
    if "if field.name not in _FINALIZED_KEEPS" not in cf or "for field in fields(psbt_in)" not in cf:
        raise ValueError("_clear_finalized: not the `fields(psbt_in)` minus _FINALIZED_KEEPS loop")
    fn = stores([M.finalize], roots)
    fin = ({f.name for f in dataclasses.fields(MI.PsbtIn)} - set(M._FINALIZED_KEEPS)) | fn["in"]
    v0 = stores([M.Psbt.to_v0], roots)
    v2 = stores([M.Psbt.to_v2], roots)
    for what, w in (("sign", sg), ("finalize", fn), ("to_v0", v0), ("to_v2", v2)):
        if w["out"]:
            raise ValueError(f"{what} stores to an output map: {sorted(w['out'])}")
    return dict(signIn=sg["in"], signGlob=sg["glob"], finIn=fin, finGlob=fn["glob"],
                v0In=v0["in"], v0Glob=v0["glob"], v2In=v2["in"], v2Glob=v2["glob"])


# ---------------------------------------------------------------- rendering
def _s(x):
    return '"' + x + '"'


def _strlist(xs):
    return "[" + ", ".join(_s(x) for x in xs) + "]"


def sigonly_globals():
    """the global fields `assert_signatures_only` compares one by one (beside the transaction and tx_modifiable)."""
    f = _fdef(M.assert_signatures_only)
    names = []
    for n in ast.walk(f):
        if isinstance(n, ast.Compare) and len(n.ops) == 1 and isinstance(n.ops[0], ast.NotEq):
            l, r = ast.unparse(n.left), ast.unparse(n.comparators[0])
            if l.startswith("returned.") and r == "request." + l[len("returned."):]:
                names.append(l[len("returned."):])
            if l == "getattr(returned, name)" and r == "getattr(request, name)":
                loops = [m for m in ast.walk(f) if isinstance(m, ast.For) and any(x is n for x in ast.walk(m))]
                for lp in loops:
                    if isinstance(lp.iter, (ast.Tuple, ast.List)) and all(isinstance(e, ast.Constant) for e in lp.iter.elts):
                        names += [e.value for e in lp.iter.elts]
                    else:
                        raise ValueError("assert_signatures_only: loop over a computed list of names")
    fields = {x.name for x in dataclasses.fields(M.Psbt)}
    return [n for n in names if n in fields and n not in STRUCTURAL]


# ---------------------------------------------------------------- version 0 wire form, signer-answer readers
def defaults():
    """{sec: [(field, default)]}: what `__init__` gives a field nothing was said about (what `parse` leaves in a
    field the map does not carry): none | emptyBytes | emptyDict | other."""
    objs = {"in": MI.PsbtIn(check_validity=False), "out": MO.PsbtOut(check_validity=False),
            "glob": M.Psbt(2, [], [], 2, {}, check_validity=False)}
    out = {}
    for sec, cls in (("in", MI.PsbtIn), ("out", MO.PsbtOut), ("glob", M.Psbt)):
        rows = []
        for f in dataclasses.fields(cls):
            if sec == "glob" and f.name in STRUCTURAL:
                continue
            v = getattr(objs[sec], f.name)
            rows.append((f.name, "none" if v is None else "emptyBytes" if v == b"" and isinstance(v, bytes)
                         else "emptyDict" if v == {} and isinstance(v, dict) else "other"))
        out[sec] = rows
    return out


def v0_tx_fields():
    """the fields a version 0 psbt states in its unsigned transaction: what `_read_tx_in` / `_read_tx_out` store
    and what `_settle_globals` fills from `tx` (the two counts excepted: they are the lengths of the maps)."""
    roots = {"psbt": "glob", "psbt_in": "in", "psbt_out": "out"}
    w = stores([M._read_tx_in, M._read_tx_out], roots)
    if w["glob"]:
        raise ValueError(f"_read_tx_in/_read_tx_out store to globals: {sorted(w['glob'])}")
    f = _fdef(M._settle_globals)
    first = f.body[1] if isinstance(f.body[0], ast.Expr) else f.body[0]
    if not (isinstance(first, ast.If) and ast.unparse(first.test) == "version == PSBT_V0"):
        raise ValueError("_settle_globals: the version 0 branch is not the first statement")
    glob = []
    for st in first.body:
        if isinstance(st, ast.Assign):
            t = st.targets[0]
            if not (isinstance(t, ast.Subscript) and ast.unparse(t.value) == "globals_"
                    and isinstance(t.slice, ast.Constant)):
                raise ValueError(f"_settle_globals: unrecognised store `{ast.unparse(st)}`")
            src = ast.unparse(st.value)
            if src in ("tx.version", "tx.lock_time"):
                glob.append(t.slice.value)
            elif src not in ("len(tx.vin)", "len(tx.vout)"):
                raise ValueError(f"_settle_globals: unrecognised value `{src}`")
        elif not isinstance(st, (ast.If, ast.Return)):
            raise ValueError(f"_settle_globals: unrecognised statement `{ast.unparse(st)}`")
    # and the way out: `_tx_in`, `_tx_out`, `_unsigned_tx` read exactly those (id_reads has them)
    return {"in": sorted(w["in"]), "out": sorted(w["out"]), "glob": sorted(glob)}


def v0_refused():
    """the fields `assert_valid` refuses in a version 0 psbt (the `for value, name in (...)` tables)."""
    def table(fn, root):
        names = []
        for n in ast.walk(_fdef(fn)):
            if isinstance(n, ast.For) and ast.unparse(n.target) == "(value, name)" and isinstance(n.iter, ast.Tuple):
                for e in n.iter.elts:
                    v = e.elts[0]
                    if isinstance(v, ast.BoolOp):            # `x or None`
                        v = v.values[0]
                    if not (isinstance(v, ast.Attribute) and isinstance(v.value, ast.Name) and v.value.id == root):
                        raise ValueError(f"{fn.__name__}: unrecognised entry `{ast.unparse(e)}`")
                    names.append(v.attr)
        return sorted(names)
    return {"in": table(M._assert_valid_input_fields, "psbt_in"), "out": table(M._assert_valid_output_fields, "psbt_out"),
            "glob": table(M.Psbt.assert_valid, "self")}


def signer_reads():
    """which signature fields each reader of a signer's answer looks at."""
    sig = set(M._SIGNATURE_FIELDS)

    def attrs(fn, roots):
        out = []
        for n in ast.walk(_fdef(fn)):
            if isinstance(n, ast.Attribute) and isinstance(n.value, ast.Name) and n.value.id in roots \
                    and n.attr in sig and n.attr not in out:
                out.append(n.attr)
            if isinstance(n, ast.For) and isinstance(n.iter, (ast.Tuple, ast.List)) and \
                    all(isinstance(e, ast.Constant) and e.value in sig for e in n.iter.elts):
                out += [e.value for e in n.iter.elts if e.value not in out]
        return out
    verified = attrs(M._assert_ecdsa_sigs_verify, {"psbt_in", "request_in"}) + \
        attrs(M._assert_taproot_sigs_verify, {"psbt_in", "request_in"})
    f = _fdef(M.assert_signed)
    signed, final = None, None
    for n in ast.walk(f):
        if isinstance(n, ast.Assign) and ast.unparse(n.targets[0]) == "signed" and isinstance(n.value, ast.BoolOp) \
                and isinstance(n.value.op, ast.Or):
            signed = [v.attr for v in n.value.values]
        if isinstance(n, ast.If) and isinstance(n.test, ast.BoolOp) and isinstance(n.test.op, ast.Or) and \
                all(isinstance(v, ast.Attribute) and v.attr.startswith("final_") for v in n.test.values):
            final = [v.attr for v in n.test.values]
    if signed is None or final is None:
        raise ValueError("assert_signed: `signed = a or b or c` / the finalized test not recognised")
    src = " ".join(ast.unparse(f).split())
    if "if not signed and (not allow_partial):" not in src and "if not signed and not allow_partial:" not in src:
        raise ValueError("assert_signed: the `not signed and not allow_partial` refusal not recognised")
    who = attrs(M._plain_key_signers, {"request_in", "returned_in"}) + attrs(M._taproot_signers, {"request_in", "returned_in"})
    return dict(verified=verified, signed=signed, final=final, newsigners=sorted(who))


def extract_all():
    return dict(calls=combine_calls(), universe=universe(), idreads=id_reads(), writes=role_writes(),
                sigfields=sorted(M._SIGNATURE_FIELDS), dropped=sorted(MI._DROPPED_ONCE_FINALIZED),
                sigglobals=sigonly_globals(), defaults=defaults(), v0tx=v0_tx_fields(), v0refused=v0_refused(),
                signer=signer_reads())


def constants():
    d = extract_all()
    t = "open Btc.C11\n\n"
    for sec in ("in", "out", "glob"):
        t += f"/-- `psbt.combine`: merge calls on the {sec} section, in source order -/\n"
        t += f"def {sec}Calls : List (String × Rule) := [\n  " + ",\n  ".join(
            f"({_s(n)}, Rule.{r})" for n, r in d["calls"][sec]) + "]\n\n"
    for sec in ("in", "out", "glob"):
        t += f"/-- dataclass fields of the {sec} section: name, shape, presence test of `serialize`, v2-only -/\n"
        t += f"def {sec}Fields : List FieldSpec := [\n  " + ",\n  ".join(
            f"⟨{_s(n)}, Kind.{k}, Presence.{p}, {'true' if v else 'false'}⟩" for n, k, p, v in d["universe"][sec]) + "]\n\n"
    for sec in ("in", "out", "glob"):
        t += f"/-- fields the unsigned transaction / identifier is computed from ({sec}) -/\n"
        t += f"def {sec}IdReads : List String := {_strlist(d['idreads'][sec])}\n\n"
    t += f"/-- `_SIGNATURE_FIELDS` -/\ndef signatureFields : List String := {_strlist(d['sigfields'])}\n"
    t += f"/-- global fields `assert_signatures_only` compares -/\ndef sigOnlyGlobals : List String := {_strlist(d['sigglobals'])}\n"
    t += f"/-- `_DROPPED_ONCE_FINALIZED` -/\ndef droppedOnceFinalized : List String := {_strlist(d['dropped'])}\n"
    w = d["writes"]
    for k in ("signIn", "signGlob", "finIn", "finGlob", "v0In", "v0Glob", "v2In", "v2Glob"):
        t += f"def {k}Writes : List String := {_strlist(sorted(w[k]))}\n"
    for sec in ("in", "out", "glob"):
        t += f"/-- what `__init__` / `parse` leaves in a field of the {sec} section nothing was said about -/\n"
        t += f"def {sec}Defaults : List (String × Dflt) := [\n  " + ",\n  ".join(
            f"({_s(n)}, Dflt.{v})" for n, v in d["defaults"][sec]) + "]\n"
        t += f"/-- fields of the {sec} section a version 0 psbt states in its unsigned transaction -/\n"
        t += f"def {sec}V0Tx : List String := {_strlist(d['v0tx'][sec])}\n"
        t += f"/-- fields of the {sec} section `assert_valid` refuses in a version 0 psbt -/\n"
        t += f"def {sec}V0Refused : List String := {_strlist(d['v0refused'][sec])}\n"
    sr = d["signer"]
    t += f"/-- signature fields `_assert_ecdsa_sigs_verify` / `_assert_taproot_sigs_verify` verify -/\n"
    t += f"def verifiedSigFields : List String := {_strlist(sr['verified'])}\n"
    t += f"/-- `assert_signed`: an input holding one of these is signed -/\ndef signedIfAny : List String := {_strlist(sr['signed'])}\n"
    t += f"/-- `assert_signed`: an input holding one of these is finalized -/\ndef finalizedIfAny : List String := {_strlist(sr['final'])}\n"
    t += f"/-- signature fields `new_signers` attributes -/\ndef newSignersFields : List String := {_strlist(sr['newsigners'])}\n"
    t += f"\ndef INPUTS_MODIFIABLE : Nat := {M.INPUTS_MODIFIABLE}\n"
    t += f"def OUTPUTS_MODIFIABLE : Nat := {M.OUTPUTS_MODIFIABLE}\n"
    t += f"def HAS_SIG_HASH_SINGLE : Nat := {M.HAS_SIG_HASH_SINGLE}\n"
    t += f"def PSBT_V0 : Nat := {M.PSBT_V0}\ndef PSBT_V2 : Nat := {M.PSBT_V2}\n"
    t += f"def LOCK_TIME_THRESHOLD : Nat := {MI.LOCK_TIME_THRESHOLD}\n"
    t += f"def FINAL_SEQUENCE : Nat := {M._FINAL_SEQUENCE}\n"
    t += "/-- `combine` re-computes the identifier of its result and refuses if it moved -/\n"
    t += f"def combineRechecksIdentity : Bool := {'true' if rechecks_identity() else 'false'}\n"
    return t
