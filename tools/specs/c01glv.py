"""C01: `_multiplier_decomposer` (GLV split, curve_group_2.py) translated from the source, so that a change to its
body breaks the proof obligation `Btc.C01.multiplierDecomposer_eq_generated` rather than only a stream."""
from pyfun2lean import FuncSpec
from btclib.curves import curve_group_2

NS = "C01Glv"


def functions():
    return [FuncSpec(curve_group_2, "_multiplier_decomposer", ("int", "int"))]
