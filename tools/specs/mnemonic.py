"""Translator plugin (C13): BIP39 / Electrum / BIP85 constants, regenerated from btclib/mnemonic/*.py, bip85.py.

Values are dumped from the imported modules; the literals that live inside function bodies (PBKDF2
iteration count / key size / salt prefix, the HMAC key of the Electrum version, the checksum-length rule)
are read off the AST, and a body that no longer contains the expected statement is a translator error.
"""
import ast
import inspect
import re

from btclib import bip85
from btclib.mnemonic import bip39, dispatch, electrum, entropy
from pyfun2lean import FuncSpec

NS = "Mnemonic"


def _nat_list(xs):
    return "[" + ", ".join(str(int(x)) for x in xs) + "]"


def _src(mod, name):
    return ast.unparse(ast.parse(inspect.getsource(getattr(mod, name))).body[0])


def _kdf(mod, name, prefix_re):
    src = _src(mod, name)
    it = re.search(r"iterations = (\d+)", src)
    dk = re.search(r"dksize = (\d+)", src)
    salt = re.search(prefix_re, src)
    if not (it and dk and salt) or "hf_name = 'sha512'" not in src \
            or "pbkdf2_hmac(hf_name, password, salt, iterations, dksize)" not in src \
            or "password = mnemonic.encode()" not in src:
        raise ValueError(f"{mod.__name__}.{name}: PBKDF2 call has an unexpected shape")
    return int(it.group(1)), int(dk.group(1)), salt.group(1)


def constants():
    t = ""
    if not isinstance(bip39._BIP39_WORDLIST_LENGTH, int):
        raise ValueError("bip39._BIP39_WORDLIST_LENGTH")
    t += f"/-- `bip39._BIP39_WORDLIST_LENGTH` -/\ndef BIP39_BASE : Nat := {bip39._BIP39_WORDLIST_LENGTH}\n"
    t += f"/-- `entropy._bits` -/\ndef ENTROPY_BITS : List Nat := {_nat_list(entropy._bits)}\n"
    # bip39: the checksum is one bit per 32 bits of entropy, i.e. len(bytes)//4; the split is bits*32/33
    src = _src(bip39, "_entropy_checksum")
    m_div = re.search(r"checksum_bits = len\(bytes_entropy\) // (\d+)\b", src)
    if not m_div or "checksum.zfill(256)" not in src \
            or "sha256(bytes_entropy).digest()" not in src or "checksum[:checksum_bits]" not in src:
        raise ValueError("bip39._entropy_checksum: unexpected shape")
    src = _src(bip39, "entropy_from_mnemonic")
    m_frac = re.search(r"bits = int\(len\(cs_entropy\) \* (\d+) / (\d+)\)", src)
    if not m_frac or "cs_entropy[bits:] != checksum" not in src \
            or "_entropy_checksum(cs_entropy[:bits])" not in src:
        raise ValueError("bip39.entropy_from_mnemonic: unexpected shape")
    t += "/-- bip39: checksum bits = entropy bytes // CS_DIV; entropy bits = total * CS_NUM / CS_DEN -/\n"
    t += f"def CS_DIV : Nat := {int(m_div.group(1))}\ndef CS_NUM : Nat := {int(m_frac.group(1))}\ndef CS_DEN : Nat := {int(m_frac.group(2))}\n"
    it, dk, salt = _kdf(bip39, "seed_from_mnemonic", r"salt = f'(\w+)\{passphrase\}'\.encode\(\)")
    t += f"/-- `bip39.seed_from_mnemonic`: PBKDF2-HMAC-SHA512 iterations, key size, salt prefix \"{salt}\" -/\n"
    t += f"def BIP39_ITERATIONS : Nat := {it}\ndef BIP39_DKSIZE : Nat := {dk}\ndef BIP39_SALT : List Nat := {_nat_list(salt.encode())}\n"
    it, dk, salt = _kdf(electrum, "_seed_from_mnemonic", r"salt = f'(\w+)\{_normalize\(passphrase\)\}'\.encode\(\)")
    t += f"/-- `electrum._seed_from_mnemonic`: the same for Electrum, salt prefix \"{salt}\" -/\n"
    t += f"def ELECTRUM_ITERATIONS : Nat := {it}\ndef ELECTRUM_DKSIZE : Nat := {dk}\ndef ELECTRUM_SALT : List Nat := {_nat_list(salt.encode())}\n"
    src = _src(electrum, "_seed_version")
    m = re.search(r"hmac\.new\(b'([^']*)', _normalize\(mnemonic\)\.encode\(\), sha512\)\.hexdigest\(\)", src)
    if not m:
        raise ValueError("electrum._seed_version: unexpected shape")
    t += f"/-- `electrum._seed_version`: HMAC-SHA512 key \"{m.group(1)}\" -/\ndef SEED_VERSION_KEY : List Nat := {_nat_list(m.group(1).encode())}\n"
    vs = electrum._MNEMONIC_VERSIONS
    if list(vs) != ["standard", "segwit", "2fa", "2fa_segwit"] or any(not re.fullmatch(r"[0-9a-f]+", v) for v in vs.values()):
        raise ValueError(f"electrum._MNEMONIC_VERSIONS: unexpected table {vs}")
    t += "/-- `electrum._MNEMONIC_VERSIONS` in dict order: (name, hex-digit values of the prefix) -/\n"
    t += "def MNEMONIC_VERSIONS : List (String × List Nat) := [" + ", ".join(
        f"(\"{k}\", {_nat_list(int(c, 16) for c in v)})" for k, v in vs.items()) + "]\n"
    src = _src(electrum, "_mnemonic_type")
    m_2fa = re.search(r"if mnemonic_type == '2fa' and nwords != (\d+) and \(?nwords < (\d+)\)?:", src)
    if not m_2fa or "return 'old'" not in src:
        raise ValueError("electrum._mnemonic_type: unexpected 2fa word-count rule")
    t += "/-- `electrum._mnemonic_type`: a \"2fa\" prefix counts only at TWOFA_EXACT words or at least TWOFA_MIN -/\n"
    t += f"def TWOFA_EXACT : Nat := {int(m_2fa.group(1))}\ndef TWOFA_MIN : Nat := {int(m_2fa.group(2))}\n"
    t += f"/-- `bip85._HMAC_KEY` = {bip85._HMAC_KEY!r} -/\ndef BIP85_HMAC_KEY : List Nat := {_nat_list(bip85._HMAC_KEY)}\n"
    t += f"def BIP85_PURPOSE : Nat := {int(bip85._PURPOSE)}\n"
    src = _src(bip85, "_entropy_from_der_path")
    if "hmac.new(_HMAC_KEY, xkey.key[1:], 'sha512').digest()" not in src:
        raise ValueError("bip85._entropy_from_der_path: unexpected shape")
    li = bip85._LANGUAGE_INDEXES
    if not isinstance(li, dict) or any(not isinstance(k, str) or not re.fullmatch(r"[a-z_]+", k) or not isinstance(v, int)
                                       or isinstance(v, bool) or v < 0 for k, v in li.items()):
        raise ValueError(f"bip85._LANGUAGE_INDEXES: unexpected table {li!r}")
    src = _src(bip85, "mnemonic_from_root_key")
    if "der_path = f'm/{_PURPOSE}h/39h/{_LANGUAGE_INDEXES[lang]}h/{words}h/{index}h'" not in src \
            or "mnemonic_from_entropy(entropy[:_ENTROPY_BYTES[words]], lang)" not in src:
        raise ValueError("bip85.mnemonic_from_root_key: path / truncation has an unexpected shape")
    t += "/-- `bip85._LANGUAGE_INDEXES`: word-list key -> BIP85 language code, sorted by code -/\n"
    t += "def BIP85_LANGUAGES : List (String × Nat) := [" + ", ".join(
        f"(\"{k}\", {v})" for k, v in sorted(li.items(), key=lambda kv: (kv[1], kv[0]))) + "]\n"
    apps = {}
    for fn, rx in (("wif_from_root_key", r"f'm/\{_PURPOSE\}h/(\d+)h/\{index\}h'"),
                   ("xprv_from_root_key", r"f'm/\{_PURPOSE\}h/(\d+)h/\{index\}h'"),
                   ("bytes_entropy_from_root_key", r"f'm/\{_PURPOSE\}h/(\d+)h/\{num_bytes\}h/\{index\}h'"),
                   ("base64_password_from_root_key", r"f'm/\{_PURPOSE\}h/(\d+)h/\{pwd_len\}h/\{index\}h'"),
                   ("base85_password_from_root_key", r"f'm/\{_PURPOSE\}h/(\d+)h/\{pwd_len\}h/\{index\}h'"),
                   ("rolls_from_root_key", r"f'm/\{_PURPOSE\}h/(\d+)h/\{sides\}h/\{rolls\}h/\{index\}h'")):
        mm = re.search(rx, _src(bip85, fn))
        if not mm:
            raise ValueError(f"bip85.{fn}: derivation path has an unexpected shape")
        apps[fn] = int(mm.group(1))
    t += "/-- the application numbers in the derivation paths of bip85's functions: (function, application) -/\n"
    t += "def BIP85_APPLICATIONS : List (String × Nat) := [(\"bip39\", 39), " + ", ".join(
        f"(\"{k}\", {v})" for k, v in apps.items()) + "]\n"
    bounds = []
    for fn, var, lo, hi in (("bytes_entropy_from_root_key", "num_bytes", "_MIN_BYTES", "_MAX_BYTES"),
                            ("base64_password_from_root_key", "pwd_len", "_MIN_B64_LEN", "_MAX_B64_LEN"),
                            ("base85_password_from_root_key", "pwd_len", "_MIN_B85_LEN", "_MAX_B85_LEN")):
        if f"if not {lo} <= {var} <= {hi}:" not in _src(bip85, fn):
            raise ValueError(f"bip85.{fn}: the bounds check has an unexpected shape")
        bounds.append((fn, int(getattr(bip85, lo)), int(getattr(bip85, hi))))
    for fn, cut in (("bytes_entropy_from_root_key", "return entropy[:num_bytes]"),
                    ("base64_password_from_root_key", "return b64encode(entropy).decode('ascii')[:pwd_len]"),
                    ("base85_password_from_root_key", "return b85encode(entropy).decode('ascii')[:pwd_len]"),
                    ("wif_from_root_key", "return wif_from_prv_key(entropy[:32], network, compressed=True)"),
                    ("xprv_from_root_key", "chain_code=entropy[:32], key=b'\\x00' + entropy[32:]")):
        if cut not in _src(bip85, fn):
            raise ValueError(f"bip85.{fn}: expected `{cut}`")
    t += "/-- the inclusive bounds of bip85's sized applications: (function, minimum, maximum) -/\n"
    t += "def BIP85_BOUNDS : List (String × Nat × Nat) := [" + ", ".join(f"(\"{f}\", {a}, {b})" for f, a, b in bounds) + "]\n"
    eb = bip85._ENTROPY_BYTES
    t += "/-- `bip85._ENTROPY_BYTES`: words -> entropy bytes -/\n"
    t += "def BIP85_ENTROPY_BYTES : List (Nat × Nat) := [" + ", ".join(f"({k}, {v})" for k, v in sorted(eb.items())) + "]\n"
    # dispatch: the word counts BIP39 defines, and the checksum verdict is asked for the language the caller NAMED
    wc = dispatch._BIP39_WORD_COUNTS
    if not isinstance(wc, tuple) or any(not isinstance(x, int) for x in wc):
        raise ValueError(f"dispatch._BIP39_WORD_COUNTS: {wc!r}")
    src = _src(dispatch, "_bip39_seed_type")
    if "indexes_from_mnemonic(mnemonic, lang)" not in src or "bip39.entropy_from_mnemonic(mnemonic, lang)" not in src \
            or "if len(words) not in _BIP39_WORD_COUNTS:" not in src or "if not words:" not in src:
        raise ValueError("dispatch._bip39_seed_type: word lookup / checksum verification is not done in the named language")
    src = _src(dispatch, "all_seed_types_from_mnemonic")
    order = [src.find("_slip39_seed_type(mnemonic)"), src.find("electrum.version_from_mnemonic(mnemonic)"),
             src.find("_bip39_seed_type(mnemonic, lang)")]
    if -1 in order or order != sorted(order) or "f'electrum_{version}'" not in src:
        raise ValueError("dispatch.all_seed_types_from_mnemonic: unexpected order / shape")
    t += f"/-- `dispatch._BIP39_WORD_COUNTS` -/\ndef BIP39_WORD_COUNTS : List Nat := {_nat_list(wc)}\n"
    # Electrum's pre-2.0 codec: three words per 32-bit group, the 2nd and 3rd as offsets (old_mnemonic.mn_encode/decode)
    src = _src(electrum, "old_mnemonic_from_hex_seed")
    for frag in ("base = len(wordlist)", "group = int(hex_seed[8 * i:8 * i + 8], 16)", "first = group % base",
                 "second = (group // base + first) % base", "third = (group // base // base + second) % base",
                 "words += [wordlist[first], wordlist[second], wordlist[third]]", "if len(hex_seed) % 8:"):
        if frag not in src:
            raise ValueError(f"electrum.old_mnemonic_from_hex_seed: expected `{frag}`")
    src = _src(electrum, "hex_seed_from_old_mnemonic")
    for frag in ("base = len(_old_wordlist())", "for i in range(len(words) // 3):", "group = first",
                 "group += base * ((second - first) % base)", "group += base * base * ((third - second) % base)",
                 "hex_seed += f'{group:08x}'", "words[3 * i:3 * i + 3]"):
        if frag not in src:
            raise ValueError(f"electrum.hex_seed_from_old_mnemonic: expected `{frag}`")
    m_old = re.search(r"return is_hex or \(uses_old_words and len\(words\) in \{(\d+), (\d+)\}\)", _src(electrum, "_is_old_mnemonic"))
    if not m_old:
        raise ValueError("electrum._is_old_mnemonic: unexpected word-count rule")
    old_words = list(electrum._old_wordlist())
    t += "/-- `len(electrum._old_wordlist())`: the base of the pre-2.0 codec; the word counts `_is_old_mnemonic` takes -/\n"
    t += f"def OLD_BASE : Nat := {len(old_words)}\ndef OLD_WORD_COUNTS : List Nat := [{int(m_old.group(1))}, {int(m_old.group(2))}]\n"
    # every shipped word list, as the loaders read it: (registry/language, number of words, SHA-256 of the words joined
    # by "\n" in UTF-8).  Checked here, on the lists themselves: no duplicate, no empty word, no blank inside a word,
    # every word NFKD-normal (what `WordLists.index` looks up).  A changed file changes this module.
    import hashlib
    import unicodedata
    from btclib.mnemonic.mnemonic import WORDLISTS
    rows = []
    lists = [(f"bip39/{lang}", list(WORDLISTS.wordlist(lang))) for lang in WORDLISTS.languages]
    lists += [(f"electrum/{lang}", list(electrum.ELECTRUM_WORDLISTS.wordlist(lang))) for lang in electrum.ELECTRUM_WORDLISTS.languages]
    lists += [("electrum/old", old_words)]
    for name, words in lists:
        if len(set(words)) != len(words):
            dup = sorted({w for w in words if words.count(w) > 1})[:3]
            raise ValueError(f"word list {name}: duplicate words {dup}: word -> index is not a function")
        bad = [w for w in words if not w or len(w.split()) != 1 or w != w.strip() or unicodedata.normalize("NFKD", w) != w]
        if bad:
            raise ValueError(f"word list {name}: words that are empty, hold a blank or are not NFKD-normal: {bad[:3]}")
        rows.append((name, len(words), hashlib.sha256("\n".join(words).encode()).hexdigest()))
    t += "/-- every shipped word list as loaded: (registry/language, words, SHA-256 of the \"\\n\"-joined words); the translator\n"
    t += "    refuses a list with a duplicate, empty, blank-holding or non-NFKD word -/\n"
    t += "def WORDLISTS : List (String × Nat × String) := [" + ",\n  ".join(f"(\"{n}\", {k}, \"{h}\")" for n, k, h in rows) + "]\n"
    # electrum: the candidate search of mnemonic_from_entropy and the BIP39 skip rule (Electrum's bip39_is_checksum_valid)
    src = _src(electrum, "_is_bip39_mnemonic")
    m_wc = re.search(r"if len\(words\) not in \{([\d, ]+)\}:\s+return False", src)
    m_cs = re.search(r"checksum_bits = (\d+) \* len\(words\) // (\d+)\b", src)
    m_by = re.search(r"bytes_entropy = \(int_entropy >> checksum_bits\)\.to_bytes\((\d+) \* checksum_bits, 'big'\)", src)
    m_cmp = re.search(r"return int_entropy % \(1 << checksum_bits\) == hashed >> (\d+) - checksum_bits", src)
    if not (m_wc and m_cs and m_by and m_cmp) or "int_entropy = int_entropy * base + index" not in src \
            or "hashed = int.from_bytes(sha256(bytes_entropy).digest(), byteorder='big')" not in src \
            or "base = ELECTRUM_WORDLISTS.language_length(lang)" not in src:
        raise ValueError("electrum._is_bip39_mnemonic: unexpected shape")
    t += "/-- `electrum._is_bip39_mnemonic`: word counts asked at all; checksum bits = EL_CS_NUM * words // EL_CS_DEN; entropy on\n"
    t += "    EL_CS_BYTES * checksum_bits bytes; compared with the top bits of an EL_HASH_BITS-bit hash -/\n"
    t += f"def EL_BIP39_WORDS : List Nat := {_nat_list(sorted(int(x) for x in m_wc.group(1).split(',')))}\n"
    t += f"def EL_CS_NUM : Nat := {int(m_cs.group(1))}\ndef EL_CS_DEN : Nat := {int(m_cs.group(2))}\n"
    t += f"def EL_CS_BYTES : Nat := {int(m_by.group(1))}\ndef EL_HASH_BITS : Nat := {int(m_cmp.group(1))}\n"
    src = _src(electrum, "_search_mnemonic")
    shape = ("nonce = 0", "while True:", "nonce += 1", "candidate = int_entropy + nonce",
             "mnemonic = _mnemonic_from_int_entropy(candidate, lang)",
             "if candidate != int(_bin_str_entropy_from_mnemonic(mnemonic, lang), 2):",
             "if _is_old_mnemonic(mnemonic) or _is_bip39_mnemonic(mnemonic, lang):\n            continue",
             "if _seed_version(mnemonic).startswith(version):\n            return mnemonic")
    pos = [src.find(s) for s in shape]
    m_n0, m_n1 = re.search(r"nonce = (\d+)\n", src), re.search(r"nonce \+= (\d+)\n", src)
    if -1 in pos or pos != sorted(pos) or not m_n0 or not m_n1:
        raise ValueError("electrum._search_mnemonic: unexpected shape of the candidate loop")
    src = _src(electrum, "mnemonic_from_entropy")
    shape = ("if mnemonic_type not in _MNEMONIC_VERSIONS:", "int(bin_str_entropy_from_entropy(entropy), 2)",
             "mnemonic = _search_mnemonic(int_entropy, _MNEMONIC_VERSIONS[mnemonic_type], lang)",
             "found = _mnemonic_type(mnemonic)", "if found != mnemonic_type:", "return mnemonic")
    pos = [src.find(s) for s in shape]
    if -1 in pos or pos != sorted(pos):
        raise ValueError("electrum.mnemonic_from_entropy: unexpected shape (search, then the read-back check)")
    t += "/-- `electrum._search_mnemonic`: the first candidate is int_entropy + SEARCH_FIRST, each next one SEARCH_STEP further\n"
    t += "    (shape of the loop and of `mnemonic_from_entropy`'s read-back check verified by the translator) -/\n"
    t += f"def SEARCH_FIRST : Nat := {int(m_n0.group(1)) + int(m_n1.group(1))}\ndef SEARCH_STEP : Nat := {int(m_n1.group(1))}\n"
    return t


def functions():
    return [FuncSpec(entropy, "_bits_per_digit", "int")]
