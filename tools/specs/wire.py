"""Translator plugin for C05 (wire classes): the constants the codec theorems mention, read from the
call sites of the current source (caps of the CompactSize counts, segwit marker, fixed sizes, p2p
envelope layout, PSBT emission order)."""
import ast
import inspect
import textwrap

NS = "Wire"


def _caps(obj, modns):
    """second arguments of the `var_int.parse(stream, CAP)` calls inside obj, in source order, evaluated
    in the module's namespace."""
    tree = ast.parse(textwrap.dedent(inspect.getsource(obj)))
    out = []
    for n in ast.walk(tree):
        if isinstance(n, ast.Call) and ast.unparse(n.func) == "var_int.parse" and len(n.args) == 2:
            out.append((n.lineno, n.col_offset, eval(compile(ast.Expression(n.args[1]), "<cap>", "eval"), modns)))
    return [v for _, _, v in sorted(out)]


def _bytes(b):
    return "[" + ", ".join(str(x) for x in b) + "]"


def constants():
    from btclib.tx import tx as tx_mod
    from btclib.script import witness as wit_mod
    from btclib.block import block as block_mod, block_header as bh_mod
    from btclib.p2p import message as msg_mod
    from btclib.p2p.limits import MAX_PROTOCOL_MESSAGE_LENGTH
    from btclib.psbt import psbt_in

    caps = _caps(tx_mod.Tx.parse, vars(tx_mod))
    if len(caps) != 2:
        raise ValueError(f"Tx.parse: expected two capped counts, found {caps}")
    wcaps = _caps(wit_mod.Witness.parse, vars(wit_mod))
    if len(wcaps) != 1:
        raise ValueError(f"Witness.parse: expected one capped count, found {wcaps}")
    bcaps = _caps(block_mod.Block.parse, vars(block_mod))
    if len(bcaps) != 1:
        raise ValueError(f"Block.parse: expected one capped count, found {bcaps}")
    t = ""
    t += f"/-- `Tx.parse`: cap of the input count -/\ndef MAX_TX_IN_COUNT : Nat := {caps[0]}\n"
    t += f"/-- `Tx.parse`: cap of the output count -/\ndef MAX_TX_OUT_COUNT : Nat := {caps[1]}\n"
    t += f"/-- `Witness.parse`: cap of the stack item count -/\ndef MAX_WITNESS_STACK_ITEMS : Nat := {wcaps[0]}\n"
    t += f"/-- `Block.parse`: cap of the transaction count -/\ndef MAX_BLOCK_TX_COUNT : Nat := {bcaps[0]}\n"
    t += f"def SEGWIT_MARKER : Btc.Bytes := {_bytes(tx_mod._SEGWIT_MARKER)}\n"
    t += f"def HEADER_LENGTH : Nat := {bh_mod._REQUIRED_LENGTH}\n"
    t += f"def HEADER_HASH_LEN : Nat := {bh_mod._HF_LEN}\n"
    t += f"def MSG_MAGIC_SIZE : Nat := {msg_mod._MAGIC_SIZE}\n"
    t += f"def MSG_COMMAND_SIZE : Nat := {msg_mod._COMMAND_SIZE}\n"
    t += f"def MSG_LENGTH_SIZE : Nat := {msg_mod._LENGTH_SIZE}\n"
    t += f"def MSG_CHECKSUM_SIZE : Nat := {msg_mod._CHECKSUM_SIZE}\n"
    t += f"def MSG_FIRST_PRINTABLE : Nat := {msg_mod._FIRST_PRINTABLE}\n"
    t += f"def MSG_LAST_PRINTABLE : Nat := {msg_mod._LAST_PRINTABLE}\n"
    t += f"def MAX_PROTOCOL_MESSAGE_LENGTH : Nat := {MAX_PROTOCOL_MESSAGE_LENGTH}\n"

    from btclib.p2p import address as addr_mod, inventory as inv_mod
    t += f"/-- `Addr.parse`: cap of the address count -/\ndef MAX_ADDR_TO_SEND : Nat := {addr_mod.MAX_ADDR_TO_SEND}\n"
    t += f"/-- `Inv/GetData/NotFound.parse`: cap of the item count -/\ndef MAX_INV_SZ : Nat := {inv_mod.MAX_INV_SZ}\n"
    t += f"/-- `GetBlocks/GetHeaders.parse`: cap of the locator count -/\ndef MAX_LOCATOR_SZ : Nat := {inv_mod.MAX_LOCATOR_SZ}\n"
    t += f"/-- `Headers.parse`: cap of the header count -/\ndef MAX_HEADERS_RESULTS : Nat := {inv_mod.MAX_HEADERS_RESULTS}\n"

    from btclib.p2p import block_filters as bf_mod
    t += f"/-- `CFHeaders.parse`: cap of the filter hash count -/\ndef MAX_GETCFHEADERS_SIZE : Nat := {bf_mod.MAX_GETCFHEADERS_SIZE}\n"

    def order(fields):
        # emission order of a PSBT map: (type byte, or 256 for `unknown`) in the order of _SERIALIZED_FIELDS
        out = []
        for type_, name, _ in fields:
            if name == "unknown":
                out.append(256)
            else:
                if len(type_) != 1:
                    raise ValueError(f"psbt field {name}: type marker {type_!r}")
                out.append(type_[0])
        if out.count(256) != 1 or len(set(out)) != len(out):
            raise ValueError(f"psbt emission order malformed: {out}")
        return out

    t += ("/-- `PsbtIn.serialize`: emission order of the field types (256 = the `unknown` records) -/\n"
          f"def PSBT_IN_ORDER : List Nat := {order(psbt_in._SERIALIZED_FIELDS)}\n")
    # typed layer of PsbtIn: the tables the parser and the serializer are driven by
    name_type = {name: type_[0] for type_, name, _ in psbt_in._SERIALIZED_FIELDS if name != "unknown"}

    def types_of(names, what):
        missing = [n for n in names if n not in name_type]
        if missing:
            raise ValueError(f"{what}: fields without a type marker: {missing}")
        return sorted(name_type[n] for n in names)

    def lst(xs):
        return "[" + ", ".join(str(x) for x in xs) + "]"

    t += f"/-- `_WHOLE_VALUE_FIELDS`: one record per field, key = the type byte alone -/\ndef PSBT_IN_WHOLE : List Nat := {lst(sorted(k[0] for k in psbt_in._WHOLE_VALUE_FIELDS))}\n"
    t += f"/-- `_KEY_DATA_FIELDS`: one record per key data -/\ndef PSBT_IN_KEYED : List Nat := {lst(sorted(k[0] for k in psbt_in._KEY_DATA_FIELDS))}\n"
    t += f"/-- `_V2_FIELDS`: refused when parsing a version 0 input -/\ndef PSBT_IN_V2 : List Nat := {lst(sorted(k[0] for k in psbt_in._V2_FIELDS))}\n"
    t += f"/-- `_PRESENT_IF_NOT_NONE`: written whenever present, whatever the value -/\ndef PSBT_IN_PRESENT_IF_NOT_NONE : List Nat := {lst(types_of(psbt_in._PRESENT_IF_NOT_NONE, '_PRESENT_IF_NOT_NONE'))}\n"
    t += f"/-- `_DROPPED_ONCE_FINALIZED` -/\ndef PSBT_IN_DROPPED_ONCE_FINALIZED : List Nat := {lst(types_of(psbt_in._DROPPED_ONCE_FINALIZED, '_DROPPED_ONCE_FINALIZED'))}\n"
    def by_fn(table, idx, fn_name):
        return sorted(k[0] for k, v in table.items() if getattr(v[idx], "__qualname__", getattr(v[idx], "__name__", "")) == fn_name)

    t += f"/-- whole-value fields read by `_deserialize_uint32` -/\ndef PSBT_IN_UINT32 : List Nat := {lst(by_fn(psbt_in._WHOLE_VALUE_FIELDS, 2, '_deserialize_uint32'))}\n"
    t += f"/-- whole-value fields read by `_deserialize_previous_tx_id` -/\ndef PSBT_IN_TXID : List Nat := {lst(by_fn(psbt_in._WHOLE_VALUE_FIELDS, 2, '_deserialize_previous_tx_id'))}\n"
    t += f"/-- key-data fields whose value is a `BIP32KeyOrigin` -/\ndef PSBT_IN_KEYORIGIN : List Nat := {lst(by_fn(psbt_in._KEY_DATA_FIELDS, 1, 'BIP32KeyOrigin.parse'))}\n"
    t += f"/-- key-data fields read by `parse_leaf_script` -/\ndef PSBT_IN_LEAF : List Nat := {lst(by_fn(psbt_in._KEY_DATA_FIELDS, 1, 'parse_leaf_script'))}\n"
    t += f"/-- key-data fields read by `parse_taproot_bip32` -/\ndef PSBT_IN_TAPBIP32 : List Nat := {lst(by_fn(psbt_in._KEY_DATA_FIELDS, 1, 'parse_taproot_bip32'))}\n"
    t += f"/-- key-data fields read by `parse_musig2_participant_pub_keys` -/\ndef PSBT_IN_MUSIG : List Nat := {lst(by_fn(psbt_in._KEY_DATA_FIELDS, 1, 'parse_musig2_participant_pub_keys'))}\n"
    t += f"/-- `_V2_ONLY`: not written when serializing at version 0 -/\ndef PSBT_IN_V2_ONLY : List Nat := {lst(types_of(psbt_in._V2_ONLY, '_V2_ONLY'))}\n"
    # the fields `finalized = bool(self.a or self.b)` reads in PsbtIn.serialize
    ser_tree = ast.parse(textwrap.dedent(inspect.getsource(psbt_in.PsbtIn.serialize)))
    fin_names = []
    for n in ast.walk(ser_tree):
        if isinstance(n, ast.Assign) and getattr(n.targets[0], "id", "") == "finalized":
            fin_names = [a.attr for a in ast.walk(n.value) if isinstance(a, ast.Attribute)]
    if not fin_names:
        raise ValueError("PsbtIn.serialize: `finalized = …` not found")
    t += f"/-- the fields whose truth makes an input finalized (`PsbtIn.serialize`) -/\ndef PSBT_IN_FINALS : List Nat := {lst(types_of(fin_names, 'finalized'))}\n"
    t += f"def PSBT_IN_FINAL_SCRIPTSIG : Nat := {psbt_in.PSBT_IN_FINAL_SCRIPTSIG[0]}\n"
    t += f"def PSBT_IN_FINAL_SCRIPTWITNESS : Nat := {psbt_in.PSBT_IN_FINAL_SCRIPTWITNESS[0]}\n"
    t += f"def PSBT_IN_NON_WITNESS_UTXO : Nat := {psbt_in.PSBT_IN_NON_WITNESS_UTXO[0]}\n"
    t += f"def PSBT_IN_WITNESS_UTXO : Nat := {psbt_in.PSBT_IN_WITNESS_UTXO[0]}\n"
    t += _psbt_out_tables()
    t += _psbt_global_tables()
    return t


def _emission(mod, fn_node, funcs, prefix):
    """(order, written-under-`is not None`) of the serialize_* calls of fn_node, helpers inlined in call order"""
    order, not_none = [], []

    def const_of(node):
        if isinstance(node, ast.Name) and node.id.startswith(prefix):
            return getattr(mod, node.id)[0]
        if isinstance(node, ast.Constant) and node.value == b"":
            return 256
        return None

    class V(ast.NodeVisitor):
        def __init__(self):
            self.nn = 0

        def visit_If(self, node):
            t_ = node.test
            nn = (isinstance(t_, ast.Compare) and isinstance(t_.ops[0], ast.IsNot)
                  and isinstance(t_.comparators[0], ast.Constant) and t_.comparators[0].value is None)
            self.nn += nn
            for b in node.body:
                self.visit(b)
            self.nn -= nn
            for b in node.orelse:
                self.visit(b)

        def visit_Call(self, node):
            name = getattr(node.func, "id", "")
            if name in funcs and name.startswith("_serialized"):
                self.visit(funcs[name])
                return
            if name.startswith("serialize") and node.args:
                c = const_of(node.args[0])
                if c is not None:
                    order.append(c)
                    if self.nn:
                        not_none.append(c)
                    for a in node.args[1:]:
                        self.visit(a)
                    return
            self.generic_visit(node)

    V().visit(fn_node)
    return order, not_none


def _psbt_global_tables():
    from btclib.psbt import psbt as m
    modtree = ast.parse(inspect.getsource(m))
    funcs = {n.name: n for n in modtree.body if isinstance(n, ast.FunctionDef)}
    cls = next(n for n in modtree.body if isinstance(n, ast.ClassDef) and n.name == "Psbt")
    meth = {n.name: n for n in cls.body if isinstance(n, ast.FunctionDef)}
    order, not_none = _emission(m, meth["serialize"], funcs, "PSBT_GLOBAL_")
    if len(set(order)) != len(order) or order.count(256) != 1:
        raise ValueError(f"Psbt.serialize: emission order malformed: {order}")
    # fields of the dispatch of _parse_global_map: `X[k[1:]] = …` under the branch makes a key-data field
    keyed, whole = [], [k[0] for k in m._V2_GLOBAL_PARSERS]
    for n in ast.walk(funcs["_parse_global_map"]):
        if isinstance(n, ast.If) and isinstance(n.test, ast.Compare) and ast.unparse(n.test.left) == "type_" \
                and isinstance(n.test.ops[0], ast.Eq) and isinstance(n.test.comparators[0], ast.Name):
            c = getattr(m, n.test.comparators[0].id)[0]
            is_keyed = any(isinstance(x, ast.Subscript) and ast.unparse(x.slice) == "k[1:]" for b in n.body for x in ast.walk(b))
            (keyed if is_keyed else whole).append(c)
    if set(keyed) & set(whole) or set(keyed + whole) != set(order) - {256}:
        raise ValueError(f"_parse_global_map: field tables malformed: whole={whole} keyed={keyed} order={order}")
    always = sorted(c for c in (m.PSBT_GLOBAL_TX_VERSION[0], m.PSBT_GLOBAL_INPUT_COUNT[0], m.PSBT_GLOBAL_OUTPUT_COUNT[0]))

    def lst(xs):
        return "[" + ", ".join(str(x) for x in xs) + "]"

    t = f"/-- `Psbt.serialize`: emission order of the global map (256 = `unknown`) -/\ndef PSBT_GLOBAL_ORDER : List Nat := {lst(order)}\n"
    t += f"def PSBT_GLOBAL_WHOLE : List Nat := {lst(sorted(whole))}\n"
    t += f"def PSBT_GLOBAL_KEYED : List Nat := {lst(sorted(keyed))}\n"
    t += f"/-- `_V2_GLOBAL_FIELDS` -/\ndef PSBT_GLOBAL_V2 : List Nat := {lst(sorted(k[0] for k in m._V2_GLOBAL_FIELDS))}\n"
    t += f"/-- written under `is not None`, or unconditionally in their version (`_settle_globals` requires them) -/\ndef PSBT_GLOBAL_PRESENT_IF_NOT_NONE : List Nat := {lst(sorted(set(not_none) | set(always)))}\n"
    t += f"def PSBT_GLOBAL_REQUIRED_V2 : List Nat := {lst(always)}\n"
    t += f"def PSBT_GLOBAL_UNSIGNED_TX : Nat := {m.PSBT_GLOBAL_UNSIGNED_TX[0]}\n"
    t += f"def PSBT_GLOBAL_VERSION : Nat := {m.PSBT_GLOBAL_VERSION[0]}\n"
    t += f"def PSBT_GLOBAL_UINT32 : List Nat := {lst(sorted([m.PSBT_GLOBAL_TX_VERSION[0], m.PSBT_GLOBAL_FALLBACK_LOCKTIME[0], m.PSBT_GLOBAL_VERSION[0]]))}\n"
    t += f"def PSBT_GLOBAL_COUNTS : List Nat := {lst(sorted([m.PSBT_GLOBAL_INPUT_COUNT[0], m.PSBT_GLOBAL_OUTPUT_COUNT[0]]))}\n"
    t += f"def PSBT_GLOBAL_TX_MODIFIABLE : Nat := {m.PSBT_GLOBAL_TX_MODIFIABLE[0]}\n"
    t += f"def PSBT_GLOBAL_XPUB : Nat := {m.PSBT_GLOBAL_XPUB[0]}\n"
    return t


def _psbt_out_tables():
    """tables of PsbtOut, read off the syntax tree of `PsbtOut.serialize` (with the `_serialized_*` helpers it
    calls, in call order) and `PsbtOut.parse`"""
    from btclib.psbt import psbt_out as m
    modtree = ast.parse(inspect.getsource(m))
    funcs = {n.name: n for n in modtree.body if isinstance(n, ast.FunctionDef)}
    cls = next(n for n in modtree.body if isinstance(n, ast.ClassDef) and n.name == "PsbtOut")
    meth = {n.name: n for n in cls.body if isinstance(n, ast.FunctionDef)}

    def const_of(node):
        if isinstance(node, ast.Name) and node.id.startswith("PSBT_OUT_"):
            return getattr(m, node.id)[0]
        if isinstance(node, ast.Constant) and node.value == b"":
            return 256
        return None

    order, not_none = [], []

    class V(ast.NodeVisitor):
        def __init__(self):
            self.in_not_none = 0

        def visit_If(self, node):
            t_ = node.test
            nn = (isinstance(t_, ast.Compare) and isinstance(t_.ops[0], ast.IsNot)
                  and isinstance(t_.comparators[0], ast.Constant) and t_.comparators[0].value is None)
            self.in_not_none += nn
            for b in node.body:
                self.visit(b)
            self.in_not_none -= nn
            for b in node.orelse:
                self.visit(b)

        def visit_Call(self, node):
            name = getattr(node.func, "id", "")
            if name in funcs and name.startswith("_serialized"):
                self.visit(funcs[name])
                return
            if name.startswith("serialize") and node.args:
                c = const_of(node.args[0])
                if c is not None:
                    order.append(c)
                    if self.in_not_none:
                        not_none.append(c)
                    return
            self.generic_visit(node)

    V().visit(meth["serialize"])
    if len(set(order)) != len(order) or order.count(256) != 1:
        raise ValueError(f"PsbtOut.serialize: emission order malformed: {order}")
    parse = meth["parse"]
    keyed, whole = [], []
    for n in ast.walk(parse):
        if isinstance(n, ast.AnnAssign) and getattr(n.target, "id", "") == "key_data_fields" and isinstance(n.value, ast.Dict):
            keyed = [const_of(k) for k in n.value.keys]
        if isinstance(n, ast.Compare) and isinstance(n.ops[0], ast.Eq) and ast.unparse(n.left) == "k[:1]":
            c = const_of(n.comparators[0])
            if c is not None:
                whole.append(c)
    whole += [k[0] for k in m._SP_FIELDS]
    if not keyed or None in keyed or set(keyed) & set(whole) or set(keyed + whole) != set(order) - {256}:
        raise ValueError(f"PsbtOut.parse: field tables malformed: whole={whole} keyed={keyed} order={order}")

    def lst(xs):
        return "[" + ", ".join(str(x) for x in xs) + "]"

    t = f"/-- `PsbtOut.serialize`: emission order (256 = the `unknown` records) -/\ndef PSBT_OUT_ORDER : List Nat := {lst(order)}\n"
    t += f"/-- `PsbtOut.parse`: whole-value fields -/\ndef PSBT_OUT_WHOLE : List Nat := {lst(sorted(whole))}\n"
    t += f"/-- `PsbtOut.parse`: key-data fields -/\ndef PSBT_OUT_KEYED : List Nat := {lst(sorted(keyed))}\n"
    t += f"/-- `psbt_out._V2_FIELDS` -/\ndef PSBT_OUT_V2 : List Nat := {lst(sorted(k[0] for k in m._V2_FIELDS))}\n"
    t += f"/-- fields `PsbtOut.serialize` writes under `is not None` -/\ndef PSBT_OUT_PRESENT_IF_NOT_NONE : List Nat := {lst(sorted(not_none))}\n"
    return t


def functions():
    return []
