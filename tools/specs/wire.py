"""Translator plugin for C05 (wire classes): the constants the codec theorems mention, read from the
call sites of the current source (caps of the CompactSize counts, segwit marker, fixed sizes, p2p
envelope layout, PSBT emission order)."""
import ast
import inspect
import textwrap

NS = "Wire"


def _caps(obj, modns):
    """second arguments of the `var_int.parse(stream, CAP)` calls inside obj, in source order, evaluated
    in the module's namespace."""
    tree = ast.parse(textwrap.dedent(inspect.getsource(obj)))
    out = []
    for n in ast.walk(tree):
        if isinstance(n, ast.Call) and ast.unparse(n.func) == "var_int.parse" and len(n.args) == 2:
            out.append((n.lineno, n.col_offset, eval(compile(ast.Expression(n.args[1]), "<cap>", "eval"), modns)))
    return [v for _, _, v in sorted(out)]


def _bytes(b):
    return "[" + ", ".join(str(x) for x in b) + "]"


def constants():
    from btclib.tx import tx as tx_mod
    from btclib.script import witness as wit_mod
    from btclib.block import block as block_mod, block_header as bh_mod
    from btclib.p2p import message as msg_mod
    from btclib.p2p.limits import MAX_PROTOCOL_MESSAGE_LENGTH
    from btclib.psbt import psbt_in

    caps = _caps(tx_mod.Tx.parse, vars(tx_mod))
    if len(caps) != 2:
        raise ValueError(f"Tx.parse: expected two capped counts, found {caps}")
    wcaps = _caps(wit_mod.Witness.parse, vars(wit_mod))
    if len(wcaps) != 1:
        raise ValueError(f"Witness.parse: expected one capped count, found {wcaps}")
    bcaps = _caps(block_mod.Block.parse, vars(block_mod))
    if len(bcaps) != 1:
        raise ValueError(f"Block.parse: expected one capped count, found {bcaps}")
    t = ""
    t += f"/-- `Tx.parse`: cap of the input count -/\ndef MAX_TX_IN_COUNT : Nat := {caps[0]}\n"
    t += f"/-- `Tx.parse`: cap of the output count -/\ndef MAX_TX_OUT_COUNT : Nat := {caps[1]}\n"
    t += f"/-- `Witness.parse`: cap of the stack item count -/\ndef MAX_WITNESS_STACK_ITEMS : Nat := {wcaps[0]}\n"
    t += f"/-- `Block.parse`: cap of the transaction count -/\ndef MAX_BLOCK_TX_COUNT : Nat := {bcaps[0]}\n"
    t += f"def SEGWIT_MARKER : Btc.Bytes := {_bytes(tx_mod._SEGWIT_MARKER)}\n"
    t += f"def HEADER_LENGTH : Nat := {bh_mod._REQUIRED_LENGTH}\n"
    t += f"def HEADER_HASH_LEN : Nat := {bh_mod._HF_LEN}\n"
    t += f"def MSG_MAGIC_SIZE : Nat := {msg_mod._MAGIC_SIZE}\n"
    t += f"def MSG_COMMAND_SIZE : Nat := {msg_mod._COMMAND_SIZE}\n"
    t += f"def MSG_LENGTH_SIZE : Nat := {msg_mod._LENGTH_SIZE}\n"
    t += f"def MSG_CHECKSUM_SIZE : Nat := {msg_mod._CHECKSUM_SIZE}\n"
    t += f"def MSG_FIRST_PRINTABLE : Nat := {msg_mod._FIRST_PRINTABLE}\n"
    t += f"def MSG_LAST_PRINTABLE : Nat := {msg_mod._LAST_PRINTABLE}\n"
    t += f"def MAX_PROTOCOL_MESSAGE_LENGTH : Nat := {MAX_PROTOCOL_MESSAGE_LENGTH}\n"

    from btclib.p2p import address as addr_mod, inventory as inv_mod
    t += f"/-- `Addr.parse`: cap of the address count -/\ndef MAX_ADDR_TO_SEND : Nat := {addr_mod.MAX_ADDR_TO_SEND}\n"
    t += f"/-- `Inv/GetData/NotFound.parse`: cap of the item count -/\ndef MAX_INV_SZ : Nat := {inv_mod.MAX_INV_SZ}\n"
    t += f"/-- `GetBlocks/GetHeaders.parse`: cap of the locator count -/\ndef MAX_LOCATOR_SZ : Nat := {inv_mod.MAX_LOCATOR_SZ}\n"
    t += f"/-- `Headers.parse`: cap of the header count -/\ndef MAX_HEADERS_RESULTS : Nat := {inv_mod.MAX_HEADERS_RESULTS}\n"

    from btclib.p2p import block_filters as bf_mod
    t += f"/-- `CFHeaders.parse`: cap of the filter hash count -/\ndef MAX_GETCFHEADERS_SIZE : Nat := {bf_mod.MAX_GETCFHEADERS_SIZE}\n"

    def order(fields):
        # emission order of a PSBT map: (type byte, or 256 for `unknown`) in the order of _SERIALIZED_FIELDS
        out = []
        for type_, name, _ in fields:
            if name == "unknown":
                out.append(256)
            else:
                if len(type_) != 1:
                    raise ValueError(f"psbt field {name}: type marker {type_!r}")
                out.append(type_[0])
        if out.count(256) != 1 or len(set(out)) != len(out):
            raise ValueError(f"psbt emission order malformed: {out}")
        return out

    t += ("/-- `PsbtIn.serialize`: emission order of the field types (256 = the `unknown` records) -/\n"
          f"def PSBT_IN_ORDER : List Nat := {order(psbt_in._SERIALIZED_FIELDS)}\n")
    # typed layer of PsbtIn: the tables the parser and the serializer are driven by
    name_type = {name: type_[0] for type_, name, _ in psbt_in._SERIALIZED_FIELDS if name != "unknown"}

    def types_of(names, what):
        missing = [n for n in names if n not in name_type]
        if missing:
            raise ValueError(f"{what}: fields without a type marker: {missing}")
        return sorted(name_type[n] for n in names)

    def lst(xs):
        return "[" + ", ".join(str(x) for x in xs) + "]"

    t += f"/-- `_WHOLE_VALUE_FIELDS`: one record per field, key = the type byte alone -/\ndef PSBT_IN_WHOLE : List Nat := {lst(sorted(k[0] for k in psbt_in._WHOLE_VALUE_FIELDS))}\n"
    t += f"/-- `_KEY_DATA_FIELDS`: one record per key data -/\ndef PSBT_IN_KEYED : List Nat := {lst(sorted(k[0] for k in psbt_in._KEY_DATA_FIELDS))}\n"
    t += f"/-- `_V2_FIELDS`: refused when parsing a version 0 input -/\ndef PSBT_IN_V2 : List Nat := {lst(sorted(k[0] for k in psbt_in._V2_FIELDS))}\n"
    t += f"/-- `_PRESENT_IF_NOT_NONE`: written whenever present, whatever the value -/\ndef PSBT_IN_PRESENT_IF_NOT_NONE : List Nat := {lst(types_of(psbt_in._PRESENT_IF_NOT_NONE, '_PRESENT_IF_NOT_NONE'))}\n"
    t += f"/-- `_DROPPED_ONCE_FINALIZED` -/\ndef PSBT_IN_DROPPED_ONCE_FINALIZED : List Nat := {lst(types_of(psbt_in._DROPPED_ONCE_FINALIZED, '_DROPPED_ONCE_FINALIZED'))}\n"
    t += f"/-- `_V2_ONLY`: not written when serializing at version 0 -/\ndef PSBT_IN_V2_ONLY : List Nat := {lst(types_of(psbt_in._V2_ONLY, '_V2_ONLY'))}\n"
    # the fields `finalized = bool(self.a or self.b)` reads in PsbtIn.serialize
    ser_tree = ast.parse(textwrap.dedent(inspect.getsource(psbt_in.PsbtIn.serialize)))
    fin_names = []
    for n in ast.walk(ser_tree):
        if isinstance(n, ast.Assign) and getattr(n.targets[0], "id", "") == "finalized":
            fin_names = [a.attr for a in ast.walk(n.value) if isinstance(a, ast.Attribute)]
    if not fin_names:
        raise ValueError("PsbtIn.serialize: `finalized = …` not found")
    t += f"/-- the fields whose truth makes an input finalized (`PsbtIn.serialize`) -/\ndef PSBT_IN_FINALS : List Nat := {lst(types_of(fin_names, 'finalized'))}\n"
    t += f"def PSBT_IN_FINAL_SCRIPTSIG : Nat := {psbt_in.PSBT_IN_FINAL_SCRIPTSIG[0]}\n"
    t += f"def PSBT_IN_FINAL_SCRIPTWITNESS : Nat := {psbt_in.PSBT_IN_FINAL_SCRIPTWITNESS[0]}\n"
    t += f"def PSBT_IN_NON_WITNESS_UTXO : Nat := {psbt_in.PSBT_IN_NON_WITNESS_UTXO[0]}\n"
    t += f"def PSBT_IN_WITNESS_UTXO : Nat := {psbt_in.PSBT_IN_WITNESS_UTXO[0]}\n"
    t += _psbt_out_tables()
    t += _psbt_global_tables()
    t += _kinds_tables()
    t += _json_tables()
    return t


def _emission(mod, fn_node, funcs, prefix):
    """(order, written-under-`is not None`, written-under-a-version-2-test, written-under-a-version-0-test,
    written-under-no-test-of-the-value) of the serialize_* calls of fn_node, helpers inlined in call order"""
    order, not_none, v2_only, v0_only, uncond = [], [], [], [], []

    def const_of(node):
        if isinstance(node, ast.Name) and node.id.startswith(prefix):
            return getattr(mod, node.id)[0]
        if isinstance(node, ast.Constant) and node.value == b"":
            return 256
        return None

    def test_kind(t_):
        if (isinstance(t_, ast.Compare) and isinstance(t_.ops[0], ast.IsNot)
                and isinstance(t_.comparators[0], ast.Constant) and t_.comparators[0].value is None):
            return "nn"
        u = ast.unparse(t_)
        if u in ("psbt_version == 2", "self.version == PSBT_V2", "psbt_version == PSBT_V2"):
            return "v2"
        if u in ("psbt_version == 0", "self.version == PSBT_V0", "psbt_version == PSBT_V0"):
            return "v0"
        return "other"

    class V(ast.NodeVisitor):
        def __init__(self):
            self.ctx = []

        def visit_If(self, node):
            self.ctx.append(test_kind(node.test))
            for b in node.body:
                self.visit(b)
            self.ctx.pop()
            # an `elif` / `else` arm is under the negation of the test: neither a version arm nor a value test
            self.ctx.append("else")
            for b in node.orelse:
                self.visit(b)
            self.ctx.pop()

        def visit_Call(self, node):
            name = getattr(node.func, "id", "")
            if name in funcs and name.startswith("_serialized"):
                self.visit(funcs[name])
                return
            if name.startswith("serialize") and node.args:
                c = const_of(node.args[0])
                if c is not None:
                    order.append(c)
                    if "nn" in self.ctx:
                        not_none.append(c)
                    if "v2" in self.ctx:
                        v2_only.append(c)
                    if "v0" in self.ctx:
                        v0_only.append(c)
                    if not any(x in ("nn", "other") for x in self.ctx):
                        uncond.append(c)
                    for a in node.args[1:]:
                        self.visit(a)
                    return
            self.generic_visit(node)

    V().visit(fn_node)
    return order, not_none, v2_only, v0_only, uncond


def _psbt_global_tables():
    from btclib.psbt import psbt as m
    modtree = ast.parse(inspect.getsource(m))
    funcs = {n.name: n for n in modtree.body if isinstance(n, ast.FunctionDef)}
    cls = next(n for n in modtree.body if isinstance(n, ast.ClassDef) and n.name == "Psbt")
    meth = {n.name: n for n in cls.body if isinstance(n, ast.FunctionDef)}
    order, not_none, v2_only, v0_only, always = _emission(m, meth["serialize"], funcs, "PSBT_GLOBAL_")
    if len(set(order)) != len(order) or order.count(256) != 1:
        raise ValueError(f"Psbt.serialize: emission order malformed: {order}")
    # fields of the dispatch of _parse_global_map: `X[k[1:]] = …` under the branch makes a key-data field
    keyed, whole = [], [k[0] for k in m._V2_GLOBAL_PARSERS]
    for n in ast.walk(funcs["_parse_global_map"]):
        if isinstance(n, ast.If) and isinstance(n.test, ast.Compare) and ast.unparse(n.test.left) == "type_" \
                and isinstance(n.test.ops[0], ast.Eq) and isinstance(n.test.comparators[0], ast.Name):
            c = getattr(m, n.test.comparators[0].id)[0]
            is_keyed = any(isinstance(x, ast.Subscript) and ast.unparse(x.slice) == "k[1:]" for b in n.body for x in ast.walk(b))
            (keyed if is_keyed else whole).append(c)
    if set(keyed) & set(whole) or set(keyed + whole) != set(order) - {256}:
        raise ValueError(f"_parse_global_map: field tables malformed: whole={whole} keyed={keyed} order={order}")
    always = sorted(c for c in always if c in v2_only)     # written whenever the version is 2, whatever the value

    def lst(xs):
        return "[" + ", ".join(str(x) for x in xs) + "]"

    t = f"/-- `Psbt.serialize`: emission order of the global map (256 = `unknown`) -/\ndef PSBT_GLOBAL_ORDER : List Nat := {lst(order)}\n"
    t += f"def PSBT_GLOBAL_WHOLE : List Nat := {lst(sorted(whole))}\n"
    t += f"def PSBT_GLOBAL_KEYED : List Nat := {lst(sorted(keyed))}\n"
    t += f"/-- `_V2_GLOBAL_FIELDS` -/\ndef PSBT_GLOBAL_V2 : List Nat := {lst(sorted(k[0] for k in m._V2_GLOBAL_FIELDS))}\n"
    t += f"/-- written under `is not None`, or unconditionally in their version (`_settle_globals` requires them) -/\ndef PSBT_GLOBAL_PRESENT_IF_NOT_NONE : List Nat := {lst(sorted(set(not_none) | set(always)))}\n"
    t += f"/-- written only under the version 2 arm of `Psbt.serialize` -/\ndef PSBT_GLOBAL_V2_ONLY : List Nat := {lst(sorted(v2_only))}\n"
    t += f"/-- written only under the version 0 arm of `Psbt.serialize` -/\ndef PSBT_GLOBAL_V0_WRITTEN : List Nat := {lst(sorted(v0_only))}\n"
    t += f"def PSBT_GLOBAL_UNSIGNED_TX : Nat := {m.PSBT_GLOBAL_UNSIGNED_TX[0]}\n"
    t += f"def PSBT_GLOBAL_VERSION : Nat := {m.PSBT_GLOBAL_VERSION[0]}\n"
    return t


def _psbt_out_tables():
    """tables of PsbtOut, read off the syntax tree of `PsbtOut.serialize` (with the `_serialized_*` helpers it
    calls, in call order) and `PsbtOut.parse`"""
    from btclib.psbt import psbt_out as m
    modtree = ast.parse(inspect.getsource(m))
    funcs = {n.name: n for n in modtree.body if isinstance(n, ast.FunctionDef)}
    cls = next(n for n in modtree.body if isinstance(n, ast.ClassDef) and n.name == "PsbtOut")
    meth = {n.name: n for n in cls.body if isinstance(n, ast.FunctionDef)}

    def const_of(node):
        if isinstance(node, ast.Name) and node.id.startswith("PSBT_OUT_"):
            return getattr(m, node.id)[0]
        if isinstance(node, ast.Constant) and node.value == b"":
            return 256
        return None

    order, not_none, v2_only, _v0, _un = _emission(m, meth["serialize"], funcs, "PSBT_OUT_")
    if len(set(order)) != len(order) or order.count(256) != 1:
        raise ValueError(f"PsbtOut.serialize: emission order malformed: {order}")
    parse = meth["parse"]
    keyed, whole = [], []
    for n in ast.walk(parse):
        if isinstance(n, ast.AnnAssign) and getattr(n.target, "id", "") == "key_data_fields" and isinstance(n.value, ast.Dict):
            keyed = [const_of(k) for k in n.value.keys]
        if isinstance(n, ast.Compare) and isinstance(n.ops[0], ast.Eq) and ast.unparse(n.left) == "k[:1]":
            c = const_of(n.comparators[0])
            if c is not None:
                whole.append(c)
    whole += [k[0] for k in m._SP_FIELDS]
    if not keyed or None in keyed or set(keyed) & set(whole) or set(keyed + whole) != set(order) - {256}:
        raise ValueError(f"PsbtOut.parse: field tables malformed: whole={whole} keyed={keyed} order={order}")

    def lst(xs):
        return "[" + ", ".join(str(x) for x in xs) + "]"

    t = f"/-- `PsbtOut.serialize`: emission order (256 = the `unknown` records) -/\ndef PSBT_OUT_ORDER : List Nat := {lst(order)}\n"
    t += f"/-- `PsbtOut.parse`: whole-value fields -/\ndef PSBT_OUT_WHOLE : List Nat := {lst(sorted(whole))}\n"
    t += f"/-- `PsbtOut.parse`: key-data fields -/\ndef PSBT_OUT_KEYED : List Nat := {lst(sorted(keyed))}\n"
    t += f"/-- `psbt_out._V2_FIELDS` -/\ndef PSBT_OUT_V2 : List Nat := {lst(sorted(k[0] for k in m._V2_FIELDS))}\n"
    t += f"/-- fields `PsbtOut.serialize` writes under `is not None` -/\ndef PSBT_OUT_PRESENT_IF_NOT_NONE : List Nat := {lst(sorted(not_none))}\n"
    t += f"/-- fields `PsbtOut.serialize` writes under `if psbt_version == 2` only -/\ndef PSBT_OUT_V2_ONLY : List Nat := {lst(sorted(v2_only))}\n"
    return t


# ---------------------------------------------------------------------------------------------------
# value kinds: which deserializer reads the value of each field type, read off the syntax trees of the
# parse tables / parse functions (so that the value-check dispatch of the typed-layer model is regenerated)
VK = {"BYTES": 0, "UINT": 1, "SINT": 2, "FIXED": 3, "TX": 4, "UNSIGNED_TX": 5, "TXOUT": 6, "WITNESS": 7,
      "KEYORIGIN": 8, "LEAF": 9, "TAPBIP32": 10, "MUSIG": 11, "TAPTREE": 12, "COUNT": 13}
_BASE = {"BIP32KeyOrigin.parse": "KEYORIGIN", "parse_leaf_script": "LEAF", "parse_taproot_bip32": "TAPBIP32",
         "parse_musig2_participant_pub_keys": "MUSIG", "parse_taproot_tree": "TAPTREE",
         "deserialize_count": "COUNT", "TxOut.parse": "TXOUT", "Witness.parse": "WITNESS"}
_PRIORITY = ["TxOut.parse", "Witness.parse", "deserialize_tx", "deserialize_sized_int", "deserialize_count",
             "BIP32KeyOrigin.parse", "parse_leaf_script", "parse_taproot_bip32",
             "parse_musig2_participant_pub_keys", "parse_taproot_tree", "deserialize_bytes"]


def _const(node):
    if isinstance(node, ast.Constant):
        return node.value
    raise ValueError(f"not a literal: {ast.unparse(node)}")


def _kind_of_nodes(nodes, funcs, depth=0):
    """(kind name, size) of the value deserializer a piece of syntax calls"""
    calls = {}
    for root in nodes:
        for n in ast.walk(root):
            if isinstance(n, ast.Call):
                calls.setdefault(ast.unparse(n.func), n)
    for name in _PRIORITY:
        if name not in calls:
            continue
        c = calls[name]
        if name == "deserialize_sized_int":
            signed = any(k.arg == "signed" and _const(k.value) is True for k in c.keywords)
            return ("SINT" if signed else "UINT", int(_const(c.args[3])))
        if name == "deserialize_tx":
            tmpl = any(k.arg == "unsigned_template" and _const(k.value) is True for k in c.keywords)
            strict = len(c.args) > 3 and _const(c.args[3]) is False
            if tmpl != strict:
                raise ValueError(f"deserialize_tx call of an unknown shape: {ast.unparse(c)}")
            return ("UNSIGNED_TX" if tmpl else "TX", 0)
        if name == "deserialize_bytes":
            for root in nodes:      # `if len(x) != N: raise` after it makes a fixed-size field
                for n in ast.walk(root):
                    if (isinstance(n, ast.Compare) and isinstance(n.ops[0], ast.NotEq) and isinstance(n.left, ast.Call)
                            and ast.unparse(n.left.func) == "len" and ast.unparse(n.left.args[0]) != "k"
                            and isinstance(n.comparators[0], ast.Constant)):
                        return ("FIXED", int(n.comparators[0].value))
            return ("BYTES", 0)
        return (_BASE[name], 0)
    # a helper of the module, called by name
    for name, c in calls.items():
        if name in funcs and depth < 3:
            return _kind_of_nodes(funcs[name].body, funcs, depth + 1)
    return None


def _kind_of_callable(node, funcs):
    if isinstance(node, ast.Name) and node.id == "bytes":
        return ("BYTES", 0)
    name = ast.unparse(node)
    if name in _BASE:
        return (_BASE[name], 0)
    if name == "deserialize_tx":          # the defaults: either encoding, a complete transaction
        return ("TX", 0)
    if name == "deserialize_bytes":
        return ("BYTES", 0)
    if isinstance(node, ast.Lambda):
        r = _kind_of_nodes([node.body], funcs)
    elif isinstance(node, ast.Name) and node.id in funcs:
        r = _kind_of_nodes(funcs[node.id].body, funcs)
    else:
        r = _kind_of_nodes([ast.Expr(ast.Call(node, [], []))], funcs)
    if r is None:
        raise ValueError(f"value deserializer of an unknown shape: {name}")
    return r


def _module_trees(*mods):
    funcs = {}
    for mod in mods:
        for n in ast.parse(inspect.getsource(mod)).body:
            if isinstance(n, ast.FunctionDef):
                funcs.setdefault(n.name, n)
    return funcs


def _dict_literal(tree, name):
    for n in ast.walk(tree):
        if isinstance(n, (ast.Assign, ast.AnnAssign)):
            tgt = n.targets[0] if isinstance(n, ast.Assign) else n.target
            if getattr(tgt, "id", "") == name and isinstance(n.value, ast.Dict):
                return n.value
    raise ValueError(f"table {name} not found")


def _branches(fn_node, lhs, mod, prefix):
    """{type: body} of the `if/elif <lhs> == CONST:` chain of fn_node"""
    out = {}
    for n in ast.walk(fn_node):
        if isinstance(n, ast.If) and isinstance(n.test, ast.Compare) and ast.unparse(n.test.left) == lhs \
                and isinstance(n.test.ops[0], ast.Eq) and isinstance(n.test.comparators[0], ast.Name) \
                and n.test.comparators[0].id.startswith(prefix):
            out[getattr(mod, n.test.comparators[0].id)[0]] = n.body
    return out


def _lst3(rows):
    return "[" + ", ".join(f"({t}, {VK[k]}, {s})" for t, (k, s) in sorted(rows.items())) + "]"


def _hd_types(cls_node, ser_nodes, mod, prefix, table=None):
    """field types whose dict goes through `decode_hd_key_paths` (hence `assert_valid_hd_key_paths`) in __init__:
    the types written by `serialize_hd_key_paths`, provided __init__ calls the decoder"""
    init = next(n for n in cls_node.body if isinstance(n, ast.FunctionDef) and n.name == "__init__")
    if not any(isinstance(n, ast.Call) and ast.unparse(n.func) == "decode_hd_key_paths" for n in ast.walk(init)):
        return []
    out = []
    if table is not None:
        for type_, _name, fn in table:
            if getattr(fn, "__name__", "") == "serialize_hd_key_paths":
                out.append(type_[0])
    for root in ser_nodes:
        for n in ast.walk(root):
            if isinstance(n, ast.Call) and ast.unparse(n.func) == "serialize_hd_key_paths" and isinstance(n.args[0], ast.Name) \
                    and n.args[0].id.startswith(prefix):
                out.append(getattr(mod, n.args[0].id)[0])
    return sorted(set(out))


def _kinds_tables():
    from btclib.psbt import psbt_in as mi, psbt_out as mo, psbt as mg, psbt_utils as mu
    from btclib.bip32 import key_origin as ko
    from btclib.tx import tx as tx_mod
    from btclib import amount as amount_mod

    def lst(xs):
        return "[" + ", ".join(str(x) for x in xs) + "]"

    t = "/-- value kinds: which deserializer reads the value of a field (codes used by the `*_KINDS` tables) -/\n"
    for k, v in VK.items():
        t += f"def VK_{k} : Nat := {v}\n"
    # ---- PsbtIn: the two parse tables
    fi = _module_trees(mi, mu)
    ti = ast.parse(inspect.getsource(mi))
    rows = {}
    for tbl in ("_WHOLE_VALUE_FIELDS", "_KEY_DATA_FIELDS"):
        d = _dict_literal(ti, tbl)
        for k, v in zip(d.keys, d.values):
            rows[getattr(mi, k.id)[0]] = _kind_of_callable(v.elts[-1], fi)
    if set(rows) != {k[0] for k in mi._WHOLE_VALUE_FIELDS} | {k[0] for k in mi._KEY_DATA_FIELDS}:
        raise ValueError("PsbtIn parse tables: literal and object disagree")
    t += f"/-- (type, value kind, size) of every field of `PsbtIn.parse` -/\ndef PSBT_IN_KINDS : List (Nat × Nat × Nat) := {_lst3(rows)}\n"
    cls_in = next(n for n in ti.body if isinstance(n, ast.ClassDef) and n.name == "PsbtIn")
    t += f"/-- `PsbtIn`: dicts that go through `assert_valid_hd_key_paths` whatever `check_validity` says -/\ndef PSBT_IN_HD : List Nat := {lst(_hd_types(cls_in, [], mi, 'PSBT_IN_', mi._SERIALIZED_FIELDS))}\n"
    # ---- PsbtOut: the dispatch of `parse`, `_SP_FIELDS`, `key_data_fields`
    fo = _module_trees(mo, mu)
    to = ast.parse(inspect.getsource(mo))
    cls_out = next(n for n in to.body if isinstance(n, ast.ClassDef) and n.name == "PsbtOut")
    meth_o = {n.name: n for n in cls_out.body if isinstance(n, ast.FunctionDef)}
    rows = {}
    for ty, body in _branches(meth_o["parse"], "k[:1]", mo, "PSBT_OUT_").items():
        r = _kind_of_nodes(body, fo)
        if r is None:
            raise ValueError(f"PsbtOut.parse: branch of type {ty} calls no known deserializer")
        rows[ty] = r
    for name in ("_SP_FIELDS",):
        d = _dict_literal(to, name)
        for k, v in zip(d.keys, d.values):
            rows[getattr(mo, k.id)[0]] = _kind_of_callable(v.elts[-1], fo)
    d = _dict_literal(meth_o["parse"], "key_data_fields")
    for k, v in zip(d.keys, d.values):
        rows[getattr(mo, k.id)[0]] = _kind_of_callable(v.elts[-1], fo)
    t += f"/-- (type, value kind, size) of every field of `PsbtOut.parse` -/\ndef PSBT_OUT_KINDS : List (Nat × Nat × Nat) := {_lst3(rows)}\n"
    ser_o = [meth_o["serialize"]] + [f for n, f in fo.items() if n.startswith("_serialized")]
    t += f"def PSBT_OUT_HD : List Nat := {lst(_hd_types(cls_out, ser_o, mo, 'PSBT_OUT_'))}\n"
    # ---- global map: `_V2_GLOBAL_PARSERS`, the dispatch of `_parse_global_map`, `_global_version`
    fg = _module_trees(mg, mu)
    tg = ast.parse(inspect.getsource(mg))
    rows = {}
    d = _dict_literal(tg, "_V2_GLOBAL_PARSERS")
    for k, v in zip(d.keys, d.values):
        rows[getattr(mg, k.id)[0]] = _kind_of_callable(v.elts[-1], fg)
    v0_only = []
    for ty, body in _branches(fg["_parse_global_map"], "type_", mg, "PSBT_GLOBAL_").items():
        r = _kind_of_nodes(body, {})
        if ty == mg.PSBT_GLOBAL_VERSION[0]:
            r = _kind_of_nodes(fg["_global_version"].body, {})
        rows[ty] = r if r is not None else ("BYTES", 0)    # `X[k[1:]] = v`: kept as it comes
        for n in body:
            if isinstance(n, ast.If) and ast.unparse(n.test) == "version != PSBT_V0" and any(isinstance(x, ast.Raise) for x in n.body):
                v0_only.append(ty)
    t += f"/-- (type, value kind, size) of every field of the global map (`_parse_global_map`, `_global_version`) -/\ndef PSBT_GLOBAL_KINDS : List (Nat × Nat × Nat) := {_lst3(rows)}\n"
    t += f"/-- refused by `_parse_global_map` at any version but 0 -/\ndef PSBT_GLOBAL_V0_ONLY : List Nat := {lst(sorted(v0_only))}\n"
    cls_g = next(n for n in tg.body if isinstance(n, ast.ClassDef) and n.name == "Psbt")
    meth_g = {n.name: n for n in cls_g.body if isinstance(n, ast.FunctionDef)}
    t += f"def PSBT_GLOBAL_HD : List Nat := {lst(_hd_types(cls_g, [meth_g['serialize']], mg, 'PSBT_GLOBAL_'))}\n"
    # `_settle_globals`: the fields a version 2 psbt must carry
    name_type = {v[0]: k[0] for k, v in mg._V2_GLOBAL_PARSERS.items()}
    req = []
    for n in ast.walk(fg["_settle_globals"]):
        if isinstance(n, ast.For) and isinstance(n.iter, ast.Tuple):
            req = [name_type[_const(e.elts[0])] for e in n.iter.elts]
    if not req:
        raise ValueError("_settle_globals: required fields not found")
    t += f"/-- `_settle_globals`: what a version 2 psbt must carry -/\ndef PSBT_GLOBAL_REQUIRED_V2 : List Nat := {lst(sorted(req))}\n"
    # ---- constants of the value checks
    cb = None
    for n in ast.walk(ast.parse(inspect.getsource(tx_mod._assert_valid_coinbase))):
        if isinstance(n, ast.Compare) and len(n.ops) == 2 and all(isinstance(o, ast.LtE) for o in n.ops):
            cb = (_const(n.left), _const(n.comparators[1]))
    if cb is None:
        raise ValueError("_assert_valid_coinbase: script size bounds not found")
    t += f"/-- `_assert_valid_coinbase`: bounds of the coinbase script size -/\ndef COINBASE_SCRIPT_MIN : Nat := {cb[0]}\ndef COINBASE_SCRIPT_MAX : Nat := {cb[1]}\n"
    t += f"/-- `amount._MAX_SATOSHI` (MoneyRange) -/\ndef MAX_SATOSHI : Nat := {amount_mod._MAX_SATOSHI}\n"
    hd = None
    for n in ast.walk(ast.parse(inspect.getsource(ko.assert_valid_hd_key_paths))):
        if isinstance(n, ast.Compare) and isinstance(n.ops[0], ast.NotIn) and isinstance(n.comparators[0], ast.Set):
            hd = sorted(_const(e) for e in n.comparators[0].elts)
    if not hd:
        raise ValueError("assert_valid_hd_key_paths: key lengths not found")
    t += f"/-- `assert_valid_hd_key_paths`: lengths of the key a derivation is keyed by -/\ndef HD_KEY_LENGTHS : List Nat := {lst(hd)}\n"
    mx = None
    src = textwrap.dedent(inspect.getsource(ko.BIP32KeyOrigin.assert_valid))
    for n in ast.walk(ast.parse(src)):
        if isinstance(n, ast.Compare) and isinstance(n.ops[0], ast.Gt) and ast.unparse(n.left) == "len(self)":
            mx = _const(n.comparators[0])
    if mx is None:
        raise ValueError("BIP32KeyOrigin.assert_valid: path bound not found")
    t += f"/-- `BIP32KeyOrigin.assert_valid`: most indexes a path holds -/\ndef KEYORIGIN_MAX_PATH : Nat := {mx}\n"
    t += f"def LEAF_HASH_SIZE : Nat := {mu.LEAF_HASH_SIZE}\ndef FINGERPRINT_SIZE : Nat := {mu.FINGERPRINT_SIZE}\ndef MUSIG2_PUB_KEY_SIZE : Nat := {mu.MUSIG2_PUB_KEY_SIZE}\n"
    t += f"/-- `assert_valid_psbt_version`: the versions there are -/\ndef PSBT_VERSIONS : List Nat := {lst(sorted([mu.PSBT_V0, mu.PSBT_V2]))}\n"
    return t


def _json_tables():
    """field names of the JSON form, in the order `to_dict` writes them, and the ones `from_dict` reads, off the
    syntax tree of each method"""
    from btclib.tx import out_point, tx_in, tx_out, tx as tx_mod
    from btclib.script import witness, script as script_mod
    from btclib.block import block_header
    from btclib.network import NETWORKS

    def strs(xs):
        return "[" + ", ".join('"' + x + '"' for x in xs) + "]"

    def written(fn):
        tree = ast.parse(textwrap.dedent(inspect.getsource(fn)))
        for n in ast.walk(tree):
            if isinstance(n, ast.Return) and isinstance(n.value, ast.Dict):
                return [_const(k) for k in n.value.keys]
        raise ValueError(f"{fn.__qualname__}: no dict literal returned")

    def read(fn, var="dict_"):
        tree = ast.parse(textwrap.dedent(inspect.getsource(fn)))
        out = []
        for n in ast.walk(tree):
            if isinstance(n, ast.Subscript) and ast.unparse(n.value) == var and isinstance(n.slice, ast.Constant):
                out.append((n.lineno, n.col_offset, n.slice.value, True))
            if isinstance(n, ast.Call) and ast.unparse(n.func) == var + ".get" and n.args:
                out.append((n.lineno, n.col_offset, _const(n.args[0]), False))
        seen, req, opt = set(), [], []
        for _, _, k, must in sorted(out):
            if k not in seen:
                seen.add(k)
                (req if must else opt).append(k)
        return req, opt

    t = ""
    for name, cls in (("OUTPOINT", out_point.OutPoint), ("WITNESS", witness.Witness), ("TXIN", tx_in.TxIn),
                      ("TXOUT", tx_out.TxOut), ("TX", tx_mod.Tx), ("HEADER", block_header.BlockHeader)):
        req, opt = read(cls.from_dict.__func__)
        t += f"/-- `{cls.__name__}.to_dict`: the keys, in the order written -/\ndef JSON_{name}_KEYS : List String := {strs(written(cls.to_dict))}\n"
        t += f"/-- `{cls.__name__}.from_dict`: the keys read (required, then optional) -/\ndef JSON_{name}_READ : List String := {strs(req)}\ndef JSON_{name}_OPTIONAL : List String := {strs(opt)}\n"
    req, opt = read(script_mod.script_from_dict, "value")
    t += f"def JSON_SCRIPT_KEYS : List String := {strs(written(script_mod.script_to_dict))}\ndef JSON_SCRIPT_READ : List String := {strs(req)}\ndef JSON_SCRIPT_OPTIONAL : List String := {strs(opt)}\n"
    t += f"/-- `network.NETWORKS`: the names `ScriptPubKey.assert_valid` admits -/\ndef NETWORK_NAMES : List String := {strs(list(NETWORKS))}\n"
    return t


def functions():
    return []
