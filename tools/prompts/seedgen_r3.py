import json,sys
props={json.loads(l)['id']:json.loads(l) for l in open('/verif/properties.jsonl')}
ID=sys.argv[1]; p=props[ID]
a=p.get('anchors') or {}
anch=', '.join(a.get('files',[]))+'\nMECHANISMS: '+'; '.join(f"{m['name']} ({m['where']})" for m in a.get('mechanism',[]))+'\nOBSERVABLE AT: '+'; '.join(a.get('observe_at',[]))
q=p.get('quantifier') or {}
quant=q.get('text','') if isinstance(q,dict) else str(q)
print(f"""You are testing how robust a Python library's quality gates are. You work ONLY in the git worktree /tmp/seed3/{ID} (a checkout of the library `btclib`, a pure-Python Bitcoin cryptography library); do not look at or touch any other directory on this machine except to read /root/.vp/BASELINE.json (the project's test command). In particular never read or write anything under /verif or /repo. Do not use `git stash` (the stash is shared between worktrees); use `git diff > file` and `git checkout -- .`. Run python as `/venv/bin/python` with `PYTHONPATH=/tmp/seed3/{ID}` so that the worktree's copy of btclib is the one imported (verify with `python -c "import btclib; print(btclib.__file__)"`).

Here is a semantic property the library is supposed to satisfy:

TITLE: {p.get('title')}
STATEMENT: {p.get('statement')}
QUANTIFIED OVER: {quant}
CODE ANCHORS: {anch}

Your job: produce THREE different, independent, realistic code changes ("seeded defects"), each of which makes the library violate this property while (a) the package still imports, (b) the existing test suite still passes for the affected area (run the relevant tests: `cd /tmp/seed3/{ID} && PYTHONPATH=/tmp/seed3/{ID} /venv/bin/python -m pytest -q -p no:cacheprovider -n 3 tests/<relevant dirs or files>` — they must pass exactly as they do without your change; do NOT run the whole suite, the machine is shared: choose the test files that import the module you changed — grep for it), and (c) the defect needs something SPECIFIC to manifest — a particular interleaving or order of calls, a multi-step sequence of operations, a particular residue class or boundary value, one side of a dispatch threshold, an unusual but valid input, a fault at a particular point, or two cooperating sites that each look fine alone — NOT something ordinary use would expose at once. Think like a subtle regression a reviewer would wave through: an off-by-one in a rarely hit branch, a comparison weakened at one end, a dropped field in a merge/copy, a wrong constant for one case, a cache key that forgets one component, a check moved after a side effect, an early return that skips a later validation, a fast path whose precondition is slightly too wide. Each change should be small (1–15 lines). The three changes must be in three DIFFERENT source files and use three different mechanisms; spread them over different clauses of the property statement, and prefer the less central clauses and anchor files (the ones a quick reviewer or a generic round-trip test would exercise least).

For each seeded defect k = 1, 2, 3 deliver, under /tmp/seed3/{ID}/seeded/{ID}-r3-k/:
  - patch.diff : `git diff` of that ONE change against the clean worktree (make the change, save the diff, then `git checkout -- .` before the next one; the three patches must each apply alone to the clean tree with `git apply`);
  - demo.py : a small standalone program (no pytest needed, finishing in under a minute) that exits 0 on the clean tree and exits 1 (printing what went wrong) when the patch is applied, demonstrating the property violation through the library's public behaviour;
  - meta.json : {{"property": "{ID}", "summary": "...what the change does...", "needs": "...what specific input/sequence/condition it needs in order to manifest...", "tests_run": "...the pytest command you ran and its pass count with and without the patch..."}}.
Confirm for each: demo.py exits 0 clean, exits 1 patched; the tests you ran give identical results with and without the patch. Leave the worktree clean (`git status` shows only the untracked seeded/ directory) when done. Final report: ≤ 150 words listing the three defects in one line each.""")
