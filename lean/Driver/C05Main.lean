import Model.Common.Proto
import Model.Common.Sha256
import Model.C05.VarInt
import Model.C05.Codec
import Model.C05.Tx
import Model.C05.PsbtMap
import Model.C05.PsbtTyped
import Model.C05.Misc
import Model.C05.P2p
import Model.C05.Json
import Generated.VarInt
import Generated.Wire
open Btc Btc.Wire

def renderVarInt (r : Except VarInt.Err (Nat × Bytes)) : String :=
  match r with
  | .ok (v, rest) => s!"ok {v} {toHex rest}"
  | .error e => s!"err {e.name}"

def joinWith (sep : String) (l : List String) (empty : String := "-") : String :=
  if l.isEmpty then empty else sep.intercalate l

def rOutPoint (o : OutPoint) : String := s!"{toHex o.txId}:{o.vout}"
def rWitness (w : List Bytes) : String := joinWith "," (w.map toHex)
def rTxIn (i : TxIn) : String := s!"{rOutPoint i.prevOut}/{toHex i.scriptSig}/{i.sequence}/{rWitness i.witness}"
def rTxOut (o : TxOut) : String := s!"{o.value}/{toHex o.script}"
def rTx (t : Tx) : String :=
  s!"v={t.version} l={t.lockTime} in=[{joinWith ";" (t.vin.map rTxIn)}] out=[{joinWith ";" (t.vout.map rTxOut)}]"
def rHeader (h : BlockHeader) : String :=
  s!"{h.version}/{toHex h.prevHash}/{toHex h.merkleRoot}/{h.time}/{toHex h.bits}/{h.nonce}"

/-- `<class>.parse s|o <hex>`: stream mode answers with the unread rest, octets mode refuses it.
    On success the model's own `ser` and `size` of the parsed object are appended, so the one op
    ties parser, serializer and size function. -/
def runCodec (c : Codec α) (render : α → String) (extra : α → String) (mode : String) (b : Bytes) : String :=
  match mode with
  | "s" => match c.parse b with
    | .error e => s!"err {e.name}"
    | .ok (t, rest) => s!"ok {render t} rest={toHex rest} ser={toHex (c.ser t)} size={c.size t}{extra t}"
  | "o" => match c.parseAll b with
    | .error e => s!"err {e.name}"
    | .ok t => s!"ok {render t} rest=_ ser={toHex (c.ser t)} size={c.size t}{extra t}"
  | _ => "bad-op"

def txExtra (t : Tx) : String :=
  s!" stripped={toHex (t.ser false)} ssize={t.size false} weight={t.weight} vsize={t.vsize} id={toHex (t.id hash256)} wid={toHex (t.wid hash256)} segwit={t.isSegwit}"

def blockExtra (b : Block) : String :=
  s!" ssize={b.size false} weight={b.weight} stripped={toHex (hash256 (b.serW false))} segwit={b.isSegwit}"

def rNetAddr (a : NetAddr) : String := s!"{a.services}/{toHex a.ip}/{a.port}"
def rInventory (i : Nat × Bytes) : String := s!"{i.1}:{toHex i.2}"
def rVersion (v : Version × Option Bool) : String :=
  let r := match v.2 with | none => "-" | some false => "0" | some true => "1"
  s!"{v.1.version}/{v.1.services}/{v.1.timestamp}/{rNetAddr v.1.addrRecv}/{rNetAddr v.1.addrFrom}/{v.1.nonce}/{toHex v.1.userAgent}/{v.1.startHeight}/{r}"

def runVersion (mode : String) (b : Bytes) : String :=
  if mode != "o" then "bad-op" else
  match Version.parseAll b with
  | .error e => s!"err {e.name}"
  | .ok v => s!"ok {rVersion v} rest=_ ser={toHex (Version.serAll v)} size={(Version.serAll v).length}"

def runKeyOrigin (mode : String) (b : Bytes) : String :=
  if mode != "o" then "bad-op" else
  match keyOriginParseAll b with
  | .error e => s!"err {e.name}"
  | .ok k => s!"ok {toHex k.1}/[{joinWith "," (k.2.map toString)}] rest=_ ser={toHex (keyOriginSer k)} size={(keyOriginSer k).length}"

def none' {α : Type} (_ : α) : String := ""

/-- `<map>.torecs <ver> <whole>,<keyed>,<unknown>`: the serialize loop on a typed object given field by field -/
def runTorecs (s : Psbt.Spec) (ver payload : String) : String :=
  match ver.toNat?, (payload.splitOn ",").map fromHex? with
  | some v, [some w, some k, some u] => Psbt.runSerTyped s v w k u
  | _, _ => "bad-op"

/-- `<map>.reserv <ver> <hex>`: parse and serialize at any version number -/
def runReserV (s : Psbt.Spec) (ver hex : String) : String :=
  match ver.toNat?, fromHex? hex with
  | some v, some b => Psbt.runReser s v b
  | _, _ => "bad-op"

-- ------------------------------------------------------------------ JSON form (to_dict / from_dict)
namespace JsonProto
open Btc.Json

def chars (b : Bytes) : List Char := b.map (fun x => Char.ofNat x.toNat)
def unchars (s : List Char) : Bytes := s.map (fun c => UInt8.ofNat c.toNat)

/-- a json value as tokens: n | t | f | i<int> | s<hex of the ascii text> | a<count> items | o<count> (s<key> value)* -/
def parseJ : Nat → List String → Option (J × List String)
  | 0, _ => none
  | _ + 1, [] => none
  | fuel + 1, tok :: rest =>
    let items (n : Nat) : Option (List J × List String) :=
      n.fold (fun _ _ acc => match acc with
        | none => none
        | some (xs, r) => match parseJ fuel r with
          | some (x, r') => some (xs ++ [x], r')
          | none => none) (some ([], rest))
    let pairs (n : Nat) : Option (List (List Char × J) × List String) :=
      n.fold (fun _ _ acc => match acc with
        | none => none
        | some (xs, r) => match parseJ fuel r with
          | some (.str k, r') => match parseJ fuel r' with
            | some (v, r'') => some (xs ++ [(k, v)], r'')
            | none => none
          | _ => none) (some ([], rest))
    match tok.toList with
    | ['n'] => some (.null, rest)
    | ['t'] => some (.bool true, rest)
    | ['f'] => some (.bool false, rest)
    | 'i' :: ds => (parseInt? (String.ofList ds)).map (fun i => (.num i, rest))
    | 's' :: hs => (fromHex? (String.ofList hs)).map (fun b => (.str (chars b), rest))
    | 'a' :: ds => match (String.ofList ds).toNat? with
      | some n => (items n).map (fun p => (.arr p.1, p.2))
      | none => none
    | 'o' :: ds => match (String.ofList ds).toNat? with
      | some n => (pairs n).map (fun p => (.obj p.1, p.2))
      | none => none
    | _ => none

def renderJ : Nat → J → List String
  | 0, _ => ["?"]
  | _ + 1, .null => ["n"]
  | _ + 1, .bool b => [if b then "t" else "f"]
  | _ + 1, .num i => [s!"i{i}"]
  | _ + 1, .str s => ["s" ++ toHex (unchars s)]
  | fuel + 1, .arr l => s!"a{l.length}" :: l.flatMap (renderJ fuel)
  | fuel + 1, .obj l => s!"o{l.length}" :: l.flatMap (fun kv => ("s" ++ toHex (unchars kv.1)) :: renderJ fuel kv.2)

/-- the stand-ins of what is computed elsewhere: the harness masks `asm`, `type`, `addresses` with `~`, renders
    the BTC text as `~<satoshi>` and resolves a value to satoshi (or to something that is not one) beforehand -/
def env : Env where
  asm := fun _ => ['~']
  btcText := fun v => '~' :: (toString v).toList
  satsOf := fun j => match j with | .num n => some n | _ => none
  scriptType := fun _ _ => .str ['~']
  addresses := fun _ _ => .str ['~']
  H := hash256

def rOut (o : Json.OutPoint) : String := s!"{toHex o.txId}:{o.vout}"
def rWit (w : List Bytes) : String := joinWith "," (w.map toHex)
def rIn (i : Json.TxIn) : String := s!"{rOut i.prevOut}/{toHex i.scriptSig}/{i.sequence}/{rWit i.witness}"
def rTxO (o : Json.TxOut) : String := s!"{o.value}/{toHex o.script}/{String.ofList o.network}"
def rTx' (t : Json.Tx) : String :=
  s!"v={t.version} l={t.lockTime} in=[{joinWith ";" (t.vin.map rIn)}] out=[{joinWith ";" (t.vout.map rTxO)}]"

def res {α : Type} (r : Except Json.Err α) (f : α → String) : String :=
  match r with
  | .ok x => "ok " ++ f x
  | .error _ => "err refused"

def runFrom (cls : String) (cv : Bool) (j : J) : String :=
  match cls with
  | "outpoint" => res (Json.OutPoint.fromDict cv j) rOut
  | "witness" => res (witnessFromDict j) rWit
  | "script" => res (scriptFromDict env j) toHex
  | "txin" => res (Json.TxIn.fromDict env cv j) rIn
  | "txout" => res (Json.TxOut.fromDict env cv j) rTxO
  | "tx" => res (Json.Tx.fromDict env cv j) rTx'
  | _ => "bad-op"

def ofWireIn (i : Wire.TxIn) : Json.TxIn := ⟨⟨i.prevOut.txId, i.prevOut.vout⟩, i.scriptSig, i.sequence, i.witness⟩
def ofWireTx (t : Wire.Tx) : Json.Tx :=
  ⟨t.version, t.lockTime, t.vin.map ofWireIn, t.vout.map (fun o => ⟨o.value, o.script, "mainnet".toList⟩)⟩

def out (j : J) : String := "ok " ++ " ".intercalate (renderJ 8 j)

/-- `json.to <class> <hex of the wire serialization> [network]`: the dict of the object those octets are -/
def runTo (cls : String) (b : Bytes) (net : List Char) : String :=
  match cls with
  | "outpoint" => match outPoint.parseAll b with
    | .ok o => out (Json.OutPoint.toDict ⟨o.txId, o.vout⟩) | .error _ => "bad-op"
  | "witness" => match witness.parseAll b with
    | .ok w => out (witnessToDict w) | .error _ => "bad-op"
  | "txin" => match txIn.parseAll b with
    | .ok i => out (Json.TxIn.toDict env (ofWireIn i)) | .error _ => "bad-op"
  | "txout" => match txOut.parseAll b with
    | .ok o => out (Json.TxOut.toDict env ⟨o.value, o.script, net⟩) | .error _ => "bad-op"
  | "tx" => match tx.parseAll b with
    | .ok t => out (Json.Tx.toDict env (ofWireTx t)) | .error _ => "bad-op"
  | _ => "bad-op"

end JsonProto

def handle : List String → String
  | "gen" :: "VarInt" :: fn :: args => (Gen.VarInt.dispatch fn args).getD "bad-op"
  | "gen" :: "Wire" :: fn :: args => (Gen.Wire.dispatch fn args).getD "bad-op"
  | ["varint.parse", hex, maxSize] =>
    match fromHex? hex, maxSize.toNat? with
    | some b, some m => renderVarInt (VarInt.parse b m)
    | _, _ => "bad-op"
  | "json.from" :: cls :: cv :: toks =>
    match JsonProto.parseJ 12 toks with
    | some (j, []) => JsonProto.runFrom cls (cv == "1") j
    | _ => "bad-op"
  | ["json.to", cls, hex] =>
    match fromHex? hex with
    | some b => JsonProto.runTo cls b "mainnet".toList
    | none => "bad-op"
  | ["json.to", cls, hex, net] =>
    match fromHex? hex, fromHex? net with
    | some b, some n => JsonProto.runTo cls b (JsonProto.chars n)
    | _, _ => "bad-op"
  | ["psbtin.torecs", ver, payload] => runTorecs Psbt.specIn ver payload
  | ["psbtout.torecs", ver, payload] => runTorecs Psbt.specOut ver payload
  | ["psbtglobal.torecs", ver, payload] => runTorecs Psbt.specGlobal ver payload
  | ["psbtin.reserv", ver, hex] => runReserV Psbt.specIn ver hex
  | ["psbtout.reserv", ver, hex] => runReserV Psbt.specOut ver hex
  | [cls, mode, hex] =>
    match fromHex? hex with
    | none => "bad-op"
    | some b =>
      match cls with
      | "varbytes.parse" => runCodec varBytes toHex none' mode b
      | "outpoint.parse" => runCodec outPoint rOutPoint none' mode b
      | "witness.parse" => runCodec witness rWitness none' mode b
      | "txin.parse" => runCodec txIn rTxIn none' mode b
      | "txout.parse" => runCodec txOut rTxOut none' mode b
      | "tx.parse" => runCodec tx rTx txExtra mode b
      | "header.parse" => runCodec blockHeader rHeader (fun h => s!" hash={toHex (h.hash hash256)}") mode b
      | "block.parse" => runCodec block
          (fun bl => s!"{rHeader bl.header} n={bl.txs.length} txs={toHex (hash256 ((bl.txs.map rTx).foldl (fun acc s => acc ++ s.toUTF8.toList) []))}")
          blockExtra mode b
      | "msg.parse" => runCodec (msg hash256) (fun m => s!"{toHex m.magic}/{toHex m.command}/{toHex m.payload}") none' mode b
      | "ping.parse" => runCodec nonce8 toString none' mode b
      | "feefilter.parse" => runCodec feeFilter toString none' mode b
      | "netaddr.parse" => runCodec netAddr rNetAddr none' mode b
      | "addr.parse" => runCodec addr (fun l => joinWith ";" (l.map fun a => s!"{a.1}@{rNetAddr a.2}")) none' mode b
      | "inventory.parse" => runCodec inventory rInventory none' mode b
      | "inv.parse" => runCodec inv (fun l => joinWith ";" (l.map rInventory)) none' mode b
      | "getheaders.parse" => runCodec locator
          (fun l => s!"{l.1}/[{joinWith "," (l.2.1.map toHex)}]/{toHex l.2.2}") none' mode b
      | "headers.parse" => runCodec headers (fun l => joinWith ";" (l.map fun h => rHeader h.1)) none' mode b
      | "sendcmpct.parse" => runCodec sendCmpct (fun t => s!"{t.1}/{t.2}") none' mode b
      | "getcfilters.parse" => runCodec filterRange (fun t => s!"{t.1}/{t.2.1}/{toHex t.2.2}") none' mode b
      | "cfilter.parse" => runCodec cfilter (fun t => s!"{t.1}/{toHex t.2.1}/{toHex t.2.2}") none' mode b
      | "cfheaders.parse" => runCodec cfheaders
          (fun t => s!"{t.1}/{toHex t.2.1}/{toHex t.2.2.1}/[{joinWith "," (t.2.2.2.map toHex)}]") none' mode b
      | "getcfcheckpt.parse" => runCodec getcfcheckpt (fun t => s!"{t.1}/{toHex t.2}") none' mode b
      | "cfcheckpt.parse" => runCodec cfcheckpt
          (fun t => s!"{t.1}/{toHex t.2.1}/[{joinWith "," (t.2.2.map toHex)}]") none' mode b
      | "version.parse" => runVersion mode b
      | "ssasig.parse" => runCodec ssaSig (fun t => s!"{t.1}/{t.2}") none' mode b
      | "bmssig.parse" => runCodec bmsSig (fun t => s!"{t.1}/{t.2.1}/{t.2.2}") none' mode b
      | "keyorigin.parse" => runKeyOrigin mode b
      | "xkey.parse" => runCodec xkey rXKey none' mode b
      | "psbtmap.parse" => Psbt.runMap mode b
      | "psbtin.reser0" => Psbt.runReser Psbt.specIn 0 b
      | "psbtin.reser2" => Psbt.runReser Psbt.specIn 2 b
      | "psbtglobal.reser" => Psbt.runReserGlobal b
      | "psbtout.reser0" => Psbt.runReser Psbt.specOut 0 b
      | "psbtout.reser2" => Psbt.runReser Psbt.specOut 2 b
      | "psbtmap.norm" => Psbt.runNorm mode b
      | _ => "bad-op"
  | _ => "bad-op"

def main : IO Unit := runLoop handle
