import Model.Common.Proto
import Model.C05.VarInt
import Generated.VarInt
open Btc

def renderVarInt (r : Except VarInt.Err (Nat × Bytes)) : String :=
  match r with
  | .ok (v, rest) => s!"ok {v} {toHex rest}"
  | .error e => s!"err {e.name}"

def handle : List String → String
  | "gen" :: "VarInt" :: fn :: args => (Gen.VarInt.dispatch fn args).getD "bad-op"
  | ["varint.parse", hex, maxSize] =>
    match fromHex? hex, maxSize.toNat? with
    | some b, some m => renderVarInt (VarInt.parse b m)
    | _, _ => "bad-op"
  | _ => "bad-op"

def main : IO Unit := runLoop handle
