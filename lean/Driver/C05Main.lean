import Model.Common.Proto
import Model.Common.Sha256
import Model.C05.VarInt
import Model.C05.Codec
import Model.C05.Tx
import Model.C05.PsbtMap
import Model.C05.PsbtTyped
import Model.C05.Misc
import Model.C05.P2p
import Generated.VarInt
import Generated.Wire
open Btc Btc.Wire

def renderVarInt (r : Except VarInt.Err (Nat × Bytes)) : String :=
  match r with
  | .ok (v, rest) => s!"ok {v} {toHex rest}"
  | .error e => s!"err {e.name}"

def joinWith (sep : String) (l : List String) (empty : String := "-") : String :=
  if l.isEmpty then empty else sep.intercalate l

def rOutPoint (o : OutPoint) : String := s!"{toHex o.txId}:{o.vout}"
def rWitness (w : List Bytes) : String := joinWith "," (w.map toHex)
def rTxIn (i : TxIn) : String := s!"{rOutPoint i.prevOut}/{toHex i.scriptSig}/{i.sequence}/{rWitness i.witness}"
def rTxOut (o : TxOut) : String := s!"{o.value}/{toHex o.script}"
def rTx (t : Tx) : String :=
  s!"v={t.version} l={t.lockTime} in=[{joinWith ";" (t.vin.map rTxIn)}] out=[{joinWith ";" (t.vout.map rTxOut)}]"
def rHeader (h : BlockHeader) : String :=
  s!"{h.version}/{toHex h.prevHash}/{toHex h.merkleRoot}/{h.time}/{toHex h.bits}/{h.nonce}"

/-- `<class>.parse s|o <hex>`: stream mode answers with the unread rest, octets mode refuses it.
    On success the model's own `ser` and `size` of the parsed object are appended, so the one op
    ties parser, serializer and size function. -/
def runCodec (c : Codec α) (render : α → String) (extra : α → String) (mode : String) (b : Bytes) : String :=
  match mode with
  | "s" => match c.parse b with
    | .error e => s!"err {e.name}"
    | .ok (t, rest) => s!"ok {render t} rest={toHex rest} ser={toHex (c.ser t)} size={c.size t}{extra t}"
  | "o" => match c.parseAll b with
    | .error e => s!"err {e.name}"
    | .ok t => s!"ok {render t} rest=_ ser={toHex (c.ser t)} size={c.size t}{extra t}"
  | _ => "bad-op"

def txExtra (t : Tx) : String :=
  s!" stripped={toHex (t.ser false)} ssize={t.size false} weight={t.weight} vsize={t.vsize} id={toHex (t.id hash256)} wid={toHex (t.wid hash256)} segwit={t.isSegwit}"

def blockExtra (b : Block) : String :=
  s!" ssize={b.size false} weight={b.weight} stripped={toHex (hash256 (b.serW false))} segwit={b.isSegwit}"

def rNetAddr (a : NetAddr) : String := s!"{a.services}/{toHex a.ip}/{a.port}"
def rInventory (i : Nat × Bytes) : String := s!"{i.1}:{toHex i.2}"
def rVersion (v : Version × Option Bool) : String :=
  let r := match v.2 with | none => "-" | some false => "0" | some true => "1"
  s!"{v.1.version}/{v.1.services}/{v.1.timestamp}/{rNetAddr v.1.addrRecv}/{rNetAddr v.1.addrFrom}/{v.1.nonce}/{toHex v.1.userAgent}/{v.1.startHeight}/{r}"

def runVersion (mode : String) (b : Bytes) : String :=
  if mode != "o" then "bad-op" else
  match Version.parseAll b with
  | .error e => s!"err {e.name}"
  | .ok v => s!"ok {rVersion v} rest=_ ser={toHex (Version.serAll v)} size={(Version.serAll v).length}"

def runKeyOrigin (mode : String) (b : Bytes) : String :=
  if mode != "o" then "bad-op" else
  match keyOriginParseAll b with
  | .error e => s!"err {e.name}"
  | .ok k => s!"ok {toHex k.1}/[{joinWith "," (k.2.map toString)}] rest=_ ser={toHex (keyOriginSer k)} size={(keyOriginSer k).length}"

def none' {α : Type} (_ : α) : String := ""

/-- `<map>.torecs <ver> <whole>,<keyed>,<unknown>`: the serialize loop on a typed object given field by field -/
def runTorecs (s : Psbt.Spec) (ver payload : String) : String :=
  match ver.toNat?, (payload.splitOn ",").map fromHex? with
  | some v, [some w, some k, some u] => Psbt.runSerTyped s v w k u
  | _, _ => "bad-op"

/-- `<map>.reserv <ver> <hex>`: parse and serialize at any version number -/
def runReserV (s : Psbt.Spec) (ver hex : String) : String :=
  match ver.toNat?, fromHex? hex with
  | some v, some b => Psbt.runReser s v b
  | _, _ => "bad-op"

def handle : List String → String
  | "gen" :: "VarInt" :: fn :: args => (Gen.VarInt.dispatch fn args).getD "bad-op"
  | "gen" :: "Wire" :: fn :: args => (Gen.Wire.dispatch fn args).getD "bad-op"
  | ["varint.parse", hex, maxSize] =>
    match fromHex? hex, maxSize.toNat? with
    | some b, some m => renderVarInt (VarInt.parse b m)
    | _, _ => "bad-op"
  | ["psbtin.torecs", ver, payload] => runTorecs Psbt.specIn ver payload
  | ["psbtout.torecs", ver, payload] => runTorecs Psbt.specOut ver payload
  | ["psbtglobal.torecs", ver, payload] => runTorecs Psbt.specGlobal ver payload
  | ["psbtin.reserv", ver, hex] => runReserV Psbt.specIn ver hex
  | ["psbtout.reserv", ver, hex] => runReserV Psbt.specOut ver hex
  | [cls, mode, hex] =>
    match fromHex? hex with
    | none => "bad-op"
    | some b =>
      match cls with
      | "varbytes.parse" => runCodec varBytes toHex none' mode b
      | "outpoint.parse" => runCodec outPoint rOutPoint none' mode b
      | "witness.parse" => runCodec witness rWitness none' mode b
      | "txin.parse" => runCodec txIn rTxIn none' mode b
      | "txout.parse" => runCodec txOut rTxOut none' mode b
      | "tx.parse" => runCodec tx rTx txExtra mode b
      | "header.parse" => runCodec blockHeader rHeader (fun h => s!" hash={toHex (h.hash hash256)}") mode b
      | "block.parse" => runCodec block
          (fun bl => s!"{rHeader bl.header} n={bl.txs.length} txs={toHex (hash256 ((bl.txs.map rTx).foldl (fun acc s => acc ++ s.toUTF8.toList) []))}")
          blockExtra mode b
      | "msg.parse" => runCodec (msg hash256) (fun m => s!"{toHex m.magic}/{toHex m.command}/{toHex m.payload}") none' mode b
      | "ping.parse" => runCodec nonce8 toString none' mode b
      | "feefilter.parse" => runCodec feeFilter toString none' mode b
      | "netaddr.parse" => runCodec netAddr rNetAddr none' mode b
      | "addr.parse" => runCodec addr (fun l => joinWith ";" (l.map fun a => s!"{a.1}@{rNetAddr a.2}")) none' mode b
      | "inventory.parse" => runCodec inventory rInventory none' mode b
      | "inv.parse" => runCodec inv (fun l => joinWith ";" (l.map rInventory)) none' mode b
      | "getheaders.parse" => runCodec locator
          (fun l => s!"{l.1}/[{joinWith "," (l.2.1.map toHex)}]/{toHex l.2.2}") none' mode b
      | "headers.parse" => runCodec headers (fun l => joinWith ";" (l.map fun h => rHeader h.1)) none' mode b
      | "sendcmpct.parse" => runCodec sendCmpct (fun t => s!"{t.1}/{t.2}") none' mode b
      | "getcfilters.parse" => runCodec filterRange (fun t => s!"{t.1}/{t.2.1}/{toHex t.2.2}") none' mode b
      | "cfilter.parse" => runCodec cfilter (fun t => s!"{t.1}/{toHex t.2.1}/{toHex t.2.2}") none' mode b
      | "cfheaders.parse" => runCodec cfheaders
          (fun t => s!"{t.1}/{toHex t.2.1}/{toHex t.2.2.1}/[{joinWith "," (t.2.2.2.map toHex)}]") none' mode b
      | "getcfcheckpt.parse" => runCodec getcfcheckpt (fun t => s!"{t.1}/{toHex t.2}") none' mode b
      | "cfcheckpt.parse" => runCodec cfcheckpt
          (fun t => s!"{t.1}/{toHex t.2.1}/[{joinWith "," (t.2.2.map toHex)}]") none' mode b
      | "version.parse" => runVersion mode b
      | "ssasig.parse" => runCodec ssaSig (fun t => s!"{t.1}/{t.2}") none' mode b
      | "bmssig.parse" => runCodec bmsSig (fun t => s!"{t.1}/{t.2.1}/{t.2.2}") none' mode b
      | "keyorigin.parse" => runKeyOrigin mode b
      | "xkey.parse" => runCodec xkey rXKey none' mode b
      | "psbtmap.parse" => Psbt.runMap mode b
      | "psbtin.reser0" => Psbt.runReser Psbt.specIn 0 b
      | "psbtin.reser2" => Psbt.runReser Psbt.specIn 2 b
      | "psbtglobal.reser" => Psbt.runReserGlobal b
      | "psbtout.reser0" => Psbt.runReser Psbt.specOut 0 b
      | "psbtout.reser2" => Psbt.runReser Psbt.specOut 2 b
      | "psbtmap.norm" => Psbt.runNorm mode b
      | _ => "bad-op"
  | _ => "bad-op"

def main : IO Unit := runLoop handle
