import Model.Common.Proto
import Model.Common.HashProto
import Model.Common.ECProto
import Model.C03.Batch
import Generated.Schnorr
open Btc Btc.Schnorr

/-- line protocol of property C03: see harness/c03.py -/

def hashOfToken : String → Option ((Bytes → Bytes) × Nat)
  | "sha256" => some (sha256, 32)
  | "sha1" => some (sha1, 20)
  | "sha512" => some (sha512, 64)
  | "ripemd160" => some (ripemd160, 20)
  | _ => none

/-- `tagged_hash(tag, m, hf) = hf(hf(tag) ‖ hf(tag) ‖ m)` -/
def taggedWith (H : Bytes → Bytes) (tag m : Bytes) : Bytes :=
  let t := H tag
  H (t ++ t ++ m)

def paramsOf (c : EC.Curve) (hf : String) : Option Params := do
  let (H, len) ← hashOfToken hf
  pure (Params.ofCurve c len (if hf == "sha256" then taggedHash else taggedWith H))

def FUEL : Nat := 10000

/-- optional bytes token: `None` or hex -/
def optBytes (t : String) : Option (Option Bytes) :=
  if t == "None" then some none else (fromHex? t).map some

def rOptSig (r : Except Err (Sig × Option EC.Point)) : String :=
  match r with
  | .ok (sg, none) => s!"ok {sg.r} {sg.s}"
  | .ok (sg, some R) => s!"ok {sg.r} {sg.s} {R.1} {R.2}"
  | .error e => s!"err {e.name}"

def rOptBool (r : Except Err Bool) : String :=
  match r with | .ok b => (if b then "ok True" else "ok False") | .error e => s!"err {e.name}"

/-- receipt tokens: `None None`, or affine coordinates (`bytes_from_point` refuses what is off the
    curve / infinity with a ValueError, i.e. `False`, once the signature itself is one) -/
def verifyOptDrv (c : EC.Curve) (prm : Params) (msg : Bytes) (x : Int) (sg : Sig) (commit : Option Bytes)
    (rx ry : String) : Option String :=
  if rx == "None" then some (rOptBool (verifyOpt (EC.ops c) prm FUEL msg x sg commit none))
  else do
    let R : EC.Point := (← parseInt? rx, ← parseInt? ry)
    let onc := R.2 ≠ 0 && EC.isOnCurve c.toCurveGroup R == some true
    if onc || commit.isNone then pure (rOptBool (verifyOpt (EC.ops c) prm FUEL msg x sg commit (some R)))
    else pure "ok False"

def rUnit (r : Except Err Unit) : String :=
  match r with | .ok _ => "ok" | .error e => s!"err {e.name}"
def rSig (r : Except Err Sig) : String :=
  match r with | .ok sg => s!"ok {sg.r} {sg.s}" | .error e => s!"err {e.name}"
def rBool (b : Bool) : String := if b then "ok True" else "ok False"

def parseItem (s : String) : Option Item :=
  match s.splitOn ":" with
  | [m, x, r, s] => do pure ⟨← fromHex? m, ← parseInt? x, ⟨← parseInt? r, ← parseInt? s⟩⟩
  | _ => none

def parseCoefs (s : String) : Option (List Int) :=
  if s == "-" then some [] else (s.splitOn ",").mapM parseInt?

/-- member `i ≥ 1` takes the `(i-1)`-th listed coefficient -/
def coefFn (l : List Int) (i : Nat) : Int := l.getD (i - 1) 1

def schnorrOp : List String → Option String
  | ["ssa.sign", c, hf, msg, q, aux] => do
    let c ← EC.curveOfToken c; let prm ← paramsOf c hf
    pure (rSig (signChecked (EC.ops c) prm FUEL (← fromHex? msg) (← parseInt? q) (← fromHex? aux)))
  | ["ssa.sign0", c, hf, msg, q, aux] => do
    let c ← EC.curveOfToken c; let prm ← paramsOf c hf
    pure (rSig (sign (EC.ops c) prm FUEL (← fromHex? msg) (← parseInt? q) (← fromHex? aux)))
  | ["ssa.verify", c, hf, msg, x, r, s] => do
    let c ← EC.curveOfToken c; let prm ← paramsOf c hf
    pure (rUnit (assertAsValid (EC.ops c) prm (← fromHex? msg) (← parseInt? x) ⟨← parseInt? r, ← parseInt? s⟩))
  | ["ssa.verifyc", c, hf, msg, x, r, s] => do
    let c ← EC.curveOfToken c; let prm ← paramsOf c hf
    pure (rBool (verify (EC.ops c) prm (← fromHex? msg) (← parseInt? x) ⟨← parseInt? r, ← parseInt? s⟩))
  | ["ssa.nonce", c, hf, msg, q, aux] => do
    let c ← EC.curveOfToken c; let prm ← paramsOf c hf
    pure (match nonce (EC.ops c) prm FUEL (← fromHex? msg) (← parseInt? q) (← fromHex? aux) with
          | .ok (k, xK, q', xQ) => s!"ok {k} {xK} {q'} {xQ}" | .error e => s!"err {e.name}")
  | ["ssa.challenge", c, hf, msg, xQ, xK] => do
    let c ← EC.curveOfToken c; let prm ← paramsOf c hf
    pure (match challenge (EC.ops c) prm (← fromHex? msg) (← parseInt? xQ) (← parseInt? xK) with
          | .ok v => s!"ok {v}" | .error e => s!"err {e.name}")
  | ["ssa.genkeys", c, q] => do
    let c ← EC.curveOfToken c
    pure (match genKeys (EC.ops c) (← parseInt? q) with
          | .ok (q', x) => s!"ok {q'} {x}" | .error e => s!"err {e.name}")
  | ["ssa.lift", c, x] => do
    let c ← EC.curveOfToken c
    pure (match (EC.ops c).liftX (← parseInt? x) with | some P => s!"ok {P.1} {P.2}" | none => "err value")
  -- `_sign_(e, q', k', x(kG))` then `_assert_as_valid_(e, lift(x(qG)), r, s)` for explicit (q, k, e)
  | ["ssa.qke", c, q, k, e] => do
    let c ← EC.curveOfToken c
    let o := EC.ops c
    let q ← parseInt? q; let k ← parseInt? k; let e ← parseInt? e
    let xQ := o.x (o.mul q o.gen)
    pure (match signCore o e (evenScalar o q) (evenScalar o k) (o.x (o.mul k o.gen)) with
          | .error er => s!"err {er.name}"
          | .ok sg =>
            match o.liftX xQ with
            | none => "err lift"
            | some Q => s!"ok {sg.r} {sg.s} " ++ rUnit (assertCore o e Q sg.r sg.s))
  -- `_assert_as_valid_(c, (x, y_even(x), 1), r, s)` for explicit challenge
  | ["ssa.core", c, e, x, r, s] => do
    let c ← EC.curveOfToken c
    let o := EC.ops c
    let e ← parseInt? e; let x ← parseInt? x; let r ← parseInt? r; let s ← parseInt? s
    pure (match o.liftX x with
          | none => "err lift"
          | some Q => rUnit (assertCore o e Q r s))
  | ["ssa.ser", c, r, s] => do
    let c ← EC.curveOfToken c; let prm ← paramsOf c "sha256"
    pure (match serialize (EC.ops c) prm ⟨← parseInt? r, ← parseInt? s⟩ with
          | .ok b => s!"ok {toHex b}" | .error e => s!"err {e.name}")
  | ["ssa.parse", hex] => do
    let prm ← paramsOf EC.secp256k1 "sha256"
    pure (rSig (parse (EC.ops EC.secp256k1) prm (← fromHex? hex)))
  | "ssa.batch" :: c :: hf :: coefs :: items => do
    let c ← EC.curveOfToken c; let prm ← paramsOf c hf
    let l ← parseCoefs coefs
    let its ← items.mapM parseItem
    pure (rUnit (assertBatch (EC.ops c) prm (coefFn l) its))
  | ["ssa.s2c", c, hf, msg, q, aux, commit] => do
    let c ← EC.curveOfToken c; let prm ← paramsOf c hf
    pure (match signCommit (EC.ops c) prm FUEL (← fromHex? msg) (← parseInt? q) (← fromHex? aux) (← fromHex? commit) with
          | .ok (sg, R) => s!"ok {sg.r} {sg.s} {R.1} {R.2}" | .error e => s!"err {e.name}")
  -- receipt given as affine coordinates; `bytes_from_point` refuses what is off the curve / infinity
  | ["ssa.s2cv", c, hf, msg, x, r, s, commit, rx, ry] => do
    let c ← EC.curveOfToken c; let prm ← paramsOf c hf
    let R : EC.Point := (← parseInt? rx, ← parseInt? ry)
    let onc := R.2 ≠ 0 && EC.isOnCurve c.toCurveGroup R == some true
    let msg ← fromHex? msg; let x ← parseInt? x; let r ← parseInt? r; let s ← parseInt? s
    let commit ← fromHex? commit
    pure (if !onc then "ok False" else
          rBool (verifyCommit (EC.ops c) prm FUEL msg x ⟨r, s⟩ commit R))
  -- optional-argument spellings: commit token `None` or hex (`_` = present and empty)
  | ["ssa.signopt", c, hf, msg, q, aux, commit] => do
    let c ← EC.curveOfToken c; let prm ← paramsOf c hf
    pure (rOptSig (signOpt (EC.ops c) prm FUEL (← fromHex? msg) (← parseInt? q) (← fromHex? aux) (← optBytes commit)))
  | ["ssa.signh", c, hf, msg, q, aux, commit] => do
    let c ← EC.curveOfToken c; let prm ← paramsOf c hf; let (H, _) ← hashOfToken hf
    pure (rOptSig (signHashed (EC.ops c) prm H FUEL (← fromHex? msg) (← parseInt? q) (← fromHex? aux) (← optBytes commit)))
  | ["ssa.verifyopt", c, hf, msg, x, r, s, commit, rx, ry] => do
    let c ← EC.curveOfToken c; let prm ← paramsOf c hf
    let msg ← fromHex? msg; let x ← parseInt? x; let r ← parseInt? r; let s ← parseInt? s
    verifyOptDrv c prm msg x ⟨r, s⟩ (← optBytes commit) rx ry
  | ["ssa.verifyh", c, hf, msg, x, r, s, commit, rx, ry] => do
    let c ← EC.curveOfToken c; let prm ← paramsOf c hf; let (H, _) ← hashOfToken hf
    let msg ← fromHex? msg; let x ← parseInt? x; let r ← parseInt? r; let s ← parseInt? s
    verifyOptDrv c prm (H msg) x ⟨r, s⟩ ((← optBytes commit).map H) rx ry
  | ["ssa.commitnonce", c, hf, commit, k] => do
    let c ← EC.curveOfToken c; let prm ← paramsOf c hf
    pure (match commitNonce (EC.ops c) prm FUEL (← fromHex? commit) (← parseInt? k) with
          | .ok (k', R) => s!"ok {k'} {R.1} {R.2}" | .error e => s!"err {e.name}")
  | _ => none

def handle (toks : List String) : String :=
  match toks with
  | "gen" :: "Schnorr" :: fn :: args => (Gen.Schnorr.dispatch fn args).getD "bad-op"
  | _ =>
    match hashOp toks with
    | some r => r
    | none =>
      match EC.ecOp toks with
      | some r => r
      | none => (schnorrOp toks).getD "bad-op"

def main : IO Unit := runLoop handle
