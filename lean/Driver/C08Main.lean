import Model.Common.Proto
import Model.Common.Sha256
import Model.Common.Ripemd160
import Model.Common.Sha1
import Model.Common.HashProto
import Model.C08.Num
import Model.C08.Parse
import Model.C08.Core
import Model.C08.Verify
import Model.C08.Btclib
import Model.C08.BtclibTap
import Model.C08.BtclibVerify
import Proofs.C08.Sim
import Generated.Script
open Btc Btc.Script

/-! line protocol of property C08: see harness/c08.py -/

def renderErr (e : Core.ScriptError) : String :=
  match e with
  | .NEED_ORACLE q => s!"need {q}"
  | e => "err " ++ ((reprStr e).splitOn ".").getLast!

def hexList (l : List Bytes) : String :=
  if l.isEmpty then "-" else ",".intercalate (l.map toHex)

def parseHexList (s : String) : Option (List Bytes) :=
  if s == "-" then some [] else (s.splitOn ",").mapM fromHex?

def parseFlags (s : String) : Option Nat :=
  if s == "-" then some 0 else
  (s.splitOn ",").foldlM (fun acc n => (Core.FLAG_NAMES.lookup n).map (acc ||| ·)) 0

def parseSigVersion : String → Option Core.SigVersion
  | "base" => some .BASE | "v0" => some .WITNESS_V0 | "tapscript" => some .TAPSCRIPT | _ => none

def svName : Core.SigVersion → String
  | .BASE => "base" | .WITNESS_V0 => "v0" | .TAPROOT => "taproot" | .TAPSCRIPT => "tapscript"

def hashes : Core.Hashes := { sha256 := Btc.sha256, ripemd160 := Btc.ripemd160, sha1 := Btc.sha1 }

/-- oracle table token: `deny` (every check fails), or `ask` / `ask;k=v;k=v…` where a key is
    `e:<sig>:<key>:<code>:<sv>` or `s:<sig>:<key>:<sv>:<codeseppos>` and a value is `1`, `0` or an error name;
    an unknown query under `ask` aborts the evaluation with `need <key>` -/
structure Oracle where
  ask : Bool
  table : List (String × String)

def parseOracle (s : String) : Oracle :=
  match s.splitOn ";" with
  | "deny" :: _ => ⟨false, []⟩
  | _ :: rest => ⟨true, rest.filterMap fun kv => match kv.splitOn "=" with | [k, v] => some (k, v) | _ => none⟩
  | [] => ⟨false, []⟩

def schnorrErr : String → Core.ScriptError
  | "SCHNORR_SIG_SIZE" => .SCHNORR_SIG_SIZE
  | "SCHNORR_SIG_HASHTYPE" => .SCHNORR_SIG_HASHTYPE
  | _ => .SCHNORR_SIG

def mkChecker (o : Oracle) : Core.Checker where
  checkECDSA sig key code sv :=
    let k := s!"e:{toHex sig}:{toHex key}:{toHex code}:{svName sv}"
    match o.table.lookup k with
    | some v => .ok (v == "1")
    | none => if o.ask then .error (.NEED_ORACLE k) else .ok false
  checkSchnorr sig key sv pos :=
    let k := s!"s:{toHex sig}:{toHex key}:{svName sv}:{pos}"
    match o.table.lookup k with
    | some "1" => none
    | some v => some (schnorrErr v)
    | none => if o.ask then some (.NEED_ORACLE k) else some .SCHNORR_SIG

def renderStack (r : Core.R (List Bytes)) (named : Bool) : String :=
  match r with
  | .ok st => "ok " ++ hexList st.reverse
  | .error (.NEED_ORACLE q) => s!"need {q}"
  | .error e => if named then renderErr e else "err script"

def renderUnit (r : Core.R Unit) (named : Bool) : String :=
  match r with
  | .ok _ => "ok"
  | .error (.NEED_ORACLE q) => s!"need {q}"
  | .error e => if named then renderErr e else "err"

def handleC08 : List String → String
  | "gen" :: "Script" :: fn :: args => (Gen.Script.dispatch fn args).getD "bad-op"
  -- T1
  | ["num.encode", i] =>
    match parseInt? i with
    | some i => Py.renderBytes (encodeNum i)
    | none => "bad-op"
  | ["num.decode", hex] =>
    match fromHex? hex with
    | some b => s!"ok {decodeNum b}"
    | none => "bad-op"
  | ["num.tonum", hex, minimal, maxSize] =>
    match fromHex? hex, maxSize.toNat? with
    | some b, some m => Py.renderInt (toNum b (minimal == "1") m)
    | _, _ => "bad-op"
  | ["num.tobool", hex] =>
    match fromHex? hex with
    | some b => if toBool b then "ok True" else "ok False"
    | none => "bad-op"
  -- the same four questions asked of Core's transcription
  | ["corenum.encode", i] =>
    match parseInt? i with
    | some i => if -(2:Int)^63 ≤ i ∧ i < 2^63 then s!"ok {toHex (Core.scriptNumSerialize i)}" else "err value"
    | none => "bad-op"
  | ["corenum.tonum", hex, minimal, maxSize] =>
    match fromHex? hex, maxSize.toNat? with
    | some b, some m =>
      match Core.scriptNum b (minimal == "1") m with
      | .ok x => s!"ok {x}"
      | .error _ => "err value"
    | _, _ => "bad-op"
  | ["corenum.tobool", hex] =>
    match fromHex? hex with
    | some b => if Core.castToBool b then "ok True" else "ok False"
    | none => "bad-op"
  -- T2
  | ["parse.spans", hex] =>
    match fromHex? hex with
    | some b =>
      let sp := opCodeSpans b
      let stop := match sp.getLast? with | some (_, _, e) => e | none => 0
      "ok " ++ (if sp.isEmpty then "-" else ",".intercalate (sp.map fun (o, s, e) => s!"{o}:{s}:{e}"))
        ++ s!" tail={b.length - stop}"
    | none => "bad-op"
  | ["parse.getop", hex] =>
    -- Core's GetOp walk: same rendering as parse.spans
    match fromHex? hex with
    | some b =>
      let p := parse b
      let rec go (ops : List Op) (pos : Nat) : List String :=
        match ops with
        | [] => []
        | o :: r => s!"{o.code}:{pos}:{pos + o.raw.length}" :: go r (pos + o.raw.length)
      let sp := go p.1 0
      "ok " ++ (if sp.isEmpty then "-" else ",".intercalate sp) ++ s!" tail={p.2.length}"
    | none => "bad-op"
  | ["parse.roundtrip", hex] =>
    match fromHex? hex with
    | some b => let p := parse b; s!"ok {toHex (serializeOps p.1 ++ p.2)}"
    | none => "bad-op"
  | ["bt.pushonly", hex] =>
    match fromHex? hex with
    | some b => if Btclib.validatePushOnly b then "ok True" else "ok False"
    | none => "bad-op"
  | ["core.pushonly", hex] =>
    match fromHex? hex with
    | some b => if Core.isPushOnly b then "ok True" else "ok False"
    | none => "bad-op"
  | ["bt.annex", stack] =>
    match parseHexList stack with
    | some st => let r := Btclib.taprootGetAnnex st; s!"ok {toHex r.1}|{hexList r.2}"
    | none => "bad-op"
  | ["core.annex", stack] =>
    match parseHexList stack with
    | some st => s!"ok {hexList (Core.stripAnnex st.reverse).reverse}"
    | none => "bad-op"
  | ["fad", script, target] =>
    match fromHex? script, fromHex? target with
    | some s, some t => let r := Core.findAndDelete s t; s!"ok {toHex r.1} {r.2}"
    | _, _ => "bad-op"
  -- T3/T4: EvalScript / ExecuteWitnessScript.
  --   eval|evalx|execwit|execwitx <sigversion> <flags> <script> <stack bottom-first> <locktime> <sequence> <version> <weight> <oracle>
  -- T5: VerifyScript.
  --   verify|verifyx <flags> <scriptSig> <scriptPubKey> <witness bottom-first> <locktime> <sequence> <version> <amount> <oracle>
  | [op, a1, a2, a3, a4, a5, a6, a7, a8, a9] =>
    if op == "eval" || op == "evalx" || op == "execwit" || op == "execwitx" then
      match parseSigVersion a1, parseFlags a2, fromHex? a3, parseHexList a4,
            a5.toNat?, a6.toNat?, a7.toNat?, parseInt? a8 with
      | some sv, some fl, some sc, some st, some lt, some sq, some ver, some w =>
        let cx : Core.Ctx := { flags := fl, sigversion := sv, hashes := hashes, checker := mkChecker (parseOracle a9),
                               script := sc, txLockTime := lt, txSequence := sq, txVersion := ver }
        if op == "eval" || op == "evalx" then renderStack (Core.evalWith cx st.reverse w) (op == "evalx")
        else
          let env : Core.VerifyEnv := { flags := fl, hashes := hashes, checker := cx.checker, taggedHash := Btc.taggedHash,
                                        commitment := fun _ _ _ => .ok false, txLockTime := lt, txSequence := sq, txVersion := ver }
          renderUnit (Core.executeWitnessScript env st.reverse sc sv w) (op == "execwitx")
      | _, _, _, _, _, _, _, _ => "bad-op"
    else if op == "verify" || op == "verifyx" then
      match parseFlags a1, fromHex? a2, fromHex? a3, parseHexList a4, a5.toNat?, a6.toNat?, a7.toNat? with
      | some fl, some ss, some pk, some wit, some lt, some sq, some ver =>
        let o := parseOracle a9
        let env : Core.VerifyEnv := { flags := fl, hashes := hashes, checker := mkChecker o,
                                      taggedHash := Btc.taggedHash,
                                      commitment := fun control program leafHash =>
                                        let k := s!"c:{toHex control}:{toHex program}:{toHex leafHash}"
                                        match o.table.lookup k with
                                        | some v => .ok (v == "1")
                                        | none => if o.ask then .error (.NEED_ORACLE k) else .ok false,
                                      txLockTime := lt, txSequence := sq, txVersion := ver }
        renderUnit (Core.verifyScript env ss pk wit) (op == "verifyx")
      | _, _, _, _, _, _, _ => "bad-op"
    else "bad-op"
  -- is the script within the set `btclib_eval_refines_core_partial` speaks about?
  | ["btcovered", script] =>
    match fromHex? script with
    | some sc => if Sim.covered sc then "ok True" else "ok False"
    | none => "bad-op"
  -- the btclib-shaped model of `verify_script` (final=False):
  --   bteval <base|v0> <flags> <script> <stack> <locktime> <sequence> <version> [<oracle>]
  -- `op_checksig` is `Btclib.sharedChecksig` over the oracle's checker (the instantiation `btclib_eval_refines_core_partial`
  -- speaks about).  Under `ask` the queries are collected by running Core's transcription on the same line first (it
  -- reports `need <query>`); a query the btclib-shaped loop makes beyond those refuses.
  | "bteval" :: sv :: flags :: script :: stack :: lockTime :: sequence :: version :: rest =>
    match parseFlags flags, fromHex? script, parseHexList stack, lockTime.toNat?, sequence.toNat?, version.toNat? with
    | some fl, some sc, some st, some lt, some sq, some ver =>
      let checker := mkChecker (parseOracle (rest.headD "deny"))
      let cx : Btclib.Ctx := { flags := fl, segwit := sv == "v0", hashes := hashes, txLockTime := lt, txSequence := sq,
                               txVersion := ver, checker := checker,
                               opChecksig := Btclib.sharedChecksig checker fl (sv == "v0") }
      match Core.evalWith (Refine.coreCx cx sc) st.reverse 0 with
      | .error (.NEED_ORACLE q) => s!"need {q}"
      | _ =>
        match Btclib.eval cx sc st.reverse with
        | .ok out => "ok " ++ hexList out.reverse
        | .refused => "err script"
        | .unsupported => "unsupported"
    | _, _, _, _, _, _ => "bad-op"
  -- the btclib-shaped model of `verify_script_path_vc0`:
  --   bttap <flags> <script> <stack bottom-first> <locktime> <sequence> <version> <budget> <oracle>
  -- (the queries are collected by running Core's ExecuteWitnessScript on the same line first, as for `bteval`)
  | ["bttap", flags, script, stack, lockTime, sequence, version, weight, oracle] =>
    match parseFlags flags, fromHex? script, parseHexList stack, lockTime.toNat?, sequence.toNat?, version.toNat?, parseInt? weight with
    | some fl, some sc, some st, some lt, some sq, some ver, some w =>
      let checker := mkChecker (parseOracle oracle)
      let cx : Btclib.Ctx := { flags := fl, segwit := true, hashes := hashes, txLockTime := lt, txSequence := sq,
                               txVersion := ver, checker := checker }
      let env : Core.VerifyEnv := { flags := fl, hashes := hashes, checker := checker, taggedHash := Btc.taggedHash,
                                    commitment := fun _ _ _ => .ok false, txLockTime := lt, txSequence := sq, txVersion := ver }
      match Core.executeWitnessScript env st.reverse sc .TAPSCRIPT w with
      | .error (.NEED_ORACLE q) => s!"need {q}"
      | _ => if BtclibTap.verifyScriptPath cx sc st.reverse w then "ok" else "err"
    | _, _, _, _, _, _, _ => "bad-op"
  | _ => "bad-op"

def handle (toks : List String) : String :=
  match Btc.hashOp toks with
  | some r => r
  | none => handleC08 toks

def main : IO Unit := runLoop handle
