import Model.Common.Proto
import Model.Common.HashProto
import Model.C10.Engine
import Model.C10.Bip322
import Model.C10.MultiA
import Generated.Spend
open Btc Btc.Sighash Btc.Spend

/-!
line protocol of property C10 (see harness/c10.py)

tokens: bytes are hex (`_` = empty); integers decimal; an empty list / absent value is `.`
  tx    = `version;locktime;in,in,…;out,out,…`   in = `txid:vout:scriptSig:sequence:wit/wit/…`  out = `value:spk`
  outs  = `out,out,…`
ops
  fin <spk|.> <redeem> <wscript> <pk:sig,…|.>                       `_finalized_input`
  fintap <sht|.> <keysig> <keydata:sig,…|.> <cb:script:ver,…|.> <vk 0|1> <vl 0|1>   `_finalized_taproot_input`
  sigmsg <spk> <redeem> <wscript> <leafhash> <ht> <i> <tx> <outs>   the digest the signer signs (C09 spec digests)
  verify <flags> <i> <tx> <outs>                                    `Core.verifyScript` with the composed checker
  verdict <flags> <i> <tx> <outs>                                   the same, `ok` / `rej` only
  bip322 <flags> <msg> <spk> <scriptSig> <wit/…|.>                  `bip322.to_spend` / `to_sign` txids (wire order) and the
                                                                    engine run of `assert_as_valid` on a simple signature
  multia <k> <key,…> <sig|.,…>                                      `MultiA._script` and `MultiA._stack` (offered per key)
answers: `ok …` / `err value` / `err <ScriptError>` / `none`
-/

def optTok (f : String → Option α) (s : String) : Option (Option α) :=
  if s == "." then some none else (f s).map some

def listTok (sep : String) (f : String → Option α) (s : String) : Option (List α) :=
  if s == "." then some [] else (s.splitOn sep).mapM f

def parseOut (s : String) : Option TxOut :=
  match s.splitOn ":" with
  | [v, spk] => do pure ⟨← parseInt? v, ← fromHex? spk⟩
  | _ => none

def parseIn (s : String) : Option (TxIn × List Bytes) :=
  match s.splitOn ":" with
  | [txid, vout, ss, seq, wit] => do
    pure (⟨⟨← fromHex? txid, ← parseInt? vout⟩, ← fromHex? ss, ← parseInt? seq⟩, ← listTok "/" fromHex? wit)
  | _ => none

def parseTx (s : String) : Option (Tx × List (List Bytes)) :=
  match s.splitOn ";" with
  | [v, l, ins, outs] => do
    let is ← listTok "," parseIn ins
    let os ← listTok "," parseOut outs
    pure (⟨← parseInt? v, is.map (·.1), os, ← parseInt? l⟩, is.map (·.2))
  | _ => none

def parseOuts : String → Option (List TxOut) := listTok "," parseOut

def pair (s : String) : Option (Bytes × Bytes) :=
  match s.splitOn ":" with
  | [a, b] => do pure (← fromHex? a, ← fromHex? b)
  | _ => none

def leafTok (s : String) : Option (Bytes × Bytes × Nat) :=
  match s.splitOn ":" with
  | [a, b, v] => do pure (← fromHex? a, ← fromHex? b, ← v.toNat?)
  | _ => none

def validKey (k : Bytes) : Bool := (secpParsePubStrict k).isSome

def crypto : Crypto EC.Point := secpCrypto

def witTok (w : List Bytes) : String := if w.isEmpty then "." else "/".intercalate (w.map toHex)

def renderFin (r : Except Spend.Err (Bytes × List Bytes)) : String :=
  match r with
  | .ok (ss, w) => s!"ok {toHex ss} {witTok w}"
  | .error _ => "err value"

def errName (e : Script.Core.ScriptError) : String :=
  ((reprStr e).splitOn " ").headD "" |>.splitOn "." |>.getLast? |>.getD "?"

def handleC10 : List String → Option String
  | ["fin", spk, redeem, ws, sigs] => do
    let spk ← optTok fromHex? spk; let redeem ← fromHex? redeem; let ws ← fromHex? ws
    let sigs ← listTok "," pair sigs
    pure (renderFin (finalizedInput validKey ⟨spk, redeem, ws, sigs⟩))
  | ["fintap", sht, ks, ss, ls, vk, vl] => do
    let sht ← optTok String.toNat? sht; let ks ← fromHex? ks
    let ss ← listTok "," pair ss; let ls ← listTok "," leafTok ls
    pure (renderFin (finalizedTaproot (fun v s => Taproot.leafHash taggedHash v s)
      (fun _ _ => vk == "1") (fun _ _ _ _ => vl == "1") ⟨sht, ks, ss, ls⟩))
  | ["sigmsg", spk, redeem, ws, lh, ht, i, tx, outs] => do
    let spk ← fromHex? spk; let redeem ← fromHex? redeem; let ws ← fromHex? ws; let lh ← fromHex? lh
    let ht ← ht.toNat?; let i ← i.toNat?; let (tx, _) ← parseTx tx; let outs ← parseOuts outs
    if isP2tr spk then
      pure (if bip341Defined tx i outs ht then "ok " ++ toHex (taprootDigest sha256 tx i outs ht lh) else "none")
    else
      pure <| match ecdsaDigest hash256 ⟨some spk, redeem, ws, []⟩ (outs.getD i blankOut).value tx i ht with
        | some d => "ok " ++ toHex d
        | none => "none"
  | ["verify", flags, i, tx, outs] => do
    let flags ← flags.toNat?; let i ← i.toNat?; let (tx, wits) ← parseTx tx; let outs ← parseOuts outs
    pure <| match verifyInput crypto flags tx outs i (wits.getD i []) with
      | .ok _ => "ok"
      | .error e => "err " ++ errName e
  | ["verdict", flags, i, tx, outs] => do
    let flags ← flags.toNat?; let i ← i.toNat?; let (tx, wits) ← parseTx tx; let outs ← parseOuts outs
    pure <| match verifyInput crypto flags tx outs i (wits.getD i []) with
      | .ok _ => "ok"
      | .error _ => "rej"
  | ["bip322", flags, msg, spk, ss, wit] => do
    let flags ← flags.toNat?; let msg ← fromHex? msg; let spk ← fromHex? spk; let ss ← fromHex? ss
    let wit ← listTok "/" fromHex? wit
    let spend := Bip322.toSpend taggedHash msg spk
    let v := match Bip322.verifySimple crypto flags msg spk ss wit with
      | .ok _ => "ok"
      | .error _ => "rej"
    pure s!"ok {toHex (Bip322.txidWire hash256 spend)} {toHex (Bip322.txidWire hash256 (Bip322.toSign hash256 spend ss))} {v}"
  | ["multia", k, keys, offered] => do
    let k ← k.toNat?; let keys ← listTok "," fromHex? keys
    let offered ← (offered.splitOn ",").mapM (optTok fromHex?)
    let st := match multiAStack k offered with
      | some w => witTok w
      | none => "none"
    pure s!"ok {toHex (multiAScript k keys)} {st}"
  | _ => none

def handle (toks : List String) : String :=
  match toks with
  | "gen" :: "Spend" :: fn :: args => (Gen.Spend.dispatch fn args).getD "bad-op"
  | _ =>
    match hashOp toks with
    | some r => r
    | none => (handleC10 toks).getD "bad-op"

def main : IO Unit := runLoop handle
