import Model.Common.Proto
import Model.Common.Sha256
import Model.Common.SipHash
import Model.C17.CorePow
import Model.C17.Merkle
import Model.C17.Golomb
import Model.C17.Bip158
import Model.C17.CompactBlocks
import Model.C17.Block
import Model.C17.MerkleProof
import Generated.Pow
open Btc

/-! line protocol of property C17: see harness/c17.py -/

def splitComma (s : String) : List String :=
  if s == "_" then [] else s.splitOn ","

def natList? (s : String) : Option (List Nat) := (splitComma s).mapM (·.toNat?)
def hexList? (s : String) : Option (List Bytes) := (splitComma s).mapM fromHex?

def joinComma (l : List String) : String := if l.isEmpty then "_" else ",".intercalate l

def b2s (b : Bool) : String := if b then "True" else "False"

def hashOf (name : String) : Option (Bytes → Bytes) :=
  if name == "h256" then some hash256
  else if name == "sha256" then some sha256
  else if name == "toy" then
    -- a deliberately weak 32-byte "hash" (collisions are easy): xor-fold of the input into 32 bytes, +1
    some fun b => (List.range 32).map fun i =>
      ((List.range ((b.length + 31 - i) / 32)).foldl (fun acc k => acc ^^^ b.getD (i + 32 * k) 0) (UInt8.ofNat (i + 1)))
  else none

def renderBranch (r : Except Merkle.BranchErr Bytes) : String :=
  match r with
  | .ok v => s!"ok {toHex v}"
  | .error e => s!"err {e.name}"

def renderGcs (r : Except Golomb.Err (List Nat)) : String :=
  match r with
  | .ok vs => s!"ok {joinComma (vs.map toString)}"
  | .error e => s!"err {e.name}"

def handle : List String → String
  | "gen" :: "Pow" :: fn :: args => (Gen.Pow.dispatch fn args).getD "bad-op"
  | "gen" :: "Filter" :: fn :: args => (Gen.Filter.dispatch fn args).getD "bad-op"
  -- ---------------------------------------------------------------- proof of work (Core transcription)
  | ["core.setcompact", n] =>
    match n.toNat? with
    | some n =>
      let r := CorePow.setCompact n
      if r.overflow then s!"ovf {b2s r.negative}" else s!"ok {r.value} {b2s r.negative}"
    | none => "bad-op"
  | ["core.getcompact", v] =>
    match v.toNat? with
    | some v => s!"ok {CorePow.getCompact v}"
    | none => "bad-op"
  | ["core.next", nBits, ts, limit] =>
    match nBits.toNat?, parseInt? ts, limit.toNat? with
    | some nBits, some ts, some limit =>
      let a := CorePow.setCompact nBits
      let l := CorePow.setCompact limit
      if a.overflow || l.overflow then "err value"
      else s!"ok {CorePow.calculateNextWorkRequired nBits ts l.value}"
    | _, _, _ => "bad-op"
  | ["core.work", nBits] =>
    match nBits.toNat? with
    | some nBits => let w := CorePow.getBlockProof nBits; if w == 0 then "err value" else s!"ok {w}"
    | none => "bad-op"
  -- ---------------------------------------------------------------- merkle
  | ["mk.root", hf, leaves] =>
    match hashOf hf, hexList? leaves with
    | some H, some ls =>
      match Merkle.rootAndMutated (fun a b => H (a ++ b)) ls with
      | some (r, m) => s!"ok {toHex r} {b2s m}"
      | none => "err empty"
    | _, _ => "bad-op"
  | ["mk.branch", hf, leaves, i] =>
    match hashOf hf, hexList? leaves, i.toNat? with
    | some H, some ls, some i =>
      if i < ls.length then s!"ok {joinComma ((Merkle.branch (fun a b => H (a ++ b)) ls i).map toHex)}" else "err index"
    | _, _, _ => "bad-op"
  | ["mk.verify", hf, leaf, br, i] =>
    match hashOf hf, fromHex? leaf, hexList? br, parseInt? i with
    | some H, some leaf, some br, some i => renderBranch (Merkle.rootFromBranchBytes H leaf br i)
    | _, _, _, _ => "bad-op"
  | ["mk.verifyc", hf, leaf, br, i] =>
    -- merkle_root_from_branch with check_inner_node = _assert_inner_node_is_not_a_tx
    match hashOf hf, fromHex? leaf, hexList? br, parseInt? i with
    | some H, some leaf, some br, some i =>
      renderBranch (Merkle.rootFromBranchBytesChecked H MerkleProof.innerNodeIsTx leaf br i)
    | _, _, _, _ => "bad-op"
  | ["mk.proof", txid, br, i, root] =>
    match fromHex? txid, hexList? br, parseInt? i, fromHex? root with
    | some txid, some br, some i, some root =>
      s!"ok {b2s (Merkle.proofVerify hash256 MerkleProof.innerNodeIsTx txid br i root)}"
    | _, _, _, _ => "bad-op"
  | ["mk.istx", node] =>
    match fromHex? node with
    | some n => s!"ok {b2s (MerkleProof.innerNodeIsTx n)}"
    | none => "bad-op"
  -- ---------------------------------------------------------------- Golomb-Rice coded sets
  | ["gcs.encode", p, vs] =>
    match p.toNat?, natList? vs with
    | some p, some vs => s!"ok {toHex (Golomb.encodeSet p vs)}"
    | _, _ => "bad-op"
  | ["gcs.decode", p, upper, n, data] =>
    match p.toNat?, upper.toNat?, n.toNat?, fromHex? data with
    | some p, some upper, some n, some data => renderGcs (Golomb.decodeSet p upper n data)
    | _, _, _, _ => "bad-op"
  | ["gcs.walk", ts, vs] =>
    match natList? ts, natList? vs with
    | some ts, some vs => (match Golomb.walk ts vs with | .hit => "hit" | .miss => "miss" | .ranOut => "ranout")
    | _, _ => "bad-op"
  | ["f.build", blockHash, outs, prevs] =>
    match fromHex? blockHash, hexList? outs, hexList? prevs with
    | some bh, some os, some ps =>
      let f := Bip158.build bh os ps
      s!"ok {f.1} {toHex f.2}"
    | _, _, _ => "bad-op"
  | ["f.hashes", blockHash, n, data] =>
    match fromHex? blockHash, n.toNat?, fromHex? data with
    | some _, some n, some data => renderGcs (Bip158.elementHashes n data)
    | _, _, _ => "bad-op"
  | ["f.match", blockHash, n, data, elems] =>
    match fromHex? blockHash, n.toNat?, fromHex? data, hexList? elems with
    | some bh, some n, some data, some es =>
      match Bip158.matchAnyElems bh n data es with
      | .ok b => s!"ok {b2s b}"
      | .error e => s!"err {e.name}"
    | _, _, _, _ => "bad-op"
  | ["f.range", k0, k1, elem, upper] =>
    match k0.toNat?, k1.toNat?, fromHex? elem, upper.toNat? with
    | some k0, some k1, some e, some u => s!"ok {Bip158.hashToRange (UInt64.ofNat k0) (UInt64.ofNat k1) e u}"
    | _, _, _, _ => "bad-op"
  -- ---------------------------------------------------------------- compact blocks
  | ["cb.shortid", k0, k1, wtxid] =>
    match k0.toNat?, k1.toNat?, fromHex? wtxid with
    | some k0, some k1, some w => s!"ok {CompactBlocks.shortId (UInt64.ofNat k0) (UInt64.ofNat k1) w}"
    | _, _, _ => "bad-op"
  | ["cb.reconstruct", prefilled, shortIds, pool] =>
    -- prefilled: positions; shortIds: numbers; pool: `sid:wtxidTag` pairs (tag = a number naming the tx)
    match natList? prefilled, natList? shortIds with
    | some pre, some sids =>
      let pool? := (splitComma pool).mapM fun s =>
        match s.splitOn ":" with
        | [a, b] => do let x ← a.toNat?; let y ← b.toNat?; pure (x, y)
        | _ => none
      match pool? with
      | some pool =>
        match CompactBlocks.reconstruct pre sids pool with
        | .ok slots => "ok " ++ joinComma (slots.map fun
            | .prefilled => "P" | .missing => "-" | .pool t => toString t)
        | .error e => s!"err {e.name}"
      | none => "bad-op"
    | _, _ => "bad-op"
  | ["cb.fill", part, supplied] =>
    -- PartialBlock.fill: `part` = wtxid tags or `-` for None
    let part? := (splitComma part).mapM fun t => if t == "-" then some none else t.toNat?.map some
    match part?, natList? supplied with
    | some p, some sup =>
      match CompactBlocks.fillP p sup with
      | .ok l => "ok " ++ joinComma (l.map toString)
      | .error _ => "err count"
    | _, _ => "bad-op"
  | ["cb.roundtrip", prefilled, blk, pool, table] =>
    -- announce `blk` (wtxid tags) with `prefilled` positions under the short-id table `tag:sid,…`, reconstruct
    -- against `pool`, ask for the missing indexes, fill with the block's own transactions
    let table? := (splitComma table).mapM fun s =>
      match s.splitOn ":" with
      | [a, b] => do let x ← a.toNat?; let y ← b.toNat?; pure (x, y)
      | _ => none
    match natList? prefilled, natList? blk, natList? pool, table? with
    | some pre, some blk, some pool, some table =>
      match CompactBlocks.roundTrip (fun w => (table.lookup w).getD 0) blk pre pool with
      | .ok (missing, b) => s!"ok {joinComma (missing.map toString)} {joinComma (b.map toString)}"
      | .error (.reconstruct e) => s!"err {e.name}"
      | .error .fill => "err count"
    | _, _, _, _ => "bad-op"
  | ["cb.key", header, nonce] =>
    -- `CmpctBlock.short_id_key`: sha256(header ‖ nonce LE64), first two LE 64-bit words
    match fromHex? header, nonce.toNat? with
    | some hdr, some n =>
      let d := sha256 (hdr ++ leBytes 8 n)
      s!"ok {ofLE (d.take 8)} {ofLE ((d.drop 8).take 8)}"
    | _, _ => "bad-op"
  -- ---------------------------------------------------------------- block-level commitments, chain work
  | ["blk.root", hf, headerRoot, txids] =>
    match hashOf hf, fromHex? headerRoot, hexList? txids with
    | some H, some hr, some ids =>
      match Block.assertMerkleRoot (fun a b => H (a ++ b)) hr ids with
      | .ok () => "ok"
      | .error e => s!"err {e.name}"
    | _, _, _ => "bad-op"
  | ["blk.wc", hf, isSegwit, outs, witness, wtxids] =>
    match hashOf hf, hexList? outs, hexList? witness, hexList? wtxids with
    | some H, some os, some ws, some ids =>
      match Block.assertWitnessCommitment H (isSegwit == "True") os ws ids with
      | .ok () => "ok"
      | .error e => s!"err {e.name}"
    | _, _, _, _ => "bad-op"
  | ["pow.valid", bits, limit, hash] =>
    -- BlockHeader.assert_valid_pow(pow_limit_bits) for a header with these bits and this hash
    match fromHex? bits, fromHex? limit, fromHex? hash with
    | some b, some l, some h =>
      match Block.assertValidPow b l h with
      | .ok () => "ok"
      | .error e => s!"err {e.name}"
    | _, _, _ => "bad-op"
  | ["pow.chainwork", bs] =>
    match hexList? bs with
    | some bs => Gen.render (Block.chainWork bs)
    | none => "bad-op"
  | _ => "bad-op"

def main : IO Unit := runLoop handle
