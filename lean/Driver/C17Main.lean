import Model.Common.Proto
import Generated.All
open Btc

/-- line protocol of property C17: see harness/c17.py -/
def handle : List String → String
  | "gen" :: ns :: fn :: args => (Gen.dispatchAll ns fn args).getD "bad-op"
  | _ => "bad-op"

def main : IO Unit := runLoop handle
