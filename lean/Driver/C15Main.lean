import Model.Common.Proto
import Model.Common.Sha256
import Model.Common.Ripemd160
import Model.C15.Wire
import Model.C15.Text
import Model.C15.Eval
import Model.C15.Bounds
import Model.C15.Satisfy
import Model.C15.Decode
import Generated.Miniscript
open Btc Btc.Miniscript Btc.Miniscript.Wire

/-- line protocol of property C15: see harness/c15.py -/
def withMs (ctx : String) (toks : List String) (k : Ctx → Ms → String) : String :=
  match ctxOf? ctx, readMs toks with
  | some c, some (n, []) => k c n
  | _, _ => "bad-op"

def handleSat (flags : Bool) : List String → String
  | ctx :: sigs :: pre :: lt :: sq :: ver :: toks =>
    -- sigs `key:sig,…|-`; pre `kind:digest:preimage,…|-`; then nLockTime, nSequence, version
    let pres : Option (List (HashKind × Bytes × Bytes)) :=
      if pre == "-" then some [] else (pre.splitOn ",").mapM fun e =>
        match e.splitOn ":" with
        | [k, d, p] => do pure ((← hashOf? k), (← fromHex? d), (← fromHex? p))
        | _ => none
    match readTable sigs, pres, lt.toNat?, sq.toNat?, ver.toNat? with
    | some sg, some ps, some l, some q, some v => withMs ctx toks fun c n =>
      match satisfy c ⟨sg, ps, l, q, v⟩ n with
      | .ok w => (if flags then (if (inputs c ⟨sg, ps, l, q, v⟩ n).sat.nonCanonical then "noncanonical " else "canonical ") else "ok ") ++
          (if w.isEmpty then "-" else ",".intercalate (w.map toHex))
      | .error .none => "err none"
      | .error .malleable => "err malleable"
    | _, _, _, _, _ => "bad-op"
  | _ => "bad-op"

def handle : List String → String
  | "gen" :: "Miniscript" :: fn :: args => (Gen.Miniscript.dispatch fn args).getD "bad-op"
  | "type" :: ctx :: toks => withMs ctx toks fun c n => s!"ok {(typeOf c n).render}"
  | "size" :: ctx :: toks => withMs ctx toks fun c n => s!"ok {scriptSize c n}"
  | "shape" :: ctx :: toks => withMs ctx toks fun c n => if shaped c n then "ok" else "err value"
  | "valid" :: ctx :: toks => withMs ctx toks fun c n => s!"ok {if isValid c n then "True" else "False"}"
  | "script" :: ctx :: tbl :: toks =>
    match readTable tbl with
    | none => "bad-op"
    | some t => withMs ctx toks fun c n =>
      match script c (lookup t) n with
      | some b => s!"ok {toHex b}"
      | none => "err value"
  | "str" :: ctx :: toks => withMs ctx toks fun _ n => s!"ok {String.ofList (toText n)}"
  | ["parse", ctx, hex] =>
    match ctxOf? ctx, fromHex? hex with
    | some c, some b =>
      match parse c (b.map fun x => Char.ofNat x.toNat) with
      | some n => "ok " ++ " ".intercalate (render n)
      | none => "err value"
    | _, _ => "bad-op"
  | "bounds" :: ctx :: toks => withMs ctx toks fun c n =>
    let b (x : Bool) := if x then "True" else "False"
    s!"ok ops={renderOB (maxOps c n)} stack={renderOI (maxStackItems c n)} exec={renderOI (maxExecStackItems c n)} wit={renderOB (maxWitnessSize c n)} limits={b (withinLimits c n)} sane={b (isSane c n)} dup={b (hasDup (keysOf n))}"
  | ["decode", ctx, tbl, hex] =>
    -- tbl: `hash160:key,…|-` (what `from_script` is handed to read a pk_h back)
    match ctxOf? ctx, readTable tbl, fromHex? hex with
    | some c, some t, some b =>
      match Decode.fromScript c (fun h => (t.find? (·.1 == h)).map (·.2)) b with
      | some n => "ok " ++ " ".intercalate (render n)
      | none => "err value"
    | _, _, _ => "bad-op"
  | "rents" :: ctx :: tbl :: toks =>
    -- the entry list the read-back theorem starts the decoder on (`Decode.rents`), for an expression
    -- of its fragment set: `op:data,…` last op code first; `-` when the expression is outside the set
    match readTable tbl with
    | none => "bad-op"
    | some t => withMs ctx toks fun _ n =>
      if Decode.rd .seq n then
        "ok " ++ ",".intercalate ((Decode.rents (lookup t) n).map fun e => toHex [e.1] ++ ":" ++ toHex e.2)
      else "ok -"
  | "satflags" :: rest => handleSat true rest
  | "sat" :: rest => handleSat false rest
  | "exec" :: ctx :: sigs :: wit :: lt :: sq :: ver :: toks =>
    -- sigs: `key:sig,…` (the signatures that verify for the spend); wit: the witness stack, bottom first;
    -- nLockTime, nSequence and version are for the implementation side (no lock time in the covered set)
    match readTable sigs, (if wit == "-" then some [] else (wit.splitOn ",").mapM fromHex?) with
    | some sg, some w => withMs ctx toks fun c n =>
      let sigOK : Key → Bytes → Bool := fun k σ => !σ.isEmpty && sg.any fun p => p.1 == k && p.2 == σ
      let hashF : HashKind → Bytes → Bytes := fun h b => match h with
        | .sha256 => Btc.sha256 b | .hash256 => Btc.hash256 b | .ripemd160 => Btc.ripemd160 b
        | .hash160 => Btc.hash160 b
      -- BIP112 / BIP65 on the number read from the stack (at most five bytes), against the spend's own
      -- nSequence / nLockTime / version: the satisfier model's `olderMet` / `afterMet`
      let env : SatEnv := ⟨[], [], lt.toNat?.getD 0, sq.toNat?.getD 0, ver.toNat?.getD 2⟩
      let numOf : Bytes → Option Nat := fun v =>
        if v.length > 5 then none else
          let i := Btc.Script.decodeNum v
          if i < 0 then none else some i.toNat
      let csv : Bytes → Bool := fun v => match numOf v with
        | some k => if Nat.land k (2 ^ 31) != 0 then true else olderMet env k
        | none => false
      let cltv : Bytes → Bool := fun v => match numOf v with
        | some k => afterMet env k
        | none => false
      let E : EvalEnv := ⟨sigOK, hashF, csv, cltv⟩
      if accepts E c (opsOf c Btc.hash160 false n) w.reverse then "accept" else "reject"
    | _, _ => "bad-op"
  | "pushnum" :: [n] =>
    match n.toNat? with
    | some n => s!"ok {toHex (pushNum n)}"
    | none => "bad-op"
  | _ => "bad-op"

def main : IO Unit := runLoop handle
