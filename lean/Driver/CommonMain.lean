import Model.Common.Proto
open Btc

/-- line protocol for the shared primitives (hashes, EC arithmetic): see harness/shared.py -/
def handle : List String → String
  | _ => "bad-op"

def main : IO Unit := runLoop handle
